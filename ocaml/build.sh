#!/bin/bash
# builds ocaml/modelrun from the extracted model.ml (written by coq/Extract.v)
set -e
cd "$(dirname "$0")"
ocamlfind ocamlopt -O3 -w -a -package str model.mli model.ml modelrun.ml -o modelrun 2>/dev/null || \
ocamlfind ocamlopt -w -a model.mli model.ml modelrun.ml -o modelrun
