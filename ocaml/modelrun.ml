(* Generic line-oriented driver over the extracted models.
   input line :  <component:int> <sexp>      sexp ::= int | ( sexp* )
   ints are hexadecimal with optional leading '-'.  One result sexp per line. *)
open Model

let rec pos_of_hex_bits (bits : bool list) : positive =
  (* bits: most significant first, first is true *)
  match bits with
  | [] -> XH
  | _ -> List.fold_left (fun acc b -> if b then XI acc else XO acc) XH (List.tl bits)

let bits_of_hex (s : string) : bool list =
  let l = ref [] in
  String.iter (fun c ->
    let d = if c >= '0' && c <= '9' then Char.code c - 48
            else if c >= 'a' && c <= 'f' then Char.code c - 87
            else failwith "bad hex" in
    l := (d land 1 <> 0) :: (d land 2 <> 0) :: (d land 4 <> 0) :: (d land 8 <> 0) :: !l) s;
  (* !l is least significant first *)
  let msb_first = List.rev !l in
  let rec strip = function false :: r -> strip r | x -> x in
  strip msb_first

let z_of_string (s : string) : z =
  let neg = String.length s > 0 && s.[0] = '-' in
  let body = if neg then String.sub s 1 (String.length s - 1) else s in
  match bits_of_hex body with
  | [] -> Z0
  | bits -> let p = pos_of_hex_bits bits in if neg then Zneg p else Zpos p

let hex_of_pos (p : positive) : string =
  (* collect bits least significant first *)
  let rec go p acc = match p with
    | XH -> true :: acc
    | XO q -> go q (false :: acc)
    | XI q -> go q (true :: acc) in
  let msb_first = go p [] in
  let n = List.length msb_first in
  let pad = (4 - n mod 4) mod 4 in
  let bits = Array.of_list (List.init pad (fun _ -> false) @ msb_first) in
  let b = Buffer.create 16 in
  let i = ref 0 in
  while !i < Array.length bits do
    let d = (if bits.(!i) then 8 else 0) + (if bits.(!i+1) then 4 else 0)
          + (if bits.(!i+2) then 2 else 0) + (if bits.(!i+3) then 1 else 0) in
    Buffer.add_char b "0123456789abcdef".[d];
    i := !i + 4
  done;
  Buffer.contents b

let string_of_z = function
  | Z0 -> "0"
  | Zpos p -> hex_of_pos p
  | Zneg p -> "-" ^ hex_of_pos p

let parse_sexp (s : string) (start : int) : val0 * int =
  let n = String.length s in
  let rec skip i = if i < n && (s.[i] = ' ' || s.[i] = '\t') then skip (i+1) else i in
  let rec item i =
    let i = skip i in
    if i >= n then failwith "eof"
    else if s.[i] = '(' then begin
      let rec items i acc =
        let i = skip i in
        if i >= n then failwith "eof in list"
        else if s.[i] = ')' then (VL (List.rev acc), i+1)
        else let (v, j) = item i in items j (v :: acc) in
      items (i+1) []
    end else begin
      let j = ref i in
      while !j < n && s.[!j] <> ' ' && s.[!j] <> ')' && s.[!j] <> '(' do incr j done;
      (VI (z_of_string (String.sub s i (!j - i))), !j)
    end in
  item start

let rec print_val b = function
  | VI z -> Buffer.add_string b (string_of_z z)
  | VL l ->
    Buffer.add_char b '(';
    List.iteri (fun i v -> if i > 0 then Buffer.add_char b ' '; print_val b v) l;
    Buffer.add_char b ')'

let () =
  let out = Buffer.create 65536 in
  (try
    while true do
      let line = input_line stdin in
      if String.length line > 0 then begin
        let sp = String.index line ' ' in
        let comp = z_of_string (String.sub line 0 sp) in
        let (v, _) = parse_sexp line (sp+1) in
        let r = dispatch comp v in
        print_val out r; Buffer.add_char out '\n';
        if Buffer.length out > 60000 then begin
          print_string (Buffer.contents out); Buffer.clear out end
      end
    done
  with End_of_file -> ());
  print_string (Buffer.contents out)
