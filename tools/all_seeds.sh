#!/bin/bash
# tools/all_seeds.sh [tier]  -  apply every kept seeded change to /repo in turn, run the quick check of its
# property, revert; prints one line per seed:  <seed> applies=<y/n> exit=<rc> (1 = caught)
cd /verif
T=${1:-quick}
for d in seeded/*/; do
  n=$(basename $d); P=${n%%-*}
  if ! git -C /repo apply --check /verif/$d/patch.diff 2>/dev/null; then echo "$n applies=n (tree has moved on: see DESIGN 10.6)"; continue; fi
  out=$(tools/try_seed.sh $P /verif/$d $T 2>&1 | tail -1)
  echo "$n applies=y $out"
done
