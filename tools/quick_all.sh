#!/bin/bash
# every quick check on the unchanged tree (writes the evidence files)
cd /verif
for p in $(python3 -c "import json; print(' '.join(c['property_id'] for c in json.load(open('MANIFEST.json'))['checks']))"); do
  ./check $p --tier quick 2>&1 | grep -aE "tier=quick|VIOLATION" | cut -c1-160
done
