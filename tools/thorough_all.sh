#!/bin/bash
# every check in its thorough tier, one after the other (the quick evidence files are restored afterwards)
cd /verif
for p in $(python3 -c "import json; print(' '.join(c['property_id'] for c in json.load(open('MANIFEST.json'))['checks']))"); do
  cp evidence/$p.json .work/evidence-$p.keep 2>/dev/null
  out=$(timeout 7000 ./check $p --tier thorough 2>&1 | grep -aE "tier=thorough|VIOLATION" | cut -c1-160 | tr '\n' ' ')
  cp evidence/$p.json .work/evidence-$p.thorough.json 2>/dev/null
  cp .work/evidence-$p.keep evidence/$p.json 2>/dev/null
  echo "$out"
done
