#!/bin/bash
# tools/confirm_seed.sh <Cxx> <seed-dir> <name>
# confirm in a scratch worktree: baseline tests pass with the patch, demo fails with / passes without;
# then store under /verif/seeded/<name>/ and record what was run.
set -u
P=$1; D=$2; NAME=$3
WT=/tmp/confirm-$NAME
git -C /repo worktree add --detach $WT HEAD -f >/dev/null 2>&1 || exit 2
cd $WT
export PYTHONPATH=$WT:/tmp/shims PYTHONHASHSEED=0 PYTHONDONTWRITEBYTECODE=1
/venv/bin/python $D/demo.py > /tmp/confirm-$NAME.clean.out 2>&1; clean=$?
git apply $D/patch.diff || { echo "no apply"; git -C /repo worktree remove --force $WT; exit 2; }
/venv/bin/python $D/demo.py > /tmp/confirm-$NAME.mut.out 2>&1; mut=$?
tests=$(env -u PYTHONPATH /venv/bin/python -m pytest -q -p no:cacheprovider --timeout=900 --continue-on-collection-errors 2>&1 | tail -1)
cd /verif
git -C /repo worktree remove --force $WT
echo "$NAME: demo clean=$clean mutated=$mut tests: $tests"
if [ $clean -eq 0 ] && [ $mut -ne 0 ] && echo "$tests" | grep -q "87 passed"; then
  mkdir -p /verif/seeded/$NAME
  cp $D/patch.diff $D/demo.py /verif/seeded/$NAME/
  /venv/bin/python - "$D/meta.json" "/verif/seeded/$NAME/meta.json" "$P" "$clean" "$mut" "$tests" <<'PY'
import json, sys
src, dst, p, clean, mut, tests = sys.argv[1:7]
try:
    m = json.load(open(src))
except Exception:
    m = {}
out = {'property': p, 'summary': m.get('summary', ''), 'needs': m.get('needs', ''),
       'confirmed': {'demo_exit_unchanged_tree': int(clean), 'demo_exit_with_patch': int(mut),
                     'baseline_suite_with_patch': tests,
                     'how': 'scratch worktree of /repo HEAD under /tmp; PYTHONPATH=<worktree>:/tmp/shims /venv/bin/python demo.py; pytest -q --continue-on-collection-errors'},
       'author_ran': m.get('ran', [])}
json.dump(out, open(dst, 'w'), indent=1)
PY
  echo "stored /verif/seeded/$NAME"
else
  echo "NOT confirmed"
fi
