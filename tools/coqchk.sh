#!/bin/bash
# independent re-check of every compiled property file (and everything it depends on) with coqchk; prints the context summary.
# The .vo files are rebuilt first (a check that ran against a modified /repo may have left generated tables behind).
cd /verif && python3 -c "
import sys; sys.path.insert(0, '/verif')
from harness.translators import generate_all
generate_all()" >/dev/null 2>&1
cd /verif/coq && timeout 1800 make -j8 >/dev/null 2>&1 || { echo "coqchk.sh: the build failed"; exit 1; }
out=$(timeout 3000 coqchk -silent -Q . Verif -o $(ls Props/*.v | sed 's|Props/\(.*\)\.v|Verif.Props.\1|') 2>&1)
echo "$out" | grep -a "Fatal\|Error" && exit 1
echo "$out" | sed -n '/CONTEXT SUMMARY/,$p'
