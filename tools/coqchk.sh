#!/bin/bash
# independent re-check of every compiled property file (and everything it depends on) with coqchk; prints the context summary
cd /verif/coq && timeout 3000 coqchk -Q . Verif -o $(ls Props/*.v | sed 's|Props/\(.*\)\.v|Verif.Props.\1|') 2>&1 | sed -n '/CONTEXT SUMMARY/,$p'
