#!/bin/bash
# tools/seeds_sweep.sh <seed>...  -  every quick check with other PRNG seeds on the unchanged tree (flakiness = false alarms)
cd /verif
for s in "$@"; do
  for p in $(python3 -c "import json; print(' '.join(c['property_id'] for c in json.load(open('MANIFEST.json'))['checks']))"); do
    cp evidence/$p.json .work/evidence-$p.keep 2>/dev/null
    out=$(./check $p --tier quick --seed $s 2>&1 | grep -E "tier=quick" | cut -c1-140)
    cp .work/evidence-$p.keep evidence/$p.json 2>/dev/null
    echo "seed=$s $out"
  done
done
