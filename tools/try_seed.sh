#!/bin/bash
# tools/try_seed.sh <Cxx> <seed-dir> [tier]   apply seed-dir/patch.diff to /repo, run the check, undo
set -u
P=$1; D=$2; T=${3:-quick}
cd /verif
if ! git -C /repo diff --quiet; then echo "/repo is dirty"; exit 2; fi
cp evidence/$P.json .work/evidence-$P.keep 2>/dev/null
git -C /repo apply "$D/patch.diff" || { echo "patch does not apply"; exit 2; }
./check $P --tier $T > .work/seed-$P.out 2>&1; rc=$?
git -C /repo checkout -- .
cp .work/evidence-$P.keep evidence/$P.json 2>/dev/null
grep -E "VIOLATION|KNOWN|tier=" .work/seed-$P.out | cut -c1-300
echo "exit=$rc"
