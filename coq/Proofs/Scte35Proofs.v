(* C14 - SCTE-35: parse (encode s) = s with a valid CRC *)
From Verif Require Import Base.Tactics Base.ZList Base.Bits Model.CrcModel Model.EventsModel Model.Scte35Model Proofs.CrcProofs.

Lemma b2z_range b : 0 <= b2z b < 2.
Proof. destruct b; cbn; lia. Qed.

(* side condition of rd_put: compute the power, then arithmetic *)
Ltac pow_side n :=
  let c := eval vm_compute in (2 ^ Z.of_nat n) in
  change (2 ^ Z.of_nat n) with c;
  first [ lia | apply b2z_range | (pose proof b2z_range; lia) ].
Ltac rdp :=
  match goal with
  | |- context [rd ?n (put_uint ?n ?v ++ ?r)] => rewrite (rd_put n v r) by pow_side n
  end.

Lemma rdb_putb b rest : rdb (putb b ++ rest) = Some (b, rest).
Proof.
  unfold rdb, putb, bind, ret. rewrite rd_put by (pow_side 1%nat). destruct b; reflexivity.
Qed.
Lemma rdb_put0 rest : rdb (put_uint 1 0 ++ rest) = Some (false, rest).
Proof. exact (rdb_putb false rest). Qed.
Lemma rdb_put1 rest : rdb (put_uint 1 1 ++ rest) = Some (true, rest).
Proof. exact (rdb_putb true rest). Qed.

Ltac rdb_step :=
  first [ rewrite rdb_putb | rewrite rdb_put0 | rewrite rdb_put1 ].
Ltac norm := repeat rewrite <- app_assoc; cbn [app].
Ltac simp := cbn [negb orb andb Z.eqb Pos.eqb]; cbn beta iota.
Ltac run := simp; repeat (first [ rdp | rdb_step ]; simp).

(* ------------------------------------------------------------ well-formed values *)
Definition wf_time (o : option Z) : Prop := match o with Some p => 0 <= p < 8589934592 | None => True end.
Definition wf_break (b : break_dur) : Prop := 0 <= bd_dur b < 8589934592.
Definition wf_insert (i : insert) : Prop :=
  0 <= si_id i < 4294967296 /\ wf_time (si_pts i) /\
  match si_break i with Some b => wf_break b | None => True end /\
  0 <= si_program_id i < 65536 /\ 0 <= si_avail_num i < 256 /\ 0 <= si_avails_expected i < 256.
Definition wf_cmd (c : command) : Prop :=
  match c with CNull => True | CInsert i => wf_insert i | CTime p => wf_time p end.
Definition bytes_ok (l : list Z) : Prop := Forall (fun x => 0 <= x < 256) l.
Definition wf_segd (s : segd) : Prop :=
  0 <= sd_event_id s < 4294967296 /\
  match sd_duration s with Some d => 0 <= d < 1099511627776 | None => True end /\
  (if sd_dnr s then sd_web s = true /\ sd_noreg s = true /\ sd_archive s = true /\ sd_device s = 3
   else 0 <= sd_device s < 4) /\
  (match sd_upid s with [] => sd_upid_type s = 15 | _ => 0 <= sd_upid_type s < 256 end) /\
  bytes_ok (sd_upid s) /\ zlen (sd_upid s) < 200 /\
  0 <= sd_type s < 256 /\ 0 <= sd_num s < 256 /\ 0 <= sd_expected s < 256 /\
  (if sub_types (sd_type s) then 0 <= sd_sub_num s < 256 /\ 0 <= sd_sub_expected s < 256
   else sd_sub_num s = 0 /\ sd_sub_expected s = 0).
Definition wf_desc (d : desc) : Prop :=
  0 <= desc_ident d < 4294967296 /\
  match d with
  | DAvail _ id => 0 <= id < 4294967296
  | DSeg _ s => wf_segd s
  | DTime _ a b c => 0 <= a < 281474976710656 /\ 0 <= b < 4294967296 /\ 0 <= c < 65536
  | DUnknown t _ data => 5 <= t < 256 /\ bytes_ok data /\ zlen data < 200
  end.

(* ------------------------------------------------------------ leaf structures *)
Lemma dec_time_enc o rest : wf_time o -> dec_time (enc_time o ++ rest) = Some (o, rest).
Proof.
  intros H. unfold dec_time, enc_time, bind, ret. destruct o as [p|]; cbn [wf_time] in H; norm; run; reflexivity.
Qed.

Lemma dec_break_enc b rest : wf_break b -> dec_break (enc_break b ++ rest) = Some (b, rest).
Proof.
  intros H. unfold wf_break in H. unfold dec_break, enc_break, bind, ret. norm. run. destruct b; reflexivity.
Qed.

Lemma dec_insert_enc i rest : wf_insert i -> dec_insert (enc_insert i ++ rest) = Some (Some i, rest).
Proof.
  intros (H1 & H2 & H3 & H4 & H5 & H6). unfold dec_insert, enc_insert. unfold bind at 1 2 3. norm. run.
  unfold bind at 1 2 3 4 5. run. unfold bind at 1.
  rewrite dec_time_enc by exact H2.
  destruct (si_break i) as [b|] eqn:Eb.
  - unfold bind at 1 2. norm. rewrite dec_break_enc by exact H3. unfold ret at 1.
    unfold bind, ret. run. destruct i; cbn in *; subst; reflexivity.
  - unfold bind, ret. cbn [app]. run. destruct i; cbn in *; subst; reflexivity.
Qed.

Lemma dec_cmd_enc c rest : wf_cmd c ->
  (if cmd_type c =? 0 then ret (Some CNull)
   else if cmd_type c =? 5 then (i <- dec_insert ;; ret (match i with Some i => Some (CInsert i) | None => None end))
   else if cmd_type c =? 6 then (t <- dec_time ;; ret (Some (CTime t)))
   else if cmd_type c =? 7 then ret (Some CNull)
   else ret None) (enc_cmd c ++ rest) = Some (Some c, rest).
Proof.
  intros H. destruct c as [|i|p]; cbn [cmd_type enc_cmd wf_cmd] in *; cbn [Z.eqb Pos.eqb].
  - reflexivity.
  - unfold bind, ret. rewrite dec_insert_enc by exact H. reflexivity.
  - unfold bind, ret. rewrite dec_time_enc by exact H. reflexivity.
Qed.

Lemma zlen_to_nat {A} (l : list A) : Z.to_nat (zlen l) = length l.
Proof. unfold zlen. lia. Qed.

Lemma dec_segd_enc s rest : wf_segd s -> dec_segd (enc_segd s ++ rest) = Some (Some s, rest).
Proof.
  intros (H1 & H2 & H3 & H4 & H5 & H6 & H7 & H8 & H9 & H10).
  unfold dec_segd, enc_segd.
  set (ut := match sd_upid s with [] => 15 | _ :: _ => sd_upid_type s end).
  assert (Hut : 0 <= ut < 256) by (subst ut; destruct (sd_upid s); lia).
  assert (Hute : ut = sd_upid_type s) by (subst ut; destruct (sd_upid s); [symmetry; exact H4|reflexivity]).
  clearbody ut.
  assert (Hl : 0 <= zlen (sd_upid s)) by apply zlen_nonneg.
  unfold bind at 1 2 3. norm. run. unfold bind at 1 2 3. run.
  unfold bind at 1.
  (* the common tail, from the upid fields on *)
  assert (Tail : forall (dur : option Z) dnr w n a dv,
    dur = sd_duration s -> dnr = sd_dnr s -> w = sd_web s -> n = sd_noreg s -> a = sd_archive s -> dv = sd_device s ->
    (ut0 <- rd 8 ;; ul <- rd 8 ;; up <- rd_bytes (Z.to_nat ul) ;;
     ty <- rd 8 ;; num <- rd 8 ;; ex <- rd 8 ;;
     sub <- (if sub_types ty then (a <- rd 8 ;; b <- rd 8 ;; ret (a, b)) else ret (0, 0)) ;;
     ret (Some {| sd_event_id := sd_event_id s; sd_duration := dur; sd_dnr := dnr; sd_web := w; sd_noreg := n;
                  sd_archive := a; sd_device := dv; sd_upid_type := ut0; sd_upid := up; sd_type := ty;
                  sd_num := num; sd_expected := ex; sd_sub_num := fst sub; sd_sub_expected := snd sub |}))
      (put_uint 8 ut ++ put_uint 8 (zlen (sd_upid s)) ++ byte_bits (sd_upid s) ++
       put_uint 8 (sd_type s) ++ put_uint 8 (sd_num s) ++ put_uint 8 (sd_expected s) ++
       (if sub_types (sd_type s) then put_uint 8 (sd_sub_num s) ++ put_uint 8 (sd_sub_expected s) else []) ++ rest)
    = Some (Some s, rest)).
  { intros dur dnr w n a dv -> -> -> -> -> ->.
    unfold bind at 1 2 3. run. rewrite zlen_to_nat. rewrite rd_bytes_put by exact H5.
    unfold bind at 1 2 3. run.
    destruct (sub_types (sd_type s)) eqn:Esub; destruct H10 as (Hs1 & Hs2).
    - unfold bind, ret. norm. run. cbn [fst snd]. rewrite Hute. destruct s; reflexivity.
    - unfold bind, ret. cbn [app fst snd]. rewrite Hute. destruct s; cbn in *; subst; reflexivity. }
  destruct (sd_dnr s) eqn:Ednr.
  - destruct H3 as (Hw & Hn & Ha & Hd). unfold bind at 1, ret at 1. norm. run.
    destruct (sd_duration s) as [d|] eqn:Edur.
    + unfold bind at 1 2, ret at 1. norm. run. apply Tail; congruence.
    + unfold bind at 1, ret at 1. cbn [app]. apply Tail; congruence.
  - unfold bind at 1 2 3 4, ret at 1. norm. run.
    destruct (sd_duration s) as [d|] eqn:Edur.
    + unfold bind at 1 2, ret at 1. norm. run. apply Tail; congruence.
    + unfold bind at 1, ret at 1. cbn [app]. apply Tail; congruence.
Qed.

(* ------------------------------------------------------------ lengths *)
Lemma zbits_app (a b : bits) : zbits (a ++ b) = zbits a + zbits b.
Proof. unfold zbits. rewrite app_length. lia. Qed.
Lemma zbits_put n v : zbits (put_uint n v) = Z.of_nat n.
Proof. unfold zbits. rewrite put_uint_length. reflexivity. Qed.
Lemma zbits_putb b : zbits (putb b) = 1.
Proof. unfold putb. rewrite zbits_put. reflexivity. Qed.
Lemma zbits_bytes l : zbits (byte_bits l) = 8 * zlen l.
Proof. unfold zbits, zlen. rewrite byte_bits_length. lia. Qed.
Lemma zbits_nil : zbits [] = 0.
Proof. reflexivity. Qed.
Ltac zb := repeat (rewrite ?zbits_app, ?zbits_put, ?zbits_putb, ?zbits_bytes, ?zbits_nil).

Lemma enc_time_bits o : exists k, zbits (enc_time o) = 8 * k /\ 1 <= k <= 5.
Proof. destruct o; unfold enc_time; zb; [exists 5|exists 1]; lia. Qed.
Lemma enc_break_bits b : zbits (enc_break b) = 40.
Proof. unfold enc_break. zb. lia. Qed.
Lemma enc_insert_bits i : exists k, zbits (enc_insert i) = 8 * k /\ 0 <= k <= 20.
Proof.
  unfold enc_insert. destruct (enc_time_bits (si_pts i)) as (k & Hk & Hr). zb. rewrite Hk.
  destruct (si_break i); zb; rewrite ?enc_break_bits; [exists (10 + k + 5)|exists (10 + k)]; lia.
Qed.
Lemma enc_cmd_bits c : exists k, zbits (enc_cmd c) = 8 * k /\ 0 <= k <= 20.
Proof.
  destruct c as [|i|p]; cbn [enc_cmd].
  - exists 0. cbn. lia.
  - apply enc_insert_bits.
  - destruct (enc_time_bits p) as (k & Hk & Hr). exists k. lia.
Qed.
Lemma enc_segd_bits s : exists k, zbits (enc_segd s) = 8 * k /\ 11 <= k <= 18 + zlen (sd_upid s).
Proof.
  pose proof (zlen_nonneg (sd_upid s)). unfold enc_segd. zb.
  destruct (sd_dnr s); destruct (sd_duration s); destruct (sub_types (sd_type s)); zb;
    match goal with |- exists k, ?e = 8 * k /\ _ => exists (e / 8) end; lia.
Qed.

(* ------------------------------------------------------------ descriptors *)
Lemma desc_fields_bits d : wf_desc d ->
  exists k, zbits (enc_desc_fields d) = 8 * k /\ 0 <= k < 220.
Proof.
  intros (_ & H). destruct d as [i id|i s|i a b c|t i data]; cbn [enc_desc_fields].
  - zb. exists 4. lia.
  - destruct H as (_ & _ & _ & _ & _ & Hu & _). destruct (enc_segd_bits s) as (k & Hk & Hr).
    exists k. pose proof (zlen_nonneg (sd_upid s)). lia.
  - zb. exists 12. lia.
  - destruct H as (_ & _ & Hl). zb. exists (zlen data). pose proof (zlen_nonneg data). lia.
Qed.

Lemma enc_desc_bits d : wf_desc d -> exists k, zbits (enc_desc d) = 8 * k /\ 6 <= k < 230.
Proof.
  intros H. destruct (desc_fields_bits d H) as (k & Hk & Hr). unfold enc_desc. zb. rewrite Hk.
  exists (6 + k). lia.
Qed.

Lemma dec_desc_enc d rest : wf_desc d -> dec_desc (enc_desc d ++ rest) = Some (Some d, rest).
Proof.
  intros H. pose proof H as (Hi & Hd). destruct (desc_fields_bits d H) as (k & Hk & Hr).
  unfold dec_desc, enc_desc.
  assert (Hlen : zbits (put_uint 32 (desc_ident d) ++ enc_desc_fields d) / 8 = 4 + k) by (zb; rewrite Hk; lia).
  rewrite Hlen. unfold bind at 1 2 3. norm.
  destruct d as [i id|i s|i a b c|t i data]; cbn [desc_tag desc_ident enc_desc_fields wf_desc] in *.
  - run. unfold bind, ret. run. reflexivity.
  - run. unfold bind, ret. rewrite dec_segd_enc by exact Hd. reflexivity.
  - destruct Hd as (Ha & Hb & Hc). run. unfold bind, ret. norm. run. reflexivity.
  - destruct Hd as (Ht & Hb & Hl). run.
    assert (E0 : (t =? 0) = false) by lia. assert (E2 : (t =? 2) = false) by lia.
    assert (E3 : (t =? 3) = false) by lia. assert (E1 : (t =? 1) = false) by lia. assert (E4 : (t =? 4) = false) by lia.
    rewrite E0, E2, E3, E1, E4. cbn [orb]. unfold bind, ret.
    assert (Hk' : k = zlen data) by (rewrite zbits_bytes in Hk; lia).
    replace (Z.to_nat (4 + k - 4)) with (length data) by (rewrite Hk'; unfold zlen; lia).
    rewrite rd_bytes_put by exact Hb. reflexivity.
Qed.

Lemma enc_descs_bits l : Forall wf_desc l -> exists k, zbits (enc_descs l) = 8 * k /\ 0 <= k /\ 6 * zlen l <= k <= 230 * zlen l.
Proof.
  induction 1 as [|d l Hd _ IH]; [exists 0; cbn; lia|].
  destruct IH as (k & Hk & Hr). destruct (enc_desc_bits d Hd) as (j & Hj & Hjr).
  unfold enc_descs in *. cbn [flat_map]. rewrite zbits_app, Hj, Hk, zlen_cons. exists (j + k). lia.
Qed.

Lemma dec_descs_enc l : Forall wf_desc l -> forall fuel rest, (length l < fuel)%nat ->
  dec_descs fuel (zbits (enc_descs l)) (enc_descs l ++ rest) = Some (Some l, rest).
Proof.
  induction 1 as [|d l Hd Hl IH]; intros fuel rest Hf.
  - destruct fuel; [cbn in Hf; lia|]. reflexivity.
  - destruct fuel as [|f]; [cbn in Hf; lia|]. cbn [dec_descs].
    destruct (enc_desc_bits d Hd) as (j & Hj & Hjr). destruct (enc_descs_bits l Hl) as (k & Hk & Hkr).
    unfold enc_descs in *. cbn [flat_map]. rewrite zbits_app.
    destruct (zbits (enc_desc d) + zbits (flat_map enc_desc l) <=? 0) eqn:E; [lia|].
    rewrite <- app_assoc. rewrite dec_desc_enc by exact Hd.
    replace (zbits (enc_desc d) + zbits (flat_map enc_desc l) -
             (zbits (enc_desc d ++ flat_map enc_desc l ++ rest) - zbits (flat_map enc_desc l ++ rest)))
      with (zbits (flat_map enc_desc l)) by (rewrite !zbits_app; lia).
    rewrite IH by (cbn in Hf; lia). reflexivity.
Qed.

(* ------------------------------------------------------------ the whole section *)
Definition wf_signal (s : signal) : Prop :=
  0 <= sg_table_id s < 256 /\ 0 <= sg_sap s < 4 /\ 0 <= sg_protocol s < 256 /\ 0 <= sg_enc_alg s < 64 /\
  0 <= sg_pts_adj s < 8589934592 /\ 0 <= sg_cw s < 256 /\ 0 <= sg_tier s < 4096 /\
  wf_cmd (sg_cmd s) /\ Forall wf_desc (sg_descs s) /\ zlen (sg_descs s) <= 15.

Lemma pad8_aligned (bs : bits) k : zbits bs = 8 * k -> pad8 bs = bs.
Proof.
  intros H. unfold pad8. unfold zbits in H.
  assert (E : Nat.modulo (length bs) 8 = 0%nat).
  { assert (Hk : 0 <= k) by lia. replace (length bs) with (Z.to_nat k * 8)%nat by lia. apply Nat.mod_mul. lia. }
  rewrite E. cbn. apply app_nil_r.
Qed.

Lemma firstn_app_exact {A} (a b : list A) : firstn (length (a ++ b) - length b) (a ++ b) = a.
Proof.
  rewrite app_length. replace (length a + length b - length b)%nat with (length a) by lia.
  rewrite firstn_app, Nat.sub_diag, firstn_all. cbn. apply app_nil_r.
Qed.

Lemma dec_fields_enc s rest : wf_signal s -> dec_fields (enc_body s ++ rest) = Some (Some s, rest).
Proof.
  intros (Ht & Hs & Hp & Ha & Hj & Hc & Hr & Hcmd & Hds & Hn).
  destruct (enc_cmd_bits (sg_cmd s)) as (kc & Hkc & Hkcr).
  destruct (enc_descs_bits (sg_descs s) Hds) as (kd & Hkd & Hkd0 & Hkdr).
  assert (Hf : zbits (enc_fields s) = 8 * (11 + kc + 2 + kd)) by (unfold enc_fields; cbv zeta; zb; lia).
  unfold dec_fields, enc_body. cbv zeta. rewrite Hf.
  replace (8 * (11 + kc + 2 + kd) / 8) with (13 + kc + kd) by lia.
  unfold enc_fields. cbv zeta. rewrite Hkc, Hkd.
  replace (8 * kc / 8) with kc by lia. replace (8 * kd / 8) with kd by lia.
  assert (Hct : 0 <= cmd_type (sg_cmd s) < 256) by (destruct (sg_cmd s); cbn; lia).
  unfold bind at 1 2 3 4 5. norm. run.
  unfold bind at 1 2 3 4 5 6 7 8. run.
  unfold bind at 1.
  rewrite dec_cmd_enc by exact Hcmd.
  unfold bind at 1 2. run.
  replace (8 * kd) with (zbits (enc_descs (sg_descs s))) by lia.
  rewrite dec_descs_enc; [|exact Hds|unfold zlen in *; lia].
  unfold ret. destruct s; reflexivity.
Qed.

Theorem dec_enc_signal s rest : wf_signal s ->
  dec_signal_p (enc_signal s ++ rest) = Some (Some (s, true), rest).
Proof.
  intros H. pose proof H as (Ht & Hs & Hp & Ha & Hj & Hc & Hr & Hcmd & Hds & Hn).
  destruct (enc_cmd_bits (sg_cmd s)) as (kc & Hkc & Hkcr).
  destruct (enc_descs_bits (sg_descs s) Hds) as (kd & Hkd & Hkd0 & Hkdr).
  assert (Hb : zbits (enc_body s) = 8 * (3 + 11 + kc + 2 + kd))
    by (unfold enc_body, enc_fields; cbv zeta; zb; lia).
  unfold dec_signal_p. set (whole := enc_signal s ++ rest).
  assert (Ew : whole = enc_body s ++ (put_uint 32 (crc32 (pad8 (enc_body s))) ++ rest))
    by (subst whole; unfold enc_signal; cbv zeta; rewrite <- app_assoc; reflexivity).
  rewrite Ew at 1. rewrite dec_fields_enc by exact H.
  assert (Hcrc : 0 <= crc32 (pad8 (enc_body s)) < 2 ^ Z.of_nat 32).
  { unfold crc32. destruct (rd 32 (crc32_bits (pad8 (enc_body s)))) as [[v r]|] eqn:E; [|cbn; lia].
    pose proof (bits_val_bound (crc32_bits (pad8 (enc_body s)))) as Hbv.
    assert (Hl : length (crc32_bits (pad8 (enc_body s))) = 32%nat).
    { unfold crc32_bits. rewrite crc_feed_length; rewrite ?repeat_length; unfold poly32; rewrite ?put_uint_length; reflexivity. }
    pose proof (put_bits_val (crc32_bits (pad8 (enc_body s)))) as Hpv. rewrite Hl in Hpv, Hbv.
    rewrite <- Hpv in E. rewrite <- (app_nil_r (put_uint 32 _)) in E. rewrite rd_put in E by exact Hbv.
    inv E. exact Hbv. }
  rewrite rd_put by exact Hcrc.
  subst whole. rewrite firstn_app_exact.
  unfold enc_signal. cbv zeta. rewrite (pad8_aligned (enc_body s) _ Hb).
  rewrite crc32_check_zero. reflexivity.
Qed.

Theorem roundtrip s : wf_signal s -> dec_signal (enc_signal s) = Some (Some s, true).
Proof.
  intros H. unfold dec_signal. pose proof (dec_enc_signal s [] H) as E. rewrite app_nil_r in E.
  rewrite E. reflexivity.
Qed.

(* the section Scte35Events builds for event k is well-formed, hence decodes to its fields *)
Lemma event_signal_wf s pid k pt :
  0 < e_timescale s -> 0 <= e_count s < 510 -> 0 <= k -> (0 < e_count s -> k < e_count s) -> 0 <= pid < 65536 ->
  0 <= e_duration s * 90000 / e_timescale s < 8589934592 ->
  wf_signal (event_signal s pid k pt).
Proof.
  intros Hts Hc Hk Hkc Hp Hd.
  pose proof (Z.mod_pos_bound (pt * 90000 / e_timescale s) (2 ^ 33) ltac:(lia)) as Hpts.
  change (2 ^ 33) with 8589934592 in Hpts.
  pose proof (Z.mod_pos_bound k 2 ltac:(lia)) as Hm.
  pose proof (Z.mod_pos_bound k (2 ^ 32) ltac:(lia)) as Hid. change (2 ^ 32) with 4294967296 in Hid.
  assert (Han : 0 <= (if 0 <? e_count s then 1 + k / 2 else 0) < 256).
  { destruct (0 <? e_count s) eqn:E; [|lia]. assert (k < e_count s) by (apply Hkc; lia). lia. }
  assert (Hae : 0 <= (if 0 <? e_count s then 1 + e_count s / 2 else 0) < 256) by (destruct (0 <? e_count s); lia).
  unfold wf_signal, event_signal.
  cbn [sg_table_id sg_sap sg_protocol sg_enc_alg sg_pts_adj sg_cw sg_tier sg_cmd sg_descs wf_cmd].
  unfold wf_insert, wf_time, wf_break, scte35_pts, scte35_break, emsg_id_field.
  change (2 ^ 32) with 4294967296.
  cbn [si_id si_pts si_break si_program_id si_avail_num si_avails_expected bd_dur].
  repeat match goal with |- _ /\ _ => split end; try lia.
  - constructor; [|constructor]. unfold wf_desc, wf_segd. cbn [desc_ident].
    cbn [sd_event_id sd_duration sd_dnr sd_web sd_noreg sd_archive sd_device sd_upid sd_upid_type sd_type sd_num sd_expected sd_sub_num sd_sub_expected].
    repeat match goal with |- _ /\ _ => split end; try lia; try reflexivity; try constructor.
    all: try (unfold zlen; cbn [length]; lia).
    all: try (destruct (sub_types _); lia).
  - rewrite zlen_cons, zlen_nil. lia.
Qed.
