From Verif Require Import Base.Tactics Base.ZList Model.StoreModel.

Lemma zmem_iff x l : zmem x l = true <-> In x l.
Proof.
  unfold zmem. rewrite existsb_exists. split.
  - intros [y [Hy He]]. assert (x = y) by lia. subst. exact Hy.
  - intros H. exists x. split; [exact H | lia].
Qed.
Lemma zmem_false x l : zmem x l = false <-> ~ In x l.
Proof. rewrite <- zmem_iff. destruct (zmem x l); split; intros; try congruence; try (exfalso; auto). Qed.

(* ---- generic facts about foreign keys and filters *)
Lemma refs_filter {A} (fk : A -> Z) g cs ps : refs fk cs ps -> refs fk (filter g cs) ps.
Proof. intros H c Hc. apply filter_In in Hc. apply H. tauto. Qed.

Lemma refs_cons_parent {A} (fk : A -> Z) cs ps p : refs fk cs ps -> refs fk cs (p :: ps).
Proof. intros H c Hc. right. apply H. exact Hc. Qed.

Lemma refs_cons_child {A} (fk : A -> Z) c cs ps : In (fk c) ps -> refs fk cs ps -> refs fk (c :: cs) ps.
Proof. intros Hc H x [<-|Hx]; [exact Hc | apply H; exact Hx]. Qed.

Lemma in_map_filter {A} (pk : A -> Z) (g : A -> bool) l x :
  In x (map pk l) -> (forall a, In a l -> pk a = x -> g a = true) -> In x (map pk (filter g l)).
Proof.
  intros Hx Hg. apply in_map_iff in Hx. destruct Hx as [a [Ha Hin]].
  apply in_map_iff. exists a. split; [exact Ha|]. apply filter_In. split; [exact Hin | apply Hg; assumption].
Qed.

Lemma NoDup_map_filter {A} (pk : A -> Z) (g : A -> bool) l : NoDup (map pk l) -> NoDup (map pk (filter g l)).
Proof.
  induction l as [|a r IH]; cbn [map filter]; intros H; [constructor|].
  inversion H as [|x y Hn Hr]; subst.
  destruct (g a); [|apply IH; exact Hr].
  cbn [map]. constructor; [|apply IH; exact Hr].
  intros Hin. apply Hn. apply in_map_iff in Hin. destruct Hin as [b [Hb Hbin]].
  apply filter_In in Hbin. apply in_map_iff. exists b. tauto.
Qed.

Lemma NoDup_map_inj {A} (pk : A -> Z) l a b : NoDup (map pk l) -> In a l -> In b l -> pk a = pk b -> a = b.
Proof.
  induction l as [|x r IH]; cbn [map]; intros Hn Ha Hb He; [destruct Ha|].
  inversion Hn as [|y z Hnot Hr]; subst.
  destruct Ha as [<-|Ha], Hb as [<-|Hb]; try reflexivity.
  - exfalso. apply Hnot. rewrite He. apply in_map. exact Hb.
  - exfalso. apply Hnot. rewrite <- He. apply in_map. exact Ha.
  - apply IH; assumption.
Qed.

(* ---- dropping media files (with their blob and key links) *)
Lemma drop_files_inv s gone : SInv s -> SInv (drop_files s gone).
Proof.
  intros [H1 H2 H3 H4 H5 H6 H7 H8 N1 N2 N3 N4].
  constructor; unfold drop_files; cbn [streams files blobs keys links mpss periods asets].
  - apply refs_filter. exact H1.
  - (* file -> blob *)
    intros f Hf. apply filter_In in Hf. destruct Hf as [Hf Hg].
    apply in_map_filter; [apply H2; exact Hf|].
    intros b Hb Hbe. apply negb_true_iff. apply zmem_false. intros Hin.
    apply in_map_iff in Hin. destruct Hin as [d [Hd Hdin]]. apply filter_In in Hdin. destruct Hdin as [Hdf Hdg].
    assert (d = f) by (apply (NoDup_map_inj f_blob (files s)); [exact N4 | exact Hdf | exact Hf | congruence]).
    subst d. rewrite Hdg in Hg. discriminate.
  - (* blob owned by a surviving file *)
    intros b Hb. apply filter_In in Hb. destruct Hb as [Hb Hg].
    apply negb_true_iff in Hg. apply zmem_false in Hg.
    specialize (H3 b Hb). apply in_map_iff in H3. destruct H3 as [f [Hfb Hf]].
    apply in_map_iff. exists f. split; [exact Hfb|]. apply filter_In. split; [exact Hf|].
    destruct (gone f) eqn:E; [|reflexivity].
    exfalso. apply Hg. rewrite <- Hfb. apply in_map. apply filter_In. tauto.
  - (* link -> file *)
    intros l Hl. apply filter_In in Hl. destruct Hl as [Hl Hg].
    apply negb_true_iff in Hg. apply zmem_false in Hg.
    specialize (H4 l Hl). apply in_map_iff in H4. destruct H4 as [f [Hfp Hf]].
    apply in_map_iff. exists f. split; [exact Hfp|]. apply filter_In. split; [exact Hf|].
    destruct (gone f) eqn:E; [|reflexivity].
    exfalso. apply Hg. rewrite <- Hfp. apply in_map. apply filter_In. tauto.
  - apply refs_filter. exact H5.
  - exact H6.
  - exact H7.
  - exact H8.
  - exact N1.
  - apply NoDup_map_filter. exact N2.
  - apply NoDup_map_filter. exact N3.
  - apply NoDup_map_filter. exact N4.
Qed.

Lemma drop_periods_inv s gone : SInv s -> SInv (drop_periods s gone).
Proof.
  intros [H1 H2 H3 H4 H5 H6 H7 H8 N1 N2 N3 N4].
  constructor; unfold drop_periods; cbn [streams files blobs keys links mpss periods asets]; try assumption.
  - apply refs_filter. exact H6.
  - apply refs_filter. exact H7.
  - intros a Ha. apply filter_In in Ha. destruct Ha as [Ha Hg].
    apply negb_true_iff in Hg. apply zmem_false in Hg.
    specialize (H8 a Ha). apply in_map_iff in H8. destruct H8 as [p [Hpp Hp]].
    apply in_map_iff. exists p. split; [exact Hpp|]. apply filter_In. split; [exact Hp|].
    destruct (gone p) eqn:E; [|reflexivity].
    exfalso. apply Hg. rewrite <- Hpp. apply in_map. apply filter_In. tauto.
Qed.

(* ---- removing a parent row nothing refers to *)
Lemma remove_stream_inv s spk :
  SInv s -> (forall f, In f (files s) -> f_stream f <> spk) -> (forall p, In p (periods s) -> p_stream p <> spk) ->
  SInv (set_streams s (filter (fun x => negb (fst x =? spk)) (streams s))).
Proof.
  intros [H1 H2 H3 H4 H5 H6 H7 H8 N1 N2 N3 N4] Hf Hp.
  constructor; unfold set_streams; cbn [streams files blobs keys links mpss periods asets]; try assumption.
  - intros f Hin. apply in_map_filter; [apply H1; exact Hin|].
    intros a _ Ha. specialize (Hf f Hin). lia.
  - intros p Hin. apply in_map_filter; [apply H7; exact Hin|].
    intros a _ Ha. specialize (Hp p Hin). lia.
  - apply NoDup_map_filter. exact N1.
Qed.

Lemma remove_mps_inv s mpk :
  SInv s -> (forall p, In p (periods s) -> p_mps p <> mpk) ->
  SInv (set_mpss s (filter (fun x => negb (fst x =? mpk)) (mpss s))).
Proof.
  intros [H1 H2 H3 H4 H5 H6 H7 H8 N1 N2 N3 N4] Hp.
  constructor; unfold set_mpss; cbn [streams files blobs keys links mpss periods asets]; try assumption.
  intros p Hin. apply in_map_filter; [apply H6; exact Hin|].
  intros a _ Ha. specialize (Hp p Hin). lia.
Qed.

Lemma delete_stream_inv s spk : SInv s -> SInv (delete_stream s spk).
Proof.
  intros H. unfold delete_stream.
  apply remove_stream_inv.
  - apply drop_periods_inv. apply drop_files_inv. exact H.
  - unfold drop_periods, drop_files. cbn [files]. intros f Hf. apply filter_In in Hf. destruct Hf as [_ Hg]. lia.
  - unfold drop_periods. cbn [periods]. intros p Hp. apply filter_In in Hp. destruct Hp as [_ Hg]. lia.
Qed.

Lemma delete_mps_inv s mpk : SInv s -> SInv (delete_mps s mpk).
Proof.
  intros H. unfold delete_mps. apply remove_mps_inv.
  - apply drop_periods_inv. exact H.
  - unfold drop_periods. cbn [periods]. intros p Hp. apply filter_In in Hp. destruct Hp as [_ Hg]. lia.
Qed.

Lemma delete_key_inv s kpk : SInv s -> SInv (delete_key s kpk).
Proof.
  intros [H1 H2 H3 H4 H5 H6 H7 H8 N1 N2 N3 N4].
  constructor; unfold delete_key; cbn [streams files blobs keys links mpss periods asets]; try assumption.
  - apply refs_filter. exact H4.
  - intros l Hl. apply filter_In in Hl. destruct Hl as [Hl Hg].
    apply in_map_filter; [apply H5; exact Hl|]. intros a _ Ha. lia.
Qed.

Lemma sempty_inv : SInv sempty.
Proof. constructor; cbn; try (intros c []); constructor. Qed.

(* ---- every operation preserves the invariant *)
Lemma sstep_inv s o : SInv s -> SInv (sstep s o).
Proof.
  intros H. destruct o as [spk dir|spk|mfpk blobpk spk name|mfpk|kpk kid|kpk|mfpk kpk|mpk name|mpk|ppk mpk pid spk|ppk|apk ppk|spk dir|apk];
    cbn [sstep].
  - (* add stream, replacing one of the same directory *)
    set (s1 := match filter (fun x => snd x =? dir) (streams s) with (old, _) :: _ => delete_stream s old | [] => s end).
    assert (H1 : SInv s1).
    { unfold s1. destruct (filter (fun x => snd x =? dir) (streams s)) as [|[old d] r]; [exact H | apply delete_stream_inv; exact H]. }
    destruct (fresh spk (map fst (streams s1))) eqn:E; [|exact H].
    unfold fresh in E. apply negb_true_iff in E. apply zmem_false in E.
    destruct H1 as [A1 A2 A3 A4 A5 A6 A7 A8 M1 M2 M3 M4].
    constructor; unfold set_streams; cbn [streams files blobs keys links mpss periods asets map fst]; try assumption.
    + apply refs_cons_parent. exact A1.
    + apply refs_cons_parent. exact A7.
    + constructor; assumption.
  - apply delete_stream_inv. exact H.
  - (* upload *)
    destruct (zmem spk (map fst (streams s))) eqn:Es; [|exact H].
    apply zmem_iff in Es.
    set (s1 := drop_files s (fun f => f_name f =? name)).
    assert (H1 : SInv s1) by (apply drop_files_inv; exact H).
    destruct (fresh mfpk (map f_pk (files s1)) && fresh blobpk (map fst (blobs s1)) && fresh name (map snd (blobs s1))) eqn:E; [|exact H].
    apply andb_true_iff in E. destruct E as [E E3]. apply andb_true_iff in E. destruct E as [E1 E2].
    unfold fresh in E1, E2. apply negb_true_iff in E1, E2. apply zmem_false in E1, E2.
    assert (Hst : streams s1 = streams s) by reflexivity.
    destruct H1 as [A1 A2 A3 A4 A5 A6 A7 A8 M1 M2 M3 M4].
    constructor; cbn [streams files blobs keys links mpss periods asets map fst f_pk f_blob].
    + apply refs_cons_child; [cbn [f_stream]; rewrite Hst; exact Es | exact A1].
    + apply refs_cons_child; [cbn [f_blob]; left; reflexivity | apply refs_cons_parent; exact A2].
    + apply refs_cons_child; [cbn [fst]; left; reflexivity | apply refs_cons_parent; exact A3].
    + apply refs_cons_parent. exact A4.
    + exact A5.
    + exact A6.
    + exact A7.
    + exact A8.
    + exact M1.
    + constructor; assumption.
    + constructor; assumption.
    + constructor; [|exact M4]. intros Hin. apply E2.
      apply in_map_iff in Hin. destruct Hin as [f [Hfb Hf]]. rewrite <- Hfb. apply A2. exact Hf.
  - apply drop_files_inv. exact H.
  - (* add key *)
    destruct (fresh kpk (map fst (keys s)) && fresh kid (map snd (keys s))); [|exact H].
    destruct H as [A1 A2 A3 A4 A5 A6 A7 A8 M1 M2 M3 M4].
    constructor; cbn [streams files blobs keys links mpss periods asets map fst]; try assumption.
    apply refs_cons_parent. exact A5.
  - apply delete_key_inv. exact H.
  - (* link *)
    destruct (zmem mfpk (map f_pk (files s)) && zmem kpk (map fst (keys s))) eqn:E; [|exact H].
    apply andb_true_iff in E. destruct E as [E1 E2]. apply zmem_iff in E1, E2.
    destruct H as [A1 A2 A3 A4 A5 A6 A7 A8 M1 M2 M3 M4].
    constructor; cbn [streams files blobs keys links mpss periods asets]; try assumption.
    + apply refs_cons_child; [exact E1 | exact A4].
    + apply refs_cons_child; [exact E2 | exact A5].
  - (* add mps *)
    destruct (fresh mpk (map fst (mpss s)) && fresh name (map snd (mpss s))); [|exact H].
    destruct H as [A1 A2 A3 A4 A5 A6 A7 A8 M1 M2 M3 M4].
    constructor; unfold set_mpss; cbn [streams files blobs keys links mpss periods asets map fst]; try assumption.
    apply refs_cons_parent. exact A6.
  - apply delete_mps_inv. exact H.
  - (* add period *)
    destruct (zmem mpk (map fst (mpss s)) && zmem spk (map fst (streams s)) && fresh ppk (map p_pk (periods s))) eqn:E; [|exact H].
    apply andb_true_iff in E. destruct E as [E E3]. apply andb_true_iff in E. destruct E as [E1 E2].
    apply zmem_iff in E1, E2.
    destruct H as [A1 A2 A3 A4 A5 A6 A7 A8 M1 M2 M3 M4].
    constructor; cbn [streams files blobs keys links mpss periods asets map p_pk]; try assumption.
    + apply refs_cons_child; [exact E1 | exact A6].
    + apply refs_cons_child; [exact E2 | exact A7].
    + apply refs_cons_parent. exact A8.
  - apply drop_periods_inv. exact H.
  - (* add adaptation set *)
    destruct (zmem ppk (map p_pk (periods s)) && fresh apk (map fst (asets s))) eqn:E; [|exact H].
    apply andb_true_iff in E. destruct E as [E1 _]. apply zmem_iff in E1.
    destruct H as [A1 A2 A3 A4 A5 A6 A7 A8 M1 M2 M3 M4].
    constructor; cbn [streams files blobs keys links mpss periods asets]; try assumption.
    apply refs_cons_child; [exact E1 | exact A8].
  - (* rename: primary keys are untouched *)
    destruct (existsb (fun f => f_stream f =? spk) (files s) || zmem dir (map snd (streams s))); [exact H|].
    assert (Hpk : map fst (map (fun x : Z * Z => if fst x =? spk then (spk, dir) else x) (streams s)) = map fst (streams s)).
    { rewrite map_map. apply map_ext. intros [a b]. cbn [fst]. destruct (a =? spk) eqn:E; cbn [fst]; lia. }
    destruct H as [A1 A2 A3 A4 A5 A6 A7 A8 M1 M2 M3 M4].
    constructor; unfold set_streams; cbn [streams files blobs keys links mpss periods asets]; try assumption; rewrite Hpk; assumption.
  - (* drop an adaptation set: nothing refers to it *)
    destruct H as [A1 A2 A3 A4 A5 A6 A7 A8 M1 M2 M3 M4].
    constructor; cbn [streams files blobs keys links mpss periods asets]; try assumption.
    apply refs_filter. exact A8.
Qed.

Lemma fold_inv ops : forall s, SInv s -> SInv (fold_left sstep ops s).
Proof. induction ops as [|o r IH]; intros s H; cbn [fold_left]; [exact H | apply IH; apply sstep_inv; exact H]. Qed.

Lemma srun_inv ops : SInv (srun ops).
Proof. unfold srun. apply fold_inv. apply sempty_inv. Qed.

(* ---- deleting a stream removes exactly what it owns *)
Lemma delete_stream_exact s spk :
  (forall x, In x (streams (delete_stream s spk)) <-> In x (streams s) /\ fst x <> spk) /\
  (forall f, In f (files (delete_stream s spk)) <-> In f (files s) /\ f_stream f <> spk) /\
  (forall p, In p (periods (delete_stream s spk)) <-> In p (periods s) /\ p_stream p <> spk) /\
  keys (delete_stream s spk) = keys s /\ mpss (delete_stream s spk) = mpss s /\
  (forall b, In b (blobs (delete_stream s spk)) <->
             In b (blobs s) /\ ~ In (fst b) (map f_blob (filter (fun f => f_stream f =? spk) (files s)))).
Proof.
  unfold delete_stream, set_streams, drop_periods, drop_files. cbn [streams files blobs keys links mpss periods asets].
  split; [|split; [|split; [|split; [reflexivity|split; [reflexivity|]]]]].
  - intros x. rewrite filter_In. split; [intros [Hx Hg]; split; [exact Hx | lia] | intros [Hx Hn]; split; [exact Hx | lia]].
  - intros f. rewrite filter_In. split; [intros [Hx Hg]; split; [exact Hx | lia] | intros [Hx Hn]; split; [exact Hx | lia]].
  - intros p. rewrite filter_In. split; [intros [Hx Hg]; split; [exact Hx | lia] | intros [Hx Hn]; split; [exact Hx | lia]].
  - intros b. rewrite filter_In. split.
    + intros [Hb Hg]. split; [exact Hb|]. apply negb_true_iff in Hg. apply zmem_false in Hg. exact Hg.
    + intros [Hb Hn]. split; [exact Hb|]. apply negb_true_iff. apply zmem_false. exact Hn.
Qed.

(* boolean invariant implies nothing dangling (used to read the examples) *)
Lemma pinned_delete_breaks :
  let s := srun [OAddStream 1 10; OAddMps 1 40; OAddPeriod 1 1 50 1] in
  invb s = true /\ invb (delete_stream_pinned s 1) = false /\
  exists p, In p (periods (delete_stream_pinned s 1)) /\ ~ In (p_stream p) (map fst (streams (delete_stream_pinned s 1))).
Proof.
  cbn zeta. split; [vm_compute; reflexivity|]. split; [vm_compute; reflexivity|].
  exists {| p_pk := 1; p_mps := 1; p_pid := 50; p_stream := 1 |}. split; [vm_compute; left; reflexivity|].
  vm_compute. intros [].
Qed.
