(* C08 - proofs about Model/TimingModel.v *)
From Verif Require Import Base.Tactics Model.TimingModel.

Ltac unf := unfold live_params, resolve_ast, floor_sec, day_start, SEC, DAY, DEFAULT_DEPTH in *.

(* the calendar facts the theorems need about (now, dom, doy) *)
Definition calendar_ok (dom doy : Z) : Prop := 1 <= dom <= 31 /\ 1 <= doy <= 366.

(* a start value the property quantifies over: symbolic, or an explicit instant on a whole
   second that is not in the future *)
Definition start_ok (now : Z) (s : start) : Prop :=
  match s with
  | SExplicit a => a <= now /\ a mod SEC = 0
  | _ => True
  end.

Lemma resolve_ast_whole_sec now dom doy s : start_ok now s ->
  resolve_ast now dom doy s mod SEC = 0.
Proof.
  intros Hs. destruct s; cbn [start_ok] in Hs; unf;
    try match goal with |- context [if ?b then _ else _] => destruct b eqn:? end; lia.
Qed.

Lemma resolve_ast_le_now now dom doy s : 60 * SEC <= now -> calendar_ok dom doy ->
  start_ok now s -> resolve_ast now dom doy s <= now.
Proof.
  intros Hn (Hd & Hy) Hs. destruct s; cbn [start_ok] in Hs; unf;
    try match goal with |- context [if ?b then _ else _] => destruct b eqn:? end; lia.
Qed.

(* everything after availabilityStartTime / elapsedTime have been settled *)
Definition finish (now seg_dur timescale : Z) (o : opts) (ast elapsed : Z) : live :=
  let tsbd0 := match o_depth o with
               | None => DEFAULT_DEPTH
               | Some d => if (d =? 0) || (d <? 0) then DEFAULT_DEPTH else d
               end in
  let tsbd := if elapsed <? tsbd0 * SEC then Z.max 0 (Z.quot elapsed SEC) else tsbd0 in
  let default_mup := Z.max 1 (round_half_even (2 * seg_dur) timescale) in
  let mup := match o_mup o with
             | None => Some default_mup
             | Some p => if p <=? 0 then None else Some p
             end in
  let fta := elapsed - tsbd * SEC in
  let leeway := match o_leeway o with Some l => l * SEC | None => 0 end in
  let publish := match mup with
                 | None => floor_sec now
                 | Some p => floor_sec (ast + elapsed / (p * SEC) * p * SEC)
                 end in
  {| l_ast := ast; l_elapsed := elapsed; l_tsbd := tsbd; l_fta := fta; l_mup := mup;
     l_publish := publish; l_leeway := leeway |}.

Lemma live_params_finish now dom doy seg_dur timescale o :
  let a0 := resolve_ast now dom doy (o_start o) in
  live_params now dom doy seg_dur timescale o =
  if now - a0 =? 0 then finish now seg_dur timescale o (a0 - DAY) DAY
  else finish now seg_dur timescale o a0 (now - a0).
Proof. cbn zeta. unfold live_params. destruct (_ =? 0); reflexivity. Qed.

Lemma elapsed_eq now dom doy seg_dur timescale o :
  l_elapsed (live_params now dom doy seg_dur timescale o) =
  let a0 := resolve_ast now dom doy (o_start o) in
  if now - a0 =? 0 then DAY else now - a0.
Proof. rewrite live_params_finish. cbn zeta. destruct (_ =? 0); reflexivity. Qed.

Lemma resolve_sym_age now dom doy s : 60 * SEC <= now -> calendar_ok dom doy ->
  symbolic s = true -> 60 * SEC <= now - resolve_ast now dom doy s.
Proof.
  intros Hn (Hd & Hy) Hs. destruct s; try discriminate; unfold resolve_ast, floor_sec, day_start.
  - unfold SEC in *; lia.
  - destruct (_ <? _) eqn:E; unfold SEC, DAY in *; lia.
  - destruct (_ <? _) eqn:E; unfold SEC, DAY in *; lia.
  - destruct (_ <? _) eqn:E; unfold SEC, DAY in *; lia.
  - unfold SEC, DEFAULT_DEPTH in *; lia.
Qed.

Lemma mup_eq now dom doy sd ts o :
  l_mup (live_params now dom doy sd ts o) =
  match o_mup o with
  | None => Some (Z.max 1 (round_half_even (2 * sd) ts))
  | Some p => if p <=? 0 then None else Some p
  end.
Proof. rewrite live_params_finish. cbn zeta. destruct (_ =? 0); reflexivity. Qed.

Lemma publish_eq now dom doy sd ts o :
  let LP := live_params now dom doy sd ts o in
  l_publish LP = match l_mup LP with
                 | None => floor_sec now
                 | Some p => floor_sec (l_ast LP + l_elapsed LP / (p * SEC) * p * SEC)
                 end.
Proof. cbn zeta. rewrite live_params_finish. cbn zeta. destruct (_ =? 0); reflexivity. Qed.

Lemma mup_pos seg_dur timescale o now a e p :
  l_mup (finish now seg_dur timescale o a e) = Some p -> 1 <= p.
Proof.
  unfold finish; cbn [l_mup]. destruct (o_mup o) as [q|]; [destruct (q <=? 0) eqn:E|];
    intros H; inv H; lia.
Qed.

Lemma pub_bounds a el p : a mod SEC = 0 -> 0 < el -> 1 <= p ->
  let pub := floor_sec (a + el / (p * SEC) * p * SEC) in
  pub = a + el / (p * SEC) * p * SEC /\ 0 <= el / (p * SEC) /\ a <= pub /\ pub <= a + el /\ a + el - pub < p * SEC /\ pub mod SEC = 0.
Proof.
  intros Ha Hel Hp. cbn zeta.
  assert (Hk : 0 <= el / (p * SEC)) by (apply Z.div_pos; unfold SEC; lia).
  pose proof (Z.mul_div_le el (p * SEC)) as H1.
  pose proof (Z.mod_pos_bound el (p * SEC)) as H2.
  rewrite Z.mod_eq in H2 by (unfold SEC; lia).
  assert (Hz : (a + el / (p * SEC) * p * SEC) mod SEC = 0) by (unfold SEC in *; lia).
  unfold floor_sec. rewrite Hz. unfold SEC in *.
  assert (0 <= el / (p * 1000000) * p * 1000000) by nia.
  repeat split; lia.
Qed.

Lemma finish_coherent now seg_dur timescale o a e :
  e = now - a -> 0 < e -> a mod SEC = 0 ->
  let L := finish now seg_dur timescale o a e in
  l_ast L <= now /\ l_ast L <= l_publish L <= now /\ l_publish L mod SEC = 0 /\ 0 <= l_tsbd L * SEC <= l_elapsed L /\ l_fta L = l_elapsed L - l_tsbd L * SEC /\ 0 <= l_fta L.
Proof.
  intros He Hpos Hw L.
  assert (Hpub : a <= l_publish L <= now /\ l_publish L mod SEC = 0).
  { destruct (l_mup L) as [p|] eqn:Em.
    - pose proof (mup_pos _ _ _ _ _ _ _ Em) as Hp.
      destruct (pub_bounds a e p Hw Hpos Hp) as (_ & _ & H1 & H2 & _ & H4).
      subst L. unfold finish in *. cbn [l_publish l_mup] in *. rewrite Em. lia.
    - subst L. unfold finish in *. cbn [l_publish l_mup] in *. rewrite Em.
      unfold floor_sec, SEC in *. lia. }
  assert (Ht : 0 <= l_tsbd L * SEC <= e).
  { subst L. unfold finish; cbn [l_tsbd].
    set (t0 := match o_depth o with
               | Some d => if (d =? 0) || (d <? 0) then DEFAULT_DEPTH else d
               | None => DEFAULT_DEPTH end).
    assert (Ht0 : 1 <= t0).
    { subst t0. destruct (o_depth o) as [d|]; [destruct ((d =? 0) || (d <? 0)) eqn:E|];
        unfold DEFAULT_DEPTH; lia. }
    destruct (e <? t0 * SEC) eqn:Et; [|unfold SEC in *; lia].
    rewrite Z.quot_div_nonneg by (unfold SEC; lia). unfold SEC. lia. }
  subst L. unfold finish in *. cbn [l_ast l_elapsed l_tsbd l_fta l_publish l_mup] in *.
  repeat split; lia.
Qed.

Section Live.
Variables now dom doy seg_dur timescale : Z.
Variable o : opts.
Hypothesis Hnow : 60 * SEC <= now.
Hypothesis Hcal : calendar_ok dom doy.
Hypothesis Hstart : start_ok now (o_start o).
Let L := live_params now dom doy seg_dur timescale o.

(* L = finish .. a e for a pair satisfying the three facts *)
Lemma settled : exists a e, L = finish now seg_dur timescale o a e /\
  e = now - a /\ 0 < e /\ a mod SEC = 0.
Proof.
  pose proof (resolve_ast_whole_sec now dom doy (o_start o) Hstart) as Hw.
  pose proof (resolve_ast_le_now now dom doy (o_start o) Hnow Hcal Hstart) as Hle.
  subst L. rewrite live_params_finish. cbn zeta.
  set (a0 := resolve_ast now dom doy (o_start o)) in *.
  destruct (now - a0 =? 0) eqn:E.
  - exists (a0 - DAY), DAY. unfold SEC, DAY in *. repeat split; lia.
  - exists a0, (now - a0). unfold SEC in *. repeat split; lia.
Qed.

Lemma ast_elapsed :
  l_elapsed L = now - l_ast L /\ 0 < l_elapsed L /\ l_ast L mod SEC = 0.
Proof.
  destruct settled as (a & e & HL & He & Hpos & Hw). rewrite HL.
  unfold finish; cbn [l_elapsed l_ast]. auto.
Qed.

Theorem coherent :
  l_ast L <= now /\
  l_ast L <= l_publish L <= now /\
  l_publish L mod SEC = 0 /\
  0 <= l_tsbd L * SEC <= l_elapsed L /\
  l_fta L = l_elapsed L - l_tsbd L * SEC /\ 0 <= l_fta L.
Proof.
  destruct settled as (a & e & HL & He & Hpos & Hw). rewrite HL.
  apply finish_coherent; assumption.
Qed.

(* publishTime = availabilityStartTime + k * p, lagging now by less than p seconds *)
Theorem quantised p : l_mup L = Some p ->
  1 <= p /\ (exists k, 0 <= k /\ l_publish L = l_ast L + k * p * SEC) /\
  0 <= now - l_publish L < p * SEC.
Proof.
  destruct settled as (a & e & HL & He & Hpos & Hw). rewrite HL. intros Hm.
  pose proof (mup_pos _ _ _ _ _ _ _ Hm) as Hp.
  destruct (pub_bounds a e p Hw Hpos Hp) as (H0 & Hk & H1 & H2 & H3 & H4).
  unfold finish in *. cbn [l_publish l_mup l_ast] in *. rewrite Hm.
  split; [exact Hp|]. split; [exists (e / (p * SEC)); split; [exact Hk|exact H0]|]. lia.
Qed.

(* symbolic start values always give a stream at least one minute old *)
Theorem symbolic_age : symbolic (o_start o) = true -> 60 * SEC <= l_elapsed L.
Proof.
  intros Hsym. subst L. rewrite elapsed_eq. cbn zeta.
  pose proof (resolve_sym_age now dom doy (o_start o) Hnow Hcal Hsym) as H.
  destruct (now - resolve_ast now dom doy (o_start o) =? 0); [unfold SEC, DAY; lia | exact H].
Qed.

End Live.

(* publishTime never decreases while availabilityStartTime stays the same *)
Theorem monotone now1 now2 dom1 doy1 dom2 doy2 seg_dur timescale o :
  60 * SEC <= now1 -> now1 <= now2 ->
  calendar_ok dom1 doy1 -> calendar_ok dom2 doy2 ->
  start_ok now1 (o_start o) ->
  let L1 := live_params now1 dom1 doy1 seg_dur timescale o in
  let L2 := live_params now2 dom2 doy2 seg_dur timescale o in
  l_ast L1 = l_ast L2 -> l_publish L1 <= l_publish L2.
Proof.
  intros Hn1 Hle Hc1 Hc2 Hs1 L1 L2 Hast.
  assert (Hs2 : start_ok now2 (o_start o)).
  { destruct (o_start o); cbn [start_ok] in *; auto. lia. }
  assert (Hn2 : 60 * SEC <= now2) by lia.
  destruct (ast_elapsed now1 dom1 doy1 seg_dur timescale o Hn1 Hc1 Hs1) as (He1 & Hp1 & Hw1).
  destruct (ast_elapsed now2 dom2 doy2 seg_dur timescale o Hn2 Hc2 Hs2) as (He2 & Hp2 & Hw2).
  fold L1 in He1, Hp1, Hw1. fold L2 in He2, Hp2, Hw2.
  assert (Hm : l_mup L1 = l_mup L2) by (subst L1 L2; rewrite !mup_eq; reflexivity).
  pose proof publish_eq as Hpub. cbn zeta in Hpub.
  subst L1 L2. rewrite (Hpub now1 dom1 doy1 seg_dur timescale o), (Hpub now2 dom2 doy2 seg_dur timescale o).
  set (L1 := live_params now1 dom1 doy1 seg_dur timescale o) in *.
  set (L2 := live_params now2 dom2 doy2 seg_dur timescale o) in *. rewrite <- Hm.
  destruct (l_mup L1) as [p|] eqn:Emup.
  - assert (Hp : 1 <= p).
    { destruct (quantised now1 dom1 doy1 seg_dur timescale o Hn1 Hc1 Hs1 p Emup) as (H & _). exact H. }
    rewrite <- Hast.
    assert (Hel : l_elapsed L1 <= l_elapsed L2) by lia.
    assert (Hdiv : l_elapsed L1 / (p * SEC) <= l_elapsed L2 / (p * SEC))
      by (apply Z.div_le_mono; unfold SEC; lia).
    unfold floor_sec, SEC in *.
    assert (l_elapsed L1 / (p * 1000000) * p * 1000000 <= l_elapsed L2 / (p * 1000000) * p * 1000000) by nia.
    lia.
  - unfold floor_sec, SEC. lia.
Qed.

(* epoch / today / month / year resolve to the same instant for all requests of one UTC day
   after its first minute *)
Theorem same_day now1 now2 dom doy s :
  day_start now1 = day_start now2 ->
  day_start now1 + 60 * SEC <= now1 -> day_start now2 + 60 * SEC <= now2 ->
  calendar_ok dom doy ->
  s = SEpoch \/ s = SToday \/ s = SMonth \/ s = SYear ->
  resolve_ast now1 dom doy s = resolve_ast now2 dom doy s.
Proof.
  intros Hday H1 H2 (Hd & Hy) Hs.
  destruct Hs as [-> | [-> | [-> | ->]]]; unfold resolve_ast; rewrite <- ?Hday.
  - reflexivity.
  - unfold floor_sec, day_start, SEC, DAY in *.
    destruct (now1 - now1 mod 1000000 - (now1 - now1 mod 86400000000) <? 60 * 1000000) eqn:E1;
    destruct (now2 - now2 mod 1000000 - (now1 - now1 mod 86400000000) <? 60 * 1000000) eqn:E2; lia.
  - unfold floor_sec, day_start, SEC, DAY in *.
    destruct (now1 - now1 mod 1000000 - (now1 - now1 mod 86400000000 - (dom - 1) * 86400000000) <? 86400000000) eqn:E1;
    destruct (now2 - now2 mod 1000000 - (now1 - now1 mod 86400000000 - (dom - 1) * 86400000000) <? 86400000000) eqn:E2; lia.
  - unfold floor_sec, day_start, SEC, DAY in *.
    destruct (now1 - now1 mod 1000000 - (now1 - now1 mod 86400000000 - (doy - 1) * 86400000000) <? 86400000000) eqn:E1;
    destruct (now2 - now2 mod 1000000 - (now1 - now1 mod 86400000000 - (doy - 1) * 86400000000) <? 86400000000) eqn:E2; lia.
Qed.

(* start=now follows the clock at a fixed 60 s distance *)
Theorem now_follows now dom doy :
  let a := resolve_ast now dom doy SNow in 60 * SEC <= now - a < 61 * SEC.
Proof. unf. lia. Qed.
