(* C14 - proofs about Model/EventsModel.v *)
From Coq Require FinFun.
From Verif Require Import Base.Tactics Base.ZList Model.EventsModel.

(* ------------------------------------------------------------ zrange *)
Lemma zrange_nil lo hi : hi <= lo -> zrange lo hi = [].
Proof. intros H. unfold zrange. replace (Z.to_nat (hi - lo)) with 0%nat by lia. reflexivity. Qed.

Lemma zrange_cons lo hi : lo < hi -> zrange lo hi = lo :: zrange (lo + 1) hi.
Proof.
  intros H. unfold zrange. replace (Z.to_nat (hi - lo)) with (S (Z.to_nat (hi - (lo + 1)))) by lia.
  cbn [seq map]. f_equal; [lia|]. rewrite <- seq_shift, map_map. apply map_ext. intros i. lia.
Qed.

Lemma zrange_app a b c : a <= b -> b <= c -> zrange a b ++ zrange b c = zrange a c.
Proof.
  intros Hab Hbc. remember (Z.to_nat (b - a)) as n eqn:En. revert a En Hab.
  induction n as [|n IH]; intros a En Hab.
  - assert (a = b) by lia. subst. rewrite zrange_nil by lia. reflexivity.
  - rewrite (zrange_cons a b) by lia. rewrite (zrange_cons a c) by lia. cbn [app]. f_equal.
    apply IH; lia.
Qed.

Lemma zrange_In lo hi k : In k (zrange lo hi) <-> lo <= k < hi.
Proof.
  unfold zrange. rewrite in_map_iff. split.
  - intros (i & <- & Hi). apply in_seq in Hi. lia.
  - intros H. exists (Z.to_nat (k - lo)). split; [lia|]. apply in_seq. lia.
Qed.

Lemma zrange_NoDup lo hi : NoDup (zrange lo hi).
Proof.
  unfold zrange. apply FinFun.Injective_map_NoDup; [|apply seq_NoDup].
  intros x y H. lia.
Qed.

(* ------------------------------------------------------------ the counting function K *)
Section Sched.
Variable s : sched.
Hypothesis Hint : 1 <= e_interval s.
Hypothesis Hcnt : 0 <= e_count s.

Lemma K_nonneg x : 0 <= K s x.
Proof.
  unfold K. destruct (x <=? e_start s) eqn:E; [lia|].
  apply Z.div_pos; lia.
Qed.

(* schedule point id lies before x  <->  id < K x *)
Lemma K_spec x id : 0 <= id -> (e_start s + id * e_interval s < x <-> id < K s x).
Proof.
  intros Hid. unfold K. destruct (x <=? e_start s) eqn:E.
  - split; intros H; nia.
  - set (i := e_interval s) in *. set (d := x - e_start s) in *.
    assert (Hd : 0 < d) by lia.
    pose proof (Z.div_mod (d + i - 1) i ltac:(lia)) as Hdm.
    pose proof (Z.mod_pos_bound (d + i - 1) i ltac:(lia)) as Hmb.
    remember ((d + i - 1) / i) as q eqn:Eq. remember ((d + i - 1) mod i) as r eqn:Er.
    clear Eq Er. split; intros H.
    + assert (id * i < d) by lia. nia.
    + assert (id * i < d) by nia. lia.
Qed.

Lemma K_mono x y : x <= y -> K s x <= K s y.
Proof.
  intros H. destruct (Z_le_gt_dec (K s x) (K s y)) as [|Hgt]; [assumption|exfalso].
  pose proof (K_nonneg y) as Hy.
  assert (H1 : e_start s + K s y * e_interval s < x) by (apply K_spec; lia).
  assert (H2 : ~ (e_start s + K s y * e_interval s < y)) by (rewrite K_spec by lia; lia).
  lia.
Qed.

Lemma cap_mono j k : j <= k -> cap s j <= cap s k.
Proof. intros H. unfold cap. destruct (0 <? e_count s); lia. Qed.
Lemma cap_le k : cap s k <= k.
Proof. unfold cap. destruct (0 <? e_count s); lia. Qed.
Lemma cap_nonneg k : 0 <= k -> 0 <= cap s k.
Proof. intros H. unfold cap. destruct (0 <? e_count s) eqn:E; lia. Qed.

(* ------------------------------------------------------------ the loop *)
Lemma ev_loop_emit a b fuel id pt :
  pt = e_start s + id * e_interval s -> 0 <= id -> a <= pt ->
  (0 < e_count s -> id < e_count s) ->
  (Z.to_nat (cap s (K s b) - id) < fuel)%nat ->
  ev_loop fuel s a b id pt = map (ev_of s) (zrange id (cap s (K s b))).
Proof.
  revert id pt. induction fuel as [|f IH]; intros id pt Hpt Hid Ha Hc Hf; [lia|].
  cbn [ev_loop]. destruct (pt <? b) eqn:Eb.
  - assert (Hk : id < K s b) by (apply K_spec; lia).
    destruct (pt <? a) eqn:Ea; [lia|].
    assert (Hcap : id < cap s (K s b)) by (unfold cap; destruct (0 <? e_count s) eqn:E0; lia).
    rewrite zrange_cons by lia. cbn [map]. unfold ev_of at 1. rewrite <- Hpt. f_equal.
    destruct ((0 <? e_count s) && (e_count s <=? id + 1)) eqn:Ec.
    + rewrite zrange_nil; [reflexivity|]. unfold cap. destruct (0 <? e_count s); lia.
    + apply IH; try lia; intros H0; destruct (0 <? e_count s) eqn:E0; lia.
  - assert (Hk : ~ id < K s b) by (rewrite <- K_spec by lia; lia).
    pose proof (cap_le (K s b)). rewrite zrange_nil by lia. reflexivity.
Qed.

(* create_emsg_boxes emits exactly the scheduled events of [a, b) *)
Theorem emsg_spec a b : e_inband s = true -> a <= b -> emsg s a b = events_in s a b.
Proof.
  intros Hin Hab. unfold emsg, events_in. rewrite Hin. cbn [negb].
  pose proof (K_nonneg a) as Ka0. pose proof (K_nonneg b) as Kb0. pose proof (K_mono a b Hab) as Kab.
  destruct (b <=? e_start s) eqn:E1.
  { (* the schedule starts at or after the end of the segment *)
    assert (K s b = 0) by (unfold K; rewrite E1; reflexivity).
    rewrite zrange_nil; [reflexivity|]. apply cap_mono. lia. }
  destruct ((0 <? e_count s) && (e_start s + e_count s * e_interval s <=? a)) eqn:E2.
  { (* the schedule ended before the segment *)
    assert (Hk : e_count s <= K s a).
    { destruct (Z_le_gt_dec (e_count s) (K s a)) as [|Hgt]; [assumption|exfalso].
      assert (e_start s + K s a * e_interval s < a) by nia.
      rewrite K_spec in H by lia. lia. }
    rewrite zrange_nil; [reflexivity|]. unfold cap. destruct (0 <? e_count s); lia. }
  destruct (e_start s <? a) eqn:E3.
  - (* schedule began before the segment: start from floor((a-start)/interval) *)
    set (i := e_interval s) in *. set (d := a - e_start s) in *.
    pose proof (Z.div_mod d i ltac:(lia)) as Hdm. pose proof (Z.mod_pos_bound d i ltac:(lia)) as Hmb.
    remember (d / i) as q eqn:Eq. remember (d mod i) as r eqn:Er. clear Eq Er.
    assert (Hq0 : 0 <= q) by nia.
    assert (Hfuel : (Z.to_nat (cap s (K s b) - cap s (K s a)) + 2 <= ev_fuel s a b)%nat).
    { unfold ev_fuel. fold i.
      assert (K s b - K s a <= (b - a) / i + 1).
      { (* K b points lie in [.., b); those >= K a lie in [a, b) *)
        destruct (Z_le_gt_dec (K s b - K s a) ((b - a) / i + 1)) as [|Hgt]; [assumption|exfalso].
        pose proof (Z.div_mod (b - a) i ltac:(lia)) as H1. pose proof (Z.mod_pos_bound (b - a) i ltac:(lia)) as H2.
        assert (Hnn : 0 <= (b - a) / i) by (apply Z.div_pos; lia).
        assert (Hlast : e_start s + (K s b - 1) * i < b) by (apply (proj2 (K_spec b (K s b - 1) ltac:(lia))); lia).
        pose proof (K_spec a (K s a) ltac:(lia)) as Hx. fold i in Hx.
        assert (Hfirst : ~ e_start s + K s a * i < a) by (intros Hc; apply Hx in Hc; lia).
        nia. }
      assert (cap s (K s b) - cap s (K s a) <= K s b - K s a) by (unfold cap; destruct (0 <? e_count s); lia).
      assert (0 <= (b - a) / i) by (apply Z.div_pos; lia). lia. }
    destruct (Z.eq_dec r 0) as [Hr|Hr].
    + (* a is itself a schedule point *)
      assert (Hka : K s a = q).
      { assert (H1 : ~ q < K s a) by (rewrite <- K_spec by lia; fold i; lia).
        destruct (Z.eq_dec q 0) as [->|]; [lia|].
        assert (H2 : q - 1 < K s a) by (apply K_spec; [lia|fold i; nia]). lia. }
      assert (Hcq : cap s q = q).
      { unfold cap. destruct (0 <? e_count s) eqn:E0; [|reflexivity].
        rewrite andb_true_l in E2. nia. }
      rewrite Hka, Hcq in Hfuel. rewrite Hka, Hcq.
      apply ev_loop_emit;
        first [lia | fold i; nia
              | intros H0; destruct (0 <? e_count s) eqn:E0; [rewrite andb_true_l in E2; nia|lia]].
    + (* one skip iteration brings us to ceil *)
      assert (Hka : K s a = q + 1).
      { assert (H1 : q < K s a) by (apply K_spec; [lia|fold i; nia]).
        assert (H2 : ~ q + 1 < K s a) by (rewrite <- K_spec by lia; fold i; nia). lia. }
      destruct (ev_fuel s a b) as [|f] eqn:Ef; [lia|]. cbn [ev_loop].
      assert (Hpa : e_start s + q * i < a) by nia.
      destruct (e_start s + q * i <? b) eqn:Eb; [|lia].
      destruct (e_start s + q * i <? a) eqn:Ea; [|lia].
      destruct ((0 <? e_count s) && (e_count s <=? q + 1)) eqn:Ec.
      * rewrite zrange_nil; [reflexivity|]. rewrite Hka. unfold cap.
        destruct (0 <? e_count s) eqn:E0; [|discriminate]. lia.
      * assert (Hcq : cap s (q + 1) = q + 1) by (unfold cap; destruct (0 <? e_count s) eqn:E0; lia).
        rewrite Hka, Hcq in Hfuel. rewrite Hka, Hcq.
        apply ev_loop_emit;
          first [lia | fold i; nia | intros H0; destruct (0 <? e_count s) eqn:E0; lia].
  - (* the schedule starts inside the segment *)
    assert (Hka : K s a = 0) by (unfold K; destruct (a <=? e_start s) eqn:E; [reflexivity|lia]).
    rewrite Hka. replace (cap s 0) with 0 by (unfold cap; destruct (0 <? e_count s); lia).
    rewrite Z.mul_0_l, Z.add_0_r. apply ev_loop_emit; try lia.
    unfold ev_fuel. set (i := e_interval s) in *.
      assert (K s b <= (b - a) / i + 1).
      { destruct (Z_le_gt_dec (K s b) ((b - a) / i + 1)) as [|Hgt]; [assumption|exfalso].
        pose proof (Z.div_mod (b - a) i ltac:(lia)) as H1. pose proof (Z.mod_pos_bound (b - a) i ltac:(lia)) as H2.
        assert (Hnn : 0 <= (b - a) / i) by (apply Z.div_pos; lia).
        assert (Hlast : e_start s + (K s b - 1) * i < b) by (apply (proj2 (K_spec b (K s b - 1) ltac:(lia))); lia).
        nia. }
    pose proof (cap_le (K s b)). lia.
Qed.

(* ------------------------------------------------------------ exactly once over a tiling run *)
Theorem events_tile a b c : a <= b -> b <= c ->
  events_in s a b ++ events_in s b c = events_in s a c.
Proof.
  intros Hab Hbc. unfold events_in. rewrite <- map_app. f_equal.
  apply zrange_app; apply cap_mono; apply K_mono; assumption.
Qed.

Theorem events_in_spec a b k t :
  In (k, t) (events_in s a b) <->
  0 <= k /\ t = e_start s + k * e_interval s /\ a <= t < b /\ (e_count s = 0 \/ k < e_count s).
Proof.
  unfold events_in. rewrite in_map_iff. unfold ev_of. split.
  - intros (k' & Heq & Hin). inv Heq. apply zrange_In in Hin.
    pose proof (K_nonneg a). pose proof (cap_nonneg (K s a) ltac:(lia)).
    assert (Hk0 : 0 <= k) by lia.
    assert (Hlo : ~ k < K s a) by (pose proof (cap_le (K s a)); unfold cap in *; destruct (0 <? e_count s) eqn:E0; lia).
    assert (Hhi : k < K s b) by (pose proof (cap_le (K s b)); lia).
    rewrite <- K_spec in Hlo by lia. rewrite <- K_spec in Hhi by lia.
    repeat split; try lia. unfold cap in Hin. destruct (0 <? e_count s) eqn:E0; lia.
  - intros (Hk & -> & Ht & Hc). exists k. split; [reflexivity|]. apply zrange_In.
    assert (Hlo : ~ k < K s a) by (rewrite <- K_spec by lia; lia).
    assert (Hhi : k < K s b) by (apply K_spec; lia).
    unfold cap. destruct (0 <? e_count s) eqn:E0; lia.
Qed.

Theorem events_NoDup a b : NoDup (events_in s a b).
Proof.
  unfold events_in. apply FinFun.Injective_map_NoDup; [|apply zrange_NoDup].
  intros x y H. unfold ev_of in H. inv H. reflexivity.
Qed.

End Sched.

(* segments of a representation map to contiguous event-tick intervals: floor is applied to
   the shared boundary, so consecutive segments tile in the event timescale as well *)
Lemma to_ev_mono s x y rts : 0 < rts -> 0 <= e_timescale s -> x <= y -> to_ev s x rts <= to_ev s y rts.
Proof. intros Hr Ht H. unfold to_ev. apply Z.div_le_mono; [lia|nia]. Qed.

(* out-of-band listing = the first count schedule points *)
Theorem manifest_events_spec s : e_inband s = false -> 0 < e_count s ->
  manifest_events s = map (ev_of s) (zrange 0 (e_count s)).
Proof.
  intros Hin Hc. unfold manifest_events. rewrite Hin.
  destruct (e_count s <=? 0) eqn:E; [lia|].
  unfold zrange. rewrite map_map. replace (e_count s - 0) with (e_count s) by lia.
  apply map_ext. intros i. unfold ev_of. f_equal; lia.
Qed.
