(* C14 - the CRC of a section followed by its own CRC is zero *)
From Verif Require Import Base.Tactics Base.Bits Model.CrcModel.

Lemma xorl_length : forall a p : bits, length a = length p -> length (xorl a p) = length a.
Proof. induction a as [|x a IH]; intros [|y p] Hp; cbn in *; try lia. rewrite IH by lia. reflexivity. Qed.

Lemma crc_step_length poly reg b : length poly = length reg -> length (crc_step poly reg b) = length reg.
Proof.
  intros H. destruct reg as [|top rest]; [reflexivity|]. cbn [crc_step].
  assert (Hl : length (rest ++ [false]) = length (top :: rest)) by (rewrite app_length; cbn; lia).
  destruct (xorb top b); [|exact Hl].
  rewrite xorl_length by lia. exact Hl.
Qed.

Lemma crc_feed_length poly data : forall reg, length poly = length reg ->
  length (crc_feed poly reg data) = length reg.
Proof.
  induction data as [|b data IH]; intros reg H; [reflexivity|].
  cbn [crc_feed fold_left]. fold (crc_feed poly (crc_step poly reg b) data).
  rewrite IH by (rewrite crc_step_length by exact H; exact H). apply crc_step_length. exact H.
Qed.

(* feeding a register its own content, most significant bit first, shifts it out *)
Lemma crc_feed_self poly r : forall k,
  crc_feed poly (r ++ repeat false k) r = repeat false (length r + k).
Proof.
  induction r as [|b r IH]; intros k; [reflexivity|].
  cbn [crc_feed fold_left app crc_step]. rewrite xorb_nilpotent.
  fold (crc_feed poly ((r ++ repeat false k) ++ [false]) r).
  rewrite <- app_assoc. change [false] with (repeat false 1).
  rewrite <- repeat_app. rewrite IH. f_equal. cbn [length]. lia.
Qed.

Lemma crc_feed_app poly reg a b : crc_feed poly reg (a ++ b) = crc_feed poly (crc_feed poly reg a) b.
Proof. unfold crc_feed. apply fold_left_app. Qed.

(* every bit string is the field encoding of its value *)
Fixpoint bits_val (bs : bits) : Z :=
  match bs with [] => 0 | b :: r => b2z b * 2 ^ Z.of_nat (length r) + bits_val r end.

Lemma bits_val_bound bs : 0 <= bits_val bs < 2 ^ Z.of_nat (length bs).
Proof.
  induction bs as [|b r IH]; [cbn; lia|]. cbn [bits_val length].
  replace (Z.of_nat (S (length r))) with (Z.of_nat (length r) + 1) by lia.
  rewrite Z.pow_add_r by lia. change (2 ^ 1) with 2. destruct b; cbn [b2z]; lia.
Qed.

Lemma put_uint_low j k v w : (j <= k)%nat -> put_uint j (w * 2 ^ Z.of_nat k + v) = put_uint j v.
Proof.
  induction j as [|j IH]; intros Hj; [reflexivity|]. cbn [put_uint]. rewrite IH by lia. f_equal.
  rewrite <- (Z.mod_pow2_bits_low (w * 2 ^ Z.of_nat k + v) (Z.of_nat k)) by lia.
  rewrite Z.add_comm, Z.mod_add by lia. rewrite Z.mod_pow2_bits_low by lia. reflexivity.
Qed.

Lemma put_bits_val bs : put_uint (length bs) (bits_val bs) = bs.
Proof.
  induction bs as [|b r IH]; [reflexivity|]. cbn [length put_uint bits_val]. f_equal.
  - pose proof (bits_val_bound r) as Hb. set (k := Z.of_nat (length r)) in *.
    pose proof (Z.testbit_spec' (b2z b * 2 ^ k + bits_val r) k ltac:(lia)) as Ht.
    assert (Hq : (b2z b * 2 ^ k + bits_val r) / 2 ^ k = b2z b).
    { symmetry. apply Z.div_unique with (r := bits_val r); [lia | ring]. }
    rewrite Hq in Ht.
    destruct b; destruct (Z.testbit _ k); cbn in Ht; try reflexivity; discriminate.
  - rewrite put_uint_low by lia. exact IH.
Qed.

Theorem crc32_appended_is_zero (data : bits) :
  crc32_bits (data ++ put_uint 32 (crc32 data)) = repeat false 32.
Proof.
  unfold crc32_bits at 1. rewrite crc_feed_app. fold (crc32_bits data).
  assert (Hl : length (crc32_bits data) = 32%nat).
  { unfold crc32_bits. rewrite crc_feed_length; rewrite ?repeat_length; unfold poly32; rewrite ?put_uint_length; reflexivity. }
  pose proof (put_bits_val (crc32_bits data)) as Hb. rewrite Hl in Hb.
  pose proof (bits_val_bound (crc32_bits data)) as Hv. rewrite Hl in Hv.
  assert (Hrd : rd 32 (crc32_bits data) = Some (bits_val (crc32_bits data), [])).
  { rewrite <- Hb at 1. rewrite <- (app_nil_r (put_uint 32 (bits_val (crc32_bits data)))).
    apply rd_put. exact Hv. }
  unfold crc32. rewrite Hrd, Hb.
  pose proof (crc_feed_self poly32 (crc32_bits data) 0) as Hs. cbn [repeat] in Hs. rewrite app_nil_r in Hs.
  rewrite Hs, Hl. reflexivity.
Qed.

Theorem crc32_check_zero (data : bits) : crc32 (data ++ put_uint 32 (crc32 data)) = 0.
Proof. unfold crc32 at 1. rewrite crc32_appended_is_zero. reflexivity. Qed.
