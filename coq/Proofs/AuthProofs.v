(* C15 - proofs about Model/AuthModel.v (CSRF protocol) *)
From Verif Require Import Base.Tactics Model.AuthModel.

Section Csrf.
Variable mac : str -> str.

Lemma mem_str_In x l : mem_str x l = true <-> In x l.
Proof.
  induction l as [|y r IH]; cbn [mem_str In]; [split; [discriminate|intros []]|].
  destruct (list_eq_dec Z.eq_dec x y) as [->|Hne]; cbn [orb].
  - split; [intros _; left; reflexivity|reflexivity].
  - rewrite IH. split; [intros H; right; exact H|intros [H|H]; [congruence|exact H]].
Qed.

Lemma check_used used c s t used' ok : check mac used c s t = (used', ok) ->
  (forall x, In x used -> In x used') /\ (ok = true -> ~ In t used /\ In t used').
Proof.
  unfold check. destruct c as [[|c0 c]|].
  - intros H; inv H. split; [auto|discriminate].
  - destruct (mem_str t used) eqn:E.
    + intros H; inv H. split; [auto|discriminate].
    + intros H; inv H. split; [intros x Hx; right; exact Hx|].
      intros _. split; [|left; reflexivity]. intros Hin. apply mem_str_In in Hin. congruence.
  - intros H; inv H. split; [auto|discriminate].
Qed.

(* an accepted token was not recorded when the run started *)
Lemma run_not_used calls : forall used c s t,
  In (c, s, t) (run_checks mac used calls) -> ~ In t used.
Proof.
  induction calls as [|[[c0 s0] t0] rest IH]; intros used c s t Hin; [destruct Hin|].
  cbn [run_checks] in Hin. destruct (check mac used c0 s0 t0) as [used' ok] eqn:E.
  destruct (check_used _ _ _ _ _ _ E) as (Hmono & Hok).
  apply in_app_or in Hin. destruct Hin as [Hin|Hin].
  - destruct ok; [|destruct Hin]. destruct c0 as [c0'|]; [|destruct Hin].
    destruct Hin as [Heq|[]]. inv Heq. apply Hok. reflexivity.
  - intros Hu. exact (IH _ _ _ _ Hin (Hmono _ Hu)).
Qed.

(* a token string is accepted at most once over ANY sequence of check calls *)
Theorem csrf_once calls : forall used,
  NoDup (map (fun x => snd x) (run_checks mac used calls)).
Proof.
  induction calls as [|[[c0 s0] t0] rest IH]; intros used; [constructor|].
  cbn [run_checks]. destruct (check mac used c0 s0 t0) as [used' ok] eqn:E.
  destruct (check_used _ _ _ _ _ _ E) as (Hmono & Hok).
  rewrite map_app. destruct ok; [|cbn [map app]; apply IH].
  destruct c0 as [c0'|]; [|cbn [map app]; apply IH].
  cbn [map app snd]. constructor; [|apply IH].
  intros Hin. apply in_map_iff in Hin. destruct Hin as ([[c s] t] & Ht & Hin). cbn [snd] in Ht. subst t.
  apply (run_not_used _ _ _ _ _ Hin). apply Hok. reflexivity.
Qed.

(* acceptance means the signature part is the MAC over cookie ++ service ++ salt *)
Theorem csrf_accept_sig calls : forall used c s t,
  In (c, s, t) (run_checks mac used calls) ->
  skipn SALT_LEN t = mac (c ++ s ++ firstn SALT_LEN t).
Proof.
  induction calls as [|[[c0 s0] t0] rest IH]; intros used c s t Hin; [destruct Hin|].
  cbn [run_checks] in Hin. destruct (check mac used c0 s0 t0) as [used' ok] eqn:E.
  apply in_app_or in Hin. destruct Hin as [Hin|Hin]; [|exact (IH _ _ _ _ Hin)].
  destruct ok; [|destruct Hin]. destruct c0 as [c0'|]; [|destruct Hin].
  destruct Hin as [Heq|[]]. inv Heq.
  unfold check in E. destruct c as [|z c]; [inv E|].
  destruct (mem_str t used); [inv E|].
  destruct (list_eq_dec Z.eq_dec (skipn SALT_LEN t) (mac ((z :: c) ++ s ++ firstn SALT_LEN t))) as [Heq|Hne]; [exact Heq|].
  inv E.
Qed.
End Csrf.

(* cookie ++ service splits uniquely when no service name is a proper suffix of another *)
Lemma is_suffix_spec a b : is_suffix a b = true <-> exists p, b = p ++ a.
Proof.
  revert a. induction b as [|x b IH]; intros a; cbn [is_suffix].
  - destruct (list_eq_dec Z.eq_dec a []) as [->|Hne]; cbn [orb].
    + split; [intros _; exists []; reflexivity|reflexivity].
    + split; [discriminate|]. intros (p & Hp). destruct p; destruct a; cbn in Hp; congruence.
  - destruct (list_eq_dec Z.eq_dec a (x :: b)) as [->|Hne]; cbn [orb].
    + split; [intros _; exists []; reflexivity|reflexivity].
    + rewrite IH. split.
      * intros (p & ->). exists (x :: p). reflexivity.
      * intros (p & Hp). destruct p as [|y p]; cbn in Hp; [congruence|]. inv Hp. exists p. reflexivity.
Qed.

Lemma app_eq_suffix (c1 s1 c2 s2 : str) : c1 ++ s1 = c2 ++ s2 ->
  is_suffix s1 s2 = true \/ is_suffix s2 s1 = true.
Proof.
  revert c2. induction c1 as [|x c1 IH]; intros c2 H.
  - right. apply is_suffix_spec. exists c2. cbn in H. exact H.
  - destruct c2 as [|y c2].
    + left. apply is_suffix_spec. exists (x :: c1). cbn in H. symmetry. exact H.
    + cbn in H. inv H. eapply IH. eassumption.
Qed.

Theorem split_unique services c1 s1 c2 s2 :
  suffix_free services = true -> In s1 services -> In s2 services ->
  c1 ++ s1 = c2 ++ s2 -> s1 = s2 /\ c1 = c2.
Proof.
  intros Hsf H1 H2 Heq. unfold suffix_free in Hsf. rewrite forallb_forall in Hsf.
  assert (Hs : s1 = s2).
  { destruct (app_eq_suffix _ _ _ _ Heq) as [Hs|Hs].
    - pose proof (Hsf s1 H1) as Ha. rewrite forallb_forall in Ha. specialize (Ha s2 H2).
      destruct (list_eq_dec Z.eq_dec s1 s2) as [E|E]; [exact E|]. rewrite Hs in Ha. discriminate.
    - pose proof (Hsf s2 H2) as Ha. rewrite forallb_forall in Ha. specialize (Ha s1 H1).
      destruct (list_eq_dec Z.eq_dec s2 s1) as [E|E]; [symmetry; exact E|]. rewrite Hs in Ha. discriminate. }
  split; [exact Hs|]. subst s2. apply app_inv_tail in Heq. exact Heq.
Qed.
