(* C13 - proofs about Model/RangeModel.v *)
From Verif Require Import Base.Tactics Base.ZList Model.RangeModel.

Lemma split_on_nonempty c s : split_on c s <> [].
Proof.
  induction s as [|x r IH]; cbn [split_on]; [discriminate|].
  destruct (x =? c); [discriminate|]. destruct (split_on c r); discriminate.
Qed.

Lemma split_on_no_sep c s : forall p, In p (split_on c s) -> mem c p = false.
Proof.
  induction s as [|x r IH]; cbn [split_on]; intros p Hin.
  - destruct Hin as [<-|[]]. reflexivity.
  - destruct (x =? c) eqn:E.
    + destruct Hin as [<-|Hin]; [reflexivity|auto].
    + destruct (split_on c r) as [|q qs] eqn:Es.
      * destruct Hin as [<-|[]]. cbn [mem]. rewrite E. reflexivity.
      * destruct Hin as [<-|Hin].
        -- cbn [mem]. rewrite E. cbn [orb]. apply IH. left. reflexivity.
        -- apply IH. right. exact Hin.
Qed.

(* splitting "sa-sb" (no dash inside) gives exactly the two pieces *)
Lemma split_on_two c sa sb : mem c sa = false -> mem c sb = false ->
  split_on c (sa ++ c :: sb) = [sa; sb].
Proof.
  intros Ha Hb.
  assert (Hsb : split_on c sb = [sb]).
  { clear Ha. induction sb as [|x r IH]; [reflexivity|].
    cbn [mem] in Hb. apply orb_false_elim in Hb. destruct Hb as [H1 H2].
    cbn [split_on]. rewrite H1, (IH H2). reflexivity. }
  induction sa as [|x r IH]; cbn [app split_on].
  - rewrite Z.eqb_refl, Hsb. reflexivity.
  - cbn [mem] in Ha. apply orb_false_elim in Ha. destruct Ha as [H1 H2].
    rewrite H1, (IH H2). reflexivity.
Qed.

Lemma split_on_one c s : mem c s = false -> split_on c s = [s].
Proof.
  induction s as [|x r IH]; intros H; [reflexivity|].
  cbn [mem] in H. apply orb_false_elim in H. destruct H as [H1 H2].
  cbn [split_on]. rewrite H1, (IH H2). reflexivity.
Qed.

Lemma pyslice_in_range {A} a b (l : list A) :
  0 <= a -> a <= b -> b <= zlen l -> pyslice a b l = zslice a b l.
Proof.
  intros H1 H2 H3. unfold pyslice, pyidx.
  replace (a <? 0) with false by lia. replace (b <? 0) with false by lia.
  rewrite !Z.min_l by lia. reflexivity.
Qed.

Lemma pyslice_empty {A} a b (l : list A) :
  0 <= a -> 0 <= b -> b <= a -> pyslice a b l = [].
Proof.
  intros H1 H2 H3. unfold pyslice, pyidx, zslice.
  replace (a <? 0) with false by lia. replace (b <? 0) with false by lia.
  apply ztake_nonpos. lia.
Qed.

Section Coherence.
Variable pyint : str -> option Z.
(* a string without '-' never converts to a negative integer *)
Hypothesis pyint_nonneg : forall s v, mem DASH s = false -> pyint s = Some v -> 0 <= v.

Definition range_ok (len : Z) (h : option str) (r : rng) : Prop :=
  match r with
  | RNone => h = None
  | RBad => h <> None
  | R206 a b => h <> None /\ 0 <= a /\ a <= b /\ b < len
  | R416 a b => h <> None /\ 0 <= a /\ -1 <= b /\ b < a
  end.

Lemma fin_ok len a b h : h <> None -> 0 <= len -> 0 <= a -> -1 <= b -> b <= len - 1 ->
  range_ok len h (fin len a b).
Proof.
  intros Hh Hl Ha Hb Hbl. unfold fin.
  destruct ((b >=? len) || (b <? a)) eqn:E; cbn [range_ok]; repeat split; auto; lia.
Qed.

Lemma get_http_range_ok len h : 0 <= len -> range_ok len h (get_http_range pyint len h).
Proof.
  intros Hl. destruct h as [h|]; cbn [get_http_range]; [|reflexivity].
  assert (Hh : Some h <> None) by discriminate.
  destruct (negb (startswith bytes_eq h)); [exact Hh|].
  destruct (mem COMMA h); [exact Hh|].
  pose proof (split_on_no_sep DASH (zdrop 6 h)) as Hnd.
  destruct (split_on DASH (zdrop 6 h)) as [|s [|e [|x r]]]; try exact Hh.
  assert (Hs : mem DASH s = false) by (apply Hnd; left; reflexivity).
  assert (He : mem DASH e = false) by (apply Hnd; right; left; reflexivity).
  destruct s as [|s0 sr].
  - destruct (pyint e) as [amount|] eqn:Ee; [|exact Hh].
    apply fin_ok; auto; lia.
  - destruct (pyint (s0 :: sr)) as [a|] eqn:Ea; [|exact Hh].
    pose proof (pyint_nonneg _ _ Hs Ea) as Ha.
    destruct e as [|e0 er].
    + apply fin_ok; auto; lia.
    + destruct (pyint (e0 :: er)) as [b|] eqn:Eb; [|exact Hh].
      pose proof (pyint_nonneg _ _ He Eb) as Hb.
      apply fin_ok; auto; lia.
Qed.

(* what the property allows a response to be *)
Definition coherent (mandatory : bool) (full : list Z) (h : option str) (r : resp) : Prop :=
  match r with
  | Crash => False
  | Resp st body cr =>
    (st = 200 /\ mandatory = false /\ h = None /\ body = full /\ cr = CRnone) \/
    (st = 400 /\ cr = CRnone /\ (h <> None \/ mandatory = true)) \/
    (st = 206 /\ exists a b, 0 <= a /\ a <= b /\ b < zlen full /\
        body = zslice a (b + 1) full /\ cr = CRrange a b (zlen full)) \/
    (st = 416 /\ h <> None /\ body = [] /\ cr = CRstar (zlen full))
  end.

Theorem segment_coherent data h : coherent false data h (serve_segment pyint data h).
Proof.
  unfold serve_segment.
  pose proof (get_http_range_ok (zlen data) h (zlen_nonneg data)) as H.
  destruct (get_http_range pyint (zlen data) h) as [| |a b|a b]; cbn [range_ok coherent] in *.
  - left. auto.
  - right. left. auto.
  - right. right. left. split; [reflexivity|]. exists a, b.
    destruct H as (Hh & H1 & H2 & H3). repeat split; auto.
    apply pyslice_in_range; lia.
  - right. right. right. destruct H as (Hh & H1 & H2 & H3). repeat split; auto.
    apply pyslice_empty; lia.
Qed.

Theorem ondemand_coherent file h : coherent true file h (serve_ondemand pyint file h).
Proof.
  unfold serve_ondemand.
  pose proof (get_http_range_ok (zlen file) h (zlen_nonneg file)) as H.
  destruct (get_http_range pyint (zlen file) h) as [| |a b|a b]; cbn [range_ok coherent] in *.
  - right. left. auto.
  - right. left. auto.
  - destruct H as (Hh & H1 & H2 & H3). replace (a <? 0) with false by lia.
    right. right. left. split; [reflexivity|]. exists a, b. repeat split; auto.
    unfold zslice. f_equal. lia.
  - right. right. right. destruct H as (Hh & H1 & H2 & H3). repeat split; auto.
Qed.

(* ---- RFC 7233 semantics of the three well-formed forms ---- *)
Definition hdr (spec : str) : option str := Some (bytes_eq ++ spec).

Lemma startswith_app p s : startswith p (p ++ s) = true.
Proof. induction p as [|x r IH]; cbn [startswith app]; [reflexivity|]. rewrite Z.eqb_refl, IH. reflexivity. Qed.

Lemma mem_app c a b : mem c (a ++ b) = mem c a || mem c b.
Proof. induction a as [|x r IH]; cbn [mem app]; [reflexivity|]. rewrite IH. apply orb_assoc. Qed.

Lemma zdrop6 spec : zdrop 6 (bytes_eq ++ spec) = spec.
Proof. reflexivity. Qed.

Definition well_formed (s : str) : Prop :=
  s <> [] /\ mem DASH s = false /\ mem COMMA s = false.

Lemma parse_prefix spec : mem COMMA spec = false ->
  forall len,
  get_http_range pyint len (hdr spec) =
    match split_on DASH spec with
    | [s; e] =>
      match s with
      | [] => match pyint e with
              | None => RBad
              | Some amount => fin len (Z.max 0 (len - amount)) (len - 1)
              end
      | _ => match pyint s with
             | None => RBad
             | Some a =>
               match e with
               | [] => fin len a (len - 1)
               | _ => match pyint e with
                      | None => RBad
                      | Some b => fin len a (Z.min b (len - 1))
                      end
               end
             end
      end
    | _ => RBad
    end.
Proof.
  intros Hc len. unfold hdr, get_http_range.
  rewrite startswith_app. cbn [negb].
  rewrite mem_app. replace (mem COMMA bytes_eq) with false by reflexivity.
  cbn [orb]. rewrite Hc. rewrite zdrop6. reflexivity.
Qed.

(* first-last : satisfiable iff first <= last and first < len; slice [a, min b (len-1)] *)
Theorem rfc_from_to len sa sb a b :
  well_formed sa -> well_formed sb -> pyint sa = Some a -> pyint sb = Some b ->
  get_http_range pyint len (hdr (sa ++ DASH :: sb)) =
    if (a <=? b) && (a <? len) then R206 a (Z.min b (len - 1))
    else R416 a (Z.min b (len - 1)).
Proof.
  intros (Ha0 & Ha1 & Ha2) (Hb0 & Hb1 & Hb2) Ea Eb.
  rewrite parse_prefix; [|rewrite mem_app; cbn [mem]; rewrite Ha2, Hb2; reflexivity].
  rewrite split_on_two by assumption.
  destruct sa as [|x r]; [congruence|]. rewrite Ea.
  destruct sb as [|y q]; [congruence|]. rewrite Eb.
  unfold fin.
  pose proof (pyint_nonneg _ _ Ha1 Ea). pose proof (pyint_nonneg _ _ Hb1 Eb).
  destruct ((a <=? b) && (a <? len)) eqn:E1;
    destruct ((Z.min b (len - 1) >=? len) || (Z.min b (len - 1) <? a)) eqn:E2;
    try reflexivity; lia.
Qed.

(* first- : satisfiable iff first < len; slice [a, len-1] *)
Theorem rfc_from len sa a :
  well_formed sa -> pyint sa = Some a ->
  get_http_range pyint len (hdr (sa ++ [DASH])) =
    if a <? len then R206 a (len - 1) else R416 a (len - 1).
Proof.
  intros (Ha0 & Ha1 & Ha2) Ea.
  rewrite parse_prefix; [|rewrite mem_app; cbn [mem]; rewrite Ha2; reflexivity].
  rewrite split_on_two by (assumption || reflexivity).
  destruct sa as [|x r]; [congruence|]. rewrite Ea.
  unfold fin. pose proof (pyint_nonneg _ _ Ha1 Ea).
  destruct (a <? len) eqn:E1; destruct ((len - 1 >=? len) || (len - 1 <? a)) eqn:E2;
    try reflexivity; lia.
Qed.

(* -suffix : satisfiable iff suffix > 0 and len > 0; slice [max 0 (len-n), len-1] *)
Theorem rfc_suffix len sn n :
  0 <= len -> well_formed sn -> pyint sn = Some n ->
  get_http_range pyint len (hdr (DASH :: sn)) =
    if (0 <? n) && (0 <? len) then R206 (Z.max 0 (len - n)) (len - 1)
    else R416 (Z.max 0 (len - n)) (len - 1).
Proof.
  intros Hl (Ha0 & Ha1 & Ha2) Ea.
  rewrite parse_prefix; [|cbn [mem]; rewrite Ha2; reflexivity].
  change (DASH :: sn) with ([] ++ DASH :: sn).
  rewrite split_on_two by (assumption || reflexivity).
  rewrite Ea. unfold fin. pose proof (pyint_nonneg _ _ Ha1 Ea).
  destruct ((0 <? n) && (0 <? len)) eqn:E1;
    destruct ((len - 1 >=? len) || (len - 1 <? Z.max 0 (len - n))) eqn:E2;
    try reflexivity; lia.
Qed.

End Coherence.

(* the executable int() used by the correspondence run satisfies the hypothesis *)
Lemma digits_val_nonneg s : forall st acc v, 0 <= acc -> digits_val s st acc = Some v -> 0 <= v.
Proof.
  induction s as [|x r IH]; intros st acc v Hacc; cbn [digits_val].
  - destruct (st =? 1); intros H; inv H; exact Hacc.
  - destruct (is_digit x) eqn:Ed.
    + apply IH. unfold is_digit in Ed. lia.
    + destruct ((x =? 95) && (st =? 1)); [apply IH; exact Hacc|discriminate].
Qed.

Lemma mem_rev c s : mem c (rev s) = mem c s.
Proof.
  induction s as [|x r IH]; [reflexivity|]. cbn [rev mem].
  rewrite mem_app, IH. cbn [mem]. rewrite orb_false_r. apply orb_comm.
Qed.

Lemma mem_lstrip c s : mem c s = false -> mem c (lstrip s) = false.
Proof.
  induction s as [|x r IH]; [reflexivity|]. cbn [lstrip]. intros H.
  destruct (is_space x); [|exact H].
  cbn [mem] in H. apply orb_false_elim in H. apply IH. tauto.
Qed.

Lemma pyint_latin1_nonneg s v : mem DASH s = false -> pyint_latin1 s = Some v -> 0 <= v.
Proof.
  intros Hm. unfold pyint_latin1.
  assert (Hs : mem DASH (strip s) = false).
  { unfold strip. rewrite mem_rev. apply mem_lstrip. rewrite mem_rev. apply mem_lstrip. exact Hm. }
  destruct (strip s) as [|c r].
  - cbn [digits_val]. discriminate.
  - destruct (c =? 43) eqn:E43; [replace c with 43 by lia; apply digits_val_nonneg; lia|].
    destruct (c =? 45) eqn:E45.
    + cbn [mem] in Hs. unfold DASH in Hs. rewrite E45 in Hs. discriminate.
    + assert (Hgen : digits_val (c :: r) 0 0 = Some v -> 0 <= v) by (apply digits_val_nonneg; lia).
      destruct c as [|p|p]; try exact Hgen.
      do 8 (destruct p as [p|p|]; try exact Hgen; try discriminate).
Qed.
