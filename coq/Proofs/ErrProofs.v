From Verif Require Import Base.Tactics Base.ZList Model.ErrModel.

Lemma key_eqb_refl k : key_eqb k k = true.
Proof. unfold key_eqb. rewrite !Z.eqb_refl. reflexivity. Qed.

Lemma key_eqb_eq a b : key_eqb a b = true <-> a = b.
Proof.
  unfold key_eqb. destruct a as [a1 a2], b as [b1 b2]. cbn [fst snd].
  rewrite andb_true_iff, !Z.eqb_eq. split.
  - intros [-> ->]. reflexivity.
  - intros H. injection H as -> ->. split; reflexivity.
Qed.

Lemma sget_sset_same s k v : sget (sset s k v) k = v.
Proof. unfold sset. cbn [sget]. rewrite key_eqb_refl. reflexivity. Qed.

Lemma sget_sset_other s k k' v : k <> k' -> sget (sset s k v) k' = sget s k'.
Proof.
  intros Hne. unfold sset. cbn [sget].
  destruct (key_eqb k k') eqn:E; [apply key_eqb_eq in E; contradiction | reflexivity].
Qed.

Section CheckFacts.
  Context {P : Type}.
  Variable hit : P -> bool.
  Variable usage : Z.
  Variable fc : option Z.

  (* no entry addresses the request: no synthetic response, the session is untouched *)
  Lemma inject_miss errs s :
    (forall e, In e errs -> hit (snd e) = false) -> inject hit usage fc errs s = (None, s).
  Proof.
    induction errs as [|[code pos] r IH]; intros Hm; cbn [inject]; [reflexivity|].
    pose proof (Hm (code, pos) (or_introl eq_refl)) as H0. cbn [snd] in H0. rewrite H0. apply IH. intros e He. apply Hm. right. exact He.
  Qed.

  (* a synthetic response is always one the request asked for, at a position it addresses *)
  Lemma inject_some errs s c s' :
    inject hit usage fc errs s = (Some c, s') -> exists pos, In (c, pos) errs /\ hit pos = true.
  Proof.
    revert s. induction errs as [|[code pos] r IH]; intros s H; cbn [inject] in H; [discriminate|].
    destruct (hit pos) eqn:Eh.
    - destruct fc as [f|].
      + destruct (500 <=? code) eqn:E5.
        * destruct (f <? sget s (usage, code) + 1) eqn:Ef.
          -- apply IH in H. destruct H as [p [Hin Hp]]. exists p. split; [right; exact Hin | exact Hp].
          -- injection H as <- _. exists pos. split; [left; reflexivity | exact Eh].
        * injection H as <- _. exists pos. split; [left; reflexivity | exact Eh].
      + injection H as <- _. exists pos. split; [left; reflexivity | exact Eh].
    - apply IH in H. destruct H as [p [Hin Hp]]. exists p. split; [right; exact Hin | exact Hp].
  Qed.

  (* the first addressed entry answers with its code whenever no failure count applies to it *)
  Lemma inject_plain pre code pos post s :
    (forall e, In e pre -> hit (snd e) = false) -> hit pos = true ->
    (fc = None \/ code < 500) ->
    inject hit usage fc (pre ++ (code, pos) :: post) s = (Some code, s).
  Proof.
    intros Hpre Hh Hc. induction pre as [|[c p] r IH]; cbn [app inject].
    - rewrite Hh. destruct fc as [f|]; [|reflexivity].
      destruct Hc as [Hc|Hc]; [discriminate|].
      destruct (500 <=? code) eqn:E; [lia | reflexivity].
    - pose proof (Hpre (c, p) (or_introl eq_refl)) as H0. cbn [snd] in H0. rewrite H0. apply IH. intros e He. apply Hpre. right. exact He.
  Qed.

  (* counters of other usages are never touched *)
  Lemma inject_frame errs s k : fst k <> usage -> sget (snd (inject hit usage fc errs s)) k = sget s k.
  Proof.
    intros Hk. revert s. induction errs as [|[code pos] r IH]; intros s; cbn [inject]; [reflexivity|].
    assert (Hne : (usage, code) <> k) by (intros <-; apply Hk; reflexivity).
    destruct (hit pos); [|apply IH].
    destruct fc as [f|]; [|reflexivity].
    destruct (500 <=? code); [|reflexivity].
    destruct (f <? sget s (usage, code) + 1).
    - rewrite IH. rewrite !sget_sset_other by exact Hne. reflexivity.
    - cbn [snd]. apply sget_sset_other. exact Hne.
  Qed.
End CheckFacts.

(* ---- one 5xx entry with a failure count: the closed form over any request sequence *)
Fixpoint spec_run (F code pos h : Z) (segs : list Z) : list (option Z) :=
  match segs with
  | [] => []
  | g :: r => if g =? pos
              then (if h mod (F + 1) <? F then Some code else None) :: spec_run F code pos (h + 1) r
              else None :: spec_run F code pos h r
  end.

Lemma media_run_exact usage F code pos segs : forall s h,
  0 <= F -> 0 <= h -> 500 <= code -> sget s (usage, code) = h mod (F + 1) ->
  media_run usage (Some F) [(code, pos)] segs s = spec_run F code pos h segs.
Proof.
  induction segs as [|g r IH]; intros s h HF Hh Hc Hs; [reflexivity|].
  cbn [media_run spec_run]. unfold media_check. cbn [inject].
  rewrite (Z.eqb_sym pos g).
  destruct (g =? pos) eqn:Eg.
  - assert (E5 : (500 <=? code) = true) by lia. rewrite E5. rewrite Hs.
    assert (Hstep : (h + 1) mod (F + 1) = if h mod (F + 1) <? F then h mod (F + 1) + 1 else 0).
    { destruct (h mod (F + 1) <? F) eqn:Em.
      - symmetry. apply Z.mod_unique with (q := h / (F + 1)); [left; lia|].
        pose proof (Z.div_mod h (F + 1)). lia.
      - symmetry. apply Z.mod_unique with (q := h / (F + 1) + 1); [left; lia|].
        pose proof (Z.div_mod h (F + 1)). pose proof (Z.mod_pos_bound h (F + 1)). lia. }
    pose proof (Z.mod_pos_bound h (F + 1)) as Hb.
    remember (h mod (F + 1)) as m eqn:Hm0.
    destruct (F <? m + 1) eqn:Ef.
    + (* counter was F: pass and reset *)
      assert (Hm : (m <? F) = false) by lia. rewrite Hm in *.
      f_equal. apply IH; try lia. rewrite sget_sset_same. lia.
    + assert (Hm : (m <? F) = true) by lia. rewrite Hm in *.
      f_equal. apply IH; try lia. rewrite sget_sset_same. lia.
  - f_equal. apply IH; assumption.
Qed.

(* the i-th answer of the closed form, by position in the sequence *)
Lemma spec_run_nth F code pos : forall segs h i,
  (i < length segs)%nat ->
  nth i (spec_run F code pos h segs) None =
    if (nth i segs 0 =? pos) && ((h + count_hits pos (firstn i segs)) mod (F + 1) <? F) then Some code else None.
Proof.
  induction segs as [|g r IH]; intros h i Hi; [cbn [length] in Hi; lia|].
  destruct i as [|i].
  - cbn [spec_run nth firstn count_hits]. rewrite Z.add_0_r. destruct (g =? pos); reflexivity.
  - cbn [length] in Hi. cbn [spec_run firstn count_hits].
    destruct (g =? pos) eqn:Eg; cbn [nth]; rewrite IH by lia.
    + replace (h + 1 + count_hits pos (firstn i r)) with (h + (1 + count_hits pos (firstn i r))) by lia. reflexivity.
    + replace (h + (0 + count_hits pos (firstn i r))) with (h + count_hits pos (firstn i r)) by lia. reflexivity.
Qed.

Lemma spec_run_length F code pos segs : forall h, length (spec_run F code pos h segs) = length segs.
Proof. induction segs as [|g r IH]; intros h; cbn [spec_run length]; [reflexivity|]. destruct (g =? pos); cbn [length]; rewrite IH; reflexivity. Qed.

(* ---- a wall-clock position addresses the segment that contains it *)
Lemma time_to_segment_contains sn delta ts dur :
  0 < dur -> 0 <= delta * ts ->
  let n := time_to_segment sn delta ts dur in
  sn <= n /\ (n - sn) * dur <= delta * ts < (n - sn + 1) * dur.
Proof.
  intros Hd Hp. unfold time_to_segment. cbn zeta.
  replace (sn + delta * ts / dur - sn) with (delta * ts / dur) by lia.
  pose proof (Z.div_mod (delta * ts) dur) as Hdm. pose proof (Z.mod_pos_bound (delta * ts) dur Hd) as Hb.
  pose proof (Z.div_pos (delta * ts) dur Hp Hd) as Hq.
  split; [lia|]. split; nia.
Qed.

(* ---- the same closed form for manifest requests: one 5xx entry addressed by update count *)
Fixpoint manifest_run (fc : option Z) (errs : list (Z * mpos)) (upds : list (option Z)) (s : sess) : list (option Z) :=
  match upds with
  | [] => []
  | u :: r => let '(o, s') := manifest_check fc errs u 0 0 s in o :: manifest_run fc errs r s'
  end.
Fixpoint spec_mrun (F code n h : Z) (upds : list (option Z)) : list (option Z) :=
  match upds with
  | [] => []
  | u :: r => if match u with Some x => n =? x | None => false end
              then (if h mod (F + 1) <? F then Some code else None) :: spec_mrun F code n (h + 1) r
              else None :: spec_mrun F code n h r
  end.

Lemma manifest_run_exact F code n upds : forall s h,
  0 <= F -> 0 <= h -> 500 <= code -> sget s (0, code) = h mod (F + 1) ->
  manifest_run (Some F) [(code, MNum n)] upds s = spec_mrun F code n h upds.
Proof.
  induction upds as [|u r IH]; intros s h HF Hh Hc Hs; [reflexivity|].
  cbn [manifest_run spec_mrun]. unfold manifest_check. cbn [inject manifest_hit].
  destruct (match u with Some x => n =? x | None => false end) eqn:Eu.
  - assert (E5 : (500 <=? code) = true) by lia. rewrite E5. rewrite Hs.
    assert (Hstep : (h + 1) mod (F + 1) = if h mod (F + 1) <? F then h mod (F + 1) + 1 else 0).
    { destruct (h mod (F + 1) <? F) eqn:Em.
      - symmetry. apply Z.mod_unique with (q := h / (F + 1)); [left; lia|].
        pose proof (Z.div_mod h (F + 1)). lia.
      - symmetry. apply Z.mod_unique with (q := h / (F + 1) + 1); [left; lia|].
        pose proof (Z.div_mod h (F + 1)). pose proof (Z.mod_pos_bound h (F + 1)). lia. }
    pose proof (Z.mod_pos_bound h (F + 1)) as Hb.
    remember (h mod (F + 1)) as m eqn:Hm0.
    destruct (F <? m + 1) eqn:Ef.
    + assert (Hm : (m <? F) = false) by lia. rewrite Hm in *.
      f_equal. apply IH; try lia. rewrite sget_sset_same. lia.
    + assert (Hm : (m <? F) = true) by lia. rewrite Hm in *.
      f_equal. apply IH; try lia. rewrite sget_sset_same. lia.
  - f_equal. apply IH; assumption.
Qed.
