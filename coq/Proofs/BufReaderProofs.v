(* C20 - proofs about Model/BufReaderModel.v *)
From Verif Require Import Base.Tactics Base.ZList Model.BufReaderModel.

Section Reader.
Variable file : list Z.
Variable g : geom.
Variable sz : Z.
Hypothesis Hbs : 1 <= g_bs g.
Hypothesis Hmaxb : 1 <= g_maxb g.
Hypothesis Hoff : 0 <= g_offset g.
Hypothesis Hsz : 0 <= sz.
Hypothesis Hfit : g_offset g + sz <= zlen file.

Let F := zdrop (g_offset g) file.
Let win := window file (g_offset g) sz.

Definition cache_ok (s : state) : Prop :=
  Forall (fun kd => snd kd = file_read file (fst kd + g_offset g) (g_bs g)) (buffers s).

Definition Inv (s : state) : Prop :=
  size s = Some sz /\ 0 <= pos s <= sz /\ cache_ok s /\ zlen (buffers s) <= g_maxb g.

Lemma lookup_in b c d : lookup b c = Some d -> In (b, d) c.
Proof.
  induction c as [|[k e] r IH]; cbn [lookup]; [discriminate|].
  destruct (k =? b) eqn:E; intros H.
  - inv H. left. f_equal. lia.
  - right. auto.
Qed.

Lemma lookup_app b c1 c2 :
  lookup b (c1 ++ c2) = match lookup b c1 with Some d => Some d | None => lookup b c2 end.
Proof.
  induction c1 as [|[k e] r IH]; cbn [lookup app]; [reflexivity|].
  destruct (k =? b); auto.
Qed.

Lemma lookup_tl_none b c : lookup b c = None -> lookup b (tl c) = None.
Proof.
  destruct c as [|[k e] r]; cbn [lookup tl]; auto.
  destruct (k =? b); [discriminate|auto].
Qed.

Lemma cache_ok_lookup s b d :
  cache_ok s -> lookup b (buffers s) = Some d ->
  d = file_read file (b + g_offset g) (g_bs g).
Proof.
  intros Hc Hl. apply lookup_in in Hl.
  unfold cache_ok in Hc. rewrite Forall_forall in Hc. apply (Hc _ Hl).
Qed.

Lemma zlen_tl {A} (l : list A) : zlen (tl l) = Z.max 0 (zlen l - 1).
Proof.
  destruct l as [|x r]; cbn [tl]; rewrite ?zlen_cons, ?zlen_nil; [lia|].
  pose proof (zlen_nonneg r); lia.
Qed.

Lemma cache_spec s b :
  cache_ok s -> zlen (buffers s) <= g_maxb g ->
  let s1 := cache file g s b in
  cache_ok s1 /\ zlen (buffers s1) <= g_maxb g /\ pos s1 = pos s /\
  (forall z, size s = Some z -> size s1 = Some z) /\
  bucket_data s1 b = file_read file (b + g_offset g) (g_bs g).
Proof.
  intros Hc Hn. unfold cache, bucket_data.
  destruct (lookup b (buffers s)) as [d|] eqn:El.
  - cbn zeta. rewrite El. repeat split; auto.
    eapply cache_ok_lookup; eauto.
  - cbn zeta. cbn [buffers pos size].
    set (bufs := if zlen (buffers s) =? g_maxb g then tl (buffers s) else buffers s).
    assert (Hb1 : Forall (fun kd => snd kd = file_read file (fst kd + g_offset g) (g_bs g)) bufs).
    { subst bufs. destruct (zlen (buffers s) =? g_maxb g); [|exact Hc].
      destruct (buffers s) as [|x r] eqn:Eb; cbn [tl]; [constructor|].
      unfold cache_ok in Hc. rewrite Eb in Hc. inversion Hc; assumption. }
    assert (Hb2 : lookup b bufs = None).
    { subst bufs. destruct (zlen (buffers s) =? g_maxb g); [apply lookup_tl_none|]; assumption. }
    assert (Hb3 : zlen bufs + 1 <= g_maxb g).
    { subst bufs. destruct (zlen (buffers s) =? g_maxb g) eqn:E; [rewrite zlen_tl|]; lia. }
    repeat split.
    + unfold cache_ok; cbn [buffers]. apply Forall_app; split; [exact Hb1|].
      constructor; [reflexivity|constructor].
    + rewrite zlen_app, zlen_cons, zlen_nil. lia.
    + intros z Hz. rewrite Hz. reflexivity.
    + rewrite lookup_app, Hb2. cbn [lookup]. rewrite Z.eqb_refl. reflexivity.
Qed.

(* cache-free description of what the peek loop returns *)
Fixpoint peek_pure (fuel : nat) (bucket offset todo : Z) : list Z :=
  match fuel with
  | O => []
  | S fuel' =>
    if todo =? 0 then [] else
    zdrop offset (file_read file (bucket + g_offset g) (g_bs g)) ++
    peek_pure fuel' (bucket + g_bs g) 0 (todo - Z.min todo (g_bs g - offset))
  end.

Lemma peek_loop_pure fuel : forall s bucket offset todo acc,
  cache_ok s -> zlen (buffers s) <= g_maxb g ->
  let '(s1, r) := peek_loop fuel file g s bucket offset todo acc in
  cache_ok s1 /\ zlen (buffers s1) <= g_maxb g /\ pos s1 = pos s /\
  (forall z, size s = Some z -> size s1 = Some z) /\
  r = acc ++ peek_pure fuel bucket offset todo.
Proof.
  induction fuel as [|fuel IH]; intros s bucket offset todo acc Hc Hn;
    cbn [peek_loop peek_pure].
  - rewrite app_nil_r. repeat split; auto.
  - destruct (todo =? 0).
    + rewrite app_nil_r. repeat split; auto.
    + destruct (cache_spec s bucket Hc Hn) as (Hc1 & Hn1 & Hp1 & Hs1 & Hd1).
      specialize (IH (cache file g s bucket) (bucket + g_bs g) 0
                     (todo - Z.min todo (g_bs g - offset))
                     (acc ++ zdrop offset (bucket_data (cache file g s bucket) bucket))
                     Hc1 Hn1).
      destruct (peek_loop fuel file g (cache file g s bucket) (bucket + g_bs g) 0
                  (todo - Z.min todo (g_bs g - offset))
                  (acc ++ zdrop offset (bucket_data (cache file g s bucket) bucket)))
        as [s2 r].
      destruct IH as (Hc2 & Hn2 & Hp2 & Hs2 & Hr2).
      repeat split; auto; try congruence.
      rewrite Hr2, Hd1, <- app_assoc. reflexivity.
Qed.

Lemma file_read_F b n : 0 <= b -> file_read file (b + g_offset g) n = ztake n (zdrop b F).
Proof.
  intros Hb. unfold file_read, F. rewrite zdrop_zdrop by lia. reflexivity.
Qed.

(* the bytes returned start with the next [todo] bytes of the window *)
Lemma peek_pure_prefix fuel : forall bucket offset todo,
  0 <= bucket -> 0 <= offset < g_bs g -> 0 <= todo -> todo <= Z.of_nat fuel ->
  bucket + offset + todo <= zlen F ->
  exists extra, peek_pure fuel bucket offset todo =
                ztake todo (zdrop (bucket + offset) F) ++ extra.
Proof.
  induction fuel as [|fuel IH]; intros bucket offset todo Hb Ho Ht Hf Hlen;
    cbn [peek_pure].
  - exists []. rewrite ztake_nonpos by lia. reflexivity.
  - destruct (todo =? 0) eqn:E0.
    + exists []. rewrite ztake_nonpos by lia. reflexivity.
    + rewrite file_read_F by lia.
      rewrite zdrop_ztake by lia. rewrite zdrop_zdrop by lia.
      replace (offset + bucket) with (bucket + offset) by lia.
      set (X := zdrop (bucket + offset) F).
      assert (HX : zlen X = zlen F - (bucket + offset)).
      { subst X. rewrite zlen_zdrop. lia. }
      destruct (Z_le_gt_dec todo (g_bs g - offset)) as [Hle|Hgt].
      * replace (Z.min todo (g_bs g - offset)) with todo by lia.
        replace (g_bs g - offset) with (todo + (g_bs g - offset - todo)) by lia.
        rewrite ztake_split by lia. rewrite <- app_assoc. eexists. reflexivity.
      * replace (Z.min todo (g_bs g - offset)) with (g_bs g - offset) by lia.
        destruct (IH (bucket + g_bs g) 0 (todo - (g_bs g - offset))) as [extra He];
          try lia.
        rewrite He. exists extra.
        assert (Hsplit : ztake todo X = ztake (g_bs g - offset) X ++
                  ztake (todo - (g_bs g - offset)) (zdrop (g_bs g - offset) X)).
        { rewrite <- ztake_split by lia. f_equal. lia. }
        rewrite Hsplit, <- app_assoc.
        subst X. rewrite zdrop_zdrop by lia.
        replace (g_bs g - offset + (bucket + offset)) with (bucket + g_bs g + 0) by lia.
        reflexivity.
Qed.

Lemma win_drop p : 0 <= p -> zdrop p win = ztake (sz - p) (zdrop p F).
Proof.
  intros Hp. unfold win, window. fold F. apply zdrop_ztake. exact Hp.
Qed.

Lemma zlen_F : sz <= zlen F.
Proof. unfold F. rewrite zlen_zdrop. lia. Qed.

Lemma zlen_win : zlen win = sz.
Proof. unfold win, window. fold F. rewrite zlen_ztake. pose proof zlen_F. lia. Qed.

(* peek on a state satisfying the invariant *)
Lemma peek_spec s n : Inv s -> 1 <= n ->
  let '(s1, r) := peek file g s n in
  Inv s1 /\ pos s1 = pos s /\
  exists b, r = Some b /\
    ztake (Z.min n (sz - pos s)) b = ztake (Z.min n (sz - pos s)) (zdrop (pos s) win).
Proof.
  intros (Hs & Hp & Hc & Hn) Hn1. unfold peek.
  replace (n <=? 0) with false by lia. rewrite Hs.
  destruct (Z.min n (sz - pos s) <=? 0) eqn:E.
  - split; [repeat split; auto; lia|]. split; [reflexivity|].
    exists []. split; [reflexivity|]. rewrite !ztake_nonpos by lia. reflexivity.
  - set (n1 := Z.min n (sz - pos s)).
    set (bucket := pos s / g_bs g * g_bs g).
    pose proof (peek_loop_pure (Z.to_nat n1) s bucket (pos s - bucket) n1 [] Hc Hn) as HL.
    destruct (peek_loop (Z.to_nat n1) file g s bucket (pos s - bucket) n1 []) as [s1 r].
    destruct HL as (Hc1 & Hn1' & Hp1 & Hs1 & Hr).
    split; [repeat split; auto; try lia; rewrite Hp1; lia|].
    split; [exact Hp1|].
    exists r. split; [reflexivity|].
    cbn [app] in Hr.
    assert (Hbk : 0 <= bucket /\ 0 <= pos s - bucket < g_bs g).
    { subst bucket. split; [apply Z.mul_nonneg_nonneg; [apply Z.div_pos|]; lia|].
      pose proof (Z.mod_pos_bound (pos s) (g_bs g)) as Hm.
      rewrite Z.mod_eq in Hm by lia. lia. }
    pose proof zlen_F as HF.
    destruct (peek_pure_prefix (Z.to_nat n1) bucket (pos s - bucket) n1) as [extra He];
      try lia.
    rewrite Hr, He.
    replace (bucket + (pos s - bucket)) with (pos s) by lia.
    rewrite ztake_app_le by (rewrite zlen_ztake, zlen_zdrop; lia).
    rewrite ztake_ztake. rewrite win_drop by lia. rewrite ztake_ztake.
    f_equal. lia.
Qed.

Lemma read_n_spec s n : Inv s ->
  let '(s1, x) := read_n file g s n in
  let n1 := Z.max 0 (Z.min n (sz - pos s)) in
  Inv s1 /\ pos s1 = pos s + n1 /\ x = OBytes (ztake n1 (zdrop (pos s) win)).
Proof.
  intros HI. pose proof HI as (Hs & Hp & Hc & Hn). unfold read_n. rewrite Hs.
  destruct (Z.min n (sz - pos s) <=? 0) eqn:E.
  - cbn zeta. replace (Z.max 0 (Z.min n (sz - pos s))) with 0 by lia.
    split; [exact HI|]. split; [lia|]. rewrite ztake_nonpos by lia. reflexivity.
  - pose proof (peek_spec s (Z.min n (sz - pos s)) HI) as HP.
    destruct (peek file g s (Z.min n (sz - pos s))) as [s1 r].
    destruct HP as (HI1 & Hp1 & b & Hr & Hb); [lia|]. subst r.
    destruct HI1 as (Hs1 & Hp1' & Hc1 & Hn1).
    cbn zeta. replace (Z.max 0 (Z.min n (sz - pos s))) with (Z.min n (sz - pos s)) by lia.
    split; [repeat split; cbn [pos size buffers]; auto; lia|].
    split; [cbn [pos]; lia|].
    f_equal. replace (Z.min (Z.min n (sz - pos s)) (sz - pos s)) with (Z.min n (sz - pos s)) in Hb by lia. exact Hb.
Qed.

(* what a caller may observe of one operation, against the in-memory stream *)
Definition out_ok (p : Z) (o : op) (x : out) : Prop :=
  match o with
  | Peek n =>
      if n <=? 0 then x = OAssert
      else exists b, x = OBytes b /\
           ztake (Z.min n (sz - p)) b = ztake (Z.min n (sz - p)) (zdrop p win)
  | _ => x = snd (spec_step win p o)
  end.

Lemma step_spec s o : Inv s ->
  let '(s1, x) := step file g s o in
  Inv s1 /\ pos s1 = fst (spec_step win (pos s) o) /\ out_ok (pos s) o x.
Proof.
  intros HI. pose proof HI as (Hs & Hp & Hc & Hn).
  destruct o as [n|off wh| |n]; cbn [step out_ok].
  - (* Read *)
    destruct (n =? -1) eqn:En.
    + unfold readall. rewrite Hs.
      set (s0 := {| pos := pos s; size := Some sz; buffers := buffers s |}).
      assert (HI0 : Inv s0).
      { unfold s0, Inv, cache_ok; cbn [pos size buffers]. repeat split; auto; lia. }
      pose proof (read_n_spec s0 (Z.max 0 (sz - pos s)) HI0) as HR.
      destruct (read_n file g s0 (Z.max 0 (sz - pos s))) as [s1 x].
      destruct HR as (HI1 & Hp1 & Hx).
      unfold spec_step. rewrite En, zlen_win. cbn [fst snd].
      change (pos s0) with (pos s) in *.
      replace (Z.max 0 (Z.min (Z.max 0 (sz - pos s)) (sz - pos s))) with (sz - pos s) in * by lia.
      auto.
    + pose proof (read_n_spec s n HI) as HR.
      destruct (read_n file g s n) as [s1 x]. destruct HR as (HI1 & Hp1 & Hx).
      unfold spec_step. rewrite En, zlen_win. cbn [fst snd]. auto.
  - (* Seek *)
    unfold seek, spec_step. rewrite zlen_win. cbn [fst snd].
    assert (Hfin : forall q bufs,
      Forall (fun kd => snd kd = file_read file (fst kd + g_offset g) (g_bs g)) bufs ->
      zlen bufs <= g_maxb g ->
      Inv {| pos := Z.min (Z.max 0 q) sz; size := Some sz; buffers := bufs |}).
    { intros q bufs H1 H2. unfold Inv, cache_ok; cbn [pos size buffers].
      repeat split; auto; lia. }
    destruct (wh =? 0); [|destruct (wh =? 1); [|destruct (wh =? 2)]];
      cbn [pos size buffers]; rewrite ?Hs; cbn [pos size buffers].
    + split; [apply Hfin; auto|]. split; reflexivity.
    + split; [apply Hfin; auto|]. split; reflexivity.
    + split; [apply Hfin; auto|]. split; reflexivity.
    + split; [apply Hfin; auto|]. split; reflexivity.
  - (* Tell *)
    split; [exact HI|]. split; reflexivity.
  - (* Peek *)
    destruct (n <=? 0) eqn:En.
    + unfold peek. rewrite En. split; [exact HI|]. split; reflexivity.
    + pose proof (peek_spec s n HI) as HP.
      destruct (peek file g s n) as [s1 r].
      destruct HP as (HI1 & Hp1 & b & Hr & Hb); [lia|]. subst r.
      split; [exact HI1|]. split; [exact Hp1|]. exists b. auto.
Qed.

Inductive obs_ok : Z -> list op -> list out -> Prop :=
| obs_nil p : obs_ok p [] []
| obs_cons p o r x xs :
    out_ok p o x -> obs_ok (fst (spec_step win p o)) r xs -> obs_ok p (o :: r) (x :: xs).

Lemma run_refines ops : forall s, Inv s -> obs_ok (pos s) ops (run file g s ops).
Proof.
  induction ops as [|o r IH]; intros s HI; cbn [run]; [constructor|].
  pose proof (step_spec s o HI) as HS.
  destruct (step file g s o) as [s1 x]. destruct HS as (HI1 & Hp1 & Hx).
  constructor; [exact Hx|]. rewrite <- Hp1. apply IH. exact HI1.
Qed.

Lemma init_inv : Inv (init_state (Some sz)).
Proof.
  unfold Inv, init_state, cache_ok; cbn [pos size buffers].
  repeat split; auto; try lia. rewrite zlen_nil. lia.
Qed.

Theorem refines ops : obs_ok 0 ops (run file g (init_state (Some sz)) ops).
Proof. apply (run_refines ops (init_state (Some sz)) init_inv). Qed.

(* positions never leave [0, size]: every Tell/Seek output is in range *)
Lemma spec_pos_range p o : 0 <= p <= sz -> 0 <= fst (spec_step win p o) <= sz.
Proof.
  intros Hp. pose proof zlen_win as Hw.
  destruct o as [n|off wh| |n]; unfold spec_step; cbn [fst]; rewrite ?Hw; try lia.
  destruct (n =? -1); lia.
Qed.

End Reader.

(* ---- eviction is unobservable: outputs do not depend on max_buffers ---- *)
Section Evict.
Variable file : list Z.
Variables off bs sz m1 m2 : Z.
Hypothesis Hbs : 1 <= bs.
Hypothesis Hm1 : 1 <= m1.
Hypothesis Hm2 : 1 <= m2.
Let g1 := {| g_offset := off; g_bs := bs; g_maxb := m1 |}.
Let g2 := {| g_offset := off; g_bs := bs; g_maxb := m2 |}.

Definition same_view (s1 s2 : state) : Prop :=
  pos s1 = pos s2 /\ size s1 = Some sz /\ size s2 = Some sz /\
  cache_ok file g1 s1 /\ cache_ok file g2 s2 /\
  zlen (buffers s1) <= m1 /\ zlen (buffers s2) <= m2.

Lemma peek_pure_geom fuel : forall b o t,
  peek_pure file g1 fuel b o t = peek_pure file g2 fuel b o t.
Proof.
  induction fuel as [|fuel IH]; intros b o t; cbn [peek_pure]; [reflexivity|].
  destruct (t =? 0); [reflexivity|]. unfold g1, g2 in *; cbn [g_offset g_bs] in *. f_equal; try apply IH.
Qed.

Lemma peek_same s1 s2 n : same_view s1 s2 ->
  let '(t1, r1) := peek file g1 s1 n in
  let '(t2, r2) := peek file g2 s2 n in
  same_view t1 t2 /\ r1 = r2.
Proof.
  intros (Hp & Hs1 & Hs2 & Hc1 & Hc2 & Hn1 & Hn2). unfold peek.
  destruct (n <=? 0); [repeat split; auto|].
  rewrite Hs1, Hs2, Hp.
  destruct (Z.min n (sz - pos s2) <=? 0); [repeat split; auto|].
  cbn [g1 g2 g_bs].
  set (n1 := Z.min n (sz - pos s2)). set (bk := pos s2 / bs * bs).
  pose proof (peek_loop_pure file g1 Hm1 (Z.to_nat n1) s1 bk (pos s2 - bk) n1 [] Hc1 Hn1) as H1.
  pose proof (peek_loop_pure file g2 Hm2 (Z.to_nat n1) s2 bk (pos s2 - bk) n1 [] Hc2 Hn2) as H2.
  destruct (peek_loop (Z.to_nat n1) file g1 s1 bk (pos s2 - bk) n1 []) as [t1 r1].
  destruct (peek_loop (Z.to_nat n1) file g2 s2 bk (pos s2 - bk) n1 []) as [t2 r2].
  destruct H1 as (A1 & B1 & C1 & D1 & E1). destruct H2 as (A2 & B2 & C2 & D2 & E2).
  split; [repeat split; auto; congruence|].
  rewrite E1, E2, peek_pure_geom. reflexivity.
Qed.

Lemma read_n_same s1 s2 n : same_view s1 s2 ->
  let '(t1, x1) := read_n file g1 s1 n in
  let '(t2, x2) := read_n file g2 s2 n in
  same_view t1 t2 /\ x1 = x2.
Proof.
  intros HV. pose proof HV as (Hp & Hs1 & Hs2 & Hc1 & Hc2 & Hn1 & Hn2). unfold read_n.
  rewrite Hs1, Hs2, Hp.
  destruct (Z.min n (sz - pos s2) <=? 0); [auto|].
  pose proof (peek_same s1 s2 (Z.min n (sz - pos s2)) HV) as HP.
  destruct (peek file g1 s1 (Z.min n (sz - pos s2))) as [t1 r1].
  destruct (peek file g2 s2 (Z.min n (sz - pos s2))) as [t2 r2].
  destruct HP as ((Hp' & Hs1' & Hs2' & Hc1' & Hc2' & Hn1' & Hn2') & Hr). subst r2.
  destruct r1 as [b|].
  - split; [|reflexivity]. repeat split; cbn [pos size buffers]; auto; congruence.
  - split; [|reflexivity]. repeat split; auto.
Qed.

Lemma step_same s1 s2 o : same_view s1 s2 ->
  let '(t1, x1) := step file g1 s1 o in
  let '(t2, x2) := step file g2 s2 o in
  same_view t1 t2 /\ x1 = x2.
Proof.
  intros HV. pose proof HV as (Hp & Hs1 & Hs2 & Hc1 & Hc2 & Hn1 & Hn2).
  destruct o as [n|o wh| |n]; cbn [step].
  - destruct (n =? -1).
    + unfold readall. rewrite Hs1, Hs2, Hp.
      apply read_n_same. repeat split; cbn [pos size buffers]; auto.
    + apply read_n_same; exact HV.
  - unfold seek. cbn [g1 g2 g_offset]. rewrite Hs1, Hs2, Hp.
    destruct (wh =? 0); [|destruct (wh =? 1); [|destruct (wh =? 2)]];
      cbn [pos size buffers]; rewrite ?Hs1, ?Hs2, ?Hp;
      (split; [repeat split; cbn [pos size buffers]; auto|reflexivity]).
  - rewrite Hp. auto.
  - pose proof (peek_same s1 s2 n HV) as HP.
    destruct (peek file g1 s1 n) as [t1 r1]. destruct (peek file g2 s2 n) as [t2 r2].
    destruct HP as (HV' & Hr). subst r2. destruct r1; auto.
Qed.

Theorem eviction_irrelevant ops :
  run file g1 (init_state (Some sz)) ops = run file g2 (init_state (Some sz)) ops.
Proof.
  assert (H : forall ops s1 s2, same_view s1 s2 -> run file g1 s1 ops = run file g2 s2 ops).
  { clear ops. induction ops as [|o r IH]; intros s1 s2 HV; cbn [run]; [reflexivity|].
    pose proof (step_same s1 s2 o HV) as HS.
    destruct (step file g1 s1 o) as [t1 x1]. destruct (step file g2 s2 o) as [t2 x2].
    destruct HS as (HV' & Hx). subst x2. f_equal. apply IH. exact HV'. }
  apply H. unfold same_view, init_state, cache_ok; cbn [pos size buffers].
  repeat split; auto; rewrite ?zlen_nil; lia.
Qed.
End Evict.
