(* C19 - proofs about Model/IsoTimeModel.v *)
From Verif Require Import Base.Tactics Base.ZList Base.Str Model.IsoTimeModel.

(* ---------- generic string facts ---------- *)
Lemma mem_z_digits c s : is_digit c = false -> all_digits s = true -> mem_z c s = false.
Proof.
  intros Hc. induction s as [|x r IH]; intros Hs; [reflexivity|].
  cbn [all_digits forallb] in Hs. apply andb_prop in Hs. destruct Hs as [Hx Hr].
  unfold mem_z in *. cbn [existsb]. rewrite (IH Hr), orb_false_r.
  destruct (c =? x) eqn:E; [|reflexivity]. replace x with c in Hx by lia. congruence.
Qed.

Lemma opt_field_hit delims ds c r :
  all_digits ds = true -> ds <> [] -> is_digit c = false -> mem_z c delims = true ->
  opt_field delims (ds ++ c :: r) = (Some (dval ds), r).
Proof.
  intros Hd Hne Hc Hm. unfold opt_field. rewrite (span_all is_digit ds c r Hd Hc).
  destruct ds as [|x t]; [congruence|]. rewrite Hm. reflexivity.
Qed.

Lemma opt_field_miss delims ds c r :
  all_digits ds = true -> is_digit c = false -> mem_z c delims = false ->
  opt_field delims (ds ++ c :: r) = (None, ds ++ c :: r).
Proof.
  intros Hd Hc Hm. unfold opt_field. rewrite (span_all is_digit ds c r Hd Hc).
  destruct ds as [|x t]; [reflexivity|]. rewrite Hm. reflexivity.
Qed.

Lemma digits_then_hit c ds r :
  all_digits ds = true -> ds <> [] -> is_digit c = false ->
  digits_then c (ds ++ c :: r) = Some (dval ds, r).
Proof.
  intros Hd Hne Hc. unfold digits_then. rewrite (span_all is_digit ds c r Hd Hc).
  destruct ds as [|x t]; [congruence|]. rewrite Z.eqb_refl. reflexivity.
Qed.

Lemma digits_then_pad c w n r : 0 <= n -> is_digit c = false ->
  digits_then c (pad w n ++ c :: r) = Some (n, r).
Proof.
  intros Hn Hc. rewrite digits_then_hit; auto using pad_digits, pad_nonempty.
  rewrite dval_pad by lia. reflexivity.
Qed.

Lemma all_dd s : all_digits s = true -> forallb is_digit_or_dot s = true.
Proof.
  induction s as [|x r IH]; intros H; [reflexivity|].
  cbn [all_digits forallb] in *. apply andb_prop in H. destruct H as [Hx Hr].
  unfold is_digit_or_dot at 1. rewrite Hx. cbn [orb andb]. apply IH. exact Hr.
Qed.

(* length of decimal strings *)
Lemma dec_fuel_len k : forall fuel n acc, 0 <= n < 10 ^ Z.of_nat (S k) ->
  (length (dec_fuel fuel n acc) <= S k + length acc)%nat.
Proof.
  induction k as [|k IH]; intros fuel n acc Hn.
  - change (10 ^ Z.of_nat 1) with 10 in Hn.
    destruct fuel as [|f]; cbn [dec_fuel]; [cbn [length]; lia|].
    replace (n <? 10) with true by lia. cbn [length]. lia.
  - destruct fuel as [|f]; cbn [dec_fuel]; [cbn [length]; lia|].
    destruct (n <? 10) eqn:E; [cbn [length]; lia|].
    assert (Hq : 0 <= n / 10 < 10 ^ Z.of_nat (S k)).
    { rewrite (Nat2Z.inj_succ (S k)), Z.pow_succ_r in Hn by lia. lia. }
    pose proof (IH f (n / 10) ((48 + n mod 10) :: acc) Hq) as H. cbn [length] in H. lia.
Qed.

Lemma zeros_len n : length (zeros n) = n.
Proof. induction n; cbn [zeros length]; auto. Qed.

Lemma pad_len w n : 0 <= n < 10 ^ Z.of_nat (S w) -> length (pad (S w) n) = S w.
Proof.
  intros Hn. unfold pad. rewrite app_length, zeros_len.
  pose proof (dec_fuel_len w (Z.to_nat (Z.log2 n)) n [] Hn) as H. cbn [length] in H.
  unfold dec. lia.
Qed.

Ltac sd := first [apply dec_digits; lia | apply dec_nonempty | assumption | reflexivity | lia].

(* ---------- durations ---------- *)
Definition frac_ok (ms : Z) : bool :=
  all_digits (frac_str ms) && negb (Nat.eqb (length (frac_str ms)) 0) &&
  (frac_us (frac_str ms) =? ms * 1000) && Nat.leb (length (frac_str ms)) 6.

Lemma frac_sweep : forallb frac_ok (map Z.of_nat (seq 1 999)) = true.
Proof. vm_compute. reflexivity. Qed.

Lemma frac_ok_all ms : 1 <= ms <= 999 -> frac_ok ms = true.
Proof.
  intros H. pose proof frac_sweep as S. rewrite forallb_forall in S. apply S.
  replace ms with (Z.of_nat (Z.to_nat ms)) by lia. apply in_map. apply in_seq. lia.
Qed.

Lemma parse_seconds_int w : all_digits w = true -> w <> [] ->
  parse_seconds w = SecVal (dval w) 0 true.
Proof.
  intros Hw Hne. unfold parse_seconds. rewrite (span_all_end is_digit w Hw).
  destruct w; [congruence|reflexivity].
Qed.

Lemma parse_seconds_frac w fr : all_digits w = true -> w <> [] -> all_digits fr = true ->
  parse_seconds (w ++ cDot :: fr) = SecVal (dval w) (frac_us fr) (Nat.leb (length fr) 6).
Proof.
  intros Hw Hne Hf. unfold parse_seconds.
  rewrite (span_all is_digit w cDot fr Hw) by reflexivity.
  rewrite Z.eqb_refl. rewrite (span_all_end is_digit fr Hf).
  destruct w; [congruence|reflexivity].
Qed.

(* the text after the optional hour and minute fields *)
Definition sec_part (s ms : Z) : str :=
  dec s ++ (if 0 <? ms then cDot :: frac_str ms else []) ++ [cS].

Lemma sec_part_head s ms : 0 <= s -> 0 <= ms <= 999 ->
  exists c r, sec_part s ms = dec s ++ c :: r /\ is_digit c = false /\
              mem_z c [cH; cColon] = false /\ mem_z c [cM; cColon] = false.
Proof.
  intros Hs Hms. unfold sec_part. destruct (0 <? ms).
  - exists cDot, (frac_str ms ++ [cS]). repeat split; reflexivity.
  - exists cS, []. repeat split; reflexivity.
Qed.

Lemma sec_part_parse s ms base : 0 <= s -> 0 <= ms <= 999 ->
  (let '(sec_txt, s8) := span is_digit_or_dot (sec_part s ms) in
   let ok_end := match sec_txt, s8 with
                 | _, [] => true
                 | _ :: _, [c8] => c8 =? cS
                 | _, _ => false
                 end in
   if negb ok_end then DurNoMatch else
   match sec_txt with
   | [] => DurVal (base * 1000000) true
   | _ => match parse_seconds sec_txt with
          | SecErr => DurFloatErr
          | SecVal w f e => DurVal ((base + w) * 1000000 + f) e
          end
   end) = DurVal ((base + s) * 1000000 + ms * 1000) true.
Proof.
  intros Hs Hms. unfold sec_part.
  pose proof (dec_digits s Hs) as Hd. pose proof (dec_nonempty s) as Hne.
  destruct (0 <? ms) eqn:E.
  - pose proof (frac_ok_all ms) as Hf. unfold frac_ok in Hf.
    assert (Hms' : 1 <= ms <= 999) by lia. specialize (Hf Hms').
    apply andb_prop in Hf. destruct Hf as [Hf H4]. apply andb_prop in Hf. destruct Hf as [Hf H3].
    apply andb_prop in Hf. destruct Hf as [H1 H2].
    replace (dec s ++ (cDot :: frac_str ms) ++ [cS]) with ((dec s ++ cDot :: frac_str ms) ++ cS :: [])
      by (rewrite <- !app_assoc; reflexivity).
    rewrite span_all; [| |reflexivity].
    2:{ rewrite forallb_app. rewrite (all_dd _ Hd). cbn [forallb]. rewrite (all_dd _ H1). reflexivity. }
    destruct (dec s ++ cDot :: frac_str ms) eqn:Etxt; [destruct (dec s); discriminate|].
    rewrite <- Etxt. cbn [negb]. rewrite Z.eqb_refl. cbn [negb].
    rewrite parse_seconds_frac by assumption. rewrite H4, dval_dec by lia.
    f_equal. lia.
  - replace (dec s ++ [] ++ [cS]) with (dec s ++ cS :: []) by reflexivity.
    rewrite span_all; [|apply all_dd; exact Hd|reflexivity].
    destruct (dec s) eqn:Etxt; [congruence|]. rewrite <- Etxt. rewrite Z.eqb_refl. cbn [negb].
    rewrite parse_seconds_int by (rewrite ?Etxt; auto; discriminate).
    rewrite dval_dec by lia. f_equal. lia.
Qed.

Lemma parse_fmt_hms secs ms : 0 <= secs -> 0 <= ms <= 999 ->
  parse_duration (fmt_hms secs ms) = DurVal (secs * 1000000 + ms * 1000) true.
Proof.
  intros Hs Hms. unfold fmt_hms.
  set (hrs := secs / 3600). set (mins := secs mod 3600 / 60). set (s := secs mod 3600 mod 60).
  assert (Hh : 0 <= hrs) by (subst hrs; lia).
  assert (Hm : 0 <= mins < 60) by (subst mins; lia).
  assert (Hss : 0 <= s < 60) by (subst s; lia).
  assert (Hsum : secs = hrs * 3600 + mins * 60 + s) by (subst hrs mins s; lia).
  fold (sec_part s ms).
  replace (dec s ++ (if 0 <? ms then cDot :: frac_str ms else []) ++ [cS]) with (sec_part s ms)
    by reflexivity.
  destruct (sec_part_head s ms) as (c & r & Hsp & Hc1 & Hc2 & Hc3); [lia|lia|].
  cbn [app parse_duration]. rewrite Z.eqb_refl. cbn [negb].
  (* years / months / days : the next character is 'T' *)
  assert (HT : forall dl rest, opt_field dl (cT :: rest) = (None, cT :: rest)).
  { intros dl rest. unfold opt_field. cbn [span]. reflexivity. }
  rewrite !HT. rewrite Z.eqb_refl. cbn [negb].
  pose proof (sec_part_parse s ms) as HP.
  destruct (hrs =? 0) eqn:Eh.
  - cbn [andb app].
    destruct (mins =? 0) eqn:Em.
    + cbn [app]. rewrite Hsp.
      rewrite (opt_field_miss [cH; cColon]) by sd.
      rewrite (opt_field_miss [cM; cColon]) by sd.
      rewrite <- Hsp. specialize (HP 0). cbn zeta in HP.
      cbn [Z.mul Z.add] in *. rewrite HP by lia. f_equal. lia.
    + rewrite <- app_assoc. cbn [app].
      rewrite (opt_field_miss [cH; cColon]) by sd.
      rewrite (opt_field_hit [cM; cColon]) by sd.
      rewrite dval_dec by lia. specialize (HP (mins * 60)). cbn zeta in HP.
      replace (0 * (3600 * 24 * 365) + 0 * (3600 * 24 * 30) + 0 * (3600 * 24) + 0 * 3600 + mins * 60)
        with (mins * 60) by lia.
      rewrite HP by lia. f_equal. lia.
  - cbn [andb]. rewrite <- !app_assoc. cbn [app].
    rewrite (opt_field_hit [cH; cColon]) by sd.
    rewrite (opt_field_hit [cM; cColon]) by sd.
    rewrite !dval_dec by lia. specialize (HP (hrs * 3600 + mins * 60)). cbn zeta in HP.
    replace (0 * (3600 * 24 * 365) + 0 * (3600 * 24 * 30) + 0 * (3600 * 24) + hrs * 3600 + mins * 60)
      with (hrs * 3600 + mins * 60) by lia.
    rewrite HP by lia. f_equal. lia.
Qed.

Lemma ms_of_range f td : 0 <= f < 1000000 -> 0 <= ms_of f td <= 1000.
Proof. intros H. unfold ms_of. destruct (td && (f mod 1000 =? 500)) eqn:E; lia. Qed.

Theorem duration_roundtrip us td : 0 <= us ->
  exists us', parse_duration (fmt_duration us td) = DurVal us' true /\ Z.abs (us' - us) <= 500.
Proof.
  intros Hus. unfold fmt_duration.
  pose proof (ms_of_range (us mod 1000000) td) as Hr.
  assert (Hf : 0 <= us mod 1000000 < 1000000) by lia. specialize (Hr Hf).
  destruct (ms_of (us mod 1000000) td >=? 1000) eqn:E.
  - eexists. split; [apply parse_fmt_hms; lia|].
    unfold ms_of in *. destruct (td && (us mod 1000000 mod 1000 =? 500)) eqn:Et; lia.
  - eexists. split; [apply parse_fmt_hms; lia|].
    unfold ms_of in *. destruct (td && (us mod 1000000 mod 1000 =? 500)) eqn:Et; lia.
Qed.

Theorem duration_fields us td : 0 <= us ->
  let '(mins, secs, ms) := dur_fields us td in
  0 <= mins < 60 /\ 0 <= secs < 60 /\ 0 <= ms < 1000.
Proof.
  intros Hus. unfold dur_fields.
  pose proof (ms_of_range (us mod 1000000) td) as Hr.
  assert (Hf : 0 <= us mod 1000000 < 1000000) by lia. specialize (Hr Hf).
  destruct (ms_of (us mod 1000000) td >=? 1000) eqn:E; lia.
Qed.

(* the text is built from exactly those fields (ties fmt_duration to dur_fields) *)
Theorem duration_text_fields us td : 0 <= us ->
  let '(mins, secs, ms) := dur_fields us td in
  exists hpart, fmt_duration us td =
    [cP; cT] ++ hpart ++ dec secs ++ (if 0 <? ms then cDot :: frac_str ms else []) ++ [cS] /\
    (hpart = [] \/ hpart = dec mins ++ [cM] \/ exists h, 0 < h /\ hpart = dec h ++ [cH] ++ dec mins ++ [cM]).
Proof.
  intros Hus. unfold dur_fields, fmt_duration.
  pose proof (ms_of_range (us mod 1000000) td) as Hr.
  assert (Hf : 0 <= us mod 1000000 < 1000000) by lia. specialize (Hr Hf).
  assert (G : forall secs ms, 0 <= secs ->
    exists hpart, fmt_hms secs ms =
      [cP; cT] ++ hpart ++ dec (secs mod 3600 mod 60) ++
        (if 0 <? ms then cDot :: frac_str ms else []) ++ [cS] /\
      (hpart = [] \/ hpart = dec (secs mod 3600 / 60) ++ [cM] \/
       exists h, 0 < h /\ hpart = dec h ++ [cH] ++ dec (secs mod 3600 / 60) ++ [cM])).
  { intros secs ms Hs. unfold fmt_hms.
    destruct (secs / 3600 =? 0) eqn:Eh.
    - cbn [andb]. destruct (secs mod 3600 / 60 =? 0) eqn:Em.
      + exists []. split; [reflexivity|auto].
      + exists (dec (secs mod 3600 / 60) ++ [cM]). split; [reflexivity|]. right. left. reflexivity.
    - cbn [andb]. exists (dec (secs / 3600) ++ [cH] ++ dec (secs mod 3600 / 60) ++ [cM]).
      split; [rewrite <- !app_assoc; reflexivity|].
      right. right. exists (secs / 3600). split; [lia|]. reflexivity. }
  destruct (ms_of (us mod 1000000) td >=? 1000) eqn:E; apply G; lia.
Qed.

(* ---------- date-times ---------- *)
Definition with_utc (d : dt) : dt :=
  {| d_year := d_year d; d_month := d_month d; d_day := d_day d; d_hour := d_hour d;
     d_min := d_min d; d_sec := d_sec d; d_us := d_us d;
     d_off := Some (match d_off d with Some o => o | None => 0 end) |}.

Lemma valid_with_utc d : valid_dt (with_utc d) = valid_dt d.
Proof. reflexivity. Qed.

Lemma parse_tz_Z : parse_tz [cZ] = Some (Some 0).
Proof. reflexivity. Qed.

Lemma parse_tz_off o : -1440 < o < 1440 -> o <> 0 -> parse_tz (fmt_offset o) = Some (Some o).
Proof.
  intros Ho Hz. unfold fmt_offset, parse_tz.
  set (a := Z.abs o).
  assert (Ha : 0 < a < 1440) by (subst a; lia).
  destruct (o <? 0) eqn:Es.
  - replace (cMinus =? cZ) with false by reflexivity.
    replace ((cMinus =? cPlus) || (cMinus =? cMinus)) with true by reflexivity.
    change ([cColon] ++ pad 2 (a mod 60)) with (cColon :: pad 2 (a mod 60)).
    rewrite digits_then_pad by (try lia; reflexivity).
    rewrite (span_all_end is_digit (pad 2 (a mod 60))) by (apply pad_digits; lia).
    destruct (pad 2 (a mod 60)) eqn:Ep; [exfalso; eapply pad_nonempty; eauto|].
    rewrite <- Ep, dval_pad by lia. rewrite Z.eqb_refl. do 2 f_equal. subst a. lia.
  - replace (cPlus =? cZ) with false by reflexivity.
    replace ((cPlus =? cPlus) || (cPlus =? cMinus)) with true by reflexivity.
    change ([cColon] ++ pad 2 (a mod 60)) with (cColon :: pad 2 (a mod 60)).
    rewrite digits_then_pad by (try lia; reflexivity).
    rewrite (span_all_end is_digit (pad 2 (a mod 60))) by (apply pad_digits; lia).
    destruct (pad 2 (a mod 60)) eqn:Ep; [exfalso; eapply pad_nonempty; eauto|].
    rewrite <- Ep, dval_pad by lia. replace (cPlus =? cMinus) with false by reflexivity.
    do 2 f_equal. subst a. lia.
Qed.

Definition tz_text (d : dt) : str :=
  match d_off d with
  | None => [cZ]
  | Some o => if o =? 0 then [cZ] else fmt_offset o
  end.

Lemma tz_text_head d : exists c r, tz_text d = c :: r /\ is_digit_or_dot c = false.
Proof.
  unfold tz_text. destruct (d_off d) as [o|].
  - destruct (o =? 0); [exists cZ, []; split; reflexivity|].
    unfold fmt_offset. destruct (o <? 0); eexists; eexists; split; reflexivity.
  - exists cZ, []. split; reflexivity.
Qed.

Lemma tz_text_parse d : valid_off d = true ->
  parse_tz (tz_text d) = Some (d_off (with_utc d)).
Proof.
  unfold valid_off, tz_text, with_utc; cbn [d_off]. destruct (d_off d) as [o|]; intros Hv.
  - destruct (o =? 0) eqn:E; [rewrite parse_tz_Z; do 2 f_equal; lia|].
    apply parse_tz_off; lia.
  - apply parse_tz_Z.
Qed.

Theorem datetime_roundtrip d : valid_dt d = true -> valid_off d = true ->
  parse_datetime (fmt_datetime d) = DtVal (with_utc d) true.
Proof.
  intros Hv Ho. pose proof Hv as Hv0. unfold valid_dt in Hv.
  repeat (apply andb_prop in Hv; destruct Hv as [Hv ?]).
  unfold fmt_datetime. fold (tz_text d).
  unfold parse_datetime.
  cbn [app].
  change (match d_off d with
          | Some o => if o =? 0 then [cZ] else fmt_offset o
          | None => [cZ]
          end) with (tz_text d).
  rewrite digits_then_pad by (try lia; reflexivity).
  rewrite digits_then_pad by (try lia; reflexivity).
  rewrite digits_then_pad by (try lia; reflexivity).
  rewrite digits_then_pad by (try lia; reflexivity).
  rewrite digits_then_pad by (try lia; reflexivity).
  destruct (tz_text_head d) as (c & r & Htz & Hc).
  assert (Hsd : all_digits (pad 2 (d_sec d)) = true) by (apply pad_digits; lia).
  assert (Hsn : pad 2 (d_sec d) <> []) by apply pad_nonempty.
  destruct (d_us d =? 0) eqn:Eus.
  - cbn [app]. rewrite Htz.
    rewrite span_all by (auto using all_dd).
    destruct (pad 2 (d_sec d)) eqn:Ep; [congruence|]. rewrite <- Ep in *. rewrite <- Htz.
    rewrite tz_text_parse by assumption.
    rewrite (mem_z_digits cDot) by (auto; reflexivity).
    rewrite parse_seconds_int by assumption. rewrite dval_pad by lia.
    match goal with |- (if valid_dt ?x then _ else _) = _ =>
      replace x with (with_utc d) end.
    2:{ unfold with_utc. f_equal. lia. }
    rewrite valid_with_utc, Hv0. reflexivity.
  - assert (Hud : all_digits (pad 6 (d_us d)) = true) by (apply pad_digits; lia).
    replace (pad 2 (d_sec d) ++ (cDot :: pad 6 (d_us d)) ++ tz_text d)
      with ((pad 2 (d_sec d) ++ cDot :: pad 6 (d_us d)) ++ tz_text d)
      by (rewrite <- app_assoc; reflexivity).
    rewrite Htz. rewrite span_all; [| |exact Hc].
    2:{ rewrite forallb_app, (all_dd _ Hsd). cbn [forallb]. rewrite (all_dd _ Hud). reflexivity. }
    destruct (pad 2 (d_sec d) ++ cDot :: pad 6 (d_us d)) eqn:Ep;
      [destruct (pad 2 (d_sec d)); discriminate|]. rewrite <- Ep. rewrite <- Htz.
    rewrite tz_text_parse by assumption.
    rewrite parse_seconds_frac by assumption. rewrite dval_pad by lia.
    assert (Hlen : length (pad 6 (d_us d)) = 6%nat).
    { apply (pad_len 5). change (10 ^ Z.of_nat 6) with 1000000. lia. }
    rewrite Hlen. cbn [Nat.leb].
    assert (Hfu : frac_us (pad 6 (d_us d)) = d_us d).
    { unfold frac_us. rewrite firstn_app, Hlen. replace (6 - 6)%nat with 0%nat by lia.
      rewrite firstn_O, app_nil_r. rewrite firstn_all2 by lia. apply dval_pad. lia. }
    rewrite Hfu.
    assert (Hdot : mem_z cDot (pad 2 (d_sec d) ++ cDot :: pad 6 (d_us d)) = true).
    { unfold mem_z. rewrite existsb_app. cbn [existsb]. rewrite Z.eqb_refl.
      cbn [orb]. apply orb_true_r. }
    rewrite Hdot.
    match goal with |- (if valid_dt ?x then _ else _) = _ =>
      replace x with (with_utc d) end.
    2:{ unfold with_utc. reflexivity. }
    rewrite valid_with_utc, Hv0. reflexivity.
Qed.

(* ---------- tick conversions ---------- *)
Lemma us_to_tc_floor us ts : 0 <= ts -> us_to_tc us ts = ts * us / 1000000.
Proof.
  intros Hts. unfold us_to_tc.
  remember (us / 86400000000) as days eqn:Ed. remember (us mod 86400000000) as rem eqn:Er.
  assert (Hus : us = 86400000000 * days + 1000000 * (rem / 1000000) + rem mod 1000000) by lia.
  replace (ts * us)
    with (ts * (rem mod 1000000) + (ts * days * 86400 + ts * (rem / 1000000)) * 1000000)
    by (rewrite Hus; ring).
  rewrite Z.div_add by lia. lia.
Qed.

Theorem tc_to_us_monotone ts a b : 1 <= ts -> a <= b -> tc_to_us a ts <= tc_to_us b ts.
Proof. intros Hts Hab. unfold tc_to_us. apply Z.div_le_mono; lia. Qed.

Theorem us_to_tc_monotone ts a b : 1 <= ts -> a <= b -> us_to_tc a ts <= us_to_tc b ts.
Proof.
  intros Hts Hab. rewrite !us_to_tc_floor by lia. apply Z.div_le_mono; [lia|]. nia.
Qed.

(* ticks -> time -> ticks loses less than ceil(ts / 10^6) ticks, never gains *)
Theorem tc_roundtrip ts tc : 1 <= ts -> 0 <= tc ->
  tc - (ts + 999999) / 1000000 <= us_to_tc (tc_to_us tc ts) ts <= tc.
Proof.
  intros Hts Htc. rewrite us_to_tc_floor by lia. unfold tc_to_us.
  set (q := tc * 1000000 / ts).
  assert (Hq : ts * q <= tc * 1000000 < ts * q + ts) by (subst q; nia).
  split.
  - apply Z.div_le_lower_bound; [lia|]. nia.
  - apply Z.div_le_upper_bound; lia.
Qed.

Corollary tc_roundtrip_one_tick ts tc : 1 <= ts <= 1000000 -> 0 <= tc ->
  tc - 1 <= us_to_tc (tc_to_us tc ts) ts <= tc.
Proof.
  intros Hts Htc. pose proof (tc_roundtrip ts tc) as H.
  assert ((ts + 999999) / 1000000 = 1) by lia. lia.
Qed.

(* time -> ticks -> time loses less than one tick's worth of microseconds *)
Theorem us_roundtrip ts us : 1 <= ts -> 0 <= us ->
  0 <= us - tc_to_us (us_to_tc us ts) ts <= (1000000 + ts - 1) / ts.
Proof.
  intros Hts Hus. rewrite us_to_tc_floor by lia. unfold tc_to_us.
  set (k := ts * us / 1000000).
  assert (Hk : 1000000 * k <= ts * us < 1000000 * k + 1000000) by (subst k; lia).
  set (u := k * 1000000 / ts).
  assert (Hu : ts * u <= k * 1000000 < ts * u + ts) by (subst u; nia).
  set (c := (1000000 + ts - 1) / ts).
  assert (Hc : ts * c >= 1000000) by (subst c; nia).
  split; nia.
Qed.

(* "one tick" is unattainable for timescales above 10^6 with microsecond timedeltas *)
Lemma fine_timescale_refuted :
  us_to_tc (tc_to_us 19 10000000) 10000000 = 10.
Proof. vm_compute. reflexivity. Qed.
