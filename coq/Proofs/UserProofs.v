From Verif Require Import Base.Tactics Base.ZList.
From Verif Require Import Model.UserModel.

(* nobody but an administrator changes another account: every field of the row is as before *)
Theorem edit_other_needs_admin u q : q_admin q = false -> q_target q <> q_caller q -> after u q = u.
Proof.
  intros Ha Hne. unfold after, edit_user. rewrite Ha. cbn [negb andb].
  destruct (q_target q =? q_caller q) eqn:E; [lia|]. reflexivity.
Qed.

(* an account editing itself cannot raise its own privileges: group mask, user name and the must-change flag stay *)
Theorem self_edit_no_escalation u q : q_admin q = false ->
  u_groups (after u q) = u_groups u /\ u_name (after u q) = u_name u /\ u_must (after u q) = u_must u.
Proof.
  intros Ha. unfold after, edit_user. rewrite Ha. cbn [negb andb].
  destruct (negb (q_target q =? q_caller q)); [repeat split; reflexivity|].
  destruct (q_pw q) as [p|]; [destruct (negb (p =? q_confirm q))|]; repeat split; reflexivity.
Qed.

(* a password is only ever replaced by one that was typed twice *)
Theorem password_needs_confirmation u q : u_pw (after u q) <> u_pw u -> q_pw q = Some (q_confirm q) /\ u_pw (after u q) = q_confirm q.
Proof.
  unfold after, edit_user. destruct (negb (q_admin q) && negb (q_target q =? q_caller q)); [congruence|].
  destruct (q_pw q) as [p|]; [|cbn; congruence].
  destruct (p =? q_confirm q) eqn:E; cbn [negb]; [|congruence]. cbn [u_pw]. intros _. assert (p = q_confirm q) by lia. subst. split; reflexivity.
Qed.

(* an administrator's edit sets exactly what was sent *)
Theorem admin_edit u q : q_admin q = true -> (forall p, q_pw q = Some p -> p = q_confirm q) ->
  after u q = {| u_name := q_name q; u_must := q_must q; u_email := q_email q;
                 u_pw := match q_pw q with Some p => p | None => u_pw u end; u_groups := q_groups q |}.
Proof.
  intros Ha Hp. unfold after, edit_user. rewrite Ha. cbn [negb andb].
  destruct (q_pw q) as [p|]; [|reflexivity]. rewrite (Hp p eq_refl), Z.eqb_refl. reflexivity.
Qed.
