From Verif Require Import Base.Tactics Base.ZList Model.FieldModel.

Lemma pow256_pos k : 0 < 256 ^ Z.of_nat k.
Proof. apply Z.pow_pos_nonneg; lia. Qed.
Lemma pow256_succ k : 256 ^ Z.of_nat (S k) = 256 ^ Z.of_nat k * 256.
Proof. rewrite Nat2Z.inj_succ, Z.pow_succ_r by lia. lia. Qed.

Lemma be_length w v : length (be w v) = w.
Proof. induction w as [|k IH]; cbn [be length]; [reflexivity | rewrite IH; reflexivity]. Qed.

Definition is_byte (x : Z) : Prop := 0 <= x < 256.

(* value of a byte string read as a big-endian number *)
Fixpoint valb (bs : bytes) : Z :=
  match bs with [] => 0 | b :: t => b * 256 ^ Z.of_nat (length t) + valb t end.

Lemma valb_bound bs : Forall is_byte bs -> 0 <= valb bs < 256 ^ Z.of_nat (length bs).
Proof.
  induction bs as [|b t IH]; intros H; cbn [valb length].
  - change (256 ^ Z.of_nat 0) with 1. lia.
  - inversion H as [|x y Hb Ht]; subst. specialize (IH Ht). unfold is_byte in Hb.
    rewrite pow256_succ. pose proof (pow256_pos (length t)). nia.
Qed.

(* be ignores multiples of 256^k *)
Lemma be_add_mult k : forall x m, be k (x + m * 256 ^ Z.of_nat k) = be k x.
Proof.
  induction k as [|j IH]; intros x m; cbn [be]; [reflexivity|].
  pose proof (pow256_pos j) as Hp. f_equal.
  - rewrite pow256_succ. replace (x + m * (256 ^ Z.of_nat j * 256)) with (x + (m * 256) * 256 ^ Z.of_nat j) by lia.
    rewrite Z.div_add by lia. rewrite Z.mod_add by lia. reflexivity.
  - rewrite pow256_succ. replace (x + m * (256 ^ Z.of_nat j * 256)) with (x + (m * 256) * 256 ^ Z.of_nat j) by lia.
    apply IH.
Qed.

Lemma be_valb bs : Forall is_byte bs -> be (length bs) (valb bs) = bs.
Proof.
  induction bs as [|b t IH]; intros H; cbn [be valb length]; [reflexivity|].
  inversion H as [|x y Hb Ht]; subst. unfold is_byte in Hb.
  pose proof (valb_bound t Ht) as Hv. pose proof (pow256_pos (length t)) as Hp.
  f_equal.
  - rewrite Z.add_comm, Z.div_add by lia. rewrite (Z.div_small (valb t)) by lia. rewrite Z.mod_small by lia. reflexivity.
  - rewrite Z.add_comm. rewrite be_add_mult. apply IH. exact Ht.
Qed.

Lemma valb_be w : forall v, 0 <= v -> valb (be w v) = v mod 256 ^ Z.of_nat w.
Proof.
  induction w as [|k IH]; intros v Hv; cbn [be valb].
  - change (256 ^ Z.of_nat 0) with 1. rewrite Z.mod_1_r. reflexivity.
  - rewrite be_length, IH by exact Hv. rewrite pow256_succ.
    pose proof (pow256_pos k). rewrite (Z.rem_mul_r v (256 ^ Z.of_nat k) 256) by lia. lia.
Qed.

(* rd reads exactly w bytes *)
Lemma rd_spec w : forall bs acc,
  rd w bs acc = if Nat.leb w (length bs)
                then Some (acc * 256 ^ Z.of_nat w + valb (firstn w bs), skipn w bs) else None.
Proof.
  induction w as [|k IH]; intros bs acc.
  - cbn [rd Nat.leb firstn skipn valb]. change (256 ^ Z.of_nat 0) with 1. f_equal. f_equal. lia.
  - cbn [rd]. destruct bs as [|b t]; [reflexivity|].
    cbn [length Nat.leb firstn skipn]. rewrite IH. destruct (Nat.leb k (length t)) eqn:E; [|reflexivity].
    f_equal. f_equal. cbn [valb]. apply Nat.leb_le in E. rewrite firstn_length_le by exact E.
    rewrite pow256_succ. lia.
Qed.

Lemma firstn_app_len {A} (a b : list A) : firstn (length a) (a ++ b) = a.
Proof. induction a as [|x r IH]; cbn [length firstn app]; [destruct b; reflexivity | rewrite IH; reflexivity]. Qed.
Lemma skipn_app_len {A} (a b : list A) : skipn (length a) (a ++ b) = b.
Proof. induction a as [|x r IH]; cbn [length skipn app]; [reflexivity | exact IH]. Qed.

Lemma rd_be w v r : 0 <= v < 256 ^ Z.of_nat w -> rd w (be w v ++ r) 0 = Some (v, r).
Proof.
  intros Hv. rewrite rd_spec. rewrite app_length, be_length.
  assert (E : Nat.leb w (w + length r) = true) by (apply Nat.leb_le; lia). rewrite E.
  pose proof (firstn_app_len (be w v) r) as F. pose proof (skipn_app_len (be w v) r) as S.
  rewrite be_length in F, S. rewrite F, S. rewrite valb_be by lia. rewrite Z.mod_small by exact Hv. f_equal.
Qed.

(* ---- layouts: decode after encode *)
Theorem dec_enc l : forall vs, vals_ok l vs ->
  exists bs, enc_fields l vs = Some bs /\ forall rest, dec_fields l (bs ++ rest) = Some (vs, rest).
Proof.
  induction l as [|f l' IH]; intros vs Hok.
  - destruct vs; [|destruct Hok]. exists []. split; [reflexivity | intros rest; reflexivity].
  - destruct vs as [|v vs']; [destruct Hok|]. destruct Hok as [Hv Hrest].
    destruct (IH vs' Hrest) as [bs' [He Hd]].
    destruct f as [w|n], v as [z|b]; cbn [val_ok] in Hv; try contradiction.
    + exists (be w z ++ bs'). split; [cbn [enc_fields]; rewrite He; reflexivity|].
      intros rest. cbn [dec_fields]. rewrite <- app_assoc. rewrite rd_be by exact Hv. rewrite Hd. reflexivity.
    + exists (b ++ bs'). split.
      * cbn [enc_fields]. rewrite Hv, Nat.eqb_refl, He. reflexivity.
      * intros rest. cbn [dec_fields]. rewrite <- app_assoc.
        assert (E : Nat.leb n (length (b ++ bs' ++ rest)) = true) by (apply Nat.leb_le; rewrite app_length; lia).
        rewrite E. subst n. rewrite skipn_app_len, firstn_app_len, Hd. reflexivity.
Qed.

(* ---- and encode after decode: whatever the decoder accepts re-encodes to exactly the bytes consumed *)
Lemma Forall_skipn {A} (P : A -> Prop) n l : Forall P l -> Forall P (skipn n l).
Proof. revert l. induction n as [|k IH]; intros l H; [exact H|]. destruct l; [constructor|]. inversion H; subst. apply IH. assumption. Qed.
Lemma Forall_firstn {A} (P : A -> Prop) n l : Forall P l -> Forall P (firstn n l).
Proof. revert l. induction n as [|k IH]; intros l H; [constructor|]. destruct l; [constructor|]. inversion H; subst. constructor; [assumption | apply IH; assumption]. Qed.

Theorem enc_dec l : forall bs vs rest, Forall is_byte bs -> dec_fields l bs = Some (vs, rest) ->
  exists pre, enc_fields l vs = Some pre /\ bs = pre ++ rest /\ vals_ok l vs.
Proof.
  induction l as [|f l' IH]; intros bs vs rest Hb H.
  - cbn [dec_fields] in H. injection H as <- <-. exists []. repeat split.
  - destruct f as [w|n]; cbn [dec_fields] in H.
    + rewrite rd_spec in H. destruct (Nat.leb w (length bs)) eqn:E; [|discriminate].
      destruct (dec_fields l' (skipn w bs)) as [[vs' rest']|] eqn:D; [|discriminate].
      injection H as <- <-.
      destruct (IH _ _ _ (Forall_skipn _ w bs Hb) D) as [pre [He [Hs Hok]]].
      apply Nat.leb_le in E.
      pose proof (Forall_firstn _ w bs Hb) as Hf.
      pose proof (valb_bound _ Hf) as Hv. rewrite firstn_length_le in Hv by exact E.
      exists (be w (0 * 256 ^ Z.of_nat w + valb (firstn w bs)) ++ pre).
      split; [cbn [enc_fields]; rewrite He; reflexivity|]. split.
      * replace (0 * 256 ^ Z.of_nat w + valb (firstn w bs)) with (valb (firstn w bs)) by lia.
        pose proof (be_valb _ Hf) as Hbv. rewrite firstn_length_le in Hbv by exact E. rewrite Hbv.
        rewrite <- app_assoc, <- Hs. symmetry. apply firstn_skipn.
      * cbn [vals_ok val_ok]. split; [lia | exact Hok].
    + destruct (Nat.leb n (length bs)) eqn:E; [|discriminate].
      destruct (dec_fields l' (skipn n bs)) as [[vs' rest']|] eqn:D; [|discriminate].
      injection H as <- <-.
      destruct (IH _ _ _ (Forall_skipn _ n bs Hb) D) as [pre [He [Hs Hok]]].
      apply Nat.leb_le in E.
      exists (firstn n bs ++ pre). split.
      * cbn [enc_fields]. rewrite firstn_length_le by exact E. rewrite Nat.eqb_refl, He. reflexivity.
      * split; [rewrite <- app_assoc, <- Hs; symmetry; apply firstn_skipn|].
        cbn [vals_ok val_ok]. split; [apply firstn_length_le; exact E | exact Hok].
Qed.

(* ---- the byte length of a layout, and of what the encoder writes for it *)
Definition fld_len (f : fld) : nat := match f with FU w => w | FB n => n end.
Fixpoint layout_len (l : list fld) : nat := match l with [] => O | f :: r => (fld_len f + layout_len r)%nat end.

Lemma layout_len_app a b : layout_len (a ++ b) = (layout_len a + layout_len b)%nat.
Proof. induction a as [|f a IH]; cbn [app layout_len]; [reflexivity | rewrite IH; lia]. Qed.
Lemma layout_len_rep k l : layout_len (rep k l) = (k * layout_len l)%nat.
Proof. induction k as [|k IH]; cbn [rep]; [reflexivity | rewrite layout_len_app, IH; lia]. Qed.

Lemma enc_fields_length l : forall vs bs, enc_fields l vs = Some bs -> length bs = layout_len l.
Proof.
  induction l as [|f l IH]; intros vs bs H.
  - destruct vs; cbn in H; [injection H as <-; reflexivity | discriminate].
  - destruct f as [w|n]; destruct vs as [|[z|b] vs]; cbn [enc_fields] in H; try discriminate.
    + destruct (enc_fields l vs) as [r|] eqn:E; [|discriminate]. injection H as <-.
      rewrite app_length, be_length, (IH _ _ E). reflexivity.
    + destruct (Nat.eqb (length b) n) eqn:En; [|discriminate]. apply Nat.eqb_eq in En.
      destruct (enc_fields l vs) as [r|] eqn:E; [|discriminate]. injection H as <-.
      rewrite app_length, (IH _ _ E), En. reflexivity.
Qed.

(* the auxiliary-information size of one senc sample (what saiz lists for it) *)
Definition senc_sample_size (flags : Z) (iv : nat) (c : option nat) : nat :=
  (iv + (if Z.testbit flags 1 then match c with Some k => 2 + 6 * k | None => 0 end else 0))%nat.
Lemma list_sum_cons a l : list_sum (a :: l) = (a + list_sum l)%nat.
Proof. reflexivity. Qed.
Lemma senc_samples_len flags iv counts :
  layout_len (l_senc_samples flags iv counts) = list_sum (map (senc_sample_size flags iv) counts).
Proof.
  induction counts as [|c r IH]; cbn [l_senc_samples map]; [reflexivity|].
  rewrite layout_len_app, IH, list_sum_cons. f_equal. unfold senc_sample_size.
  destruct (Z.testbit flags 1); [destruct c as [k|]|]; cbn [layout_len fld_len app].
  - rewrite layout_len_rep. cbn [layout_len fld_len]. lia.
  - lia.
  - lia.
Qed.

(* ---- NUL-terminated strings and the emsg layout found from the bytes *)
Definition no_nul (s : bytes) : Prop := Forall (fun x => x <> 0) s.
Lemma cstr_len_app s rest : no_nul s -> cstr_len (s ++ 0 :: rest) = Some (S (length s)).
Proof.
  induction 1 as [|x s Hx _ IH]; cbn [app cstr_len length].
  - reflexivity.
  - destruct (x =? 0) eqn:E; [apply Z.eqb_eq in E; contradiction|]. rewrite IH. reflexivity.
Qed.
(* and conversely: a length it reports is that of a NUL-free prefix followed by the terminator *)
Lemma cstr_len_sound : forall bs n, cstr_len bs = Some n ->
  exists s rest, bs = s ++ 0 :: rest /\ no_nul s /\ n = S (length s).
Proof.
  induction bs as [|b r IH]; intros n H; cbn [cstr_len] in H; [discriminate|].
  destruct (b =? 0) eqn:E.
  - apply Z.eqb_eq in E. subst b. injection H as <-. exists [], r. repeat split. constructor.
  - destruct (cstr_len r) as [m|] eqn:Er; [|discriminate]. injection H as <-.
    destruct (IH m eq_refl) as (s & rest & -> & Hs & ->).
    exists (b :: s), rest. repeat split. constructor; [apply Z.eqb_neq; exact E | exact Hs].
Qed.
Lemma skipn_S_app (s rest : bytes) : skipn (S (length s)) (s ++ 0 :: rest) = rest.
Proof. induction s as [|x s IH]; [reflexivity | exact IH]. Qed.

(* version 0: what the encoder writes for (uri, value, timescale, delta, duration, id, data) is read back with the same
   layout, for every NUL-free uri and value and every message data *)
Lemma emsg_layout_v0 flags s1 s2 a b c d data : no_nul s1 -> no_nul s2 ->
  emsg_layout (be 1 0 ++ be 3 flags ++ (s1 ++ [0]) ++ (s2 ++ [0]) ++ be 4 a ++ be 4 b ++ be 4 c ++ be 4 d ++ data)
  = Some (l_emsg 0 (S (length s1)) (S (length s2)) (length data)).
Proof.
  intros H1 H2. change (be 1 0) with [0]. unfold emsg_layout. cbn [be app]. cbn [Z.eqb orb skipn].
  rewrite <- !app_assoc. cbn [app].
  rewrite (cstr_len_app s1 _ H1), skipn_S_app, (cstr_len_app s2 _ H2).
  do 2 f_equal. cbn [length]. rewrite !app_length. cbn [length]. rewrite !app_length. cbn [length]. lia.
Qed.
Lemma emsg_layout_v1 flags s1 s2 a b c d data : no_nul s1 -> no_nul s2 ->
  emsg_layout (be 1 1 ++ be 3 flags ++ be 4 a ++ be 8 b ++ be 4 c ++ be 4 d ++ (s1 ++ [0]) ++ (s2 ++ [0]) ++ data)
  = Some (l_emsg 1 (S (length s1)) (S (length s2)) (length data)).
Proof.
  intros H1 H2. change (be 1 1) with [1]. unfold emsg_layout. cbn [be app]. cbn [Z.eqb orb skipn Pos.eqb].
  rewrite <- !app_assoc. cbn [app].
  rewrite (cstr_len_app s1 _ H1), skipn_S_app, (cstr_len_app s2 _ H2).
  do 2 f_equal. cbn [length]. rewrite !app_length. cbn [length]. rewrite !app_length. cbn [length]. lia.
Qed.
(* a string with a NUL inside is cut short by the reader: the reason the statements above need no_nul *)
Example cstr_nul_inside : cstr_len [65; 0; 66; 0] = Some 2%nat. Proof. reflexivity. Qed.

Lemma len_cstr (s : bytes) : Nat.eqb (length (s ++ [0])) (S (length s)) = true.
Proof. apply Nat.eqb_eq. rewrite app_length. cbn [length]. lia. Qed.
(* the whole round trip of a version 0 / version 1 event message: the reader needs nothing but the bytes *)
Theorem emsg_selfdescribing_v0 flags s1 s2 a b c d data :
  let l := l_emsg 0 (S (length s1)) (S (length s2)) (length data) in
  let vs := [VU 0; VU flags; VB (s1 ++ [0]); VB (s2 ++ [0]); VU a; VU b; VU c; VU d; VB data] in
  no_nul s1 -> no_nul s2 -> vals_ok l vs ->
  exists bs, enc_fields l vs = Some bs /\ emsg_layout bs = Some l /\ dec_fields l bs = Some (vs, []).
Proof.
  intros l vs H1 H2 Hok. destruct (dec_enc l vs Hok) as (bs & Henc & Hdec). exists bs.
  split; [exact Henc|]. split; [|specialize (Hdec []); rewrite app_nil_r in Hdec; exact Hdec].
  unfold l, vs, l_emsg, full in Henc. cbn [Z.eqb enc_fields] in Henc.
  rewrite !len_cstr, Nat.eqb_refl in Henc. injection Henc as <-.
  rewrite app_nil_r. exact (emsg_layout_v0 flags s1 s2 a b c d data H1 H2).
Qed.
Theorem emsg_selfdescribing_v1 flags s1 s2 a b c d data :
  let l := l_emsg 1 (S (length s1)) (S (length s2)) (length data) in
  let vs := [VU 1; VU flags; VU a; VU b; VU c; VU d; VB (s1 ++ [0]); VB (s2 ++ [0]); VB data] in
  no_nul s1 -> no_nul s2 -> vals_ok l vs ->
  exists bs, enc_fields l vs = Some bs /\ emsg_layout bs = Some l /\ dec_fields l bs = Some (vs, []).
Proof.
  intros l vs H1 H2 Hok. destruct (dec_enc l vs Hok) as (bs & Henc & Hdec). exists bs.
  split; [exact Henc|]. split; [|specialize (Hdec []); rewrite app_nil_r in Hdec; exact Hdec].
  unfold l, vs, l_emsg, full in Henc. cbn [Z.eqb Pos.eqb enc_fields] in Henc.
  rewrite !len_cstr, Nat.eqb_refl in Henc. injection Henc as <-.
  rewrite app_nil_r. exact (emsg_layout_v1 flags s1 s2 a b c d data H1 H2).
Qed.
