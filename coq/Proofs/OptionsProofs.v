(* C07 - proofs about Model/OptionsModel.v *)
From Verif Require Import Base.Tactics Base.ZList Base.Str Model.OptionsModel.

Lemma qdecode_plain s : plain s = true -> qdecode s = s.
Proof.
  induction s as [|c r IH]; intros H; [reflexivity|].
  unfold plain in *. cbn [forallb] in H. apply andb_true_iff in H. destruct H as (Hc & Hr).
  cbn [qdecode]. unfold url_plain in Hc.
  destruct (c =? 43) eqn:E1; [lia|]. destruct (c =? 37) eqn:E2; [lia|].
  rewrite IH by exact Hr. reflexivity.
Qed.

Lemma digits_plain s : all_digits s = true -> plain s = true.
Proof.
  induction s as [|c r IH]; intros H; [reflexivity|].
  cbn [all_digits forallb] in H. apply andb_true_iff in H. destruct H as (Hc & Hr).
  unfold plain in *. cbn [forallb]. rewrite (IH Hr), andb_true_r. unfold is_digit in Hc. unfold url_plain. lia.
Qed.

Lemma str_eqb_refl s : str_eqb s s = true.
Proof. unfold str_eqb. destruct (list_eq_dec Z.eq_dec s s); [reflexivity|congruence]. Qed.
Lemma str_eqb_eq a b : str_eqb a b = true <-> a = b.
Proof. unfold str_eqb. destruct (list_eq_dec Z.eq_dec a b); split; congruence. Qed.
Lemma str_eqb_neq a b : a <> b -> str_eqb a b = false.
Proof. unfold str_eqb. destruct (list_eq_dec Z.eq_dec a b); congruence. Qed.

Lemma fmt_int_plain n : plain (fmt_int n) = true.
Proof.
  unfold fmt_int. destruct (n <? 0) eqn:E.
  - pose proof (digits_plain _ (dec_digits (- n) ltac:(lia))) as Hp. unfold plain in *. cbn [forallb]. rewrite Hp. reflexivity.
  - apply digits_plain, dec_digits. lia.
Qed.

Lemma digits_head s c r : all_digits s = true -> s = c :: r -> (c =? 45) = false.
Proof. intros H ->. cbn in H. apply andb_true_iff in H. destruct H as (H & _). unfold is_digit in H. lia. Qed.

Lemma parse_int_fmt n : parse_int (fmt_int n) = Some n.
Proof.
  unfold fmt_int. destruct (n <? 0) eqn:E.
  - cbn [parse_int]. rewrite Z.eqb_refl. rewrite (dec_digits (- n)) by lia.
    rewrite str_eqb_neq by apply dec_nonempty. cbn [andb negb]. rewrite dval_dec by lia. f_equal. lia.
  - pose proof (dec_digits n ltac:(lia)) as Hd. pose proof (dec_nonempty n) as Hn.
    destruct (dec n) as [|c r] eqn:Ed; [congruence|]. cbn [parse_int].
    rewrite (digits_head _ c r Hd eq_refl). rewrite Hd. rewrite <- Ed. rewrite dval_dec by lia. reflexivity.
Qed.

Lemma fmt_int_not_none n : str_eqb (fmt_int n) [] = false /\ str_eqb (fmt_int n) s_none = false.
Proof.
  split; apply str_eqb_neq.
  - unfold fmt_int. destruct (n <? 0); [discriminate|apply dec_nonempty].
  - intros H. pose proof (fmt_int_plain n) as Hp. unfold fmt_int in H. destruct (n <? 0) eqn:E.
    + unfold s_none in H. discriminate.
    + pose proof (dec_digits n ltac:(lia)) as Hd. rewrite H in Hd. cbn in Hd. discriminate.
Qed.

(* ------------------------------------------------------------ comma separated lists *)
Lemma split_acc_nocomma s : forall cur rest, existsb (Z.eqb 44) s = false ->
  split_comma_acc (s ++ 44 :: rest) cur = rev (rev s ++ cur) :: split_comma_acc rest [].
Proof.
  induction s as [|c r IH]; intros cur rest H; cbn [app split_comma_acc].
  - rewrite Z.eqb_refl. reflexivity.
  - cbn [existsb] in H. apply orb_false_iff in H. destruct H as (Hc & Hr).
    replace (c =? 44) with false by (rewrite Z.eqb_sym; symmetry; exact Hc).
    rewrite IH by exact Hr. cbn [rev]. rewrite <- app_assoc. reflexivity.
Qed.
Lemma split_acc_last s : forall cur, existsb (Z.eqb 44) s = false ->
  split_comma_acc s cur = [rev (rev s ++ cur)].
Proof.
  induction s as [|c r IH]; intros cur H; cbn [split_comma_acc]; [reflexivity|].
  cbn [existsb] in H. apply orb_false_iff in H. destruct H as (Hc & Hr).
  replace (c =? 44) with false by (rewrite Z.eqb_sym; symmetry; exact Hc).
  rewrite IH by exact Hr. cbn [rev]. rewrite <- app_assoc. reflexivity.
Qed.

Lemma split_join l : l <> [] -> Forall (fun x => existsb (Z.eqb 44) x = false) l ->
  split_comma (join_comma l) = l.
Proof.
  unfold split_comma. induction l as [|x r IH]; intros Hne Hf; [congruence|].
  inversion Hf as [|? ? Hx Hr]; subst. destruct r as [|y r'].
  - cbn [join_comma]. rewrite split_acc_last by exact Hx. rewrite app_nil_r, rev_involutive. reflexivity.
  - change (join_comma (x :: y :: r')) with (x ++ 44 :: join_comma (y :: r')).
    rewrite split_acc_nocomma by exact Hx. rewrite app_nil_r, rev_involutive. f_equal.
    apply IH; [discriminate|exact Hr].
Qed.

Lemma lower_none_has_no_comma s : str_eqb (lower s) s_none = true -> existsb (Z.eqb 44) s = false.
Proof.
  intros H. apply str_eqb_eq in H. unfold s_none in H.
  destruct s as [|a [|b [|c [|d [|e r]]]]]; cbn in H; try discriminate.
  inv H. unfold lower_c in *. cbn [existsb].
  repeat match goal with H : (if ?t then _ else _) = _ |- _ => destruct t eqn:?; try lia end.
  all: lia.
Qed.

Lemma join_not_none l : l <> [] -> Forall (fun x => token_ok x = true) l -> is_none_text (join_comma l) = false.
Proof.
  intros Hne Hf. destruct l as [|x r]; [congruence|]. inversion Hf as [|? ? Hx Hr]; subst.
  unfold token_ok in Hx. apply andb_true_iff in Hx. destruct Hx as (Hx1 & Hx3).
  apply andb_true_iff in Hx1. destruct Hx1 as (Hx1 & Hx2).
  destruct r as [|y r'].
  - cbn [join_comma]. apply negb_true_iff in Hx2. exact Hx2.
  - change (join_comma (x :: y :: r')) with (x ++ 44 :: join_comma (y :: r')).
    unfold is_none_text. apply orb_false_iff. split.
    + apply str_eqb_neq. unfold lower. rewrite map_app. intros H. apply app_eq_nil in H. destruct H as (_ & H). discriminate.
    + destruct (str_eqb (lower (x ++ 44 :: join_comma (y :: r'))) s_none) eqn:E; [|reflexivity].
      apply lower_none_has_no_comma in E. rewrite existsb_app in E. cbn [existsb] in E.
      rewrite Z.eqb_refl in E. cbn [orb] in E. rewrite orb_true_r in E. discriminate.
Qed.

Lemma join_plain l : Forall (fun x => token_ok x = true) l -> plain (join_comma l) = true.
Proof.
  induction 1 as [|x r Hx Hr IH]; [reflexivity|].
  unfold token_ok in Hx. apply andb_true_iff in Hx. destruct Hx as (Hx1 & _).
  apply andb_true_iff in Hx1. destruct Hx1 as (Hx1 & _).
  destruct r as [|y r']; [exact Hx1|].
  change (join_comma (x :: y :: r')) with (x ++ 44 :: join_comma (y :: r')).
  unfold plain in *. rewrite forallb_app. cbn [forallb]. rewrite Hx1, IH. reflexivity.
Qed.

Lemma forallb_filter_id {A} (f : A -> bool) l : forallb f l = true -> filter f l = l.
Proof.
  induction l as [|x r IH]; intros H; [reflexivity|].
  cbn [forallb] in H. apply andb_true_iff in H. destruct H as (Hx & Hr).
  cbn [filter]. rewrite Hx, IH by exact Hr. reflexivity.
Qed.

(* ------------------------------------------------------------ the round trip *)
Theorem roundtrip k v : legal k v = true -> through_url k v = Some v.
Proof.
  unfold through_url. destruct k, v as [b|o|n|o|s|l]; cbn [legal fmt]; try discriminate; intros H.
  - (* bool *) destruct b; reflexivity.
  - (* int or none *) destruct o as [n|].
    + rewrite qdecode_plain by apply fmt_int_plain. cbn [parse].
      destruct (fmt_int_not_none n) as (H1 & H2). rewrite H1, H2. cbn [orb]. rewrite parse_int_fmt. reflexivity.
    + reflexivity.
  - (* int with default *) rewrite qdecode_plain by apply fmt_int_plain. cbn [parse].
    destruct (fmt_int_not_none n) as (H1 & H2). rewrite H1, H2. cbn [orb]. rewrite parse_int_fmt. reflexivity.
  - (* str or none *) destruct o as [s|]; [|reflexivity].
    apply andb_true_iff in H. destruct H as (Hp & Hn). rewrite qdecode_plain by exact Hp. cbn [parse].
    apply negb_true_iff in Hn. rewrite Hn. reflexivity.
  - (* str *) rewrite qdecode_plain by exact H. reflexivity.
  - (* list *)
    assert (Hf : Forall (fun x => token_ok x = true) l) by (apply Forall_forall; apply forallb_forall; exact H).
    rewrite qdecode_plain by (apply join_plain; exact Hf). cbn [parse].
    destruct l as [|x r]; [reflexivity|].
    rewrite join_not_none by (try discriminate; exact Hf).
    rewrite split_join.
    + f_equal. f_equal. apply forallb_filter_id.
      apply forallb_forall. intros y Hy. rewrite Forall_forall in Hf. specialize (Hf y Hy).
      unfold token_ok in Hf. apply andb_true_iff in Hf. destruct Hf as (Hf & _).
      apply andb_true_iff in Hf. destruct Hf as (_ & Hf). exact Hf.
    + discriminate.
    + apply Forall_forall. intros y Hy. rewrite Forall_forall in Hf. specialize (Hf y Hy).
      unfold token_ok in Hf. apply andb_true_iff in Hf. destruct Hf as (_ & Hf). apply negb_true_iff in Hf. exact Hf.
Qed.
