(* C07 - proofs about Model/OptionsModel.v *)
From Verif Require Import Base.Tactics Base.ZList Base.Str Model.IsoTimeModel Proofs.IsoTimeProofs Model.OptionsModel.

Lemma qdecode_plain s : plain s = true -> qdecode s = s.
Proof.
  induction s as [|c r IH]; intros H; [reflexivity|].
  unfold plain in *. cbn [forallb] in H. apply andb_true_iff in H. destruct H as (Hc & Hr).
  cbn [qdecode]. unfold url_plain in Hc.
  destruct (c =? 43) eqn:E1; [lia|]. destruct (c =? 37) eqn:E2; [lia|].
  rewrite IH by exact Hr. reflexivity.
Qed.

Lemma digits_plain s : all_digits s = true -> plain s = true.
Proof.
  induction s as [|c r IH]; intros H; [reflexivity|].
  cbn [all_digits forallb] in H. apply andb_true_iff in H. destruct H as (Hc & Hr).
  unfold plain in *. cbn [forallb]. rewrite (IH Hr), andb_true_r. unfold is_digit in Hc. unfold url_plain. lia.
Qed.

Lemma str_eqb_refl s : str_eqb s s = true.
Proof. unfold str_eqb. destruct (list_eq_dec Z.eq_dec s s); [reflexivity|congruence]. Qed.
Lemma str_eqb_eq a b : str_eqb a b = true <-> a = b.
Proof. unfold str_eqb. destruct (list_eq_dec Z.eq_dec a b); split; congruence. Qed.
Lemma str_eqb_neq a b : a <> b -> str_eqb a b = false.
Proof. unfold str_eqb. destruct (list_eq_dec Z.eq_dec a b); congruence. Qed.

Lemma fmt_int_plain n : plain (fmt_int n) = true.
Proof.
  unfold fmt_int. destruct (n <? 0) eqn:E.
  - pose proof (digits_plain _ (dec_digits (- n) ltac:(lia))) as Hp. unfold plain in *. cbn [forallb]. rewrite Hp. reflexivity.
  - apply digits_plain, dec_digits. lia.
Qed.

Lemma digits_head s c r : all_digits s = true -> s = c :: r -> (c =? 45) = false.
Proof. intros H ->. cbn in H. apply andb_true_iff in H. destruct H as (H & _). unfold is_digit in H. lia. Qed.

Lemma parse_int_fmt n : parse_int (fmt_int n) = Some n.
Proof.
  unfold fmt_int. destruct (n <? 0) eqn:E.
  - cbn [parse_int]. rewrite Z.eqb_refl. rewrite (dec_digits (- n)) by lia.
    rewrite str_eqb_neq by apply dec_nonempty. cbn [andb negb]. rewrite dval_dec by lia. f_equal. lia.
  - pose proof (dec_digits n ltac:(lia)) as Hd. pose proof (dec_nonempty n) as Hn.
    destruct (dec n) as [|c r] eqn:Ed; [congruence|]. cbn [parse_int].
    rewrite (digits_head _ c r Hd eq_refl). rewrite Hd. rewrite <- Ed. rewrite dval_dec by lia. reflexivity.
Qed.

Lemma fmt_int_not_none n : str_eqb (fmt_int n) [] = false /\ str_eqb (fmt_int n) s_none = false.
Proof.
  split; apply str_eqb_neq.
  - unfold fmt_int. destruct (n <? 0); [discriminate|apply dec_nonempty].
  - intros H. pose proof (fmt_int_plain n) as Hp. unfold fmt_int in H. destruct (n <? 0) eqn:E.
    + unfold s_none in H. discriminate.
    + pose proof (dec_digits n ltac:(lia)) as Hd. rewrite H in Hd. cbn in Hd. discriminate.
Qed.

(* ------------------------------------------------------------ comma separated lists *)
Lemma split_acc_nocomma s : forall cur rest, existsb (Z.eqb 44) s = false ->
  split_comma_acc (s ++ 44 :: rest) cur = rev (rev s ++ cur) :: split_comma_acc rest [].
Proof.
  induction s as [|c r IH]; intros cur rest H; cbn [app split_comma_acc].
  - rewrite Z.eqb_refl. reflexivity.
  - cbn [existsb] in H. apply orb_false_iff in H. destruct H as (Hc & Hr).
    replace (c =? 44) with false by (rewrite Z.eqb_sym; symmetry; exact Hc).
    rewrite IH by exact Hr. cbn [rev]. rewrite <- app_assoc. reflexivity.
Qed.
Lemma split_acc_last s : forall cur, existsb (Z.eqb 44) s = false ->
  split_comma_acc s cur = [rev (rev s ++ cur)].
Proof.
  induction s as [|c r IH]; intros cur H; cbn [split_comma_acc]; [reflexivity|].
  cbn [existsb] in H. apply orb_false_iff in H. destruct H as (Hc & Hr).
  replace (c =? 44) with false by (rewrite Z.eqb_sym; symmetry; exact Hc).
  rewrite IH by exact Hr. cbn [rev]. rewrite <- app_assoc. reflexivity.
Qed.

Lemma split_join l : l <> [] -> Forall (fun x => existsb (Z.eqb 44) x = false) l ->
  split_comma (join_comma l) = l.
Proof.
  unfold split_comma. induction l as [|x r IH]; intros Hne Hf; [congruence|].
  inversion Hf as [|? ? Hx Hr]; subst. destruct r as [|y r'].
  - cbn [join_comma]. rewrite split_acc_last by exact Hx. rewrite app_nil_r, rev_involutive. reflexivity.
  - change (join_comma (x :: y :: r')) with (x ++ 44 :: join_comma (y :: r')).
    rewrite split_acc_nocomma by exact Hx. rewrite app_nil_r, rev_involutive. f_equal.
    apply IH; [discriminate|exact Hr].
Qed.

Lemma lower_none_has_no_comma s : str_eqb (lower s) s_none = true -> existsb (Z.eqb 44) s = false.
Proof.
  intros H. apply str_eqb_eq in H. unfold s_none in H.
  destruct s as [|a [|b [|c [|d [|e r]]]]]; cbn in H; try discriminate.
  inv H. unfold lower_c in *. cbn [existsb].
  repeat match goal with H : (if ?t then _ else _) = _ |- _ => destruct t eqn:?; try lia end.
  all: lia.
Qed.

Lemma join_not_none l : l <> [] -> Forall (fun x => token_ok x = true) l -> is_none_text (join_comma l) = false.
Proof.
  intros Hne Hf. destruct l as [|x r]; [congruence|]. inversion Hf as [|? ? Hx Hr]; subst.
  unfold token_ok in Hx. apply andb_true_iff in Hx. destruct Hx as (Hx1 & Hx3).
  apply andb_true_iff in Hx1. destruct Hx1 as (Hx1 & Hx2).
  destruct r as [|y r'].
  - cbn [join_comma]. apply negb_true_iff in Hx2. exact Hx2.
  - change (join_comma (x :: y :: r')) with (x ++ 44 :: join_comma (y :: r')).
    unfold is_none_text. apply orb_false_iff. split.
    + apply str_eqb_neq. unfold lower. rewrite map_app. intros H. apply app_eq_nil in H. destruct H as (_ & H). discriminate.
    + destruct (str_eqb (lower (x ++ 44 :: join_comma (y :: r'))) s_none) eqn:E; [|reflexivity].
      apply lower_none_has_no_comma in E. rewrite existsb_app in E. cbn [existsb] in E.
      rewrite Z.eqb_refl in E. cbn [orb] in E. rewrite orb_true_r in E. discriminate.
Qed.

Lemma join_plain l : Forall (fun x => token_ok x = true) l -> plain (join_comma l) = true.
Proof.
  induction 1 as [|x r Hx Hr IH]; [reflexivity|].
  unfold token_ok in Hx. apply andb_true_iff in Hx. destruct Hx as (Hx1 & _).
  apply andb_true_iff in Hx1. destruct Hx1 as (Hx1 & _).
  destruct r as [|y r']; [exact Hx1|].
  change (join_comma (x :: y :: r')) with (x ++ 44 :: join_comma (y :: r')).
  unfold plain in *. rewrite forallb_app. cbn [forallb]. rewrite Hx1, IH. reflexivity.
Qed.

Lemma forallb_filter_id {A} (f : A -> bool) l : forallb f l = true -> filter f l = l.
Proof.
  induction l as [|x r IH]; intros H; [reflexivity|].
  cbn [forallb] in H. apply andb_true_iff in H. destruct H as (Hx & Hr).
  cbn [filter]. rewrite Hx, IH by exact Hr. reflexivity.
Qed.

(* ------------------------------------------------------------ quote_plus through the query string *)
Lemma hexval_hexdigit n : 0 <= n < 16 -> hexval (hexdigit n) = Some n.
Proof.
  intros Hn. unfold hexdigit, hexval. destruct (n <? 10) eqn:E.
  - replace ((48 <=? 48 + n) && (48 + n <=? 57)) with true by lia. f_equal. lia.
  - replace ((48 <=? 55 + n) && (55 + n <=? 57)) with false by lia.
    replace ((65 <=? 55 + n) && (55 + n <=? 70)) with true by lia. f_equal. lia.
Qed.

Lemma qdecode_quote_plus s : forallb is_byte s = true -> qdecode (quote_plus s) = s.
Proof.
  induction s as [|c r IH]; intros H; [reflexivity|].
  cbn [forallb] in H. apply andb_true_iff in H. destruct H as (Hc & Hr). unfold is_byte in Hc.
  cbn [quote_plus]. destruct (url_safe c) eqn:Es.
  - cbn [app qdecode]. unfold url_safe in Es.
    destruct (c =? 43) eqn:E1; [lia|]. destruct (c =? 37) eqn:E2; [lia|]. rewrite IH by exact Hr. reflexivity.
  - destruct (c =? 32) eqn:E32.
    + cbn [app qdecode]. change (43 =? 43) with true. cbv iota. rewrite IH by exact Hr. f_equal. lia.
    + cbn [app qdecode]. change (37 =? 43) with false. change (37 =? 37) with true. cbv iota.
      rewrite (hexval_hexdigit (c / 16)) by lia. rewrite (hexval_hexdigit (c mod 16)) by lia.
      rewrite IH by exact Hr. f_equal. lia.
Qed.

(* ------------------------------------------------------------ error lists *)
Lemma split_on_nochar d s : forall cur rest, existsb (Z.eqb d) s = false ->
  split_on_acc d (s ++ d :: rest) cur = rev (rev s ++ cur) :: split_on_acc d rest [].
Proof.
  induction s as [|c r IH]; intros cur rest H; cbn [app split_on_acc].
  - rewrite Z.eqb_refl. reflexivity.
  - cbn [existsb] in H. apply orb_false_iff in H. destruct H as (Hc & Hr).
    replace (c =? d) with false by (rewrite Z.eqb_sym; symmetry; exact Hc).
    rewrite IH by exact Hr. cbn [rev]. rewrite <- app_assoc. reflexivity.
Qed.
Lemma split_on_last d s : forall cur, existsb (Z.eqb d) s = false ->
  split_on_acc d s cur = [rev (rev s ++ cur)].
Proof.
  induction s as [|c r IH]; intros cur H; cbn [split_on_acc]; [reflexivity|].
  cbn [existsb] in H. apply orb_false_iff in H. destruct H as (Hc & Hr).
  replace (c =? d) with false by (rewrite Z.eqb_sym; symmetry; exact Hc).
  rewrite IH by exact Hr. cbn [rev]. rewrite <- app_assoc. reflexivity.
Qed.

Lemma digits_nochar d s : all_digits s = true -> is_digit d = false -> existsb (Z.eqb d) s = false.
Proof.
  induction s as [|c r IH]; intros H Hd; [reflexivity|].
  cbn [all_digits forallb] in H. apply andb_true_iff in H. destruct H as (Hc & Hr).
  cbn [existsb]. rewrite (IH Hr Hd), orb_false_r. destruct (d =? c) eqn:E; [|reflexivity].
  assert (d = c) by lia. subst. congruence.
Qed.
Lemma fmt_int_nochar d n : d <> 45 -> is_digit d = false -> existsb (Z.eqb d) (fmt_int n) = false.
Proof.
  intros H45 Hd. unfold fmt_int. destruct (n <? 0) eqn:E.
  - cbn [existsb]. rewrite (digits_nochar d _ (dec_digits (- n) ltac:(lia)) Hd). lia.
  - apply digits_nochar; [apply dec_digits; lia|exact Hd].
Qed.

Lemma parse_err_fmt e : parse_err (fmt_err e) = Some e.
Proof.
  destruct e as (c, p). unfold parse_err, fmt_err. cbn [fst snd].
  rewrite split_on_nochar by (apply fmt_int_nochar; [lia|reflexivity]).
  rewrite split_on_last by (apply fmt_int_nochar; [lia|reflexivity]).
  rewrite !app_nil_r, !rev_involutive, !parse_int_fmt. reflexivity.
Qed.
Lemma parse_errs_fmt l : parse_errs (map fmt_err l) = Some l.
Proof. induction l as [|e r IH]; [reflexivity|]. cbn [map parse_errs]. rewrite parse_err_fmt, IH. reflexivity. Qed.

Lemma fmt_err_nocomma e : existsb (Z.eqb 44) (fmt_err e) = false.
Proof.
  unfold fmt_err. rewrite existsb_app. cbn [existsb].
  rewrite !fmt_int_nochar by (try lia; reflexivity). reflexivity.
Qed.
Lemma fmt_err_plain e : plain (fmt_err e) = true.
Proof.
  unfold fmt_err, plain. rewrite forallb_app. cbn [forallb].
  pose proof (fmt_int_plain (fst e)) as H1. pose proof (fmt_int_plain (snd e)) as H2. unfold plain in *.
  rewrite H1, H2. reflexivity.
Qed.
Lemma join_plain_gen l : Forall (fun x => plain x = true) l -> plain (join_comma l) = true.
Proof.
  induction 1 as [|x r Hx Hr IH]; [reflexivity|].
  destruct r as [|y r']; [exact Hx|].
  change (join_comma (x :: y :: r')) with (x ++ 44 :: join_comma (y :: r')).
  unfold plain in *. rewrite forallb_app. cbn [forallb]. rewrite Hx, IH. reflexivity.
Qed.
Lemma lower_none_has_no_eq s : str_eqb (lower s) s_none = true -> existsb (Z.eqb 61) s = false.
Proof.
  intros H. apply str_eqb_eq in H. unfold s_none in H.
  destruct s as [|a [|b [|c [|d [|e r]]]]]; cbn in H; try discriminate.
  inv H. unfold lower_c in *. cbn [existsb].
  repeat match goal with H : (if ?t then _ else _) = _ |- _ => destruct t eqn:?; try lia end.
  all: lia.
Qed.
Lemma join_errs_not_none l : l <> [] -> is_none_text (join_comma (map fmt_err l)) = false.
Proof.
  intros Hne. destruct l as [|e r]; [congruence|].
  assert (He : existsb (Z.eqb 61) (join_comma (map fmt_err (e :: r))) = true).
  { cbn [map]. assert (Hfe : existsb (Z.eqb 61) (fmt_err e) = true).
    { unfold fmt_err. rewrite existsb_app. cbn [existsb]. rewrite Z.eqb_refl. cbn [orb]. apply orb_true_r. }
    destruct (map fmt_err r) as [|y r']; [exact Hfe|].
    change (join_comma (fmt_err e :: y :: r')) with (fmt_err e ++ 44 :: join_comma (y :: r')).
    rewrite existsb_app, Hfe. reflexivity. }
  unfold is_none_text. apply orb_false_iff. split.
  - apply str_eqb_neq. intros H. unfold lower in H. apply map_eq_nil in H. rewrite H in He. discriminate.
  - destruct (str_eqb (lower (join_comma (map fmt_err (e :: r)))) s_none) eqn:E; [|reflexivity].
    apply lower_none_has_no_eq in E. congruence.
Qed.

(* ------------------------------------------------------------ availabilityStartTime *)
Lemma qdecode_quote_colon s : forallb is_byte s = true -> qdecode (quote_colon s) = s.
Proof.
  induction s as [|c r IH]; intros H; [reflexivity|].
  cbn [forallb] in H. apply andb_true_iff in H. destruct H as (Hc & Hr). unfold is_byte in Hc.
  cbn [quote_colon]. destruct (url_safe c || (c =? 58)) eqn:Es.
  - cbn [app qdecode]. unfold url_safe in Es.
    destruct (c =? 43) eqn:E1; [lia|]. destruct (c =? 37) eqn:E2; [lia|]. rewrite IH by exact Hr. reflexivity.
  - cbn [app qdecode]. change (37 =? 43) with false. change (37 =? 37) with true. cbv iota.
    rewrite (hexval_hexdigit (c / 16)) by lia. rewrite (hexval_hexdigit (c mod 16)) by lia.
    rewrite IH by exact Hr. f_equal. lia.
Qed.

Lemma digits_bytes s : all_digits s = true -> forallb is_byte s = true.
Proof.
  induction s as [|c r IH]; intros H; [reflexivity|].
  cbn [all_digits forallb] in H. apply andb_true_iff in H. destruct H as (Hc & Hr).
  cbn [forallb]. rewrite (IH Hr), andb_true_r. unfold is_digit in Hc. unfold is_byte. lia.
Qed.
Lemma pad_bytes w n : 0 <= n -> forallb is_byte (pad w n) = true.
Proof. intros H. apply digits_bytes, pad_digits. exact H. Qed.

Lemma fmt_datetime_bytes d : valid_dt d = true -> forallb is_byte (fmt_datetime d) = true.
Proof.
  intros Hv. unfold valid_dt in Hv. repeat (apply andb_true_iff in Hv; destruct Hv as (Hv & ?)).
  unfold fmt_datetime. rewrite !forallb_app. rewrite !pad_bytes by lia. cbn [forallb andb].
  assert (Hus : forallb is_byte (if d_us d =? 0 then [] else cDot :: pad 6 (d_us d)) = true).
  { destruct (d_us d =? 0); [reflexivity|]. cbn [forallb]. rewrite pad_bytes by lia. reflexivity. }
  rewrite Hus. cbn [andb].
  destruct (d_off d) as [o|]; [|reflexivity]. destruct (o =? 0); [reflexivity|].
  unfold fmt_offset. cbn [forallb]. rewrite !forallb_app. rewrite !pad_bytes.
  - destruct (o <? 0); reflexivity.
  - apply Z.mod_pos_bound. lia.
  - apply Z.div_pos; lia.
Qed.

Lemma fmt_datetime_head d : valid_dt d = true -> exists c r, fmt_datetime d = c :: r /\ is_digit c = true.
Proof.
  intros Hv. unfold valid_dt in Hv. repeat (apply andb_true_iff in Hv; destruct Hv as (Hv & ?)).
  pose proof (pad_digits 4 (d_year d) ltac:(lia)) as Hd. pose proof (pad_nonempty 4 (d_year d)) as Hn.
  unfold fmt_datetime. destruct (pad 4 (d_year d)) as [|c r]; [congruence|].
  cbn [all_digits forallb] in Hd. apply andb_true_iff in Hd. destruct Hd as (Hc & _).
  eexists c, _. split; [reflexivity|exact Hc].
Qed.
Lemma fmt_datetime_not_special d : valid_dt d = true -> in_special (fmt_datetime d) = false.
Proof.
  intros Hv. destruct (fmt_datetime_head d Hv) as (c & r & E & Hc). rewrite E.
  unfold is_digit in Hc. unfold in_special, special_ast. cbn [existsb].
  rewrite !str_eqb_neq; [reflexivity| | | | |]; intros H; inversion H; lia.
Qed.

(* ------------------------------------------------------------ PlayReady version (tenths) *)
Lemma fmt_tenths_parse t : 0 <= t -> parse_tenths (fmt_tenths t) = Some t.
Proof.
  intros Ht. unfold parse_tenths, fmt_tenths.
  assert (Hq : 0 <= t / 10) by (apply Z.div_pos; lia).
  pose proof (dec_digits (t / 10) Hq) as Hd. pose proof (dec_nonempty (t / 10)) as Hn.
  change (dec (t / 10) ++ [46; 48 + t mod 10]) with (dec (t / 10) ++ 46 :: [48 + t mod 10]).
  rewrite split_on_nochar by (apply digits_nochar; [exact Hd|reflexivity]).
  assert (Hm : 0 <= t mod 10 < 10) by (apply Z.mod_pos_bound; lia).
  cbn [split_on_acc]. replace (48 + t mod 10 =? 46) with false by lia. cbn [split_on_acc rev app].
  rewrite app_nil_r, rev_involutive. rewrite Hd. rewrite str_eqb_neq by exact Hn. cbn [negb andb].
  replace (is_digit (48 + t mod 10)) with true by (unfold is_digit; lia).
  rewrite dval_dec by exact Hq. f_equal. lia.
Qed.
Lemma fmt_tenths_plain t : 0 <= t -> plain (fmt_tenths t) = true.
Proof.
  intros Ht. unfold fmt_tenths, plain. rewrite forallb_app.
  assert (Hq : 0 <= t / 10) by (apply Z.div_pos; lia).
  pose proof (digits_plain _ (dec_digits (t / 10) Hq)) as Hp. unfold plain in Hp. rewrite Hp.
  assert (Hm : 0 <= t mod 10 < 10) by (apply Z.mod_pos_bound; lia).
  cbn [forallb andb]. unfold url_plain. lia.
Qed.
Lemma fmt_tenths_not_none t : 0 <= t -> str_eqb (fmt_tenths t) [] = false /\ str_eqb (fmt_tenths t) s_none = false.
Proof.
  intros Ht. assert (Hq : 0 <= t / 10) by (apply Z.div_pos; lia).
  pose proof (dec_digits (t / 10) Hq) as Hd. pose proof (dec_nonempty (t / 10)) as Hn.
  unfold fmt_tenths. destruct (dec (t / 10)) as [|c r] eqn:E; [congruence|].
  cbn [all_digits forallb] in Hd. apply andb_true_iff in Hd. destruct Hd as (Hc & _). unfold is_digit in Hc.
  split; apply str_eqb_neq; [discriminate|]. unfold s_none. cbn [app]. intros H. inversion H. lia.
Qed.

(* ------------------------------------------------------------ the round trip *)
Theorem roundtrip k v : legal k v = true -> through_url k v = Some v.
Proof.
  unfold through_url. destruct k as [| | dflt | | | | | | | | |], v as [b|o|n|o|s|l|el|sy|dtv|dl]; cbn [legal fmt]; try discriminate; intros H.
  - (* bool *) destruct b; reflexivity.
  - (* int or none *) destruct o as [n|].
    + rewrite qdecode_plain by apply fmt_int_plain. cbn [parse].
      destruct (fmt_int_not_none n) as (H1 & H2). rewrite H1, H2. cbn [orb]. rewrite parse_int_fmt. reflexivity.
    + reflexivity.
  - (* int with default *) rewrite qdecode_plain by apply fmt_int_plain. cbn [parse].
    destruct (fmt_int_not_none n) as (H1 & H2). rewrite H1, H2. cbn [orb]. rewrite parse_int_fmt. reflexivity.
  - (* str or none *) destruct o as [s|]; [|reflexivity].
    apply andb_true_iff in H. destruct H as (Hp & Hn). rewrite qdecode_plain by exact Hp. cbn [parse].
    apply negb_true_iff in Hn. rewrite Hn. reflexivity.
  - (* str *) rewrite qdecode_plain by exact H. reflexivity.
  - (* list *)
    assert (Hf : Forall (fun x => token_ok x = true) l) by (apply Forall_forall; apply forallb_forall; exact H).
    rewrite qdecode_plain by (apply join_plain; exact Hf). cbn [parse].
    destruct l as [|x r]; [reflexivity|].
    rewrite join_not_none by (try discriminate; exact Hf).
    rewrite split_join.
    + f_equal. f_equal. apply forallb_filter_id.
      apply forallb_forall. intros y Hy. rewrite Forall_forall in Hf. specialize (Hf y Hy).
      unfold token_ok in Hf. apply andb_true_iff in Hf. destruct Hf as (Hf & _).
      apply andb_true_iff in Hf. destruct Hf as (_ & Hf). exact Hf.
    + discriminate.
    + apply Forall_forall. intros y Hy. rewrite Forall_forall in Hf. specialize (Hf y Hy).
      unfold token_ok in Hf. apply andb_true_iff in Hf. destruct Hf as (_ & Hf). apply negb_true_iff in Hf. exact Hf.
  - (* PlayReady version, in tenths *) destruct o as [t|]; [|reflexivity].
    assert (Ht : 0 <= t) by lia.
    rewrite qdecode_plain by (apply fmt_tenths_plain; exact Ht). cbn [parse].
    destruct (fmt_tenths_not_none t Ht) as (H1 & H2). rewrite H1, H2. cbn [orb]. rewrite fmt_tenths_parse by exact Ht. reflexivity.
  - (* licence URL: any text, reserved characters included *) destruct o as [s|]; [|reflexivity].
    apply andb_true_iff in H. destruct H as (Hb & Hn). rewrite qdecode_quote_plus by exact Hb. cbn [parse].
    apply negb_true_iff in Hn. rewrite Hn. reflexivity.
  - (* start=<symbolic name> *)
    assert (Hp : plain sy = true).
    { unfold in_special, special_ast in H. cbn [existsb] in H.
      repeat (apply orb_true_iff in H; destruct H as [H|H]); try discriminate; apply str_eqb_eq in H; subst; reflexivity. }
    rewrite qdecode_plain by exact Hp. cbn [parse]. rewrite H. reflexivity.
  - (* start=<date-time>, any UTC offset *)
    apply andb_true_iff in H. destruct H as (H & Ho). apply andb_true_iff in H. destruct H as (Hv & Hoff).
    rewrite qdecode_quote_colon by (apply fmt_datetime_bytes; exact Hv). cbn [parse].
    rewrite fmt_datetime_not_special by exact Hv.
    rewrite (datetime_roundtrip dtv Hv Hoff). destruct dtv as [y mo dd h mi se us off]. cbn [d_off] in Ho.
    destruct off as [o|]; [|discriminate]. reflexivity.
  - (* error list *)
    rewrite qdecode_plain by (apply join_plain_gen, Forall_forall; intros x Hx; apply in_map_iff in Hx;
                              destruct Hx as (e & <- & _); apply fmt_err_plain).
    cbn [parse]. destruct el as [|e r]; [reflexivity|].
    rewrite join_errs_not_none by discriminate.
    rewrite split_join.
    + rewrite parse_errs_fmt. reflexivity.
    + discriminate.
    + apply Forall_forall. intros x Hx. apply in_map_iff in Hx. destruct Hx as (e' & <- & _). apply fmt_err_nocomma.
Qed.

(* ------------------------------------------------------------ DRM selection *)
Definition all_items : list (Z * locs) :=
  flat_map (fun s => map (fun L => (s, L))
    [(true, true, true); (true, true, false); (true, false, true); (true, false, false);
     (false, true, true); (false, true, false); (false, false, true)]) [0; 1; 2].

Lemma legal_item_in i : legal_item i = true -> In i all_items.
Proof.
  destruct i as (s, ((c, m), p)). unfold legal_item. intros H.
  apply andb_true_iff in H. destruct H as (H & Hl). apply andb_true_iff in H. destruct H as (H0 & H2).
  assert (Hs : s = 0 \/ s = 1 \/ s = 2) by lia.
  destruct Hs as [->|[->| ->]]; destruct c, m, p; try discriminate; cbn; tauto.
Qed.

(* everything the list-level proof needs to know about one item, checked over the 21 legal items *)
Definition item_facts (i : Z * locs) : bool :=
  let t := fmt_item i in
  (match parse_item t with Some j => Z.eqb (fst j) (fst i) && locs_eqb (snd j) (snd i) | None => false end)
  && negb (existsb (Z.eqb 44) t) && plain t && str_eqb (lower t) t
  && negb (starts_with s_none t) && negb (starts_with s_all t) && (4 <=? zlen t)
  && (if is_sys_name t then locs_eqb (snd i) all_locs && str_eqb t (sys_name (fst i)) else true).
Lemma item_facts_all : forallb item_facts all_items = true.
Proof. vm_compute. reflexivity. Qed.
Lemma item_facts_of i : legal_item i = true -> item_facts i = true.
Proof. intros H. pose proof item_facts_all as F. rewrite forallb_forall in F. apply F, legal_item_in, H. Qed.

Lemma locs_eqb_eq a b : locs_eqb a b = true -> a = b.
Proof. destruct a as ((a1, a2), a3), b as ((b1, b2), b3). destruct a1, a2, a3, b1, b2, b3; cbn; congruence. Qed.

Lemma item_parse i : legal_item i = true -> parse_item (fmt_item i) = Some i.
Proof.
  intros H. pose proof (item_facts_of i H) as F. unfold item_facts in F.
  repeat (apply andb_true_iff in F; destruct F as (F & ?)).
  destruct (parse_item (fmt_item i)) as [j|]; [|discriminate].
  apply andb_true_iff in F. destruct F as (F1 & F2). apply locs_eqb_eq in F2.
  destruct i, j. cbn [fst snd] in *. f_equal. f_equal; [lia|exact F2].
Qed.
Lemma items_parse l : legal_drm l = true -> parse_items (map fmt_item l) = Some l.
Proof.
  induction l as [|i r IH]; intros H; [reflexivity|]. unfold legal_drm in *. cbn [forallb] in H.
  apply andb_true_iff in H. destruct H as (Hi & Hr). cbn [map parse_items]. rewrite item_parse by exact Hi.
  rewrite IH by exact Hr. reflexivity.
Qed.

Lemma lower_join l : lower (join_comma l) = join_comma (map lower l).
Proof.
  induction l as [|x r IH]; [reflexivity|]. destruct r as [|y r']; [reflexivity|].
  change (join_comma (x :: y :: r')) with (x ++ 44 :: join_comma (y :: r')).
  cbn [map]. change (join_comma (lower x :: lower y :: map lower r')) with (lower x ++ 44 :: join_comma (map lower (y :: r'))).
  rewrite <- IH. unfold lower. rewrite map_app. reflexivity.
Qed.

Lemma starts_with_app p x r : zlen p <= zlen x -> starts_with p (x ++ r) = starts_with p x.
Proof.
  revert x. induction p as [|a p IH]; intros x H; [reflexivity|].
  destruct x as [|b x]; [rewrite zlen_cons, zlen_nil in H; pose proof (zlen_nonneg p); lia|].
  cbn [app starts_with]. rewrite IH; [reflexivity|]. rewrite !zlen_cons in H. lia.
Qed.

Lemma join_head x r : exists rest, join_comma (x :: r) = x ++ rest.
Proof. destruct r as [|y r']; [exists []; cbn; rewrite app_nil_r; reflexivity|eexists; reflexivity]. Qed.

Theorem drm_roundtrip l : legal_drm l = true -> through_url KDrm (VDrm l) = Some (VDrm (drm_canon l)).
Proof.
  intros H. unfold through_url, drm_canon. cbn [fmt]. destruct (is_all (map fmt_item l)) eqn:Ea; [reflexivity|].
  assert (Hf : Forall (fun i => item_facts i = true) l).
  { apply Forall_forall. intros i Hi. apply item_facts_of. unfold legal_drm in H. rewrite forallb_forall in H. apply H, Hi. }
  set (items := map fmt_item l).
  assert (Hfi : forall t, In t items -> exists i, t = fmt_item i /\ item_facts i = true).
  { intros t Ht. apply in_map_iff in Ht. destruct Ht as (i & <- & Hi). exists i. split; [reflexivity|].
    rewrite Forall_forall in Hf. apply Hf, Hi. }
  assert (Hplain : plain (join_comma items) = true).
  { apply join_plain_gen, Forall_forall. intros t Ht. destruct (Hfi t Ht) as (i & -> & F). unfold item_facts in F.
    repeat (apply andb_true_iff in F; destruct F as (F & ?)). assumption. }
  rewrite qdecode_plain by exact Hplain. cbn [parse].
  assert (Hlow : lower (join_comma items) = join_comma items).
  { rewrite lower_join. f_equal. rewrite <- (map_id items) at 2. apply map_ext_in. intros t Ht.
    destruct (Hfi t Ht) as (i & -> & F). unfold item_facts in F.
    repeat (apply andb_true_iff in F; destruct F as (F & ?)).
    match goal with Hq : str_eqb (lower _) _ = true |- _ => apply str_eqb_eq in Hq; exact Hq end. }
  rewrite Hlow.
  destruct l as [|i r]; [reflexivity|].
  assert (Fi : item_facts i = true) by (inversion Hf; assumption).
  unfold item_facts in Fi. repeat (apply andb_true_iff in Fi; destruct Fi as (Fi & ?)).
  destruct (join_head (fmt_item i) (map fmt_item r)) as (rest & Ej). unfold items. cbn [map]. rewrite Ej.
  rewrite (starts_with_app s_none) by (change (zlen s_none) with 4; lia).
  rewrite (starts_with_app s_all) by (change (zlen s_all) with 3; lia).
  repeat match goal with Hq : negb _ = true |- _ => apply negb_true_iff in Hq end.
  match goal with Hq : starts_with s_none _ = false |- _ => rewrite Hq end.
  match goal with Hq : starts_with s_all _ = false |- _ => rewrite Hq end.
  assert (Hne : str_eqb (fmt_item i ++ rest) [] = false).
  { apply str_eqb_neq. intros Hn. apply app_eq_nil in Hn. destruct Hn as (Hn & _). rewrite Hn in *.
    match goal with Hq : (4 <=? zlen []) = true |- _ => rewrite zlen_nil in Hq; lia end. }
  rewrite Hne. cbn [orb]. rewrite <- Ej.
  change (fmt_item i :: map fmt_item r) with (map fmt_item (i :: r)).
  rewrite split_join.
  - rewrite items_parse by exact H. reflexivity.
  - discriminate.
  - apply Forall_forall. intros t Ht. destruct (Hfi t Ht) as (j & -> & F). unfold item_facts in F.
    repeat (apply andb_true_iff in F; destruct F as (F & ?)).
    match goal with Hq : negb (existsb (Z.eqb 44) _) = true |- _ => apply negb_true_iff in Hq; exact Hq end.
Qed.

(* the canonical form lists the same (system, locations) pairs *)
Lemma sys_name_inj a b : 0 <= a <= 2 -> 0 <= b <= 2 -> sys_name a = sys_name b -> a = b.
Proof.
  intros Ha Hb. assert (A : a = 0 \/ a = 1 \/ a = 2) by lia. assert (B : b = 0 \/ b = 1 \/ b = 2) by lia.
  destruct A as [->|[->| ->]], B as [->|[->| ->]]; cbn; intros E; try reflexivity; discriminate.
Qed.

Lemma bare_item j : legal_item j = true -> is_sys_name (fmt_item j) = true ->
  snd j = all_locs /\ fmt_item j = sys_name (fst j) /\ 0 <= fst j <= 2.
Proof.
  intros Hl Hn. pose proof (item_facts_of j Hl) as F. unfold item_facts in F.
  repeat (apply andb_true_iff in F; destruct F as (F & ?)).
  match goal with Hq : (if is_sys_name _ then _ else _) = true |- _ => rewrite Hn in Hq; apply andb_true_iff in Hq; destruct Hq as (Q1 & Q2) end.
  apply locs_eqb_eq in Q1. apply str_eqb_eq in Q2. split; [exact Q1|]. split; [exact Q2|].
  destruct j as (s, ((c, m), p)). unfold legal_item in Hl. cbn [fst]. lia.
Qed.

Theorem drm_canon_same l : legal_drm l = true -> forall i, In i (drm_canon l) <-> In i l.
Proof.
  intros H i. unfold drm_canon. destruct (is_all (map fmt_item l)) eqn:Ea; [|tauto].
  unfold is_all in Ea. repeat (apply andb_true_iff in Ea; destruct Ea as (Ea & ?)).
  unfold legal_drm in H. rewrite forallb_forall in H, Ea.
  assert (Hfind : forall k, 0 <= k <= 2 -> existsb (str_eqb (sys_name k)) (map fmt_item l) = true -> In (k, all_locs) l).
  { intros k Hk He. apply existsb_exists in He. destruct He as (t & Ht & Heq). apply str_eqb_eq in Heq. subst t.
    apply in_map_iff in Ht. destruct Ht as (j & Ej & Hj).
    destruct (bare_item j (H j Hj)) as (Q1 & Q2 & Q3).
    { rewrite Ej. unfold is_sys_name, sys_of. assert (K : k = 0 \/ k = 1 \/ k = 2) by lia.
      destruct K as [->|[->| ->]]; reflexivity. }
    rewrite Q2 in Ej. apply sys_name_inj in Ej; [|exact Q3|exact Hk].
    destruct j as (s, L). cbn [fst snd] in *. subst. exact Hj. }
  split.
  - intros Hi. cbn [every_system In] in Hi. destruct Hi as [<-|[<-|[<-|[]]]]; apply Hfind; try lia; assumption.
  - intros Hi. destruct (bare_item i (H i Hi)) as (Q1 & _ & Q3).
    { apply Ea. apply in_map. exact Hi. }
    destruct i as (s, L). cbn [fst snd] in *. subst L. cbn [every_system In].
    assert (K : s = 0 \/ s = 1 \/ s = 2) by lia. destruct K as [->|[->| ->]]; tauto.
Qed.

(* a licence URL with reserved characters, a '+' and a %XX escape in it arrives unchanged (it did not before the repair
   of the double decoding in /repo: from_string applied unquote_plus to what request.args had already decoded) *)
Example url_with_plus_and_percent :
  through_url KUrl (VOptStr (Some [97; 43; 98; 37; 52; 49; 32; 38; 61])) = Some (VOptStr (Some [97; 43; 98; 37; 52; 49; 32; 38; 61])).
Proof. vm_compute. reflexivity. Qed.
