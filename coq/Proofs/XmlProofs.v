From Verif Require Import Base.Tactics Base.ZList Base.Str Model.XmlModel.

Lemma existsb_app_false {A} (f : A -> bool) a b :
  existsb f a = false -> existsb f b = false -> existsb f (a ++ b) = false.
Proof. intros Ha Hb. rewrite existsb_app, Ha, Hb. reflexivity. Qed.

(* the five characters never survive a complete escape *)
Lemma esc_char_free c x : special x = true -> x <> 38 -> existsb (Z.eqb x) (esc_char c) = false.
Proof.
  intros Hx Hn. unfold esc_char.
  destruct (c =? 38) eqn:E1; [cbn; unfold special in Hx; lia|].
  destruct (c =? 60) eqn:E2; [cbn; unfold special in Hx; lia|].
  destruct (c =? 62) eqn:E3; [cbn; unfold special in Hx; lia|].
  destruct (c =? 34) eqn:E4; [cbn; unfold special in Hx; lia|].
  destruct (c =? 39) eqn:E5; [cbn; unfold special in Hx; lia|].
  cbn. unfold special in Hx. lia.
Qed.

Lemma escape_free s x : special x = true -> x <> 38 -> existsb (Z.eqb x) (escape s) = false.
Proof.
  intros Hx Hn. unfold escape. induction s as [|c r IH]; [reflexivity|].
  cbn [flat_map]. apply existsb_app_false; [apply esc_char_free; assumption | exact IH].
Qed.

Lemma amp_ok_cons_plain c t : c <> 38 -> amp_ok (c :: t) = amp_ok t.
Proof. intros H. cbn [amp_ok]. destruct (c =? 38) eqn:E; [lia | reflexivity]. Qed.

Lemma amp_ok_esc_char c t : amp_ok t = true -> amp_ok (esc_char c ++ t) = true.
Proof.
  intros Ht. unfold esc_char.
  destruct (c =? 38) eqn:E1; [cbn; rewrite Ht; reflexivity|].
  destruct (c =? 60) eqn:E2; [cbn; rewrite Ht; reflexivity|].
  destruct (c =? 62) eqn:E3; [cbn; rewrite Ht; reflexivity|].
  destruct (c =? 34) eqn:E4; [cbn; rewrite Ht; reflexivity|].
  destruct (c =? 39) eqn:E5; [cbn; rewrite Ht; reflexivity|].
  cbn [app]. rewrite amp_ok_cons_plain by lia. exact Ht.
Qed.

Lemma escape_amp_ok s : amp_ok (escape s) = true.
Proof.
  unfold escape. induction s as [|c r IH]; [reflexivity|].
  cbn [flat_map]. apply amp_ok_esc_char. exact IH.
Qed.

Lemma escape_safe c s : text_like c = true -> ctx_safe c (escape s) = true.
Proof.
  destruct c as [|q|]; cbn [text_like ctx_safe]; intros H; [| |discriminate].
  - rewrite (escape_free s 60) by (unfold special; lia). rewrite escape_amp_ok. reflexivity.
  - rewrite (escape_free s 60) by (unfold special; lia).
    rewrite (escape_free s q) by (unfold special; lia). rewrite escape_amp_ok. reflexivity.
Qed.

(* a string without special characters is safe anywhere, and escaping leaves it unchanged *)
Lemma inert_no x s : inert s = true -> special x = true -> existsb (Z.eqb x) s = false.
Proof.
  intros Hi Hx. induction s as [|c r IH]; [reflexivity|].
  unfold inert in Hi. cbn [forallb] in Hi. apply andb_true_iff in Hi. destruct Hi as [Hc Hr].
  cbn [existsb]. rewrite (IH Hr). destruct (x =? c) eqn:E; [|reflexivity].
  assert (x = c) by lia. subst c. rewrite Hx in Hc. discriminate.
Qed.

Lemma inert_amp_ok s : inert s = true -> amp_ok s = true.
Proof.
  induction s as [|c r IH]; [reflexivity|]. intros Hi.
  unfold inert in Hi. cbn [forallb] in Hi. apply andb_true_iff in Hi. destruct Hi as [Hc Hr].
  rewrite amp_ok_cons_plain; [apply IH; exact Hr|].
  intros ->. discriminate.
Qed.

Lemma inert_safe c s : text_like c = true -> inert s = true -> ctx_safe c s = true.
Proof.
  destruct c as [|q|]; cbn [text_like ctx_safe]; intros H Hi; [| |discriminate].
  - rewrite (inert_no 60 s Hi) by reflexivity. rewrite (inert_amp_ok s Hi). reflexivity.
  - rewrite (inert_no 60 s Hi) by reflexivity.
    rewrite (inert_no q s Hi) by (unfold special; lia). rewrite (inert_amp_ok s Hi). reflexivity.
Qed.

Lemma escape_inert s : inert s = true -> escape s = s.
Proof.
  unfold escape. induction s as [|c r IH]; [reflexivity|]. intros Hi.
  unfold inert in Hi. cbn [forallb] in Hi. apply andb_true_iff in Hi. destruct Hi as [Hc Hr].
  cbn [flat_map]. rewrite (IH Hr). unfold esc_char. unfold special in Hc.
  destruct (c =? 38) eqn:E1; [lia|]. destruct (c =? 60) eqn:E2; [lia|]. destruct (c =? 62) eqn:E3; [lia|].
  destruct (c =? 34) eqn:E4; [lia|]. destruct (c =? 39) eqn:E5; [lia|]. reflexivity.
Qed.

(* soundness of the site analysis: whatever string p reaches the final step (inert whenever the analysis
   says so), the text that lands in the document is safe for its context *)
Lemma site_sound st v0 v :
  site_ok st = true -> astart (s_kind st) = Some v0 -> arun v0 (s_filters st) = Some v ->
  forall p, (a_special v = false -> inert p = true) ->
  ctx_safe (s_ctx st) (finish (s_auto st) (a_markup v) (a_escaped v) p) = true.
Proof.
  intros Hok H0 Hr p Hp. unfold site_ok in Hok. rewrite H0, Hr in Hok.
  apply andb_true_iff in Hok. destruct Hok as [Hc Hv]. unfold finish.
  destruct (a_escaped v) eqn:Ee; [apply escape_safe; exact Hc|].
  destruct (s_auto st && negb (a_markup v)) eqn:Ea; [apply escape_safe; exact Hc|].
  rewrite ?Ee, ?Ea, ?orb_false_r in Hv.
  apply negb_true_iff in Hv. apply inert_safe; [exact Hc | apply Hp; exact Hv].
Qed.

(* the pinned upstream filter alone is not enough: a witness *)
Lemma amp_only_unsafe : ctx_safe (CAttr 34) (amp_only [97; 34; 62; 60; 120]) = false /\ ctx_safe CText (amp_only [60; 120; 62]) = false.
Proof. vm_compute. split; reflexivity. Qed.
