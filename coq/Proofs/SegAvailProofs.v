(* C01 - advertised timeline entries pass the availability test of
   calculate_segment_number_and_time, under a bound on the leeway *)
From Verif Require Import Base.Tactics Base.ZList Model.IsoTimeModel Proofs.IsoTimeProofs
  Model.SegModel Proofs.SegProofs.

Lemma rhe_le n d k : 0 < d -> n <= k * d -> rhe n d <= k.
Proof.
  intros Hd H. unfold rhe.
  assert (Hq : n / d <= k) by (apply Z.div_le_upper_bound; lia).
  destruct (Z.eq_dec (n / d) k) as [He|Hne].
  - assert (n mod d = 0) by (rewrite Z.mod_eq by lia; nia).
    destruct (2 * (n mod d) <? d) eqn:E; lia.
  - destruct (2 * (n mod d) <? d); [lia|]. destruct (d <? 2 * (n mod d)); [lia|].
    destruct (Z.even (n / d)); lia.
Qed.
Lemma rhe_ge n d k : 0 < d -> k * d <= n -> k <= rhe n d.
Proof.
  intros Hd H. unfold rhe.
  assert (Hq : k <= n / d) by (apply Z.div_le_lower_bound; lia).
  destruct (2 * (n mod d) <? d); [lia|]. destruct (d <? 2 * (n mod d)); [lia|].
  destruct (Z.even (n / d)); lia.
Qed.

Section Avail.
Variable r : rep.
Hypothesis Hok : rep_ok r.

Lemma canon_nonneg t d m : canon r (t, d, m) -> 0 <= t.
Proof.
  intros (Hm & _ & k & Hk & ->). pose proof (prefix_nonneg r Hok (m - 1)). pose proof (lr_pos r Hok). nia.
Qed.

Lemma tl_loop_ge fuel m t dur end_ : canon r (t, eff_dur r m, m) ->
  Forall (fun e => t <= fst (fst e)) (tl_loop fuel r m t dur end_).
Proof.
  revert m t dur. induction fuel as [|f IH]; intros m t dur Hc; cbn [tl_loop]; [constructor|].
  destruct (dur <? end_); [|constructor].
  constructor; [cbn; lia|].
  pose proof (canon_next r Hok t m Hc) as Hn. specialize (IH _ _ (dur + eff_dur r m) Hn).
  destruct Hc as (Hm & _). pose proof (eff_dur_pos r Hok m Hm).
  eapply Forall_impl; [|exact IH]. cbn. intros e He. lia.
Qed.

(* every live timeline entry that has ended by now passes the availability test and is
   mapped to its own segment, when the leeway covers half a segment plus one tick *)
Theorem time_available_partial fta tsbd leeway maxd t d m :
  0 <= fta -> 0 <= leeway ->
  Forall (fun x => x <= maxd) (r_durs r) ->
  (maxd / 2 + 1) * 1000000 <= leeway * r_ts r ->
  In (t, d, m) (live_timeline r fta tsbd) ->
  let elapsed := fta + tsbd * 1000000 in
  t + d <= us_to_tc elapsed (r_ts r) ->
  let tm := {| t_live := true; t_elapsed := elapsed; t_tsbd := tsbd; t_fta := fta; t_leeway := leeway |} in
  number_and_time r tm (Some t) None = Some (t / r_seg_dur r, m, t - prefix r (m - 1)).
Proof.
  intros Hf Hl Hmax Hlee Hin elapsed Hend tm.
  pose proof Hok as (Hn & _ & _ & Hts & _).
  pose proof (live_timeline_canon r Hok fta tsbd Hf) as Hc. rewrite Forall_forall in Hc.
  pose proof (Hc _ Hin) as Hce.
  pose proof (canon_hits r Hok t d m Hce) as Hg.
  pose proof (canon_nonneg t d m Hce) as Ht0.
  (* lower bound on t *)
  assert (Hlow : us_to_tc fta (r_ts r) - maxd / 2 <= t).
  { unfold live_timeline in Hin.
    assert (Htc : 0 <= us_to_tc fta (r_ts r)) by (rewrite us_to_tc_floor by lia; apply Z.div_pos; [nia|lia]).
    pose proof (gsi_near r Hok _ Htc) as Hnear. pose proof (live_first_canon r Hok fta Hf) as Hfc.
    pose proof (gsi_form r Hok _ Htc) as Hform.
    destruct (get_segment_index r (us_to_tc fta (r_ts r))) as [[m0 s0] o0].
    pose proof (tl_loop_ge (tl_fuel r (tsbd * r_ts r)) m0 s0 0 (tsbd * r_ts r) Hfc) as Hge.
    rewrite Forall_forall in Hge. specialize (Hge _ Hin). cbn [fst] in Hge.
    destruct Hnear as (Hlo & _). destruct Hform as (Hm0 & _).
    assert (dur_at r m0 <= maxd).
    { rewrite Forall_forall in Hmax. apply Hmax. unfold dur_at. apply nth_In. unfold nseg, zlen in Hm0. lia. }
    assert (dur_at r m0 / 2 <= maxd / 2) by (apply Z.div_le_mono; lia). lia. }
  destruct Hce as (Hm & Hd & _). pose proof (eff_dur_pos r Hok m Hm) as Hdp. rewrite <- Hd in Hdp.
  unfold number_and_time. cbn [t_live negb tm t_fta t_leeway t_elapsed].
  rewrite !us_to_tc_floor in * by lia.
  assert (Hge : fta - leeway <= tc_to_td_round t (r_ts r)).
  { unfold tc_to_td_round. apply rhe_ge; [lia|].
    pose proof (Z.mul_div_le (r_ts r * fta) 1000000 ltac:(lia)).
    pose proof (Z.mod_pos_bound (r_ts r * fta) 1000000 ltac:(lia)).
    pose proof (Z.div_mod (r_ts r * fta) 1000000 ltac:(lia)).
    nia. }
  assert (Hle : tc_to_td_round t (r_ts r) <= elapsed).
  { unfold tc_to_td_round. apply rhe_le; [lia|].
    pose proof (Z.mul_div_le (r_ts r * elapsed) 1000000 ltac:(lia)). nia. }
  destruct ((tc_to_td_round t (r_ts r) <? fta - leeway) || (elapsed <? tc_to_td_round t (r_ts r))) eqn:A; [lia|].
  destruct (t <? 0) eqn:B; [lia|]. destruct (nseg r <? 2) eqn:C; [lia|].
  rewrite Hg. reflexivity.
Qed.

End Avail.
