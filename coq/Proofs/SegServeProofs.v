(* C02 / C09 / C01 / C06 - what the media handler serves (Model/SegModel.serve) *)
From Verif Require Import Base.Tactics Base.ZList Model.IsoTimeModel Proofs.IsoTimeProofs
  Model.SegModel Proofs.SegProofs.

(* ---------------------------------------------------------------- unfolding [serve] *)
Lemma serve_time_live r tm t res : t_live tm = true ->
  serve r tm (Some t) None = Some res ->
  0 <= t /\ 2 <= nseg r /\
  t_fta tm - t_leeway tm <= tc_to_td_round t (r_ts r) <= t_elapsed tm /\
  let '(m, s, o) := get_segment_index r t in
  res = (m, r_start_time r + prefix r (m - 1) + o, t / r_seg_dur r, dur_at r m).
Proof.
  intros Hl. unfold serve, media_index, number_and_time. rewrite Hl. cbn [negb].
  destruct (first_last_live r (t_elapsed tm) (t_tsbd tm)) as [first last].
  destruct ((tc_to_td_round t (r_ts r) <? t_fta tm - t_leeway tm) || (t_elapsed tm <? tc_to_td_round t (r_ts r))) eqn:A; [discriminate|].
  destruct (t <? 0) eqn:B; [discriminate|]. destruct (nseg r <? 2) eqn:C; [discriminate|].
  destruct (get_segment_index r t) as [[m s] o].
  destruct ((t / r_seg_dur r <? first) || (last <? t / r_seg_dur r)); [discriminate|].
  destruct ((m <? 0) || (nseg r <? m)); [discriminate|].
  intros H; inv H. repeat split; lia.
Qed.

Lemma serve_number_live r tm N res : t_live tm = true ->
  serve r tm None (Some N) = Some res ->
  let tc := (N - r_start_number r) * r_seg_dur r in
  0 <= tc /\ 2 <= nseg r /\
  let '(m, s, o) := get_segment_index r tc in
  res = (m, r_start_time r + prefix r (m - 1) + o, N, dur_at r m).
Proof.
  intros Hl. unfold serve, media_index, number_and_time. rewrite Hl. cbn [negb].
  destruct (first_last_live r (t_elapsed tm) (t_tsbd tm)) as [first last].
  set (tc := (N - r_start_number r) * r_seg_dur r).
  destruct ((tc_to_td_round tc (r_ts r) <? t_fta tm - t_leeway tm) || (t_elapsed tm <? tc_to_td_round tc (r_ts r))) eqn:A; [discriminate|].
  destruct (tc <? 0) eqn:B; [discriminate|]. destruct (nseg r <? 2) eqn:C; [discriminate|].
  destruct (get_segment_index r tc) as [[m s] o].
  destruct ((N <? first) || (last <? N)); [discriminate|].
  destruct ((m <? 0) || (nseg r <? m)); [discriminate|].
  intros H; inv H. cbn zeta. repeat split; lia.
Qed.

Section Served.
Variable r : rep.
Hypothesis Hok : rep_ok r.

(* C02: a timeline entry requested by $Time$ is served from its own segment with
   baseMediaDecodeTime = t exactly; S@d = sample duration (+ drift on the loop-final entry) *)
Theorem time_exact fta tsbd t d m tm res :
  r_start_time r = 0 -> 0 <= fta -> In (t, d, m) (live_timeline r fta tsbd) ->
  t_live tm = true -> serve r tm (Some t) None = Some res ->
  res = (m, t, t / r_seg_dur r, dur_at r m) /\
  d = dur_at r m + (if m =? nseg r then drift r else 0).
Proof.
  intros Hst Hf Hin Hl Hs.
  pose proof (live_timeline_canon r Hok fta tsbd Hf) as Hc. rewrite Forall_forall in Hc.
  specialize (Hc _ Hin). pose proof (canon_hits r Hok t d m Hc) as Hg.
  destruct (serve_time_live r tm t res Hl Hs) as (_ & _ & _ & Hr). rewrite Hg in Hr.
  destruct Hc as (_ & Hd & _). split; [rewrite Hr; do 3 f_equal; lia | exact Hd].
Qed.

(* C02: $Number$=N is served with sequence number N, nearest-start decode time *)
Theorem number_served N tm m tfdt num sd :
  r_start_time r = 0 -> t_live tm = true ->
  serve r tm None (Some N) = Some (m, tfdt, num, sd) ->
  let tc := (N - r_start_number r) * r_seg_dur r in
  num = N /\ sd = dur_at r m /\ 1 <= m <= nseg r /\
  tc - dur_at r m / 2 <= tfdt /\
  (tfdt <= tc \/ exists m', 1 <= m' <= nseg r /\ tfdt - tc <= (dur_at r m' + 1) / 2 + Z.max 0 (drift r)).
Proof.
  intros Hst Hl Hs. cbn zeta.
  destruct (serve_number_live r tm N _ Hl Hs) as (Htc & _ & Hr).
  pose proof (gsi_near r Hok _ Htc) as Hn. pose proof (gsi_form r Hok _ Htc) as Hf.
  destruct (get_segment_index r ((N - r_start_number r) * r_seg_dur r)) as [[m0 s0] o0].
  inv Hr. destruct Hf as (Hm & _ & _ & Hs0 & _). destruct Hn as (Hlo & Hhi).
  repeat split; try lia.
  destruct Hhi as [Hle|(m' & Hm' & Hb)]; [left; lia|right; exists m'; split; [exact Hm'|lia]].
Qed.

(* C02: alignment - the delivered source position equals the presentation time modulo the
   timing-reference duration, in both addressing modes *)
Theorem alignment tm st sn m tfdt num sd :
  r_start_time r = 0 -> t_live tm = true ->
  (st <> None \/ sn <> None) -> (st = None \/ sn = None) ->
  serve r tm st sn = Some (m, tfdt, num, sd) ->
  1 <= m <= nseg r /\ tfdt mod r_lr r = prefix r (m - 1).
Proof.
  intros Hst Hl Hsome Hone Hs. pose proof (lr_pos r Hok) as Hlr.
  assert (Hgen : exists tc, 0 <= tc /\ let '(m0, s0, o0) := get_segment_index r tc in
            (m, tfdt) = (m0, prefix r (m0 - 1) + o0)).
  { destruct st as [t|]; destruct sn as [N|]; try (destruct Hsome; congruence); try (destruct Hone; congruence).
    - destruct (serve_time_live r tm t _ Hl Hs) as (H0 & _ & _ & Hr). exists t. split; [exact H0|].
      destruct (get_segment_index r t) as [[m0 s0] o0]. inv Hr. f_equal. lia.
    - destruct (serve_number_live r tm N _ Hl Hs) as (H0 & _ & Hr). eexists. split; [exact H0|].
      destruct (get_segment_index r _) as [[m0 s0] o0]. inv Hr. f_equal. lia. }
  destruct Hgen as (tc & Htc & Hg). pose proof (gsi_form r Hok tc Htc) as Hf.
  destruct (get_segment_index r tc) as [[m0 s0] o0]. inv Hg.
  destruct Hf as (Hm & Hmod & Ho & _ & _). split; [exact Hm|].
  pose proof (prefix_in_loop r Hok m0 Hm). pose proof (prefix_nonneg r Hok (m0 - 1)).
  rewrite Z.add_mod by lia. rewrite Hmod, Z.add_0_r, Z.mod_mod by lia. apply Z.mod_small. lia.
Qed.

(* C09: two manifests of the same representation agree on every segment they both list *)
Theorem timelines_agree fta1 tsbd1 fta2 tsbd2 t d1 m1 d2 m2 :
  0 <= fta1 -> 0 <= fta2 ->
  In (t, d1, m1) (live_timeline r fta1 tsbd1) -> In (t, d2, m2) (live_timeline r fta2 tsbd2) ->
  m1 = m2 /\ d1 = d2.
Proof.
  intros H1 H2 I1 I2.
  pose proof (live_timeline_canon r Hok fta1 tsbd1 H1) as C1. rewrite Forall_forall in C1.
  pose proof (live_timeline_canon r Hok fta2 tsbd2 H2) as C2. rewrite Forall_forall in C2.
  exact (canon_unique r Hok t d1 m1 d2 m2 (C1 _ I1) (C2 _ I2)).
Qed.

(* C09: the listed window only moves forward *)
Definition first_start (fta : Z) : Z :=
  snd (fst (get_segment_index r (us_to_tc fta (r_ts r)))).
Theorem window_forward fta1 fta2 : 0 <= fta1 -> fta1 <= fta2 -> first_start fta1 <= first_start fta2.
Proof.
  intros H1 Hle. unfold first_start. pose proof Hok as (_ & _ & _ & Hts & _).
  apply (gsi_mono r Hok).
  - rewrite us_to_tc_floor by lia. apply Z.div_pos; [nia|lia].
  - apply us_to_tc_monotone; lia.
Qed.

(* the first entry of a non-empty live timeline is first_start *)
Lemma live_timeline_head fta tsbd e rest :
  live_timeline r fta tsbd = e :: rest -> fst (fst e) = first_start fta.
Proof.
  unfold live_timeline, first_start.
  destruct (get_segment_index r (us_to_tc fta (r_ts r))) as [[m0 s0] o0]. cbn [fst snd].
  destruct (tl_fuel r (tsbd * r_ts r)) as [|f]; cbn [tl_loop]; [discriminate|].
  destruct (0 <? tsbd * r_ts r); [|discriminate]. intros H; inv H. reflexivity.
Qed.

(* ---------------------------------------------------------------- C06: static manifests *)
Definition vod_tm : timing :=
  {| t_live := false; t_elapsed := 0; t_tsbd := 0; t_fta := 0; t_leeway := 0 |}.

Theorem vod_enumeration N :
  r_start_number r <= N <= r_start_number r + nseg r - 1 ->
  serve r vod_tm None (Some N) =
    Some (N - r_start_number r + 1, r_start_time r + prefix r (N - r_start_number r), N,
          dur_at r (N - r_start_number r + 1)).
Proof.
  intros H. unfold serve, media_index, number_and_time, vod_tm, first_last_vod. cbn [t_live negb].
  destruct ((N <? r_start_number r) || (nseg r + r_start_number r - 1 <? N)) eqn:A; [lia|].
  destruct ((1 + N - r_start_number r <? 0) || (nseg r <? 1 + N - r_start_number r)) eqn:B; [lia|].
  replace (1 + N - r_start_number r) with (N - r_start_number r + 1) by lia.
  replace (N - r_start_number r + 1 - 1) with (N - r_start_number r) by lia.
  rewrite Z.add_0_r. reflexivity.
Qed.

Theorem vod_past_end N :
  N < r_start_number r \/ r_start_number r + nseg r <= N -> serve r vod_tm None (Some N) = None.
Proof.
  intros H. unfold serve, media_index, number_and_time, vod_tm, first_last_vod. cbn [t_live negb].
  destruct ((N <? r_start_number r) || (nseg r + r_start_number r - 1 <? N)) eqn:A; [reflexivity|lia].
Qed.

(* fetched in order the numbers form one gapless track from the file's first decode time,
   of total duration = stored media duration *)
Theorem vod_gapless k :
  0 <= k < nseg r ->
  prefix r (k + 1) = prefix r k + dur_at r (k + 1).
Proof. intros H. rewrite (prefix_step r (k + 1)) by lia. do 2 f_equal. lia. Qed.
Theorem vod_total : prefix r 0 = 0 /\ prefix r (nseg r) = media_dur r.
Proof. split; [reflexivity|apply prefix_n]. Qed.

(* $Time$ addressing of a static manifest: the k-th timeline entry (start prefix k) maps to
   segment k+1 whenever its start lies within the quarter-segment rounding window *)
Theorem vod_time_partial k :
  0 <= k < nseg r ->
  k * r_seg_dur r <= prefix r k + r_seg_dur r / 4 < (k + 1) * r_seg_dur r ->
  serve r vod_tm (Some (prefix r k)) None =
    Some (k + 1, r_start_time r + prefix r k, k + r_start_number r, dur_at r (k + 1)).
Proof.
  intros Hk Hw. destruct Hok as (_ & _ & _ & _ & Hsd & _).
  unfold serve, media_index, number_and_time, vod_tm, first_last_vod. cbn [t_live negb].
  assert (Hq : (prefix r k + r_seg_dur r / 4) / r_seg_dur r = k).
  { symmetry. apply Z.div_unique with (r := prefix r k + r_seg_dur r / 4 - k * r_seg_dur r); lia. }
  rewrite Hq.
  destruct ((k + r_start_number r <? r_start_number r) || (nseg r + r_start_number r - 1 <? k + r_start_number r)) eqn:A; [lia|].
  destruct ((1 + (k + r_start_number r) - r_start_number r <? 0) || (nseg r <? 1 + (k + r_start_number r) - r_start_number r)) eqn:B; [lia|].
  replace (1 + (k + r_start_number r) - r_start_number r) with (k + 1) by lia.
  replace (k + 1 - 1) with k by lia.
  rewrite Z.add_0_r. reflexivity.
Qed.

End Served.

(* on-demand byte ranges: generateSegmentList over a contiguous segment table tiles the file *)
Fixpoint contiguous (segs : list (Z * Z)) : Prop :=
  match segs with
  | (p, s) :: (((p', _) :: _) as rest) => p' = p + s /\ contiguous rest
  | _ => True
  end.
Fixpoint tiles (rs : list (Z * Z)) : Prop :=
  match rs with
  | (_, e) :: (((a', _) :: _) as rest) => e + 1 = a' /\ tiles rest
  | _ => True
  end.
Theorem segment_list_tiles segs : contiguous segs -> tiles (segment_list segs).
Proof.
  induction segs as [|[p s] rest IH]; [intros; exact I|].
  destruct rest as [|[p' s'] rest']; [intros; exact I|].
  intros (Hp & Hc). cbn [segment_list map fst snd tiles]. split; [lia|]. apply IH. exact Hc.
Qed.
Theorem segment_list_last segs : segs <> [] ->
  last (segment_list segs) (0, 0) =
    (fst (last segs (0, 0)), fst (last segs (0, 0)) + snd (last segs (0, 0)) - 1).
Proof.
  intros Hne. unfold segment_list.
  induction segs as [|[a b] rest IH]; [congruence|].
  destruct rest as [|x rest'].
  - reflexivity.
  - change (last (map (fun ps => (fst ps, fst ps + snd ps - 1)) ((a, b) :: x :: rest')) (0, 0))
      with (last (map (fun ps => (fst ps, fst ps + snd ps - 1)) (x :: rest')) (0, 0)).
    change (last ((a, b) :: x :: rest') (0, 0)) with (last (x :: rest') (0, 0)).
    apply IH. discriminate.
Qed.
