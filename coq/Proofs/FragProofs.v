(* C03 - proofs about Model/FragModel.v *)
From Verif Require Import Base.Tactics Base.ZList Model.FragModel.

Lemma data_offset_payload o s : moof_pos (rewrite_top o s) + data_offset o s = payload_pos o s.
Proof. unfold data_offset, payload_pos. lia. Qed.

Definition mdats (l : list (top * Z)) : list Z :=
  flat_map (fun x => match fst x with TMdat => [snd x] | _ => [] end) l.

Lemma mdats_drop_sidx l : mdats (drop_sidx l) = mdats l.
Proof.
  induction l as [|[t z] r IH]; [reflexivity|]. destruct t; cbn [drop_sidx mdats flat_map fst snd app] in *;
    try (fold (mdats r); fold (mdats (drop_sidx r)); rewrite IH); reflexivity.
Qed.
Lemma mdats_app a b : mdats (a ++ b) = mdats a ++ mdats b.
Proof. unfold mdats. apply flat_map_app. Qed.
Lemma mdats_emsg e : mdats (map (fun x => (TEmsg, x)) e) = [].
Proof. induction e as [|x r IH]; [reflexivity|]. cbn. exact IH. Qed.
Lemma mdats_insert_emsg e l : mdats (insert_emsg e l) = mdats l.
Proof.
  induction l as [|[t z] r IH]; [reflexivity|]. destruct t; cbn [insert_emsg];
    try (change (mdats ((?t0, z) :: ?x)) with (mdats x)); 
    try (cbn [mdats flat_map fst snd app]; fold (mdats r); fold (mdats (insert_emsg e r)); rewrite IH; reflexivity).
  rewrite mdats_app, mdats_emsg. reflexivity.
Qed.
Lemma mdats_set_moof v l : mdats (set_moof v l) = mdats l.
Proof.
  induction l as [|[t z] r IH]; [reflexivity|]. destruct t; cbn [set_moof mdats flat_map fst snd app] in *;
    try (fold (mdats r); fold (mdats (set_moof v r)); rewrite IH); reflexivity.
Qed.

(* the mdat boxes (hence the payload length) are untouched, whatever the options *)
Theorem mdat_untouched o s : mdats (rewrite_top o s) = mdats (s_top s).
Proof. unfold rewrite_top. rewrite mdats_set_moof, mdats_insert_emsg, mdats_drop_sidx. reflexivity. Qed.

(* the size recorded for moof is the size of its re-encoded content: sizes nest *)
Fixpoint moof_entry (l : list (top * Z)) : option Z :=
  match l with [] => None | (TMoof, z) :: _ => Some z | _ :: r => moof_entry r end.
Lemma moof_entry_set v l : moof_entry l <> None -> moof_entry (set_moof v l) = Some v.
Proof.
  induction l as [|[t z] r IH]; [intros H; cbn in H; congruence|]. destruct t; cbn [moof_entry set_moof]; try exact IH. reflexivity.
Qed.
Lemma moof_entry_insert e l : moof_entry l <> None -> moof_entry (insert_emsg e l) <> None.
Proof.
  induction l as [|[t z] r IH]; [intros H; cbn in H; congruence|]. destruct t; cbn [moof_entry insert_emsg]; try exact IH.
  intros _. clear IH. induction e as [|x e' IHe]; cbn; [discriminate|exact IHe].
Qed.
Lemma moof_entry_drop l : moof_entry l <> None -> moof_entry (drop_sidx l) <> None.
Proof.
  induction l as [|[t z] r IH]; [intros H; cbn in H; congruence|]. destruct t; cbn [moof_entry drop_sidx]; try exact IH; auto;
    try (intros _; discriminate).
Qed.
Theorem moof_size_recorded o s : moof_entry (s_top s) <> None ->
  moof_entry (rewrite_top o s) = Some (moof_size (rewrite_traf o s)).
Proof. intros H. unfold rewrite_top. apply moof_entry_set, moof_entry_insert, moof_entry_drop. exact H. Qed.

(* the decode-time box is version 1 (20 bytes) exactly when the time needs more than 32 bits *)
Theorem tfdt_width v : 0 <= v -> (tfdt_size v = 20 <-> 4294967296 <= v) /\ (tfdt_size v = 16 <-> v < 4294967296).
Proof. intros H. unfold tfdt_size. destruct (v <? 4294967296) eqn:E; split; split; intros; lia. Qed.

(* the emsg boxes sit immediately before moof: the position of moof grows by their total size *)
Lemma moof_pos_insert e l : moof_entry l <> None ->
  moof_pos (insert_emsg e l) = moof_pos l + sumz e.
Proof.
  induction l as [|[t z] r IH]; [intros H; cbn in H; congruence|].
  destruct t; cbn [moof_entry insert_emsg moof_pos]; intros H; try (rewrite IH by exact H; lia).
  clear. induction e as [|x e' IHe]; cbn [map app moof_pos sumz]; [lia|]. rewrite IHe. lia.
Qed.
Lemma moof_pos_set v l : moof_pos (set_moof v l) = moof_pos l.
Proof. induction l as [|[t z] r IH]; [reflexivity|]. destruct t; cbn [set_moof moof_pos]; rewrite ?IH; reflexivity. Qed.
Theorem emsg_before_moof o s : moof_entry (s_top s) <> None ->
  moof_pos (rewrite_top o s) = moof_pos (drop_sidx (s_top s)) + sumz (o_emsg o).
Proof.
  intros H. unfold rewrite_top. rewrite moof_pos_set. apply moof_pos_insert. apply moof_entry_drop. exact H.
Qed.
