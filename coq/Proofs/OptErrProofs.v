From Verif Require Import Base.Tactics Base.ZList Base.Str Model.OptionsModel Model.OptErrModel.

Lemma digit_not_ws c : is_digit c = true -> is_ws c = false.
Proof. unfold is_digit, is_ws. lia. Qed.

Lemma digits_us_all s : forall acc prev,
  all_digits s = true -> (s <> [] \/ prev = true) -> digits_us s acc prev = Some (fold_left dstep s acc).
Proof.
  induction s as [|c r IH]; intros acc prev Hd Hne; cbn [digits_us fold_left].
  - destruct Hne as [Hne| ->]; [contradiction | reflexivity].
  - unfold all_digits in Hd. cbn [forallb] in Hd. apply andb_true_iff in Hd. destruct Hd as [Hc Hr].
    rewrite Hc. apply IH; [exact Hr | right; reflexivity].
Qed.

Lemma drop_ws_digits s : all_digits s = true -> drop_ws s = s.
Proof.
  destruct s as [|c r]; [reflexivity|]. intros Hd. unfold all_digits in Hd. cbn [forallb] in Hd.
  apply andb_true_iff in Hd. destruct Hd as [Hc _]. cbn [drop_ws]. rewrite (digit_not_ws c Hc). reflexivity.
Qed.

Lemma all_digits_rev s : all_digits (rev s) = all_digits s.
Proof.
  unfold all_digits. induction s as [|c r IH]; [reflexivity|].
  cbn [rev forallb]. rewrite forallb_app. cbn [forallb]. rewrite IH. rewrite andb_true_r. apply andb_comm.
Qed.

Lemma strip_digits s : all_digits s = true -> strip s = s.
Proof.
  intros Hd. unfold strip. rewrite (drop_ws_digits s Hd).
  rewrite drop_ws_digits by (rewrite all_digits_rev; exact Hd). apply rev_involutive.
Qed.

Lemma drop_ws_cons_nonws c r : is_ws c = false -> drop_ws (c :: r) = c :: r.
Proof. intros H. cbn [drop_ws]. rewrite H. reflexivity. Qed.

Lemma strip_minus_digits r : all_digits r = true -> strip (45 :: r) = 45 :: r.
Proof.
  intros Hd. unfold strip. rewrite drop_ws_cons_nonws by reflexivity.
  destruct r as [|c r'].
  - reflexivity.
  - cbn [rev]. assert (Hr : drop_ws ((rev r' ++ [c]) ++ [45]) = (rev r' ++ [c]) ++ [45]).
    { assert (Hd' : all_digits (rev r' ++ [c]) = true) by (change (rev r' ++ [c]) with (rev (c :: r')); rewrite all_digits_rev; exact Hd).
      destruct (rev r' ++ [c]) as [|x y] eqn:E; [destruct (rev r'); discriminate|].
      cbn [app]. apply drop_ws_cons_nonws. apply digit_not_ws.
      unfold all_digits in Hd'. cbn [forallb] in Hd'. apply andb_true_iff in Hd'. tauto. }
    rewrite Hr. rewrite rev_app_distr. cbn [rev app]. rewrite rev_app_distr. cbn [rev app]. rewrite rev_involutive. reflexivity.
Qed.

(* the strict decimal reader of the C07 model is a restriction of Python's int(text, 10) *)
Lemma parse_int_py_int s n : parse_int s = Some n -> py_int s = Some n.
Proof.
  unfold parse_int. destruct s as [|c r]; [discriminate|].
  destruct (c =? 45) eqn:Ec.
  - assert (c = 45) by lia. subst c.
    destruct (all_digits r && negb (str_eqb r [])) eqn:E; [|discriminate].
    apply andb_true_iff in E. destruct E as [Hd Hne]. intros H. injection H as <-.
    unfold py_int. rewrite (strip_minus_digits r Hd).
    rewrite digits_us_all; [reflexivity | exact Hd |].
    left. intros ->. unfold str_eqb in Hne. destruct (list_eq_dec Z.eq_dec [] []); [discriminate | contradiction].
  - destruct (all_digits (c :: r)) eqn:Hd; [|discriminate]. intros H. injection H as <-.
    unfold py_int. rewrite (strip_digits _ Hd).
    assert (Hc : is_digit c = true).
    { unfold all_digits in Hd. cbn [forallb] in Hd. apply andb_true_iff in Hd. tauto. }
    assert (c <> 43 /\ c <> 45) by (unfold is_digit in Hc; lia).
    destruct (Z.eq_dec c 43); [lia|]. destruct (Z.eq_dec c 45); [lia|].
    assert (Hgo : match c :: r with 43 :: r0 => digits_us r0 0 false
                  | 45 :: r0 => match digits_us r0 0 false with Some n => Some (- n) | None => None end
                  | t => digits_us t 0 false end = digits_us (c :: r) 0 false).
    { destruct c as [|p|p]; try reflexivity.
      do 6 (destruct p as [p|p|]; try reflexivity; try lia). }
    rewrite Hgo. rewrite digits_us_all; [reflexivity | exact Hd | left; discriminate].
Qed.

Lemma parse_parse_any k s v : parse k s = Some v -> parse_any k s = Some v.
Proof.
  destruct k; cbn [parse parse_any]; try (intros H; exact H).
  - destruct (str_eqb s [] || str_eqb s s_none); [intros H; exact H|].
    destruct (parse_int s) as [n|] eqn:E; [|discriminate]. rewrite (parse_int_py_int s n E). intros H; exact H.
  - destruct (str_eqb s [] || str_eqb s s_none); [intros H; exact H|].
    destruct (parse_int s) as [n|] eqn:E; [|discriminate]. rewrite (parse_int_py_int s n E). intros H; exact H.
Qed.

(* the kinds whose from_string accepts every text never produce a 400 *)
Lemma never_rejects_total k s : never_rejects k = true -> exists v, parse_any k s = Some v.
Proof.
  destruct k; cbn [never_rejects]; try discriminate; intros _; cbn [parse_any parse].
  - eexists; reflexivity.
  - destruct (is_none_text s); eexists; reflexivity.
  - eexists; reflexivity.
  - destruct (is_none_text s); eexists; reflexivity.
Qed.
