From Verif Require Import Base.Tactics Base.ZList Model.UserModel.
From Verif Require Import Model.UsersModel.

Lemma taken_false_name t n k : name_taken t n k = false -> forall a, In a t -> a_pk a <> k -> u_name (a_rec a) <> n.
Proof.
  unfold name_taken. intros H a Ha Hk E. assert (X : existsb (fun a0 => (u_name (a_rec a0) =? n) && negb (a_pk a0 =? k)) t = true).
  { apply existsb_exists. exists a. split; [exact Ha|]. apply andb_true_iff. split; [lia|]. apply negb_true_iff. lia. }
  congruence.
Qed.
Lemma taken_false_email t e k : email_taken t e k = false -> forall a, In a t -> a_pk a <> k -> u_email (a_rec a) <> e.
Proof.
  unfold email_taken. intros H a Ha Hk E. assert (X : existsb (fun a0 => (u_email (a_rec a0) =? e) && negb (a_pk a0 =? k)) t = true).
  { apply existsb_exists. exists a. split; [exact Ha|]. apply andb_true_iff. split; [lia|]. apply negb_true_iff. lia. }
  congruence.
Qed.

(* updating the row with key k keeps a column duplicate-free when the new value is either the row's old value or one that
   no OTHER row has *)
Lemma nodup_update (f : uacct -> Z) (upd : uacct -> uacct) k t :
  NoDup (map a_pk t) -> NoDup (map f t) ->
  (forall a, a_pk (upd a) = a_pk a) ->
  (forall a, In a t -> a_pk a = k -> f (upd a) = f a \/ forall b, In b t -> a_pk b <> k -> f b <> f (upd a)) ->
  NoDup (map f (map (fun a => if a_pk a =? k then upd a else a) t)).
Proof.
  intros Hpk Hf Hkeep Hnew. rewrite map_map.
  assert (G : forall l, (forall a, In a l -> In a t) -> NoDup (map a_pk l) -> NoDup (map f l) ->
              NoDup (map (fun a => f (if a_pk a =? k then upd a else a)) l)).
  { induction l as [|x l IH]; intros Hsub Hp Hn; [constructor|].
    cbn [map] in *. inversion Hp as [|? ? Hxp Hp']; subst. inversion Hn as [|? ? Hxn Hn']; subst.
    constructor; [|apply IH; [intros a Ha; apply Hsub; right; exact Ha|exact Hp'|exact Hn']].
    intros Hin. apply in_map_iff in Hin. destruct Hin as (y & Ey & Hy).
    assert (Hyx : a_pk y <> a_pk x). { intros E. apply Hxp. rewrite <- E. apply in_map. exact Hy. }
    destruct (a_pk x =? k) eqn:Ex; destruct (a_pk y =? k) eqn:Eyk.
    - lia.
    - (* x updated, y not *) destruct (Hnew x (Hsub x (or_introl eq_refl)) ltac:(lia)) as [Hsame|Hfree].
      + rewrite Hsame in Ey. apply Hxn. rewrite <- Ey. apply in_map. exact Hy.
      + apply (Hfree y (Hsub y (or_intror Hy)) ltac:(lia)). exact Ey.
    - (* y updated, x not *) destruct (Hnew y (Hsub y (or_intror Hy)) ltac:(lia)) as [Hsame|Hfree].
      + rewrite Hsame in Ey. apply Hxn. rewrite <- Ey. apply in_map. exact Hy.
      + apply (Hfree x (Hsub x (or_introl eq_refl)) ltac:(lia)). symmetry. exact Ey.
    - apply Hxn. rewrite <- Ey. apply in_map. exact Hy. }
  apply G; [tauto|exact Hpk|exact Hf].
Qed.

Lemma after_name u q : u_name (after u q) = u_name u \/ (q_admin q = true /\ u_name (after u q) = q_name q).
Proof.
  unfold after, edit_user. destruct (negb (q_admin q) && negb (q_target q =? q_caller q)); [left; reflexivity|].
  destruct (q_pw q) as [p|]; [destruct (negb (p =? q_confirm q)); [left; reflexivity|]|]; cbn [u_name];
    destruct (q_admin q); [right; split; reflexivity|left; reflexivity|right; split; reflexivity|left; reflexivity].
Qed.
Lemma after_email u q : u_email (after u q) = u_email u \/ u_email (after u q) = q_email q.
Proof.
  unfold after, edit_user. destruct (negb (q_admin q) && negb (q_target q =? q_caller q)); [left; reflexivity|].
  destruct (q_pw q) as [p|]; [destruct (negb (p =? q_confirm q)); [left; reflexivity|]|]; right; reflexivity.
Qed.

Theorem ustep_inv t o : UInv t -> UInv (ustep t o).
Proof.
  intros (Hpos & Hpk & Hn & He). destruct o as [pk name email pw confirm groups must|q]; cbn [ustep].
  - destruct ((pk <? 0) || existsb (fun a => a_pk a =? pk) t || name_taken t name (-1) || email_taken t email (-1) || negb (pw =? confirm)) eqn:E;
      [repeat split; assumption|].
    repeat (apply orb_false_iff in E; destruct E as (E & ?)).
    assert (Hfresh : ~ In pk (map a_pk t)).
    { intros Hin. apply in_map_iff in Hin. destruct Hin as (a & Ea & Ha).
      assert (X : existsb (fun a0 => a_pk a0 =? pk) t = true) by (apply existsb_exists; exists a; split; [exact Ha|lia]). congruence. }
    repeat split; cbn [map a_pk a_rec u_name u_email].
    + constructor; [cbn [a_pk]; lia|exact Hpos].
    + constructor; assumption.
    + constructor; [|exact Hn]. intros Hin. apply in_map_iff in Hin. destruct Hin as (a & Ea & Ha).
      rewrite Forall_forall in Hpos. pose proof (Hpos a Ha).
      eapply (taken_false_name t name (-1)); [eassumption|exact Ha|lia|exact Ea].
    + constructor; [|exact He]. intros Hin. apply in_map_iff in Hin. destruct Hin as (a & Ea & Ha).
      rewrite Forall_forall in Hpos. pose proof (Hpos a Ha).
      eapply (taken_false_email t email (-1)); [eassumption|exact Ha|lia|exact Ea].
  - destruct (negb (q_admin q) && negb (q_target q =? q_caller q)); [repeat split; assumption|].
    assert (Hkeep : forall a, a_pk (edit_row t a q) = a_pk a).
    { intros a. unfold edit_row. destruct (email_taken t (q_email q) (a_pk a)); [reflexivity|].
      destruct (q_admin q && name_taken t (q_name q) (a_pk a)); reflexivity. }
    repeat split.
    + apply Forall_forall. intros a Ha. apply in_map_iff in Ha. destruct Ha as (b & Eb & Hb).
      rewrite Forall_forall in Hpos. destruct (a_pk b =? q_target q); subst a; [rewrite Hkeep|]; apply Hpos; exact Hb.
    + rewrite map_map. erewrite map_ext; [exact Hpk|]. intros a. cbn. destruct (a_pk a =? q_target q); [apply Hkeep|reflexivity].
    + apply (nodup_update (fun a => u_name (a_rec a)) (fun a => edit_row t a q) (q_target q) t Hpk Hn Hkeep).
      intros a Ha Hk. unfold edit_row. destruct (email_taken t (q_email q) (a_pk a)); [left; reflexivity|].
      destruct (q_admin q && name_taken t (q_name q) (a_pk a)) eqn:E; [left; reflexivity|]. cbn [a_rec].
      destruct (after_name (a_rec a) q) as [Hs|(Hadm & Hs)]; [left; exact Hs|].
      right. intros b Hb Hbk. rewrite Hs. rewrite Hadm in E. cbn [andb] in E.
      apply (taken_false_name t (q_name q) (a_pk a) E b Hb). lia.
    + apply (nodup_update (fun a => u_email (a_rec a)) (fun a => edit_row t a q) (q_target q) t Hpk He Hkeep).
      intros a Ha Hk. unfold edit_row. destruct (email_taken t (q_email q) (a_pk a)) eqn:Ee; [left; reflexivity|].
      destruct (q_admin q && name_taken t (q_name q) (a_pk a)); [left; reflexivity|]. cbn [a_rec].
      destruct (after_email (a_rec a) q) as [Hs|Hs]; [left; exact Hs|].
      right. intros b Hb Hbk. rewrite Hs. apply (taken_false_email t (q_email q) (a_pk a) Ee b Hb). lia.
Qed.

Theorem users_unique ops : forall t, UInv t -> UInv (fold_left ustep ops t).
Proof. induction ops as [|o r IH]; intros t H; [exact H|]. cbn [fold_left]. apply IH, ustep_inv, H. Qed.
