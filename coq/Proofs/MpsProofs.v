(* C12 - proofs about Model/MpsModel.v *)
From Verif Require Import Base.Tactics Base.ZList Model.IsoTimeModel Model.SegModel Proofs.SegProofs Model.MpsModel.

Definition p_start (p : plisted) : Z := snd (fst p).
Definition p_dur (p : plisted) : Z := snd p.
Definition p_pos (p : plisted) : Z := fst (fst (fst p)).
Definition p_loop (p : plisted) : Z := snd (fst (fst p)).

(* contiguous: each start = previous start + previous duration *)
Fixpoint pchain (l : list plisted) : Prop :=
  match l with
  | p :: ((q :: _) as rest) => p_start q = p_start p + p_dur p /\ pchain rest
  | _ => True
  end.

(* ------------------------------------------------------------ vod *)
Lemma vod_chain ds : forall k start, pchain (vod_periods ds k start).
Proof.
  induction ds as [|d rest IH]; intros k start; [exact I|].
  cbn [vod_periods]. destruct rest as [|d2 rest2]; [exact I|].
  specialize (IH (k + 1) (start + d)). cbn [vod_periods] in *. cbn [pchain].
  split; [reflexivity|exact IH].
Qed.

Lemma vod_first ds k start p l : vod_periods ds k start = p :: l -> p_start p = start.
Proof. destruct ds; cbn; intros H; inv H. reflexivity. Qed.

Lemma vod_total ds : forall k start,
  sumz (map p_dur (vod_periods ds k start)) = sumz ds.
Proof. induction ds as [|d rest IH]; intros k start; cbn; [reflexivity|]. rewrite IH. reflexivity. Qed.

Lemma vod_durs ds : forall k start, map p_dur (vod_periods ds k start) = ds.
Proof. induction ds as [|d rest IH]; intros k start; cbn; [reflexivity|]. rewrite IH. reflexivity. Qed.

(* ------------------------------------------------------------ live *)
Section Live.
Variables (all : list Z) (fta elapsed : Z).
Hypothesis Hnn : Forall (fun d => 0 <= d) all.

Lemma suffix_nonneg todo : (exists pre, all = pre ++ todo) -> Forall (fun d => 0 <= d) todo.
Proof. intros (pre & E). rewrite E in Hnn. apply Forall_app in Hnn. apply Hnn. Qed.

(* contiguity, and: once the listing could have begun, the first listed period starts here *)
Lemma live_loop_chain fuel : forall todo loop start,
  (exists pre, all = pre ++ todo) ->
  let l := live_loop fuel all todo loop start fta elapsed in
  pchain l /\ (fta <= start -> match l with [] => True | p :: _ => p_start p = start end) /\
  (match l with [] => True | p :: _ => start <= p_start p /\ (p_start p <= fta \/ p_start p = start) end).
Proof.
  induction fuel as [|f IH]; intros todo loop start Hsuf; cbn zeta; cbn [live_loop]; [repeat split; exact I|].
  destruct (elapsed <? start) eqn:E; [repeat split; exact I|].
  destruct todo as [|d rest]; [repeat split; exact I|].
  cbn zeta in IH.
  pose proof (suffix_nonneg _ Hsuf) as Hd. inversion Hd as [|? ? Hd0 Hrest]; subst.
  assert (Hrec : forall rec, rec = (match rest with
              | [] => live_loop f all all (loop + 1) (start + d) fta elapsed
              | _ :: _ => live_loop f all rest loop (start + d) fta elapsed end) ->
     pchain rec /\ (fta <= start + d -> match rec with [] => True | p :: _ => p_start p = start + d end) /\
                 (match rec with [] => True | p :: _ => start + d <= p_start p /\ (p_start p <= fta \/ p_start p = start + d) end)).
  { intros rec ->. destruct rest as [|d2 rest2].
    - apply IH. exists []. reflexivity.
    - apply IH. destruct Hsuf as (pre & Ep). exists (pre ++ [d]). rewrite <- app_assoc. exact Ep. }
  match goal with |- context [_ ++ ?r] => remember r as rec eqn:Erec end.
  destruct (Hrec rec Erec) as (Hc & Hh & Hl). clear Hrec Erec.
  destruct (fta <=? start + d) eqn:Ef; cbn [app].
  - split; [|split].
    + destruct rec as [|q rec']; [cbn [pchain]; exact I|]. cbn [pchain]. split; [|exact Hc].
      specialize (Hh ltac:(lia)). cbn [p_start p_dur fst snd] in *. exact Hh.
    + intros _. reflexivity.
    + cbn [p_start fst snd]. split; [lia|right; reflexivity].
  - split; [exact Hc|split].
    + intros Hle. lia.
    + destruct rec as [|q rec']; [exact I|]. destruct Hl as (Hl1 & Hl2). split; [lia|].
      destruct Hl2 as [Hl2|Hl2]; [left; exact Hl2|left; lia].
Qed.

(* ids: (position, loop) pairs are strictly increasing in the order loop*n + position *)
Definition pkey (p : plisted) : Z := p_loop p * zlen all + p_pos p.
Fixpoint increasing (lo : Z) (l : list plisted) : Prop :=
  match l with [] => True | p :: rest => lo <= pkey p /\ increasing (pkey p + 1) rest end.

Lemma increasing_weaken lo lo' l : lo' <= lo -> increasing lo l -> increasing lo' l.
Proof. destruct l as [|p rest]; [intros; exact I|]. cbn. intros H (H1 & H2). split; [lia|exact H2]. Qed.

Lemma live_loop_keys fuel : forall todo loop start,
  (exists pre, all = pre ++ todo) ->
  increasing (loop * zlen all + (zlen all - zlen todo)) (live_loop fuel all todo loop start fta elapsed).
Proof.
  induction fuel as [|f IH]; intros todo loop start Hsuf; cbn [live_loop]; [exact I|].
  destruct (elapsed <? start); [exact I|].
  destruct todo as [|d rest]; [exact I|].
  assert (Hrec : increasing (loop * zlen all + (zlen all - zlen (d :: rest)) + 1)
                   (match rest with
                    | [] => live_loop f all all (loop + 1) (start + d) fta elapsed
                    | _ :: _ => live_loop f all rest loop (start + d) fta elapsed end)).
  { destruct rest as [|d2 rest2].
    - specialize (IH all (loop + 1) (start + d) ltac:(exists []; reflexivity)).
      eapply increasing_weaken; [|exact IH]. rewrite zlen_cons, zlen_nil. lia.
    - destruct Hsuf as (pre & Ep).
      specialize (IH (d2 :: rest2) loop (start + d) ltac:(exists (pre ++ [d]); rewrite <- app_assoc; exact Ep)).
      eapply increasing_weaken; [|exact IH]. rewrite !zlen_cons. lia. }
  destruct (fta <=? start + d); cbn [app].
  - cbn [increasing]. split; [unfold pkey, p_loop, p_pos; cbn [fst snd]; lia|].
    unfold pkey at 1, p_loop, p_pos. cbn [fst snd]. exact Hrec.
  - eapply increasing_weaken; [|exact Hrec]. lia.
Qed.

Lemma increasing_lower l : forall lo, increasing lo l -> forall x, In x (map pkey l) -> lo <= x.
Proof.
  induction l as [|q r IHl]; intros lo Hi x Hx; [destruct Hx|].
  cbn in Hi, Hx. destruct Hi as (Ha & Hb). destruct Hx as [<-|Hx]; [exact Ha|].
  specialize (IHl _ Hb x Hx). lia.
Qed.

Lemma increasing_NoDup l : forall lo, increasing lo l -> NoDup (map pkey l).
Proof.
  induction l as [|p rest IH]; intros lo H; [constructor|].
  cbn in H. destruct H as (H1 & H2). cbn [map]. constructor; [|exact (IH _ H2)].
  intros Hin. pose proof (increasing_lower rest _ H2 (pkey p) Hin). lia.
Qed.

End Live.

(* ------------------------------------------------------------ the listing as a whole *)
Theorem live_contiguous ds fta elapsed : Forall (fun d => 0 <= d) ds ->
  pchain (live_periods ds fta elapsed).
Proof.
  intros H. unfold live_periods.
  destruct (live_loop_chain ds fta elapsed H (live_fuel ds fta elapsed) ds (fta / sumz ds) (sumz ds * (fta / sumz ds))
              ltac:(exists []; reflexivity)) as (Hc & _). exact Hc.
Qed.

(* the first listed period contains the start of the time-shift window *)
Theorem live_first_covers ds fta elapsed p l : Forall (fun d => 0 <= d) ds -> 0 < sumz ds -> 0 <= fta ->
  live_periods ds fta elapsed = p :: l -> p_start p <= fta.
Proof.
  intros H Ht Hf E. unfold live_periods in E.
  destruct (live_loop_chain ds fta elapsed H (live_fuel ds fta elapsed) ds (fta / sumz ds) (sumz ds * (fta / sumz ds))
              ltac:(exists []; reflexivity)) as (_ & _ & Hl).
  rewrite E in Hl. destruct Hl as (_ & [Hl|Hl]); [exact Hl|].
  rewrite Hl. pose proof (Z.mul_div_le fta (sumz ds) Ht). lia.
Qed.

(* every listed period reaches into the window: start + duration >= firstAvailableTime *)
Lemma live_loop_inside ds fta elapsed fuel : forall todo loop start,
  Forall (fun p => fta <= p_start p + p_dur p /\ p_start p <= elapsed)
         (live_loop fuel ds todo loop start fta elapsed).
Proof.
  induction fuel as [|f IH]; intros todo loop start; cbn [live_loop]; [constructor|].
  destruct (elapsed <? start) eqn:E; [constructor|].
  destruct todo as [|d rest]; [constructor|].
  apply Forall_app. split.
  - destruct (fta <=? start + d) eqn:Ef; [|constructor]. constructor; [|constructor].
    cbn [p_start p_dur fst snd]. lia.
  - destruct rest; apply IH.
Qed.

(* ------------------------------------------------------------ the listing reaches now *)
Section Now.
Variables (all : list Z) (fta elapsed : Z).
Hypothesis Hnn : Forall (fun d => 0 <= d) all.
Hypothesis Hwin : fta <= elapsed.

Lemma sumz_cons x l : sumz (x :: l) = x + sumz l.
Proof. reflexivity. Qed.
Lemma zlen_nonneg' {A} (l : list A) : 0 <= zlen l.
Proof. unfold zlen. lia. Qed.

(* with enough fuel the loop reaches the Period that contains [elapsed]: k = whole passes that may still be needed *)
Lemma live_loop_reaches (k : nat) : forall fuel todo loop start,
  (exists pre, all = pre ++ todo) -> todo <> [] -> start <= elapsed ->
  elapsed < start + sumz todo + Z.of_nat k * sumz all ->
  zlen todo + Z.of_nat k * zlen all < Z.of_nat fuel ->
  exists p, In p (live_loop fuel all todo loop start fta elapsed) /\ p_start p <= elapsed < p_start p + p_dur p.
Proof.
  induction k as [|k IHk].
  - (* within this pass: induction over todo *)
    intros fuel todo. revert fuel. induction todo as [|d rest IHt]; intros fuel loop start Hsuf Hne Hs He Hf; [congruence|].
    destruct fuel as [|f]; [pose proof (zlen_nonneg' (d :: rest)); lia|].
    cbn [live_loop]. destruct (elapsed <? start) eqn:E; [lia|].
    pose proof (suffix_nonneg all Hnn _ Hsuf) as Hd. inversion Hd as [|? ? Hd0 Hrest]; subst.
    destruct (Z.ltb_spec elapsed (start + d)) as [Hin|Hout].
    + exists (zlen all - zlen (d :: rest), loop, start, d). split.
      * apply in_or_app. left. destruct (fta <=? start + d) eqn:Ef; [left; reflexivity|lia].
      * cbn [p_start p_dur fst snd]. lia.
    + destruct rest as [|d2 rest2].
      * rewrite sumz_cons in He. change (sumz []) with 0 in He. lia.
      * destruct (IHt f loop (start + d)) as (p & Hp & Hr).
        -- destruct Hsuf as (pre & Epre). exists (pre ++ [d]). rewrite <- app_assoc. exact Epre.
        -- discriminate.
        -- lia.
        -- rewrite sumz_cons in He. lia.
        -- rewrite zlen_cons in Hf. lia.
        -- exists p. split; [apply in_or_app; right; exact Hp|exact Hr].
  - intros fuel todo. revert fuel. induction todo as [|d rest IHt]; intros fuel loop start Hsuf Hne Hs He Hf; [congruence|].
    destruct fuel as [|f]; [pose proof (zlen_nonneg' (d :: rest)); pose proof (zlen_nonneg' all); nia|].
    cbn [live_loop]. destruct (elapsed <? start) eqn:E; [lia|].
    pose proof (suffix_nonneg all Hnn _ Hsuf) as Hd. inversion Hd as [|? ? Hd0 Hrest]; subst.
    destruct (Z.ltb_spec elapsed (start + d)) as [Hin|Hout].
    + exists (zlen all - zlen (d :: rest), loop, start, d). split.
      * apply in_or_app. left. destruct (fta <=? start + d) eqn:Ef; [left; reflexivity|lia].
      * cbn [p_start p_dur fst snd]. lia.
    + destruct rest as [|d2 rest2].
      * (* the pass is over: start the next one *)
        assert (Hall : all <> []). { destruct Hsuf as (pre & Epre). rewrite Epre. destruct pre; discriminate. }
        destruct (IHk f all (loop + 1) (start + d)) as (p & Hp & Hr).
        -- exists []. reflexivity.
        -- exact Hall.
        -- lia.
        -- rewrite sumz_cons in He. change (sumz []) with 0 in He. lia.
        -- rewrite zlen_cons in Hf. change (zlen (@nil Z)) with 0 in Hf. lia.
        -- exists p. split; [apply in_or_app; right; exact Hp|exact Hr].
      * destruct (IHt f loop (start + d)) as (p & Hp & Hr).
        -- destruct Hsuf as (pre & Epre). exists (pre ++ [d]). rewrite <- app_assoc. exact Epre.
        -- discriminate.
        -- lia.
        -- rewrite sumz_cons in He. lia.
        -- rewrite zlen_cons in Hf. lia.
        -- exists p. split; [apply in_or_app; right; exact Hp|exact Hr].
Qed.
End Now.

Theorem live_reaches_now ds fta elapsed : Forall (fun d => 0 <= d) ds -> 0 < sumz ds -> 0 <= fta -> fta <= elapsed ->
  exists p, In p (live_periods ds fta elapsed) /\ p_start p <= elapsed < p_start p + p_dur p.
Proof.
  intros Hnn Ht Hf Hwin. unfold live_periods, live_fuel.
  set (total := sumz ds) in *. set (loops := fta / total).
  assert (Hs0 : total * loops <= fta) by (apply Z.mul_div_le; exact Ht).
  set (x := elapsed - total * loops). assert (Hx : 0 <= x) by (unfold x; lia).
  set (q := x / total). assert (Hq : 0 <= q) by (apply Z.div_pos; lia).
  assert (Hqx : x < total * (q + 1)).
  { unfold q. pose proof (Z.mul_succ_div_gt x total Ht). lia. }
  assert (Hne : ds <> []). { intros ->. unfold total in Ht. cbn in Ht. lia. }
  assert (Hn : 1 <= zlen ds). { destruct ds; [congruence|]. rewrite zlen_cons. pose proof (zlen_nonneg ds). lia. }
  apply (live_loop_reaches ds fta elapsed Hnn Hwin (Z.to_nat q)).
  - exists []. reflexivity.
  - exact Hne.
  - lia.
  - rewrite Z2Nat.id by exact Hq. fold total. unfold x in Hqx. lia.
  - rewrite Z2Nat.id by exact Hq. rewrite Z2Nat.id by nia. nia.
Qed.

Lemma pchain_cover l : pchain l -> forall p0 rest, l = p0 :: rest -> forall p, In p l -> forall t,
  p_start p0 <= t < p_start p + p_dur p -> exists q, In q l /\ p_start q <= t < p_start q + p_dur q.
Proof.
  induction l as [|a l IH]; intros Hc p0 rest E p Hin t Ht; [discriminate|].
  injection E as <- <-.
  destruct (Z.ltb_spec t (p_start a + p_dur a)) as [Hlt|Hge].
  - exists a. split; [left; reflexivity|lia].
  - destruct Hin as [<-|Hin]; [lia|].
    destruct l as [|b l']; [destruct Hin|].
    cbn [pchain] in Hc. destruct Hc as (Hb & Hc).
    destruct (IH Hc b l' eq_refl p Hin t ltac:(lia)) as (q & Hq & Hr).
    exists q. split; [right; exact Hq|exact Hr].
Qed.

(* the whole time-shift window [firstAvailableTime, now] is covered by listed Periods *)
Theorem live_covers_window ds fta elapsed : Forall (fun d => 0 <= d) ds -> 0 < sumz ds -> 0 <= fta -> fta <= elapsed ->
  forall t, fta <= t <= elapsed ->
  exists q, In q (live_periods ds fta elapsed) /\ p_start q <= t < p_start q + p_dur q.
Proof.
  intros Hnn Ht Hf Hwin t Hti.
  destruct (live_reaches_now ds fta elapsed Hnn Ht Hf Hwin) as (p & Hp & Hr).
  destruct (live_periods ds fta elapsed) as [|p0 rest] eqn:E; [destruct Hp|].
  pose proof (live_first_covers ds fta elapsed p0 rest Hnn Ht Hf E) as H0.
  pose proof (live_contiguous ds fta elapsed Hnn) as Hc. rewrite E in Hc.
  apply (pchain_cover _ Hc p0 rest eq_refl p Hp t). lia.
Qed.

(* ids are unique per repetition: (position, loop) never repeats *)
Theorem live_ids_unique ds fta elapsed :
  NoDup (map (fun p => (p_pos p, p_loop p)) (live_periods ds fta elapsed)).
Proof.
  unfold live_periods.
  pose proof (live_loop_keys ds fta elapsed (live_fuel ds fta elapsed) ds (fta / sumz ds) (sumz ds * (fta / sumz ds))
                ltac:(exists []; reflexivity)) as Hk.
  pose proof (increasing_NoDup ds _ _ Hk) as Hn.
  apply (NoDup_map_inv (fun pr : Z * Z => snd pr * zlen ds + fst pr)).
  rewrite map_map. exact Hn.
Qed.

(* ------------------------------------------------------------ segment numbers inside a Period *)
Section Numbers.
Variable r : rep.
Hypothesis Hok : rep_ok r.
Variables (pstart ref_ts : Z).
Hypothesis Htc : 0 <= mps_start_tc r pstart ref_ts.

Let m0 := fst (fst (get_segment_index r (mps_start_tc r pstart ref_ts))).
Let s0 := snd (fst (get_segment_index r (mps_start_tc r pstart ref_ts))).

(* number startNumber + k delivers source segment m0 + k, where m0 is the segment whose start is
   nearest the Period's source offset; decode times count from (start of m0) and are gapless *)
Theorem mps_number_spec k : 0 <= k -> m0 + k <= nseg r ->
  mps_number r pstart ref_ts (r_start_number r + k) =
    Some (m0 + k, - s0, r_start_time r + prefix r (m0 + k - 1) - s0).
Proof.
  intros Hk Hle. unfold mps_number. subst m0 s0.
  destruct (get_segment_index r (mps_start_tc r pstart ref_ts)) as [[m s] o]. cbn [fst snd] in *.
  replace (r_start_number r + k - r_start_number r) with k by lia.
  destruct (r_start_number r + k <? r_start_number r) eqn:Eb; [lia|].
  destruct (nseg r <? m + k) eqn:E; [lia|]. reflexivity.
Qed.

Theorem mps_number_beyond k : nseg r < m0 + k ->
  mps_number r pstart ref_ts (r_start_number r + k) = None.
Proof.
  intros Hlt. unfold mps_number. subst m0.
  destruct (get_segment_index r (mps_start_tc r pstart ref_ts)) as [[m s] o]. cbn [fst snd] in *.
  replace (r_start_number r + k - r_start_number r) with k by lia.
  destruct (r_start_number r + k <? r_start_number r) eqn:Eb; [reflexivity|].
  destruct (nseg r <? m + k) eqn:E; [reflexivity|lia].
Qed.

(* a number below startNumber addresses nothing of this Period *)
Theorem mps_number_before N : N < r_start_number r -> mps_number r pstart ref_ts N = None.
Proof.
  intros Hlt. unfold mps_number.
  destruct (get_segment_index r (mps_start_tc r pstart ref_ts)) as [[m s] o].
  destruct (N <? r_start_number r) eqn:Eb; [reflexivity|lia].
Qed.

(* zero at the Period start (for an offset inside the first pass over the file) and gapless *)
Theorem mps_decode_times :
  1 <= m0 <= nseg r /\
  (s0 = prefix r (m0 - 1) \/ (m0 = 1 /\ s0 = r_lr r)) ->
  forall k, 0 <= k -> m0 + k + 1 <= nseg r ->
  prefix r (m0 + k + 1 - 1) - s0 = (prefix r (m0 + k - 1) - s0) + dur_at r (m0 + k).
Proof.
  intros (Hm & _) k Hk Hle. replace (m0 + k + 1 - 1) with (m0 + k) by lia.
  rewrite (prefix_step r (m0 + k)) by lia. lia.
Qed.

Theorem mps_first_segment :
  mps_start_tc r pstart ref_ts < r_lr r ->
  1 <= m0 <= nseg r /\ (s0 = prefix r (m0 - 1) \/ (m0 = 1 /\ s0 = r_lr r)).
Proof.
  intros Hlt. subst m0 s0. pose proof (gsi_form r Hok _ Htc) as F.
  destruct (get_segment_index r (mps_start_tc r pstart ref_ts)) as [[m s] o]. cbn [fst snd].
  destruct F as (Hm & _ & _ & Hs & Ho). split; [exact Hm|].
  pose proof (lr_pos r Hok) as Hl.
  assert (Hq : mps_start_tc r pstart ref_ts / r_lr r = 0) by (apply Z.div_small; lia).
  rewrite Hq in Ho. destruct Ho as [->|(-> & ->)].
  - left. lia.
  - right. split; [reflexivity|]. change (1 - 1) with 0 in Hs. rewrite prefix_0 in Hs. lia.
Qed.

End Numbers.
