(* C02 / C09 / C01 / C06 - proofs about Model/SegModel.v *)
From Verif Require Import Base.Tactics Base.ZList Model.IsoTimeModel Model.SegModel.

(* ------------------------------------------------------------------ sums *)
Lemma sumz_app l1 l2 : sumz (l1 ++ l2) = sumz l1 + sumz l2.
Proof. induction l1 as [|x xs IH]; cbn [app sumz]; lia. Qed.

Definition pos_list (l : list Z) : Prop := Forall (fun d => 1 <= d) l.

Lemma sumz_ge_len l : pos_list l -> zlen l <= sumz l.
Proof.
  induction 1 as [|x xs Hx _ IH]; [rewrite zlen_nil; cbn; lia|].
  rewrite zlen_cons; cbn [sumz]; lia.
Qed.
Lemma sumz_nonneg l : pos_list l -> 0 <= sumz l.
Proof. intros H. pose proof (sumz_ge_len l H). pose proof (zlen_nonneg l). lia. Qed.

Lemma pos_firstn k l : pos_list l -> pos_list (firstn k l).
Proof.
  revert k; induction l as [|x xs IH]; intros [|k] H; cbn [firstn]; try constructor.
  - inversion H; assumption.
  - apply IH. inversion H; assumption.
Qed.
Lemma pos_skipn k l : pos_list l -> pos_list (skipn k l).
Proof.
  revert k; induction l as [|x xs IH]; intros [|k] H; cbn [skipn]; try assumption.
  apply IH. inversion H; assumption.
Qed.
Lemma pos_ztake k l : pos_list l -> pos_list (ztake k l).
Proof. apply pos_firstn. Qed.
Lemma pos_zdrop k l : pos_list l -> pos_list (zdrop k l).
Proof. apply pos_skipn. Qed.

Lemma split_nth (l : list Z) (k : nat) : (k < length l)%nat ->
  l = firstn k l ++ nth k l 0 :: skipn (S k) l.
Proof.
  revert k; induction l as [|x xs IH]; intros k H; cbn [length] in H; [lia|].
  destruct k as [|k]; cbn [firstn nth skipn app]; [reflexivity|].
  f_equal. apply IH. lia.
Qed.
Lemma split_at (l : list Z) k : 0 <= k < zlen l ->
  l = ztake k l ++ nth (Z.to_nat k) l 0 :: zdrop (k + 1) l.
Proof.
  intros H. unfold ztake, zdrop, zlen in *.
  replace (Z.to_nat (k + 1)) with (S (Z.to_nat k)) by lia.
  apply split_nth. lia.
Qed.

Lemma skipn_nth (l : list Z) (k : nat) : (k < length l)%nat ->
  skipn k l = nth k l 0 :: skipn (S k) l.
Proof.
  revert k; induction l as [|x xs IH]; intros k H; cbn [length] in H; [lia|].
  destruct k as [|k]; [reflexivity|]. cbn [skipn nth]. apply IH. lia.
Qed.

Lemma sumz_ztake_step (l : list Z) k : 0 <= k < zlen l ->
  sumz (ztake (k + 1) l) = sumz (ztake k l) + nth (Z.to_nat k) l 0.
Proof.
  intros H. rewrite (ztake_split k 1) by lia. rewrite sumz_app. f_equal.
  unfold ztake, zdrop, zlen in *. replace (Z.to_nat 1) with 1%nat by lia.
  rewrite skipn_nth by lia. cbn. lia.
Qed.

Lemma sumz_ztake_lt (l : list Z) a b : pos_list l -> 0 <= a -> a < b -> b <= zlen l ->
  sumz (ztake a l) < sumz (ztake b l).
Proof.
  intros Hp Ha Hab Hb. replace b with (a + (b - a)) by lia.
  rewrite ztake_split by lia. rewrite sumz_app.
  pose proof (sumz_ge_len (ztake (b - a) (zdrop a l)) (pos_ztake _ _ (pos_zdrop _ _ Hp))) as H.
  rewrite zlen_ztake, zlen_zdrop in H. lia.
Qed.
Lemma sumz_ztake_le (l : list Z) a b : pos_list l -> 0 <= a -> a <= b ->
  sumz (ztake a l) <= sumz (ztake b l).
Proof.
  intros Hp Ha Hab. replace b with (a + (b - a)) by lia.
  rewrite ztake_split by lia. rewrite sumz_app.
  pose proof (sumz_nonneg (ztake (b - a) (zdrop a l)) (pos_ztake _ _ (pos_zdrop _ _ Hp))). lia.
Qed.
Lemma sumz_ztake_all (l : list Z) : sumz (ztake (zlen l) l) = sumz l.
Proof. rewrite ztake_all by lia. reflexivity. Qed.

(* ------------------------------------------------------------------ walk *)
Lemma walk_hit ds1 d ds2 m start :
  pos_list ds1 -> 0 <= d ->
  walk (ds1 ++ d :: ds2) m start (start + sumz ds1) = Some (m + zlen ds1, start + sumz ds1).
Proof.
  revert m start. induction ds1 as [|x xs IH]; intros m start HF Hd; cbn [app walk sumz].
  - unfold zlen; cbn [length Z.of_nat]. destruct (start + d / 2 <? start + 0) eqn:E; [lia|]. do 2 f_equal; lia.
  - inversion HF as [|? ? Hx HF']; subst. pose proof (sumz_nonneg xs HF').
    destruct (start + x / 2 <? start + (x + sumz xs)) eqn:E; [|lia].
    rewrite zlen_cons. replace (start + (x + sumz xs)) with ((start + x) + sumz xs) by lia.
    rewrite IH by assumption. do 2 f_equal; lia.
Qed.

Lemma walk_some ds m start tc m' s' : walk ds m start tc = Some (m', s') ->
  exists j, 0 <= j < zlen ds /\ m' = m + j /\ s' = start + sumz (ztake j ds) /\
            tc <= s' + nth (Z.to_nat j) ds 0 / 2.
Proof.
  revert m start. induction ds as [|d rest IH]; intros m start H; cbn [walk] in H; [discriminate|].
  destruct (start + d / 2 <? tc) eqn:E.
  - destruct (IH _ _ H) as (j & Hj & Hm & Hs & Ht).
    exists (j + 1). rewrite zlen_cons. repeat split; try lia.
    + unfold ztake in *. replace (Z.to_nat (j + 1)) with (S (Z.to_nat j)) by lia. cbn [firstn sumz]. lia.
    + replace (Z.to_nat (j + 1)) with (S (Z.to_nat j)) by lia. cbn [nth]. exact Ht.
  - inv H. exists 0. rewrite zlen_cons. pose proof (zlen_nonneg rest).
    repeat split; try lia.
    + rewrite ztake_nonpos by lia. cbn [sumz]. lia.
    + change (nth (Z.to_nat 0) (d :: rest) 0) with d. lia.
Qed.

Lemma walk_ge ds m start tc m' s' : pos_list ds -> walk ds m start tc = Some (m', s') -> start <= s'.
Proof.
  intros Hp H. destruct (walk_some _ _ _ _ _ _ H) as (j & Hj & _ & Hs & _).
  pose proof (sumz_nonneg _ (pos_ztake j ds Hp)). lia.
Qed.

(* the wrapped branch: every segment of the pass failed the test, so tc is beyond the
   last half-segment *)
Lemma walk_none ds m start tc : walk ds m start tc = None ->
  forall j, 0 <= j < zlen ds -> start + sumz (ztake j ds) + nth (Z.to_nat j) ds 0 / 2 < tc.
Proof.
  revert m start. induction ds as [|d rest IH]; intros m start H j Hj; cbn [walk] in H.
  - unfold zlen in Hj; cbn [length] in Hj; lia.
  - destruct (start + d / 2 <? tc) eqn:E; [|discriminate].
    rewrite zlen_cons in Hj. destruct (Z.eq_dec j 0) as [->|Hn].
    + rewrite ztake_nonpos by lia. change (nth (Z.to_nat 0) (d :: rest) 0) with d. cbn [sumz]. lia.
    + specialize (IH _ _ H (j - 1) ltac:(lia)).
      unfold ztake in *. replace (Z.to_nat j) with (S (Z.to_nat (j - 1))) by lia.
      cbn [firstn sumz nth]. lia.
Qed.

Lemma walk_prev ds m start tc m' s' : walk ds m start tc = Some (m', s') ->
  forall i, 0 <= i < m' - m -> start + sumz (ztake i ds) + nth (Z.to_nat i) ds 0 / 2 < tc.
Proof.
  revert m start. induction ds as [|d rest IH]; intros m start H i Hi; cbn [walk] in H; [discriminate|].
  destruct (start + d / 2 <? tc) eqn:Et.
  - destruct (Z.eq_dec i 0) as [->|Hn].
    + rewrite ztake_nonpos by lia. change (nth (Z.to_nat 0) (d :: rest) 0) with d. cbn [sumz]. lia.
    + specialize (IH _ _ H (i - 1) ltac:(lia)).
      unfold ztake in *. replace (Z.to_nat i) with (S (Z.to_nat (i - 1))) by lia.
      cbn [firstn sumz nth]. lia.
  - inv H. lia.
Qed.

Lemma walk_mono ds m start tc1 tc2 : pos_list ds -> tc1 <= tc2 ->
  match walk ds m start tc1, walk ds m start tc2 with
  | Some (_, s1), Some (_, s2) => s1 <= s2
  | Some (_, s1), None => s1 <= start + sumz ds
  | None, Some _ => False
  | None, None => True
  end.
Proof.
  revert m start. induction ds as [|d rest IH]; intros m start Hp Hle; cbn [walk]; [exact I|].
  inversion Hp as [|? ? Hd Hp']; subst.
  destruct (start + d / 2 <? tc1) eqn:E1; destruct (start + d / 2 <? tc2) eqn:E2; try lia.
  - specialize (IH (m + 1) (start + d) Hp' Hle).
    destruct (walk rest (m + 1) (start + d) tc1) as [[? s1]|];
      destruct (walk rest (m + 1) (start + d) tc2) as [[? s2]|]; cbn [sumz]; try lia; exact IH.
  - destruct (walk rest (m + 1) (start + d) tc2) as [[? s2]|] eqn:E.
    + pose proof (walk_ge _ _ _ _ _ _ Hp' E). lia.
    + cbn [sumz]. pose proof (sumz_nonneg rest Hp'). lia.
Qed.

(* ------------------------------------------------------------------ representation facts *)
Section Rep.
Variable r : rep.
Hypothesis Hok : rep_ok r.

Let n := nseg r.
Let lr := r_lr r.

Lemma durs_pos : pos_list (r_durs r).
Proof. destruct Hok as (_ & H & _). exact H. Qed.
Lemma n_ge2 : 2 <= nseg r.
Proof. destruct Hok as (H & _). exact H. Qed.
Lemma lr_pos : 0 < r_lr r.
Proof. destruct Hok as (_ & _ & H & _). exact H. Qed.

Lemma prefix_0 : prefix r 0 = 0.
Proof. reflexivity. Qed.
Lemma prefix_n : prefix r (nseg r) = media_dur r.
Proof. unfold prefix, nseg, media_dur. apply sumz_ztake_all. Qed.
Lemma prefix_step m : 1 <= m <= nseg r -> prefix r m = prefix r (m - 1) + dur_at r m.
Proof.
  intros H. unfold prefix, dur_at. replace m with ((m - 1) + 1) at 1 by lia.
  apply sumz_ztake_step. unfold nseg in H. lia.
Qed.
Lemma prefix_nonneg k : 0 <= prefix r k.
Proof. unfold prefix. apply sumz_nonneg, pos_ztake, durs_pos. Qed.
Lemma prefix_lt a b : 0 <= a -> a < b -> b <= nseg r -> prefix r a < prefix r b.
Proof. intros. unfold prefix. apply sumz_ztake_lt; try assumption. apply durs_pos. Qed.
Lemma prefix_le a b : 0 <= a -> a <= b -> prefix r a <= prefix r b.
Proof. intros. unfold prefix. apply sumz_ztake_le; try assumption. apply durs_pos. Qed.

Lemma dur_at_pos m : 1 <= m <= nseg r -> 1 <= dur_at r m.
Proof.
  intros H. unfold dur_at. pose proof durs_pos as Hp. unfold pos_list in Hp.
  rewrite Forall_forall in Hp. apply Hp. apply nth_In. unfold nseg, zlen in H. lia.
Qed.

(* the start of every segment of a pass lies inside the loop: prefix (m-1) < Lr *)
Lemma prefix_in_loop m : 1 <= m <= nseg r -> prefix r (m - 1) < r_lr r.
Proof.
  intros H. destruct Hok as (_ & _ & _ & _ & _ & He).
  unfold eff_dur, drift in He. rewrite Z.eqb_refl in He.
  pose proof (prefix_step (nseg r) ltac:(pose proof n_ge2; lia)) as Hs. rewrite prefix_n in Hs.
  pose proof (prefix_le (m - 1) (nseg r - 1) ltac:(lia) ltac:(lia)). lia.
Qed.

Lemma eff_dur_pos m : 1 <= m <= nseg r -> 1 <= eff_dur r m.
Proof.
  intros H. unfold eff_dur. destruct (m =? nseg r) eqn:E.
  - assert (m = nseg r) by lia. subst m. destruct Hok as (_ & _ & _ & _ & _ & He).
    unfold eff_dur in He. rewrite Z.eqb_refl in He. exact He.
  - pose proof (dur_at_pos m H). lia.
Qed.

Lemma origin_of k p : 0 <= p < r_lr r -> (k * r_lr r + p) / r_lr r * r_lr r = k * r_lr r.
Proof.
  intros H. f_equal. rewrite Z.add_comm, Z.div_add by lia. rewrite Z.div_small by lia. lia.
Qed.

(* every canonical segment start maps back to its own segment *)
Lemma gsi_hits k m : 1 <= m <= nseg r ->
  get_segment_index r (k * r_lr r + prefix r (m - 1)) =
    (m, k * r_lr r + prefix r (m - 1), k * r_lr r).
Proof.
  intros H. unfold get_segment_index.
  rewrite origin_of by (pose proof (prefix_nonneg (m - 1)); pose proof (prefix_in_loop m H); lia).
  pose proof (split_at (r_durs r) (m - 1) ltac:(unfold nseg in H; lia)) as Hs.
  rewrite Hs at 1. unfold prefix.
  rewrite walk_hit.
  - rewrite zlen_ztake. unfold nseg in H. do 2 f_equal. lia.
  - apply pos_ztake, durs_pos.
  - pose proof (dur_at_pos m H) as Hd. unfold dur_at in Hd. lia.
Qed.

(* shape of any answer of get_segment_index *)
Lemma gsi_form tc : 0 <= tc ->
  let '(m, s, o) := get_segment_index r tc in
  1 <= m <= nseg r /\ o mod r_lr r = 0 /\ 0 <= o /\ s = o + prefix r (m - 1) /\
  (o = tc / r_lr r * r_lr r \/ (o = tc / r_lr r * r_lr r + r_lr r /\ m = 1)).
Proof.
  intros Htc. unfold get_segment_index. pose proof lr_pos as Hl. pose proof n_ge2 as Hn.
  assert (Ho : 0 <= tc / r_lr r * r_lr r) by (pose proof (Z.div_pos tc (r_lr r) Htc Hl); nia).
  destruct (walk (r_durs r) 1 (tc / r_lr r * r_lr r) tc) as [[m s]|] eqn:E.
  - destruct (walk_some _ _ _ _ _ _ E) as (j & Hj & Hm & Hs & _).
    repeat split; try (unfold nseg; lia).
    + apply Z.mod_mul. lia.
    + subst. unfold prefix. replace (1 + j - 1) with j by lia. reflexivity.
  - repeat split; try lia.
    + rewrite <- Z.mul_succ_l. apply Z.mod_mul. lia.
    + change (1 - 1) with 0. rewrite prefix_0. lia.
Qed.

(* the loop stops right after the wrap: origin + Lr > tc *)
Lemma wrap_stops tc : 0 <= tc -> tc < tc / r_lr r * r_lr r + r_lr r.
Proof. intros H. pose proof lr_pos. pose proof (Z.mod_pos_bound tc (r_lr r) ltac:(lia)). lia. Qed.

(* get_segment_index is monotone in the timecode (the listed window only moves forward) *)
Lemma gsi_mono tc1 tc2 : 0 <= tc1 -> tc1 <= tc2 ->
  snd (fst (get_segment_index r tc1)) <= snd (fst (get_segment_index r tc2)).
Proof.
  intros H1 Hle. pose proof lr_pos as Hl. pose proof durs_pos as Hp.
  assert (Hq : tc1 / r_lr r <= tc2 / r_lr r) by (apply Z.div_le_mono; lia).
  destruct (Z.eq_dec (tc1 / r_lr r) (tc2 / r_lr r)) as [Heq|Hne].
  - unfold get_segment_index. rewrite <- Heq.
    pose proof (walk_mono (r_durs r) 1 (tc1 / r_lr r * r_lr r) tc1 tc2 Hp Hle) as Hm.
    destruct (walk (r_durs r) 1 (tc1 / r_lr r * r_lr r) tc1) as [[m1 s1]|] eqn:E1;
    destruct (walk (r_durs r) 1 (tc1 / r_lr r * r_lr r) tc2) as [[m2 s2]|] eqn:E2; cbn [fst snd]; try lia.
    destruct (walk_some _ _ _ _ _ _ E1) as (j & Hj & Hmj & Hs & _).
    pose proof (prefix_in_loop (j + 1) ltac:(unfold nseg; lia)) as Hin.
    unfold prefix in Hin. replace (j + 1 - 1) with j in Hin by lia. lia.
  - pose proof (gsi_form tc1 H1) as F1. pose proof (gsi_form tc2 ltac:(lia)) as F2.
    destruct (get_segment_index r tc1) as [[m1 s1] o1]. destruct (get_segment_index r tc2) as [[m2 s2] o2].
    cbn [fst snd]. destruct F1 as (Hm1 & _ & _ & Hs1 & Ho1). destruct F2 as (Hm2 & _ & _ & Hs2 & Ho2).
    pose proof (prefix_nonneg (m2 - 1)). pose proof (prefix_in_loop m1 Hm1).
    assert (tc1 / r_lr r * r_lr r + r_lr r <= tc2 / r_lr r * r_lr r) by nia.
    remember (tc1 / r_lr r * r_lr r) as a1 eqn:Ea1. remember (tc2 / r_lr r * r_lr r) as a2 eqn:Ea2.
    clear Ea1 Ea2 Hq Hne.
    destruct Ho1 as [->|(-> & ->)]; destruct Ho2 as [->|(-> & ->)]; subst;
      change (1 - 1) with 0 in *; try rewrite prefix_0 in *; lia.
Qed.

(* nearest-start: the answer is within half a segment (plus the drift) of the request *)
Lemma gsi_near tc : 0 <= tc ->
  let '(m, s, o) := get_segment_index r tc in
  tc - dur_at r m / 2 <= s /\
  (s <= tc \/ (exists m', 1 <= m' <= nseg r /\ s - tc <= (dur_at r m' + 1) / 2 + Z.max 0 (drift r))).
Proof.
  intros Htc. unfold get_segment_index. pose proof lr_pos as Hl. pose proof n_ge2 as Hn.
  pose proof durs_pos as Hp.
  set (o := tc / r_lr r * r_lr r).
  assert (Hole : o <= tc) by (subst o; pose proof (Z.mod_pos_bound tc (r_lr r) ltac:(lia)); lia).
  assert (Hw : tc < o + r_lr r) by (subst o; apply wrap_stops; exact Htc).
  clearbody o.
  destruct (walk (r_durs r) 1 o tc) as [[m s]|] eqn:E.
  - destruct (walk_some _ _ _ _ _ _ E) as (j & Hj & Hm & Hs & Ht).
    split; [unfold dur_at; replace (m - 1) with j by lia; lia|].
    destruct (Z_le_gt_dec s tc) as [|Hgt]; [left; assumption|right].
    (* s > tc: j >= 1 and segment j-1 failed the test *)
    destruct (Z.eq_dec j 0) as [->|Hj0]; [cbn in Hs; lia|].
    (* re-run the walk on the prefix to learn that segment j-1 failed *)
    exists j. split; [unfold nseg; lia|].
    pose proof (walk_prev _ _ _ _ _ _ E (j - 1) ltac:(lia)) as Hprev.
    pose proof (sumz_ztake_step (r_durs r) (j - 1) ltac:(lia)) as Hst.
    replace (j - 1 + 1) with j in Hst by lia.
    unfold dur_at. replace (j - 1) with (j - 1) by lia. lia.
  - (* wrapped *)
    pose proof (walk_none _ _ _ _ E (nseg r - 1) ltac:(unfold nseg in *; lia)) as Hlast.
    split; [pose proof (dur_at_pos 1 ltac:(lia)) as H1; lia|].
    right. exists (nseg r). split; [lia|].
    pose proof (prefix_step (nseg r) ltac:(lia)) as Hs. rewrite prefix_n in Hs.
    unfold prefix, dur_at in *. unfold drift, media_dur in *.
    replace (Z.to_nat (nseg r - 1)) with (Z.to_nat (nseg r - 1)) in * by lia. lia.
Qed.

(* ------------------------------------------------------------------ the timeline *)
(* an entry of the canonical sequence: segment m of loop k *)
Definition canon (e : Z * Z * Z) : Prop :=
  let '(t, d, m) := e in
  1 <= m <= nseg r /\ d = eff_dur r m /\ exists k, 0 <= k /\ t = k * r_lr r + prefix r (m - 1).

Lemma next_m_range m : 1 <= m <= nseg r -> 1 <= next_m r m <= nseg r.
Proof. intros H. unfold next_m. pose proof n_ge2. destruct (nseg r <? m + 1) eqn:E; lia. Qed.

Lemma canon_next t m : canon (t, eff_dur r m, m) ->
  canon (t + eff_dur r m, eff_dur r (next_m r m), next_m r m).
Proof.
  intros (Hm & _ & k & Hk & Ht). unfold canon. split; [apply next_m_range; exact Hm|]. split; [reflexivity|].
  unfold next_m, eff_dur. destruct (nseg r <? m + 1) eqn:E.
  - assert (m = nseg r) by lia. subst m. rewrite Z.eqb_refl. exists (k + 1). split; [lia|].
    pose proof (prefix_step (nseg r) ltac:(lia)) as Hs. rewrite prefix_n in Hs.
    unfold drift. change (1 - 1) with 0. rewrite prefix_0. lia.
  - destruct (m =? nseg r) eqn:E2; [lia|]. exists k. split; [lia|].
    pose proof (prefix_step m Hm). replace (m + 1 - 1) with m by lia. lia.
Qed.

Lemma tl_loop_canon fuel m t dur end_ : canon (t, eff_dur r m, m) ->
  Forall canon (tl_loop fuel r m t dur end_).
Proof.
  revert m t dur. induction fuel as [|f IH]; intros m t dur Hc; cbn [tl_loop]; [constructor|].
  destruct (dur <? end_); [|constructor].
  constructor; [exact Hc|]. apply IH. apply canon_next. exact Hc.
Qed.

(* consecutive entries are gapless: t + d = next t, and segments follow each other *)
Fixpoint chain (l : list (Z * Z * Z)) : Prop :=
  match l with
  | (t, d, m) :: (((t', _, m') :: _) as rest) => t' = t + d /\ m' = next_m r m /\ chain rest
  | _ => True
  end.
Lemma tl_loop_chain fuel m t dur end_ : chain (tl_loop fuel r m t dur end_).
Proof.
  revert m t dur. induction fuel as [|f IH]; intros m t dur; cbn [tl_loop]; [exact I|].
  destruct (dur <? end_); [|exact I].
  specialize (IH (next_m r m) (t + eff_dur r m) (dur + eff_dur r m)).
  destruct f as [|f']; cbn [tl_loop] in *; [exact I|].
  destruct (dur + eff_dur r m <? end_); [|exact I].
  cbn [chain]. repeat split; try reflexivity. exact IH.
Qed.

Lemma live_first_canon fta : 0 <= fta ->
  let '(m0, s0, _) := get_segment_index r (us_to_tc fta (r_ts r)) in canon (s0, eff_dur r m0, m0).
Proof.
  intros Hf.
  assert (Htc : 0 <= us_to_tc fta (r_ts r)).
  { destruct Hok as (_ & _ & _ & Hts & _). unfold us_to_tc.
    pose proof (Z.div_pos fta 86400000000 Hf ltac:(lia)).
    pose proof (Z.mod_pos_bound fta 86400000000 ltac:(lia)).
    assert (0 <= fta mod 86400000000 / 1000000) by (apply Z.div_pos; lia).
    assert (0 <= r_ts r * (fta mod 86400000000 mod 1000000) / 1000000).
    { apply Z.div_pos; [|lia]. pose proof (Z.mod_pos_bound (fta mod 86400000000) 1000000 ltac:(lia)). nia. }
    nia. }
  pose proof (gsi_form _ Htc) as F.
  destruct (get_segment_index r (us_to_tc fta (r_ts r))) as [[m0 s0] o0].
  destruct F as (Hm & Hmod & Ho & Hs & _). unfold canon. split; [exact Hm|]. split; [reflexivity|].
  exists (o0 / r_lr r). pose proof lr_pos. split; [apply Z.div_pos; lia|].
  rewrite Hs. f_equal. pose proof (Z.div_mod o0 (r_lr r) ltac:(lia)). lia.
Qed.

Lemma live_timeline_canon fta tsbd : 0 <= fta -> Forall canon (live_timeline r fta tsbd).
Proof.
  intros Hf. unfold live_timeline. pose proof (live_first_canon fta Hf) as Hc.
  destruct (get_segment_index r (us_to_tc fta (r_ts r))) as [[m0 s0] o0].
  apply tl_loop_canon. exact Hc.
Qed.
Lemma live_timeline_chain fta tsbd : chain (live_timeline r fta tsbd).
Proof.
  unfold live_timeline. destruct (get_segment_index r (us_to_tc fta (r_ts r))) as [[m0 s0] o0].
  apply tl_loop_chain.
Qed.

(* a $Time$ request for a canonical start finds its own segment, with that very start *)
Lemma canon_hits t d m : canon (t, d, m) ->
  get_segment_index r t = (m, t, t - prefix r (m - 1)).
Proof.
  intros (Hm & _ & k & Hk & ->). rewrite gsi_hits by exact Hm. f_equal. lia.
Qed.

(* two canonical entries with the same start are the same segment (C09: manifests agree) *)
Lemma canon_unique t d1 m1 d2 m2 : canon (t, d1, m1) -> canon (t, d2, m2) -> m1 = m2 /\ d1 = d2.
Proof.
  intros (Hm1 & Hd1 & k1 & Hk1 & Ht1) (Hm2 & Hd2 & k2 & Hk2 & Ht2).
  pose proof (prefix_in_loop m1 Hm1). pose proof (prefix_in_loop m2 Hm2).
  pose proof (prefix_nonneg (m1 - 1)). pose proof (prefix_nonneg (m2 - 1)). pose proof lr_pos.
  assert (k1 = k2) by nia. subst k2.
  assert (Hp : prefix r (m1 - 1) = prefix r (m2 - 1)) by lia.
  assert (m1 = m2).
  { destruct (Z.lt_trichotomy m1 m2) as [Hlt|[He|Hgt]]; [|exact He|].
    - pose proof (prefix_lt (m1 - 1) (m2 - 1) ltac:(lia) ltac:(lia) ltac:(lia)). lia.
    - pose proof (prefix_lt (m2 - 1) (m1 - 1) ltac:(lia) ltac:(lia) ltac:(lia)). lia. }
  subst. split; reflexivity.
Qed.

End Rep.
