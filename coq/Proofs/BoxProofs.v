(* C04 / C10 - proofs about Model/BoxModel.v *)
From Verif Require Import Base.Tactics Base.ZList Model.BoxModel.

Lemma rd32_be32 v r : 0 <= v < 4294967296 -> rd32 (be32 v ++ r) = Some (v, r).
Proof. intros H. unfold be32, rd32. cbn [app]. f_equal. f_equal. lia. Qed.

Lemma be32_length v : length (be32 v) = 4%nat.
Proof. reflexivity. Qed.

Lemma rd64_be64 v r : 0 <= v < 18446744073709551616 -> rd64 (be64 v ++ r) = Some (v, r).
Proof.
  intros H. unfold be64, rd64. rewrite <- app_assoc. rewrite rd32_be32 by lia.
  rewrite rd32_be32 by lia. f_equal. f_equal. lia.
Qed.

Lemma firstn_len_app {A} (a b : list A) n : length a = n -> firstn n (a ++ b) = a.
Proof. intros <-. rewrite firstn_app, Nat.sub_diag, firstn_all. cbn. apply app_nil_r. Qed.
Lemma skipn_len_app {A} (a b : list A) n : length a = n -> skipn n (a ++ b) = b.
Proof. intros <-. rewrite skipn_app, Nat.sub_diag, skipn_all. reflexivity. Qed.

Fixpoint all_wf (l : list box) : Prop := match l with [] => True | x :: r => wf x /\ all_wf r end.
Lemma wf_node t cs : wf (Node t cs) <->
  length t = 4%nat /\ is_container t = true /\ 8 + zlen (flat_map enc cs) < 4294967296 /\ all_wf cs.
Proof.
  assert (G : forall l, (fix all (l : list box) : Prop := match l with [] => True | x :: r => wf x /\ all r end) l <-> all_wf l).
  { induction l as [|x r IH]; [reflexivity|]. cbn [all_wf]. rewrite <- IH. reflexivity. }
  cbn [wf]. rewrite G. reflexivity.
Qed.

Fixpoint weight (b : box) : nat :=
  match b with
  | Leaf _ _ => 1
  | Node _ cs => S (fold_right (fun c acc => (weight c + acc)%nat) 0%nat cs)
  end.
Definition weight_list (l : list box) : nat := fold_right (fun c acc => (weight c + acc)%nat) 0%nat l.

Lemma enc_list_cons b l : enc_list (b :: l) = enc b ++ enc_list l.
Proof. reflexivity. Qed.

Lemma enc_shape b : exists t body, enc b = be32 (8 + zlen body) ++ t ++ body /\ box_typ b = t /\
  match b with Leaf _ p => body = p | Node _ cs => body = enc_list cs end.
Proof. destruct b as [t p|t cs]; [exists t, p|exists t, (enc_list cs)]; repeat split; reflexivity. Qed.

Lemma parse_unfold f size t body after :
  length t = 4%nat -> size = 8 + zlen body -> size < 4294967296 ->
  parse (S f) (be32 size ++ t ++ body ++ after) =
    match (if is_container t then match parse f body with Some cs => Some (Node t cs) | None => None end
           else Some (Leaf t body)), parse f after with
    | Some b, Some l => Some (b :: l)
    | _, _ => None
    end.
Proof.
  intros Ht Hsz Hlt. pose proof (zlen_nonneg body) as Hb0. pose proof (zlen_nonneg after) as Ha0.
  unfold be32. cbn [app parse rd32].
  replace (size / 16777216 mod 256 * 16777216 + size / 65536 mod 256 * 65536 + size / 256 mod 256 * 256 + size mod 256)
    with size by lia.
  rewrite (firstn_len_app t (body ++ after) 4 Ht). rewrite (skipn_len_app t (body ++ after) 4 Ht).
  assert (Hl1 : zlen (size / 16777216 mod 256 :: size / 65536 mod 256 :: size / 256 mod 256 :: size mod 256 :: t ++ body ++ after)
                = size + zlen after).
  { rewrite !zlen_cons, !zlen_app. unfold zlen at 1. rewrite Ht. lia. }
  assert (Hl2 : zlen (t ++ body ++ after) = 4 + zlen body + zlen after).
  { rewrite !zlen_app. unfold zlen at 1. rewrite Ht. lia. }
  rewrite Hl1, Hl2.
  destruct ((size <? 8) || (size + zlen after <? size) || (4 + zlen body + zlen after <? 4)) eqn:E; [lia|].
  replace (size - 8) with (zlen body) by lia.
  rewrite ztake_app_le by lia. rewrite ztake_all by lia.
  rewrite zdrop_app_ge by lia. replace (zlen body - zlen body) with 0 by lia. rewrite zdrop_nonpos by lia.
  reflexivity.
Qed.

(* parsing the encoding of a well-formed forest gives the forest back *)
Theorem parse_enc fuel : forall l, all_wf l -> (weight_list l < fuel)%nat -> parse fuel (enc_list l) = Some l.
Proof.
  induction fuel as [|f IH]; intros l Hwf Hfuel; [lia|].
  destruct l as [|b rest]; [reflexivity|].
  destruct Hwf as (Hb & Hrest).
  cbn [weight_list fold_right] in Hfuel. fold (weight_list rest) in Hfuel.
  rewrite enc_list_cons.
  destruct b as [t p|t cs].
  - destruct Hb as (Ht & Hc & Hs). cbn [enc]. rewrite <- !app_assoc.
    rewrite parse_unfold by (try assumption; reflexivity).
    rewrite Hc. rewrite IH; [reflexivity|exact Hrest|cbn [weight] in Hfuel; lia].
  - apply wf_node in Hb. destruct Hb as (Ht & Hc & Hs & Hcs). cbn [enc]. cbv zeta. rewrite <- !app_assoc.
    rewrite parse_unfold by (try assumption; reflexivity).
    rewrite Hc. cbn [weight] in Hfuel. fold (weight_list cs) in Hfuel.
    change (flat_map enc cs) with (enc_list cs).
    rewrite (IH cs Hcs) by lia. rewrite (IH rest Hrest) by lia. reflexivity.
Qed.

(* ------------------------------------------------------------ the other direction *)
Definition is_byte (x : Z) : Prop := 0 <= x < 256.

Lemma rd32_inv bs v r : Forall is_byte bs -> rd32 bs = Some (v, r) -> bs = be32 v ++ r /\ 0 <= v < 4294967296.
Proof.
  intros Hb H. destruct bs as [|a [|b [|c [|d r0]]]]; cbn [rd32] in H; try discriminate.
  inv H. inversion Hb as [|? ? Ha Hb1]; subst. inversion Hb1 as [|? ? Hb' Hb2]; subst.
  inversion Hb2 as [|? ? Hc Hb3]; subst. inversion Hb3 as [|? ? Hd _]; subst.
  unfold is_byte in *. unfold be32. cbn [app]. split; [|lia].
  repeat f_equal; lia.
Qed.

Lemma Forall_firstn {A} (P : A -> Prop) n l : Forall P l -> Forall P (firstn n l).
Proof. revert n. induction l as [|x r IH]; intros [|n] H; cbn; try constructor; inversion H; subst; auto. Qed.
Lemma Forall_skipn {A} (P : A -> Prop) n l : Forall P l -> Forall P (skipn n l).
Proof. revert n. induction l as [|x r IH]; intros [|n] H; cbn; try assumption; inversion H; subst; auto. Qed.

(* whatever the parser accepts re-encodes to the same bytes (32-bit size form) *)
Theorem enc_parse fuel : forall bs l, Forall is_byte bs -> parse fuel bs = Some l -> enc_list l = bs.
Proof.
  induction fuel as [|f IH]; intros bs l Hb H; [discriminate|].
  cbn [parse] in H. destruct bs as [|b0 bs0]; [inv H; reflexivity|].
  remember (b0 :: bs0) as bs eqn:Ebs.
  destruct (rd32 bs) as [[size r]|] eqn:Er; [|discriminate].
  destruct (rd32_inv bs size r Hb Er) as (Hbs & Hsz).
  destruct ((size <? 8) || (zlen bs <? size) || (zlen r <? 4)) eqn:Ec; [discriminate|].
  assert (Hbr : Forall is_byte r) by (rewrite Hbs in Hb; apply Forall_app in Hb; apply Hb).
  set (t := firstn 4 r) in *. set (rest := skipn 4 r) in *.
  assert (Hr : r = t ++ rest) by (unfold t, rest; symmetry; apply firstn_skipn).
  assert (Hlen : zlen bs = 4 + zlen r) by (rewrite Hbs, zlen_app; unfold zlen at 1; rewrite be32_length; lia).
  assert (Hlt : zlen t = 4) by (unfold t; unfold zlen; rewrite firstn_length; unfold zlen in Ec; lia).
  assert (Hlr : zlen r = 4 + zlen rest) by (rewrite Hr at 1; rewrite zlen_app; lia).
  set (body := ztake (size - 8) rest) in *. set (after := zdrop (size - 8) rest) in *.
  assert (Hrest : rest = body ++ after) by (unfold body, after; symmetry; apply ztake_zdrop_id).
  assert (Hlb : zlen body = size - 8) by (unfold body; rewrite zlen_ztake; lia).
  assert (Hbrest : Forall is_byte rest) by (unfold rest; apply Forall_skipn; exact Hbr).
  assert (Hbbody : Forall is_byte body) by (unfold body, ztake; apply Forall_firstn; exact Hbrest).
  assert (Hbafter : Forall is_byte after) by (unfold after, zdrop; apply Forall_skipn; exact Hbrest).
  clearbody body after. clearbody t rest.
  assert (Hwhole : bs = be32 size ++ t ++ body ++ after) by (rewrite Hbs, Hr, Hrest; reflexivity).
  clear Hbs Hr Hrest Hlen Hlr Ebs.
  destruct (is_container t) eqn:Et.
  - destruct (parse f body) as [cs|] eqn:Ep; [|discriminate].
    destruct (parse f after) as [l'|] eqn:Ea; [|discriminate]. injection H as <-.
    rewrite enc_list_cons. cbn [enc]. cbv zeta. change (flat_map enc cs) with (enc_list cs).
    rewrite (IH body cs Hbbody Ep), (IH after l' Hbafter Ea).
    rewrite Hwhole, Hlb. replace (8 + (size - 8)) with size by lia. rewrite <- !app_assoc. reflexivity.
  - destruct (parse f after) as [l'|] eqn:Ea; [|discriminate]. injection H as <-.
    rewrite enc_list_cons. cbn [enc]. rewrite (IH after l' Hbafter Ea).
    rewrite Hwhole, Hlb. replace (8 + (size - 8)) with size by lia. rewrite <- !app_assoc. reflexivity.
Qed.

(* ------------------------------------------------------------ C10: init segments *)
Lemma rewrite_init_others live psshs top :
  map (fun b => if bytes_eqb (box_typ b) typ_moov then None else Some b) (rewrite_init live psshs top) =
  map (fun b => if bytes_eqb (box_typ b) typ_moov then None else Some b) top.
Proof.
  unfold rewrite_init. rewrite map_map. apply map_ext. intros b. destruct b as [t p|t cs]; [reflexivity|].
  destruct (bytes_eqb t typ_moov) eqn:E; cbn [box_typ]; rewrite E; reflexivity.
Qed.

Lemma rewrite_init_length live psshs top : length (rewrite_init live psshs top) = length top.
Proof. unfold rewrite_init. apply map_length. Qed.

Lemma rewrite_vod_children psshs cs : rewrite_moov_children false psshs cs = cs ++ psshs.
Proof. reflexivity. Qed.

(* no selected system / clear track: the moov children are untouched in vod mode, and in live mode
   when there is no mehd box to delete (neither under moov nor under its mvex children) *)
Lemma drop_first_absent t l :
  Forall (fun x => bytes_eqb (box_typ x) t = false) l -> drop_first_typ t l = l.
Proof. induction 1 as [|x r Hx _ IH]; [reflexivity|]. cbn [drop_first_typ]. rewrite Hx, IH. reflexivity. Qed.

Definition no_mehd (l : list box) : Prop := Forall (fun x => bytes_eqb (box_typ x) typ_mehd = false) l.
Definition no_mehd_deep (cs : list box) : Prop :=
  no_mehd cs /\ Forall (fun x => match x with Node t ds => bytes_eqb t typ_mvex = true -> no_mehd ds | _ => True end) cs.

Lemma in_first_absent t f l :
  Forall (fun x => match x with Node t' ds => bytes_eqb t' t = true -> f ds = ds | _ => True end) l ->
  in_first_typ t f l = l.
Proof.
  induction 1 as [|x r Hx _ IH]; [reflexivity|]. destruct x as [t' p|t' ds]; cbn [in_first_typ box_typ].
  - destruct (bytes_eqb t' t); [reflexivity|rewrite IH; reflexivity].
  - destruct (bytes_eqb t' t) eqn:E; [rewrite (Hx eq_refl); reflexivity|rewrite IH; reflexivity].
Qed.

Theorem rewrite_init_identity live top :
  Forall (fun b => match b with
                   | Node t cs => bytes_eqb t typ_moov = true -> no_mehd_deep cs
                   | _ => True end) top ->
  rewrite_init live [] top = top.
Proof.
  intros H. unfold rewrite_init. rewrite <- (map_id top) at 2. apply map_ext_in. intros b Hb.
  rewrite Forall_forall in H. specialize (H b Hb). destruct b as [t p|t cs]; [reflexivity|].
  destruct (bytes_eqb t typ_moov) eqn:E; [|reflexivity]. f_equal.
  unfold rewrite_moov_children. rewrite app_nil_r. destruct live; [|reflexivity].
  destruct (H eq_refl) as (H1 & H2). rewrite (drop_first_absent _ _ H1).
  apply in_first_absent. apply Forall_forall. intros x Hx. rewrite Forall_forall in H2. specialize (H2 x Hx).
  destruct x as [t' p|t' ds]; [exact I|]. intros E'. apply drop_first_absent. apply H2. exact E'.
Qed.

(* del removes the box: with at most one box of the type, none is left *)
Fixpoint count_typ (t : bytes) (l : list box) : nat :=
  match l with [] => O | x :: r => ((if bytes_eqb (box_typ x) t then 1 else 0) + count_typ t r)%nat end.
Lemma count_zero_absent t l : count_typ t l = O -> Forall (fun x => bytes_eqb (box_typ x) t = false) l.
Proof.
  induction l as [|x r IH]; intros H; [constructor|]. cbn [count_typ] in H.
  destruct (bytes_eqb (box_typ x) t) eqn:E; [discriminate|]. constructor; [exact E|apply IH; exact H].
Qed.
Lemma drop_first_removes t l : (count_typ t l <= 1)%nat -> Forall (fun x => bytes_eqb (box_typ x) t = false) (drop_first_typ t l).
Proof.
  induction l as [|x r IH]; intros H; [constructor|]. cbn [count_typ] in H. cbn [drop_first_typ].
  destruct (bytes_eqb (box_typ x) t) eqn:E.
  - apply count_zero_absent. lia.
  - constructor; [exact E|apply IH; lia].
Qed.

