From Verif Require Import Base.Tactics Base.ZList Model.ValidatorModel.

Lemma within_refl a d : 0 <= d -> within a a d = true.
Proof. intros H. unfold within. rewrite Z.sub_diag. cbn. lia. Qed.

(* no false positive: a segment with the server's guarantees produces no error *)
Lemma server_made_ok f : server_made f -> seg_errors f = [].
Proof.
  intros (Hs & Hm & Hd & Ho & He & Henc & Hclr & Hq & Ht & Hu & Htol & Hts).
  unfold seg_errors. rewrite Hs, Hm, Hd. cbn [negb Z.eqb].
  replace (200 =? 200) with true by reflexivity. cbn [negb].
  rewrite Ho, Z.eqb_refl. cbn [app].
  assert (E1 : (g_last_sample_end f <=? g_mdat_end f) = true) by lia. rewrite E1. cbn [app].
  assert (Henc' : (if g_encrypted f
     then if negb (g_has_senc f) then [ESencMissing]
          else (if g_has_saio f then [] else [ESaioMissing]) ++
               (if g_has_saio f then (if g_saio_entries f =? 1 then [] else [ESaioCount]) ++
                                     (if g_senc_first f =? g_saio_target f then [] else [ESaioOffset]) else []) ++
               (if g_trun_n f =? g_senc_n f then [] else [ESencCount])
     else if g_has_senc f then [ESencInClear] else []) = []).
  { destruct (g_encrypted f) eqn:E.
    - destruct (Henc eq_refl) as (A & B & C & D & G). rewrite A, B, C, D, G, !Z.eqb_refl. reflexivity.
    - rewrite (Hclr eq_refl). reflexivity. }
  rewrite Henc'. cbn [app].
  destruct (g_expected_seq f) as [e|]; [rewrite (Hq e eq_refl), Z.eqb_refl|]; cbn [app];
  (destruct (g_expected_decode f) as [e2|]; [rewrite (Ht e2 eq_refl), within_refl by exact Htol|]; cbn [app];
   (destruct (g_expected_duration f) as [e3|]; [rewrite (Hu e3 eq_refl), within_refl by exact Hts|]; reflexivity)).
Qed.

(* membership in the error list for a segment that gets past the stopping checks *)
Lemma running f : g_status f = 200 -> g_has_moof f = true -> g_has_mdat f = true ->
  seg_errors f =
    (if g_first_sample f =? g_payload_start f then [] else [ETrunOffset]) ++
    (if g_last_sample_end f <=? g_mdat_end f then [] else [ETrunEnd]) ++
    (if g_encrypted f then
       (if negb (g_has_senc f) then [ESencMissing]
        else (if g_has_saio f then [] else [ESaioMissing]) ++
             (if g_has_saio f then
                (if g_saio_entries f =? 1 then [] else [ESaioCount]) ++
                (if g_senc_first f =? g_saio_target f then [] else [ESaioOffset])
              else []) ++
             (if g_trun_n f =? g_senc_n f then [] else [ESencCount]))
     else (if g_has_senc f then [ESencInClear] else [])) ++
    (match g_expected_seq f with Some e => if e =? g_seq f then [] else [ESeq] | None => [] end) ++
    (match g_expected_decode f with Some e => if within e (g_decode f) (g_tolerance f) then [] else [EDecode] | None => [] end) ++
    (match g_expected_duration f with Some e => if within e (g_duration f) (g_timescale f) then [] else [EDuration] | None => [] end).
Proof. intros Hs Hm Hd. unfold seg_errors. rewrite Hs, Hm, Hd. reflexivity. Qed.

Lemma detect_seq f e v : server_made f -> g_expected_seq f = Some e -> v <> g_seq f -> In ESeq (seg_errors (set_seq f v)).
Proof.
  intros (Hs & Hm & Hd & Ho & He & Henc & Hclr & Hq & Ht & Hu & Htol & Hts) Hx Hv.
  rewrite running by (cbn; assumption). cbn [g_expected_seq g_seq set_seq]. rewrite Hx.
  assert (E : (e =? v) = false) by (rewrite (Hq e Hx); lia). rewrite E.
  rewrite !in_app_iff. right. right. right. left. left. reflexivity.
Qed.

Lemma detect_decode f e v : server_made f -> g_expected_decode f = Some e ->
  g_tolerance f < Z.abs (v - g_decode f) -> In EDecode (seg_errors (set_decode f v)).
Proof.
  intros (Hs & Hm & Hd & Ho & He & Henc & Hclr & Hq & Ht & Hu & Htol & Hts) Hx Hv.
  rewrite running by (cbn; assumption). cbn [g_expected_decode g_decode g_tolerance set_decode]. rewrite Hx.
  assert (E : within e v (g_tolerance f) = false) by (unfold within; rewrite (Ht e Hx); lia). rewrite E.
  rewrite !in_app_iff. right. right. right. right. left. left. reflexivity.
Qed.

Lemma accept_decode_within f e v : server_made f -> g_expected_decode f = Some e ->
  Z.abs (v - g_decode f) <= g_tolerance f -> ~ In EDecode (seg_errors (set_decode f v)).
Proof.
  intros (Hs & Hm & Hd & Ho & He & Henc & Hclr & Hq & Ht & Hu & Htol & Hts) Hx Hv.
  rewrite running by (cbn; assumption). cbn [g_expected_decode g_decode g_tolerance set_decode g_first_sample g_payload_start
    g_last_sample_end g_mdat_end g_encrypted g_has_senc g_has_saio g_saio_entries g_senc_first g_saio_target g_trun_n g_senc_n
    g_expected_seq g_seq g_expected_duration g_duration g_timescale].
  rewrite Hx. assert (E : within e v (g_tolerance f) = true) by (unfold within; rewrite (Ht e Hx); lia). rewrite E.
  rewrite !in_app_iff. intros H.
  repeat match goal with
  | H : _ \/ _ |- _ => destruct H as [H|H]
  end;
  repeat match goal with
  | H : In EDecode (if ?b then _ else _) |- _ => destruct b
  | H : In EDecode (match ?o with Some _ => _ | None => _ end) |- _ => destruct o
  | H : In EDecode (_ ++ _) |- _ => apply in_app_iff in H; destruct H as [H|H]
  | H : In EDecode [] |- _ => destruct H
  | H : In EDecode [_] |- _ => destruct H as [H|[]]; discriminate
  end.
Qed.

Lemma detect_trun f d : server_made f -> d <> 0 -> In ETrunOffset (seg_errors (shift_trun f d)).
Proof.
  intros (Hs & Hm & Hd & Ho & He & Henc & Hclr & Hq & Ht & Hu & Htol & Hts) Hv.
  rewrite running by (cbn; assumption). cbn [g_first_sample g_payload_start shift_trun].
  assert (E : (g_first_sample f + d =? g_payload_start f) = false) by lia. rewrite E.
  rewrite !in_app_iff. left. left. reflexivity.
Qed.

Lemma detect_saio f d : server_made f -> g_encrypted f = true -> d <> 0 -> In ESaioOffset (seg_errors (shift_saio f d)).
Proof.
  intros (Hs & Hm & Hd & Ho & He & Henc & Hclr & Hq & Ht & Hu & Htol & Hts) Hen Hv.
  destruct (Henc Hen) as (A & B & C & D & G).
  rewrite running by (cbn; assumption).
  cbn [g_encrypted g_has_senc g_has_saio g_saio_entries g_senc_first g_saio_target shift_saio].
  rewrite Hen, A, B. cbn [negb].
  assert (E : (g_senc_first f =? g_saio_target f + d) = false) by lia. rewrite E.
  rewrite !in_app_iff. right. right. left. right. left. right. left. reflexivity.
Qed.

Lemma detect_status f : g_status f <> 200 -> seg_errors f = [EStatus].
Proof. intros H. unfold seg_errors. destruct (g_status f =? 200) eqn:E; [lia | reflexivity]. Qed.

(* a timeline whose entries follow one another has no gap; moving one explicit t creates one *)
Lemma contiguous_gap s1 d1 s2 d2 r : s1 + d1 <> s2 -> contiguous ((s1, d1) :: (s2, d2) :: r) = false.
Proof. intros H. cbn [contiguous]. destruct (s1 + d1 =? s2) eqn:E; [lia | reflexivity]. Qed.

(* ---- manifest level *)
Lemma server_manifest_ok f : server_manifest f -> manifest_errors f = [].
Proof.
  intros (Hp & Hb & Hl & Hv). unfold manifest_errors.
  assert (E : (0 <? m_periods f) = true) by lia. rewrite E, Hb. cbn [app].
  destruct (m_live f) eqn:L.
  - destruct (Hl eq_refl) as (A & B & C & D & G). rewrite A, B, C, D. cbn [app].
    destruct (m_prev_ast f) as [a|] eqn:Pa; [|destruct (m_ast f); reflexivity].
    rewrite (G a eq_refl). rewrite Z.eqb_refl. reflexivity.
  - destruct (Hv eq_refl) as (A & (d & Hd & Hpos) & C & D & G). rewrite A, Hd, C, D, G.
    assert (E2 : (0 <? d) = true) by lia. rewrite E2. reflexivity.
Qed.

Definition drop_ast (f : mfacts) : mfacts :=
  {| m_live := m_live f; m_dynamic := m_dynamic f; m_periods := m_periods f; m_has_minbuf := m_has_minbuf f; m_has_ast := false;
     m_has_tsbd := m_has_tsbd f; m_has_mup := m_has_mup f; m_mpd := m_mpd f; m_period_durations := m_period_durations f;
     m_patches := m_patches f; m_prev_ast := m_prev_ast f; m_ast := m_ast f |}.
Definition drop_minbuf (f : mfacts) : mfacts :=
  {| m_live := m_live f; m_dynamic := m_dynamic f; m_periods := m_periods f; m_has_minbuf := false; m_has_ast := m_has_ast f;
     m_has_tsbd := m_has_tsbd f; m_has_mup := m_has_mup f; m_mpd := m_mpd f; m_period_durations := m_period_durations f;
     m_patches := m_patches f; m_prev_ast := m_prev_ast f; m_ast := m_ast f |}.
Definition change_ast (f : mfacts) (v : Z) : mfacts :=
  {| m_live := m_live f; m_dynamic := m_dynamic f; m_periods := m_periods f; m_has_minbuf := m_has_minbuf f; m_has_ast := m_has_ast f;
     m_has_tsbd := m_has_tsbd f; m_has_mup := m_has_mup f; m_mpd := m_mpd f; m_period_durations := m_period_durations f;
     m_patches := m_patches f; m_prev_ast := m_prev_ast f; m_ast := Some v |}.

Lemma detect_missing_ast f : m_live f = true -> In MAst (manifest_errors (drop_ast f)).
Proof.
  intros L. unfold manifest_errors. cbn [m_live m_has_ast drop_ast m_periods m_has_minbuf m_dynamic m_has_tsbd m_mpd m_prev_ast m_ast].
  rewrite L. rewrite !in_app_iff. right. right. left. right. left. left. reflexivity.
Qed.

Lemma detect_missing_minbuf f : In MMinBuf (manifest_errors (drop_minbuf f)).
Proof.
  unfold manifest_errors. cbn [m_has_minbuf drop_minbuf]. rewrite !in_app_iff. right. left. left. reflexivity.
Qed.

Lemma detect_ast_change f a v : m_live f = true -> m_prev_ast f = Some a -> v <> a -> In MAstChanged (manifest_errors (change_ast f v)).
Proof.
  intros L Pa Hv. unfold manifest_errors. cbn [m_live m_prev_ast m_ast change_ast m_periods m_has_minbuf m_dynamic m_has_ast m_has_tsbd m_mpd].
  rewrite L, Pa. assert (E : (a =? v) = false) by lia. rewrite E.
  rewrite !in_app_iff. right. right. right. left. reflexivity.
Qed.

Lemma tol_base_nonneg ts n d : 0 <= ts -> 0 < n -> 0 < d -> 0 <= tol_base ts n d.
Proof. intros Ht Hn Hd. unfold tol_base. apply Z.div_pos; [apply Z.mul_nonneg_nonneg; lia | exact Hn]. Qed.
Lemma tol_nonneg_template ts n d idx a : 0 <= ts -> 0 < n -> 0 < d -> 0 <= tol_template ts n d idx a.
Proof.
  intros Ht Hn Hd. unfold tol_template. pose proof (tol_base_nonneg ts n d Ht Hn Hd) as Hq.
  destruct (idx =? 0); [lia|]. destruct a; [apply Z.div_pos; lia | exact Hq].
Qed.
Lemma tol_nonneg_timeline ts n d a : 0 <= ts -> 0 < n -> 0 < d -> 0 <= tol_timeline ts n d a.
Proof. intros Ht Hn Hd. unfold tol_timeline. destruct a; [apply Z.div_pos; lia | apply tol_base_nonneg; assumption]. Qed.
