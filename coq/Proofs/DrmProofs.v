(* C11 - proofs about Model/DrmModel.v *)
From Verif Require Import Base.Tactics Base.ZList Model.DrmModel.

(* ------------------------------------------------------------ GUID *)
Lemma le_guid_length g : length g = 16%nat -> length (le_guid g) = 16%nat.
Proof.
  intros H. do 17 (destruct g as [|? g]; cbn in H; try lia). reflexivity.
Qed.
Theorem le_guid_involutive g : length g = 16%nat -> le_guid (le_guid g) = g.
Proof.
  intros H. do 17 (destruct g as [|? g]; cbn in H; try lia). reflexivity.
Qed.
Theorem le_guid_is_rfc4122 g : length g = 16%nat -> le_guid g = rfc4122_bytes_le g.
Proof.
  intros H. do 17 (destruct g as [|? g]; cbn in H; try lia). reflexivity.
Qed.

(* ------------------------------------------------------------ key seed *)
Section KeySeed.
Variable sha256 : bytes -> bytes.
Hypothesis sha_len : forall m, length (sha256 m) = 32%nat.

Lemma xor_bytes_length a b : length (xor_bytes a b) = Nat.min (length a) (length b).
Proof. revert b. induction a as [|x a IH]; intros [|y b]; cbn; try reflexivity. rewrite IH. reflexivity. Qed.

Theorem content_key_length seed kid : length (content_key sha256 seed kid) = 16%nat.
Proof.
  unfold content_key. rewrite !xor_bytes_length. unfold ztake, zdrop.
  rewrite !firstn_length, !skipn_length, !sha_len. reflexivity.
Qed.

(* only the first 30 bytes of the seed matter *)
Theorem content_key_seed_prefix seed1 seed2 kid :
  ztake 30 seed1 = ztake 30 seed2 -> content_key sha256 seed1 kid = content_key sha256 seed2 kid.
Proof. intros H. unfold content_key. rewrite H. reflexivity. Qed.

(* the key id enters only through its little-endian GUID form *)
Theorem content_key_kid seed kid1 kid2 :
  le_guid kid1 = le_guid kid2 -> content_key sha256 seed kid1 = content_key sha256 seed kid2.
Proof. intros H. unfold content_key. rewrite H. reflexivity. Qed.
End KeySeed.

(* ------------------------------------------------------------ PRO framing *)
Lemma rd_le16_put v r : 0 <= v < 65536 -> rd_le16 (le16 v ++ r) = Some (v, r).
Proof. intros H. unfold le16, rd_le16. cbn [app]. f_equal. f_equal. lia. Qed.
Lemma rd_le32_put v r : 0 <= v < 4294967296 -> rd_le32 (le32 v ++ r) = Some (v, r).
Proof. intros H. unfold le32, rd_le32. cbn [app]. f_equal. f_equal. lia. Qed.

Theorem parse_generate_pro wrm : zlen wrm < 65536 - 10 ->
  parse_pro (generate_pro wrm) = Some [(1, zlen wrm, wrm)].
Proof.
  intros H. pose proof (zlen_nonneg wrm) as H0. unfold generate_pro, parse_pro. cbv zeta.
  rewrite !zlen_app. change (zlen (le16 1)) with 2. change (zlen (le16 (zlen wrm))) with 2.
  rewrite rd_le32_put by lia. rewrite rd_le16_put by lia.
  change (Z.to_nat 1) with 1%nat. cbn [parse_records].
  rewrite rd_le16_put by lia. rewrite rd_le16_put by lia. cbn [Z.eqb Pos.eqb].
  destruct (zlen wrm <? zlen wrm) eqn:E; [lia|].
  rewrite ?zdrop_all by lia. rewrite ztake_all by lia. reflexivity.
Qed.

(* ------------------------------------------------------------ base64url *)
Definition is_byte (x : Z) : Prop := 0 <= x < 256.

Lemma of_to_sextets bs : Forall is_byte bs -> of_sextets (to_sextets bs) = bs.
Proof.
  assert (G : forall n l, (length l <= n)%nat -> Forall is_byte l -> of_sextets (to_sextets l) = l).
  { induction n as [|n IH]; intros l Hl Hb; rename l into bs0.
    - destruct bs0; [reflexivity|cbn in Hl; lia].
    - destruct bs0 as [|a [|b [|c r]]].
      + reflexivity.
      + inversion Hb as [|? ? Ha _]; subst. unfold is_byte in Ha. cbn [to_sextets of_sextets]. f_equal. lia.
      + inversion Hb as [|? ? Ha Hb1]; subst. inversion Hb1 as [|? ? Hb' _]; subst. unfold is_byte in *.
        cbn [to_sextets of_sextets]. f_equal; [lia|]. f_equal. lia.
      + inversion Hb as [|? ? Ha Hb1]; subst. inversion Hb1 as [|? ? Hb' Hb2]; subst.
        inversion Hb2 as [|? ? Hc Hr]; subst. unfold is_byte in *.
        cbn [to_sextets of_sextets]. rewrite (IH r) by (cbn in Hl; try lia; exact Hr).
        f_equal; [lia|]. f_equal; [lia|]. f_equal. lia. }
  intros H. apply (G (length bs)); [lia|exact H].
Qed.

Lemma sextets_range bs : Forall is_byte bs -> Forall (fun s => 0 <= s < 64) (to_sextets bs).
Proof.
  assert (G : forall n l, (length l <= n)%nat -> Forall is_byte l -> Forall (fun s => 0 <= s < 64) (to_sextets l)).
  { induction n as [|n IH]; intros l Hl Hb; rename l into bs0.
    - destruct bs0; [constructor|cbn in Hl; lia].
    - destruct bs0 as [|a [|b [|c r]]].
      + constructor.
      + inversion Hb as [|? ? Ha _]; subst. unfold is_byte in Ha. cbn [to_sextets]. repeat constructor; lia.
      + inversion Hb as [|? ? Ha Hb1]; subst. inversion Hb1 as [|? ? Hb' _]; subst. unfold is_byte in *.
        cbn [to_sextets]. repeat constructor; lia.
      + inversion Hb as [|? ? Ha Hb1]; subst. inversion Hb1 as [|? ? Hb' Hb2]; subst.
        inversion Hb2 as [|? ? Hc Hr]; subst. unfold is_byte in *. cbn [to_sextets].
        repeat (constructor; [lia|]). apply IH; [cbn in Hl; lia|exact Hr]. }
  intros H. apply (G (length bs)); [lia|exact H].
Qed.

Lemma b64_val_char s : 0 <= s < 64 -> b64_val (b64_char s) = Some s.
Proof.
  intros H. assert (G : forallb (fun s => match b64_val (b64_char s) with Some v => v =? s | None => false end)
                         (map Z.of_nat (seq 0 64)) = true) by (vm_compute; reflexivity).
  rewrite forallb_forall in G. specialize (G s).
  assert (Hin : In s (map Z.of_nat (seq 0 64))).
  { apply in_map_iff. exists (Z.to_nat s). split; [lia|]. apply in_seq. lia. }
  specialize (G Hin). destruct (b64_val (b64_char s)) as [v|]; [|discriminate]. f_equal. lia.
Qed.

Lemma vals_map_char ss : Forall (fun s => 0 <= s < 64) ss -> vals (map b64_char ss) = Some ss.
Proof.
  induction 1 as [|s r Hs _ IH]; [reflexivity|]. cbn [map vals]. rewrite b64_val_char by exact Hs. rewrite IH. reflexivity.
Qed.

(* decoding an encoding gives the bytes back, for every byte string *)
Theorem b64url_roundtrip bs : Forall is_byte bs -> b64url_decode (b64url_encode bs) = Some bs.
Proof.
  intros H. unfold b64url_decode, b64url_encode. rewrite vals_map_char by (apply sextets_range; exact H).
  rewrite of_to_sextets by exact H. reflexivity.
Qed.

(* the encoding uses only A-Z a-z 0-9 - _ : never + / = *)
Theorem b64url_alphabet bs c : Forall is_byte bs -> In c (b64url_encode bs) -> c <> 43 /\ c <> 47 /\ c <> 61.
Proof.
  intros H Hin. unfold b64url_encode in Hin. apply in_map_iff in Hin. destruct Hin as (s & <- & Hs).
  pose proof (sextets_range bs H) as Hr. rewrite Forall_forall in Hr. specialize (Hr s Hs).
  unfold b64_char. repeat match goal with |- context [if ?b then _ else _] => destruct b eqn:? end; lia.
Qed.

(* ------------------------------------------------------------ ClearKey response *)
Lemma mem_In x l : mem x l = true <-> In x l.
Proof.
  induction l as [|y r IH]; cbn [mem In]; [split; [discriminate|intros []]|].
  destruct (list_eq_dec Z.eq_dec x y) as [->|Hne]; cbn [orb].
  - split; [intros _; left; reflexivity|reflexivity].
  - rewrite IH. split; [intros H; right; exact H|intros [H|H]; [congruence|exact H]].
Qed.
Lemma dedup_In x l : In x (dedup l) <-> In x l.
Proof.
  induction l as [|y r IH]; [reflexivity|]. cbn [dedup]. destruct (mem y r) eqn:E.
  - rewrite IH. split; [intros H; right; exact H|]. intros [<-|H]; [apply mem_In; exact E|exact H].
  - cbn [In]. rewrite IH. reflexivity.
Qed.
Lemma dedup_NoDup l : NoDup (dedup l).
Proof.
  induction l as [|y r IH]; [constructor|]. cbn [dedup]. destruct (mem y r) eqn:E; [exact IH|].
  constructor; [|exact IH]. rewrite dedup_In. intros H. apply mem_In in H. congruence.
Qed.

(* the response holds exactly the stored key of each requested known id, nothing for unknown ids *)
Theorem clearkey_exact store req kid key :
  In (kid, key) (clearkey_response store req) <-> In kid req /\ lookup store kid = Some key.
Proof.
  unfold clearkey_response. rewrite in_flat_map. split.
  - intros (k & Hk & Hin). apply (proj1 (dedup_In k req)) in Hk. destruct (lookup store k) as [v|] eqn:E; [|destruct Hin].
    destruct Hin as [Heq|[]]. inv Heq. split; assumption.
  - intros (Hk & Hl). exists kid. split; [apply (proj2 (dedup_In kid req)); exact Hk|]. rewrite Hl. left. reflexivity.
Qed.
Theorem clearkey_once store req : NoDup (map fst (clearkey_response store req)).
Proof.
  unfold clearkey_response. pose proof (dedup_NoDup req) as Hn. induction (dedup req) as [|k r IH]; [constructor|].
  inversion Hn as [|? ? Hk Hr]; subst. cbn [flat_map]. rewrite map_app.
  destruct (lookup store k) as [v|]; cbn [map app fst]; [|apply IH; exact Hr].
  constructor; [|apply IH; exact Hr]. intros Hin. apply in_map_iff in Hin. destruct Hin as ([k' v'] & Hf & Hin).
  cbn in Hf. subst k'. apply in_flat_map in Hin. destruct Hin as (k2 & Hk2 & Hin2).
  destruct (lookup store k2); [|destruct Hin2]. destruct Hin2 as [Heq|[]]. inv Heq. contradiction.
Qed.
