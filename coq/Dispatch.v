(* Request decoding / result encoding for the extracted model runner.
   dispatch <component> <request> : val.  Definitions only. *)
From Verif Require Import Base.Tactics Base.ZList Base.Val.
From Verif Require Import Base.Str.
From Verif Require Import Model.BufReaderModel Model.RangeModel Model.IsoTimeModel Model.TimingModel Model.SegModel.
From Verif Require Import Base.Bits Model.CrcModel Model.EventsModel Model.Scte35Model Model.MpsModel Model.AuthModel Model.OptionsModel Model.BoxModel Model.FragModel Model.DrmModel Model.ErrModel Model.OptErrModel Model.XmlModel Model.StoreModel Model.ValidatorModel Model.UserModel Model.UsersModel.
From Verif Require Model.FieldModel.

(* ---- C20 ---- request: (file off bs maxb (size?) mode ops) *)
Definition c20_op (v : val) : op :=
  let t := vint (vnth 0 v) in
  let a := vint (vnth 1 v) in
  let b := vint (vnth 2 v) in
  if t =? 0 then Read a else if t =? 1 then Seek a b else if t =? 2 then Tell else Peek a.
Definition c20_out (x : out) : val :=
  match x with
  | OBytes b => VL [VI 0; of_ints b]
  | OInt z => VL [VI 1; VI z]
  | OAssert => VL [VI 2]
  end.
Definition c20_run (v : val) : val :=
  let file := vints (vnth 0 v) in
  let g := {| g_offset := vint (vnth 1 v); g_bs := vint (vnth 2 v); g_maxb := vint (vnth 3 v) |} in
  let sz := as_opt_int (vnth 4 v) in
  let mode := vint (vnth 5 v) in
  let ops := map c20_op (vlist (vnth 6 v)) in
  if mode =? 1 then VL (map c20_out (run file (data_geom file) (init_data file) ops))
  else VL (map c20_out (run file g (init_state sz) ops)).

(* ---- C13 ---- request: (mode len (h?))   mode 0 get_http_range, 1 segment, 2 on-demand
   the resource is [0;1;..;len-1] so that a body is described by (first, length, is_run) *)
Fixpoint iota_from (n : nat) (start : Z) : list Z :=
  match n with O => [] | S k => start :: iota_from k (start + 1) end.
Fixpoint is_run (l : list Z) : bool :=
  match l with
  | a :: ((b :: _) as r) => (b =? a + 1) && is_run r
  | _ => true
  end.
Definition c13_body (b : list Z) : val :=
  VL [VI (match b with x :: _ => x | [] => 0 end); VI (zlen b); vbool (is_run b)].
Definition c13_cr (c : crange) : val :=
  match c with
  | CRnone => VL []
  | CRrange a b len => VL [VI a; VI b; VI len]
  | CRstar len => VL [VI len]
  end.
Definition c13_resp (r : resp) : val :=
  match r with
  | Crash => VL [VI (-1)]
  | Resp st body cr => VL [VI st; c13_body body; c13_cr cr]
  end.
Definition c13_run (v : val) : val :=
  let mode := vint (vnth 0 v) in
  let len := vint (vnth 1 v) in
  let h := match vnth 2 v with VL [VL codes] => Some (map vint codes) | _ => None end in
  if mode =? 0 then
    match get_http_range pyint_latin1 len h with
    | RNone => VL [VI 0] | RBad => VL [VI 1]
    | R206 a b => VL [VI 2; VI a; VI b] | R416 a b => VL [VI 3; VI a; VI b]
    end
  else if mode =? 1 then c13_resp (serve_segment pyint_latin1 (iota_from (Z.to_nat len) 0) h)
  else c13_resp (serve_ondemand pyint_latin1 (iota_from (Z.to_nat len) 0) h).

(* ---- C19 ---- request: (mode args...) *)
Definition c19_dt (v : val) : dt :=
  {| d_year := vint (vnth 0 v); d_month := vint (vnth 1 v); d_day := vint (vnth 2 v);
     d_hour := vint (vnth 3 v); d_min := vint (vnth 4 v); d_sec := vint (vnth 5 v);
     d_us := vint (vnth 6 v); d_off := as_opt_int (vnth 7 v) |}.
Definition c19_run (v : val) : val :=
  let mode := vint (vnth 0 v) in
  if mode =? 0 then of_ints (fmt_duration (vint (vnth 1 v)) (0 <? vint (vnth 2 v)))
  else if mode =? 1 then
    match parse_duration (vints (vnth 1 v)) with
    | DurNoMatch => VL [VI 0] | DurFloatErr => VL [VI 1]
    | DurVal us e => VL [VI 2; VI us; vbool e]
    end
  else if mode =? 2 then of_ints (fmt_datetime (c19_dt (vnth 1 v)))
  else if mode =? 3 then
    match parse_datetime (vints (vnth 1 v)) with
    | DtNoMatch => VL [VI 0] | DtErr => VL [VI 1]
    | DtVal d e => VL [VI 2; VL [VI (d_year d); VI (d_month d); VI (d_day d); VI (d_hour d);
                               VI (d_min d); VI (d_sec d); VI (d_us d); vopt_int (d_off d)]; vbool e]
    end
  else if mode =? 4 then VI (tc_to_us (vint (vnth 1 v)) (vint (vnth 2 v)))
  else if mode =? 5 then VI (us_to_tc (vint (vnth 1 v)) (vint (vnth 2 v)))
  else VI (multiply_td (vint (vnth 1 v)) (vint (vnth 2 v))).

(* ---- C08 ---- request: (now dom doy seg_dur timescale kind start (depth?) (mup?) (leeway?)) *)
Definition c08_run (v : val) : val :=
  let kind := vint (vnth 5 v) in
  let st := if kind =? 0 then SEpoch else if kind =? 1 then SToday else if kind =? 2 then SMonth
            else if kind =? 3 then SYear else if kind =? 4 then SNow else SExplicit (vint (vnth 6 v)) in
  let o := {| o_start := st; o_depth := as_opt_int (vnth 7 v); o_mup := as_opt_int (vnth 8 v);
              o_leeway := as_opt_int (vnth 9 v) |} in
  let L := live_params (vint (vnth 0 v)) (vint (vnth 1 v)) (vint (vnth 2 v)) (vint (vnth 3 v))
                       (vint (vnth 4 v)) o in
  VL [VI (l_ast L); VI (l_elapsed L); VI (l_tsbd L); VI (l_fta L); vopt_int (l_mup L);
      VI (l_publish L); VI (l_leeway L)].

(* ---- C02/C09/C01/C06 ---- request: (mode rep args...)  rep = (ts durs start_number seg_dur lr start_time) *)
Definition seg_rep (v : val) : rep :=
  {| r_ts := vint (vnth 0 v); r_durs := vints (vnth 1 v); r_start_number := vint (vnth 2 v);
     r_seg_dur := vint (vnth 3 v); r_lr := vint (vnth 4 v); r_start_time := vint (vnth 5 v) |}.
Definition seg_entries (l : list (Z * Z * Z)) : val :=
  VL (map (fun e => match e with (t, d, m) => VL [VI t; VI d; VI m] end) l).
Definition seg_timing (v : val) : timing :=
  {| t_live := 0 <? vint (vnth 0 v); t_elapsed := vint (vnth 1 v); t_tsbd := vint (vnth 2 v);
     t_fta := vint (vnth 3 v); t_leeway := vint (vnth 4 v) |}.
Definition seg_run (v : val) : val :=
  let mode := vint (vnth 0 v) in
  let r := seg_rep (vnth 1 v) in
  if mode =? 0 then
    match get_segment_index r (vint (vnth 2 v)) with (m, s, o) => VL [VI m; VI s; VI o] end
  else if mode =? 1 then seg_entries (live_timeline r (vint (vnth 2 v)) (vint (vnth 3 v)))
  else if mode =? 2 then seg_entries (vod_timeline r)
  else if mode =? 3 then
    match first_last_live r (vint (vnth 2 v)) (vint (vnth 3 v)) with (a, b) => VL [VI a; VI b] end
  else if mode =? 4 then
    match serve r (seg_timing (vnth 2 v)) (as_opt_int (vnth 3 v)) (as_opt_int (vnth 4 v)) with
    | Some (m, tfdt, num, d) => VL [VI m; VI tfdt; VI num; VI d]
    | None => VL []
    end
  else if mode =? 5 then
    match number_and_time r (seg_timing (vnth 2 v)) (as_opt_int (vnth 3 v)) (as_opt_int (vnth 4 v)) with
    | Some (num, m, o) => VL [VI num; VI m; VI o]
    | None => VL []
    end
  else if mode =? 6 then
    VL (map (fun ab => VL [VI (fst ab); VI (snd ab)])
            (segment_list (map (fun v => (vint (vnth 0 v), vint (vnth 1 v))) (vlist (vnth 1 v)))))
  else verr 998.

(* ---- C14 ---- request: (mode ...) *)
Definition c14_sched (v : val) : sched :=
  {| e_start := vint (vnth 0 v); e_interval := vint (vnth 1 v); e_count := vint (vnth 2 v);
     e_timescale := vint (vnth 3 v); e_duration := vint (vnth 4 v); e_version := vint (vnth 5 v);
     e_inband := 0 <? vint (vnth 6 v) |}.
Definition c14_pairs (l : list (Z * Z)) : val := VL (map (fun p => VL [VI (fst p); VI (snd p)]) l).
Definition vb (v : val) : bool := 0 <? vint v.
Definition c14_cmd (v : val) : command :=
  let t := vint (vnth 0 v) in
  if t =? 5 then
    CInsert {| si_id := vint (vnth 1 v); si_out := vb (vnth 2 v); si_pts := as_opt_int (vnth 3 v);
               si_break := match vnth 4 v with
                           | VL [a; d] => Some {| bd_auto := vb a; bd_dur := vint d |}
                           | _ => None end;
               si_program_id := vint (vnth 5 v); si_avail_num := vint (vnth 6 v);
               si_avails_expected := vint (vnth 7 v) |}
  else if t =? 6 then CTime (as_opt_int (vnth 1 v)) else CNull.
Definition c14_desc (v : val) : desc :=
  let t := vint (vnth 0 v) in
  let ident := vint (vnth 1 v) in
  if t =? 0 then DAvail ident (vint (vnth 2 v))
  else if t =? 2 then
    let f := vnth 2 v in
    DSeg ident {| sd_event_id := vint (vnth 0 f); sd_duration := as_opt_int (vnth 1 f); sd_dnr := vb (vnth 2 f);
                  sd_web := vb (vnth 3 f); sd_noreg := vb (vnth 4 f); sd_archive := vb (vnth 5 f);
                  sd_device := vint (vnth 6 f); sd_upid_type := vint (vnth 7 f); sd_upid := vints (vnth 8 f);
                  sd_type := vint (vnth 9 f); sd_num := vint (vnth 10 f); sd_expected := vint (vnth 11 f);
                  sd_sub_num := vint (vnth 12 f); sd_sub_expected := vint (vnth 13 f) |}
  else if t =? 3 then DTime ident (vint (vnth 2 v)) (vint (vnth 3 v)) (vint (vnth 4 v))
  else DUnknown t ident (vints (vnth 2 v)).
Definition c14_signal (v : val) : signal :=
  {| sg_table_id := vint (vnth 0 v); sg_sap := vint (vnth 1 v); sg_ssi := vb (vnth 2 v); sg_private := vb (vnth 3 v);
     sg_protocol := vint (vnth 4 v); sg_enc_alg := vint (vnth 5 v); sg_pts_adj := vint (vnth 6 v);
     sg_cw := vint (vnth 7 v); sg_tier := vint (vnth 8 v); sg_cmd := c14_cmd (vnth 9 v);
     sg_descs := map c14_desc (vlist (vnth 10 v)) |}.
Definition c14_cmd_out (c : command) : val :=
  match c with
  | CNull => VL [VI 0]
  | CTime p => VL [VI 6; vopt_int p]
  | CInsert i => VL [VI 5; VI (si_id i); vbool (si_out i); vopt_int (si_pts i);
                     match si_break i with Some b => VL [vbool (bd_auto b); VI (bd_dur b)] | None => VL [] end;
                     VI (si_program_id i); VI (si_avail_num i); VI (si_avails_expected i)]
  end.
Definition c14_desc_out (d : desc) : val :=
  match d with
  | DAvail i id => VL [VI 0; VI i; VI id]
  | DTime i a b c => VL [VI 3; VI i; VI a; VI b; VI c]
  | DUnknown t i data => VL [VI t; VI i; of_ints data]
  | DSeg i s => VL [VI 2; VI i; VL [VI (sd_event_id s); vopt_int (sd_duration s); vbool (sd_dnr s); vbool (sd_web s);
                     vbool (sd_noreg s); vbool (sd_archive s); VI (sd_device s); VI (sd_upid_type s);
                     of_ints (sd_upid s); VI (sd_type s); VI (sd_num s); VI (sd_expected s);
                     VI (sd_sub_num s); VI (sd_sub_expected s)]]
  end.
Definition c14_signal_out (s : signal) : val :=
  VL [VI (sg_table_id s); VI (sg_sap s); vbool (sg_ssi s); vbool (sg_private s); VI (sg_protocol s);
      VI (sg_enc_alg s); VI (sg_pts_adj s); VI (sg_cw s); VI (sg_tier s); c14_cmd_out (sg_cmd s);
      VL (map c14_desc_out (sg_descs s))].
Definition c14_run (v : val) : val :=
  let mode := vint (vnth 0 v) in
  if mode =? 0 then c14_pairs (map (fun p => (emsg_id_field (fst p), snd p)) (emsg (c14_sched (vnth 1 v)) (vint (vnth 2 v)) (vint (vnth 3 v))))
  else if mode =? 1 then c14_pairs (manifest_events (c14_sched (vnth 1 v)))
  else if mode =? 2 then of_ints (bits_bytes (enc_signal (c14_signal (vnth 1 v))))
  else if mode =? 3 then
    match dec_signal (byte_bits (vints (vnth 1 v))) with
    | None => VL [VI (-1)]
    | Some (None, _) => VL [VI (-2)]
    | Some (Some s, ok) => VL [c14_signal_out s; vbool ok]
    end
  else if mode =? 4 then VI (crc32 (byte_bits (vints (vnth 1 v))))
  else if mode =? 5 then
    VL [VI (scte35_pts (c14_sched (vnth 1 v)) (vint (vnth 2 v))); VI (scte35_break (c14_sched (vnth 1 v)))]
  else if mode =? 6 then
    of_ints (bits_bytes (enc_signal (event_signal (c14_sched (vnth 1 v)) (vint (vnth 2 v)) (vint (vnth 3 v)) (vint (vnth 4 v)))))
  else if mode =? 7 then
    (* (7 sched scte35? program_id) -> does check_parameters accept the schedule? *)
    vbool (if 0 <? vint (vnth 2 v) then scte35_params_ok (c14_sched (vnth 1 v)) (vint (vnth 3 v)) else params_ok (c14_sched (vnth 1 v)))
  else verr 997.

(* ---- C12 ---- request: (mode ...) *)
Definition c12_listed (l : list plisted) : val :=
  VL (map (fun p => match p with (k, lp, st, d) => VL [VI k; VI lp; VI st; VI d] end) l).
Definition c12_run (v : val) : val :=
  let mode := vint (vnth 0 v) in
  if mode =? 0 then c12_listed (vod_periods (vints (vnth 1 v)) 0 0)
  else if mode =? 1 then c12_listed (live_periods (vints (vnth 1 v)) (vint (vnth 2 v)) (vint (vnth 3 v)))
  else if mode =? 2 then
    match mps_number (seg_rep (vnth 1 v)) (vint (vnth 2 v)) (vint (vnth 3 v)) (vint (vnth 4 v)) with
    | Some (m, o, t) => VL [VI m; VI o; VI t]
    | None => VL []
    end
  else verr 996.

(* ---- C15 ---- request: (mode ...)   mode 0: CSRF run: (mactable calls) with
   mactable = ((message mac) ...), calls = ((cookie?) service token) ...  -> accepted flags *)
Fixpoint c15_lookup (tbl : list (list Z * list Z)) (m : list Z) : list Z :=
  match tbl with
  | [] => []
  | (k, v) :: r => if list_eq_dec Z.eq_dec k m then v else c15_lookup r m
  end.
Fixpoint c15_flags (mac : list Z -> list Z) (used : list (list Z)) (calls : list (option (list Z) * list Z * list Z)) : list val :=
  match calls with
  | [] => []
  | (c, s, t) :: rest => let '(used', ok) := check mac used c s t in vbool ok :: c15_flags mac used' rest
  end.
(* (9 (name must email pw groups) (admin caller target name must email (pw)? confirm groups)) -> (0) refused, (1) passwords
   differ, (2 name must email pw groups) committed *)
Definition c15_user (v : val) : val :=
  let a := vnth 1 v in let b := vnth 2 v in
  let u := {| u_name := vint (vnth 0 a); u_must := 0 <? vint (vnth 1 a); u_email := vint (vnth 2 a); u_pw := vint (vnth 3 a);
              u_groups := vint (vnth 4 a) |} in
  let q := {| q_admin := 0 <? vint (vnth 0 b); q_caller := vint (vnth 1 b); q_target := vint (vnth 2 b); q_name := vint (vnth 3 b);
              q_must := 0 <? vint (vnth 4 b); q_email := vint (vnth 5 b); q_pw := as_opt_int (vnth 6 b); q_confirm := vint (vnth 7 b);
              q_groups := vint (vnth 8 b) |} in
  match edit_user u q with
  | URefused => VL [VI 0]
  | UMismatch => VL [VI 1]
  | UDone x => VL [VI 2; VI (u_name x); vbool (u_must x); VI (u_email x); VI (u_pw x); VI (u_groups x)]
  end.
(* (10 ((pk name must email pw groups) ...) (op ...)) with op = (0 pk name email pw confirm groups must) |
   (1 admin caller target name must email (pw)? confirm groups) -> the user table after every op *)
Definition c15_users (v : val) : val :=
  let row e := {| a_pk := vint (vnth 0 e);
                  a_rec := {| u_name := vint (vnth 1 e); u_must := 0 <? vint (vnth 2 e); u_email := vint (vnth 3 e);
                              u_pw := vint (vnth 4 e); u_groups := vint (vnth 5 e) |} |} in
  let op e := if vint (vnth 0 e) =? 0 then
                UAdd (vint (vnth 1 e)) (vint (vnth 2 e)) (vint (vnth 3 e)) (vint (vnth 4 e)) (vint (vnth 5 e)) (vint (vnth 6 e))
                     (0 <? vint (vnth 7 e))
              else UEdit {| q_admin := 0 <? vint (vnth 1 e); q_caller := vint (vnth 2 e); q_target := vint (vnth 3 e);
                            q_name := vint (vnth 4 e); q_must := 0 <? vint (vnth 5 e); q_email := vint (vnth 6 e);
                            q_pw := as_opt_int (vnth 7 e); q_confirm := vint (vnth 8 e); q_groups := vint (vnth 9 e) |} in
  let out t := VL (map (fun a => VL [VI (a_pk a); VI (u_name (a_rec a)); vbool (u_must (a_rec a)); VI (u_email (a_rec a));
                                     VI (u_pw (a_rec a)); VI (u_groups (a_rec a))]) t) in
  let fix trace (t : utable) (ops : list val) : list val :=
    match ops with [] => [] | o :: r => let t' := ustep t (op o) in out t' :: trace t' r end in
  VL (trace (map row (vlist (vnth 1 v))) (vlist (vnth 2 v))).
Definition c15_run (v : val) : val :=
  if vint (vnth 0 v) =? 9 then c15_user v else
  if vint (vnth 0 v) =? 10 then c15_users v else
  let tbl := map (fun e => (vints (vnth 0 e), vints (vnth 1 e))) (vlist (vnth 1 v)) in
  let calls := map (fun e => (match vnth 0 e with VL [VL c] => Some (map vint c) | _ => None end,
                              vints (vnth 1 e), vints (vnth 2 e))) (vlist (vnth 2 v)) in
  VL (c15_flags (c15_lookup tbl) [] calls).

(* ---- C07 ---- request: (mode (kindcode default) payload)
   mode 0: value -> URL text   mode 1: raw URL text -> value at the media endpoint *)
Definition c07_kind (v : val) : kind :=
  let c := vint (vnth 0 v) in
  if c =? 0 then KBool else if c =? 1 then KIntOrNone else if c =? 2 then KIntDefault (vint (vnth 1 v))
  else if c =? 3 then KStrOrNone else if c =? 4 then KStr else if c =? 5 then KList
  else if c =? 6 then KUrl else if c =? 7 then KErrors else if c =? 8 then KAst else if c =? 9 then KDrm
  else if c =? 10 then KFloatOrNone else KUnknown.
Definition c07_value (v : val) : value :=
  let c := vint (vnth 0 v) in
  if c =? 0 then VBool (0 <? vint (vnth 1 v))
  else if c =? 1 then VOptInt (as_opt_int (vnth 1 v))
  else if c =? 2 then VInt (vint (vnth 1 v))
  else if c =? 3 then VOptStr (match vnth 1 v with VL [VL s] => Some (map vint s) | _ => None end)
  else if c =? 4 then VStr (vints (vnth 1 v))
  else if c =? 6 then VErrs (map (fun e => (vint (vnth 0 e), vint (vnth 1 e))) (vlist (vnth 1 v)))
  else if c =? 7 then VSym (vints (vnth 1 v))
  else if c =? 8 then
    let f := vnth 1 v in
    VDt {| d_year := vint (vnth 0 f); d_month := vint (vnth 1 f); d_day := vint (vnth 2 f); d_hour := vint (vnth 3 f);
           d_min := vint (vnth 4 f); d_sec := vint (vnth 5 f); d_us := vint (vnth 6 f); d_off := as_opt_int (vnth 7 f) |}
  else if c =? 9 then VDrm (map (fun e => (vint (vnth 0 e), (vb (vnth 1 e), vb (vnth 2 e), vb (vnth 3 e)))) (vlist (vnth 1 v)))
  else VList (map vints (vlist (vnth 1 v))).
Definition c07_value_out (x : value) : val :=
  match x with
  | VBool b => VL [VI 0; vbool b]
  | VOptInt o => VL [VI 1; vopt_int o]
  | VInt n => VL [VI 2; VI n]
  | VOptStr None => VL [VI 3; VL []]
  | VOptStr (Some s) => VL [VI 3; VL [of_ints s]]
  | VStr s => VL [VI 4; of_ints s]
  | VList l => VL [VI 5; VL (map of_ints l)]
  | VErrs l => VL [VI 6; VL (map (fun e => VL [VI (fst e); VI (snd e)]) l)]
  | VSym t => VL [VI 7; of_ints t]
  | VDt d => VL [VI 8; VL [VI (d_year d); VI (d_month d); VI (d_day d); VI (d_hour d); VI (d_min d); VI (d_sec d); VI (d_us d);
                           vopt_int (d_off d)]]
  | VDrm l => VL [VI 9; VL (map (fun e => match e with (sy, (c1, c2, c3)) => VL [VI sy; vbool c1; vbool c2; vbool c3] end) l)]
  end.
Definition c07_run (v : val) : val :=
  let mode := vint (vnth 0 v) in
  let k := c07_kind (vnth 1 v) in
  if mode =? 0 then
    match OptionsModel.fmt k (c07_value (vnth 2 v)) with Some t => VL [of_ints t] | None => VL [] end
  else
    match OptionsModel.parse k (qdecode (vints (vnth 2 v))) with Some x => VL [c07_value_out x] | None => VL [] end.

(* ---- C04 / C10 ---- request: (mode ...) *)
Fixpoint c04_tree (b : box) : val :=
  match b with
  | Leaf t p => VL [VI 0; of_ints t; of_ints p]
  | Node t cs => VL [VI 1; of_ints t; VL (map c04_tree cs)]
  end.
Definition c04_leaves (l : list val) : list box :=
  flat_map (fun v => match BoxModel.parse (S (length (vints v))) (vints v) with Some bs => bs | None => [] end) l.
Definition c04_run (v : val) : val :=
  let mode := vint (vnth 0 v) in
  let bs := vints (vnth 1 v) in
  if mode =? 0 then
    match BoxModel.parse (S (length bs)) bs with Some l => VL [VL (map c04_tree l)] | None => VL [] end
  else if mode =? 1 then
    match BoxModel.parse (S (length bs)) bs with Some l => VL [of_ints (enc_list l)] | None => VL [] end
  else if mode =? 3 then
    (* typed body: (3 type version flags n1 n2 bytes) -> ((values) rest) where a value is (0 z) or (1 bytes) *)
    (* type 18 = senc: n1 = iv size, the 8th element lists the per-sample subsample counts, -1 = no count field *)
    let l := if vint (vnth 1 v) =? 18 then
               FieldModel.l_senc (vint (vnth 3 v)) (Z.to_nat (vint (vnth 4 v)))
                 (map (fun c => if c <? 0 then None else Some (Z.to_nat c)) (vints (vnth 7 v)))
             else if vint (vnth 1 v) =? 19 then
               match FieldModel.emsg_layout (vints (vnth 6 v)) with Some l => l | None => [FieldModel.FB (S (length (vints (vnth 6 v))))] end
             else FieldModel.layout_of (vint (vnth 1 v)) (vint (vnth 2 v)) (vint (vnth 3 v)) (Z.to_nat (vint (vnth 4 v))) (Z.to_nat (vint (vnth 5 v))) in
    match FieldModel.dec_fields l (vints (vnth 6 v)) with
    | Some (vs, rest) =>
        VL [VL (map (fun x => match x with FieldModel.VU z => VL [VI 0; VI z] | FieldModel.VB b => VL [VI 1; of_ints b] end) vs); of_ints rest;
            match FieldModel.enc_fields l vs with Some pre => VL [of_ints pre] | None => VL [] end]
    | None => VL []
    end
  else if mode =? 2 then
    let top := vints (vnth 3 v) in
    match BoxModel.parse (S (length top)) top with
    | Some l => VL [of_ints (enc_list (rewrite_init (0 <? vint (vnth 1 v)) (c04_leaves (vlist (vnth 2 v))) l))]
    | None => VL []
    end
  else verr 995.

(* ---- C03 ---- request: (top traf (tfdt?) prefix_time senc_flags1 origin emsg piff)
   top = ((code size) ...) codes: 0 styp 1 sidx 2 emsg 3 moof 4 mdat 5 other
   traf = ((code size) ...) codes: 0 tfhd 1 tfdt 2 trun 3 saiz 4 saio 5 senc 6 piff 7 other *)
Definition c03_top (c : Z) : top :=
  if c =? 0 then TStyp else if c =? 1 then TSidx else if c =? 2 then TEmsg else if c =? 3 then TMoof
  else if c =? 4 then TMdat else TOther.
Definition c03_top_code (t : top) : Z :=
  match t with TStyp => 0 | TSidx => 1 | TEmsg => 2 | TMoof => 3 | TMdat => 4 | TOther => 5 end.
Definition c03_tag (c : Z) : tag :=
  if c =? 0 then Tfhd else if c =? 1 then Tfdt else if c =? 2 then Trun else if c =? 3 then Saiz
  else if c =? 4 then Saio else if c =? 5 then Senc else if c =? 6 then Piff else OtherT.
Definition c03_tag_code (t : tag) : Z :=
  match t with Tfhd => 0 | Tfdt => 1 | Trun => 2 | Saiz => 3 | Saio => 4 | Senc => 5 | Piff => 6 | OtherT => 7 end.
Definition c03_run (v : val) : val :=
  let s := {| s_top := map (fun e => (c03_top (vint (vnth 0 e)), vint (vnth 1 e))) (vlist (vnth 0 v));
              s_traf := map (fun e => (c03_tag (vint (vnth 0 e)), vint (vnth 1 e))) (vlist (vnth 1 v));
              s_tfdt := as_opt_int (vnth 2 v); s_prefix_time := vint (vnth 3 v);
              s_senc_flags1 := 0 <? vint (vnth 4 v) |} in
  let o := {| o_origin := vint (vnth 5 v); o_emsg := vints (vnth 6 v); o_piff := 0 <? vint (vnth 7 v) |} in
  VL [VL (map (fun e => VL [VI (c03_top_code (fst e)); VI (snd e)]) (rewrite_top o s));
      VL (map (fun e => VL [VI (c03_tag_code (fst e)); VI (snd e)]) (rewrite_traf o s));
      VI (new_time o s); VI (data_offset o s); VI (senc_entry_rel o s); VI (payload_pos o s)].

(* ---- C11 ---- request: (mode ...) *)
Definition c11_run (v : val) : val :=
  let mode := vint (vnth 0 v) in
  if mode =? 0 then of_ints (le_guid (vints (vnth 1 v)))
  else if mode =? 1 then of_ints (generate_pro (vints (vnth 1 v)))
  else if mode =? 2 then
    match parse_pro (vints (vnth 1 v)) with
    | Some l => VL [VL (map (fun e => match e with (t, n, h) => VL [VI t; VI n; of_ints h] end) l)]
    | None => VL []
    end
  else if mode =? 3 then of_ints (b64url_encode (vints (vnth 1 v)))
  else if mode =? 4 then
    match b64url_decode (vints (vnth 1 v)) with Some b => VL [of_ints b] | None => VL [] end
  else if mode =? 5 then
    (* content key with the three digests supplied by the caller: (digestA digestB digestC) *)
    let half x := xor_bytes (ztake 16 x) (zdrop 16 x) in
    of_ints (xor_bytes (xor_bytes (half (vints (vnth 1 v))) (half (vints (vnth 2 v)))) (half (vints (vnth 3 v))))
  else if mode =? 6 then
    VL (map (fun e => VL [of_ints (fst e); of_ints (snd e)])
            (clearkey_response (map (fun e => (vints (vnth 0 e), vints (vnth 1 e))) (vlist (vnth 1 v)))
                               (map vints (vlist (vnth 2 v)))))
  else verr 994.

(* ---- C16 ---- request: list of HTTP requests of one session, threaded through the counter state.
   media request:    (0 usage (fc?) ((code pos) ...) seg)
   manifest request: (1 (fc?) ((code kind v) ...) (upd?) now mup)   kind 0 = number, 1 = time *)
Definition c16_step (sv : sess * list val) (r : val) : sess * list val :=
  let s := fst sv in
  let kind := vint (vnth 0 r) in
  if kind =? 0 then
    let errs := map (fun e => (vint (vnth 0 e), vint (vnth 1 e))) (vlist (vnth 3 r)) in
    let '(o, s') := media_check (vint (vnth 1 r)) (as_opt_int (vnth 2 r)) errs (vint (vnth 4 r)) s in
    (s', vopt_int o :: snd sv)
  else
    let errs := map (fun e => (vint (vnth 0 e),
                               if vint (vnth 1 e) =? 0 then MNum (vint (vnth 2 e)) else MTime (vint (vnth 2 e))))
                    (vlist (vnth 2 r)) in
    let '(o, s') := manifest_check (as_opt_int (vnth 1 r)) errs (as_opt_int (vnth 3 r)) (vint (vnth 4 r)) (vint (vnth 5 r)) s in
    (s', vopt_int o :: snd sv).
Definition c16_run (v : val) : val :=
  let mode := vint (vnth 0 v) in
  if mode =? 0 then VL (rev (snd (fold_left c16_step (vlist (vnth 1 v)) ([], []))))
  else if mode =? 1 then VI (time_to_segment (vint (vnth 1 v)) (vint (vnth 2 v)) (vint (vnth 3 v)) (vint (vnth 4 v)))
  else if mode =? 2 then
    (* (2 (kindcode default) text): from_string on the decoded query value; () = ValueError *)
    match parse_any (c07_kind (vnth 1 v)) (vints (vnth 2 v)) with Some x => VL [c07_value_out x] | None => VL [] end
  else verr 993.

(* ---- C05 ---- request: (mode ...)  0: escape s   1: amp_only s   2: ctx_safe (ctxcode quote) s *)
Definition c05_run (v : val) : val :=
  let mode := vint (vnth 0 v) in
  if mode =? 0 then of_ints (XmlModel.escape (vints (vnth 1 v)))
  else if mode =? 1 then of_ints (amp_only (vints (vnth 1 v)))
  else if mode =? 2 then
    let c := if vint (vnth 1 v) =? 0 then CText else CAttr (vint (vnth 2 v)) in
    vbool (ctx_safe c (vints (vnth 3 v)))
  else verr 992.

(* ---- C17 ---- request: (ops) with op = (code a b c d); result: the eight tables + invb, after every op
   when mode = 1, at the end when mode = 0 *)
Definition c17_op (v : val) : StoreModel.sop :=
  let c := vint (vnth 0 v) in
  let a := vint (vnth 1 v) in let b := vint (vnth 2 v) in let d := vint (vnth 3 v) in let e := vint (vnth 4 v) in
  if c =? 0 then OAddStream a b else if c =? 1 then ODelStream a else if c =? 2 then OUpload a b d e
  else if c =? 3 then ODelFile a else if c =? 4 then OAddKey a b else if c =? 5 then ODelKey a
  else if c =? 6 then OLink a b else if c =? 7 then OAddMps a b else if c =? 8 then ODelMps a
  else if c =? 9 then OAddPeriod a b d e else if c =? 10 then ODelPeriod a else if c =? 12 then ORename a b else if c =? 13 then ODelAset a else OAddAset a b.
Definition c17_pairs (l : list (Z * Z)) : val := VL (map (fun x => VL [VI (fst x); VI (snd x)]) l).
Definition c17_state (s : store) : val :=
  VL [c17_pairs (streams s);
      VL (map (fun f => VL [VI (f_pk f); VI (f_name f); VI (f_stream f); VI (f_blob f)]) (files s));
      c17_pairs (blobs s); c17_pairs (keys s); c17_pairs (links s); c17_pairs (mpss s);
      VL (map (fun p => VL [VI (p_pk p); VI (p_mps p); VI (p_pid p); VI (p_stream p)]) (periods s));
      c17_pairs (asets s); vbool (invb s)].
Fixpoint c17_trace (s : store) (ops : list val) : list val :=
  match ops with
  | [] => []
  | o :: r => let s' := StoreModel.sstep s (c17_op o) in c17_state s' :: c17_trace s' r
  end.
Definition c17_run (v : val) : val :=
  let ops := vlist (vnth 1 v) in
  if vint (vnth 0 v) =? 1 then VL (c17_trace StoreModel.sempty ops)
  else c17_state (fold_left (fun s o => StoreModel.sstep s (c17_op o)) ops StoreModel.sempty).

(* ---- C18 ---- request: the 23 fields of segfacts in order (options as () / (v)); result: error codes *)
Definition c18_code (e : vkind) : Z :=
  match e with
  | EStatus => 0 | EMoof => 1 | EMdat => 2 | ETrunOffset => 3 | ETrunEnd => 4 | ESencMissing => 5 | ESaioMissing => 6
  | ESaioCount => 7 | ESaioOffset => 8 | ESencCount => 9 | ESencInClear => 10 | ESeq => 11 | EDecode => 12 | EDuration => 13
  end.
Definition c18_mcode (e : mkind) : Z :=
  match e with
  | MNoPeriod => 0 | MMinBuf => 1 | MType => 2 | MAst => 3 | MTsbd => 4 | MMpdInLive => 5 | MMpdInvalid => 6 | MPeriodDur => 7
  | MMupInVod => 8 | MAstInVod => 9 | MPatchInVod => 10 | MAstChanged => 11
  end.
(* manifest facts: (-1 live dynamic periods minbuf ast tsbd mup (mpd?) perioddurations patches (prevast?) (ast?)) *)
Definition c18_manifest (v : val) : val :=
  let b n := 0 <? vint (vnth n v) in
  let f := {| m_live := b 1%nat; m_dynamic := b 2%nat; m_periods := vint (vnth 3 v); m_has_minbuf := b 4%nat; m_has_ast := b 5%nat;
              m_has_tsbd := b 6%nat; m_has_mup := b 7%nat; m_mpd := as_opt_int (vnth 8 v); m_period_durations := b 9%nat;
              m_patches := vint (vnth 10 v); m_prev_ast := as_opt_int (vnth 11 v); m_ast := as_opt_int (vnth 12 v) |} in
  of_ints (map c18_mcode (manifest_errors f)).
Definition c18_run (v : val) : val :=
  if vint (vnth 0 v) =? -1 then c18_manifest v else
  if vint (vnth 0 v) =? -2 then
    (* (-2 timeline? timescale num den idx audio?) -> tolerance *)
    (if 0 <? vint (vnth 1 v) then VI (tol_timeline (vint (vnth 2 v)) (vint (vnth 3 v)) (vint (vnth 4 v)) (0 <? vint (vnth 6 v)))
     else VI (tol_template (vint (vnth 2 v)) (vint (vnth 3 v)) (vint (vnth 4 v)) (vint (vnth 5 v)) (0 <? vint (vnth 6 v)))) else
  let z n := vint (vnth n v) in
  let b n := 0 <? vint (vnth n v) in
  let f := {| g_status := z 0%nat; g_has_moof := b 1%nat; g_has_mdat := b 2%nat; g_first_sample := z 3%nat; g_payload_start := z 4%nat;
              g_last_sample_end := z 5%nat; g_mdat_end := z 6%nat; g_encrypted := b 7%nat; g_has_senc := b 8%nat; g_has_saio := b 9%nat;
              g_saio_entries := z 10%nat; g_saio_target := z 11%nat; g_senc_first := z 12%nat; g_trun_n := z 13%nat; g_senc_n := z 14%nat;
              g_seq := z 15%nat; g_expected_seq := as_opt_int (vnth 16 v); g_decode := z 17%nat; g_expected_decode := as_opt_int (vnth 18 v);
              g_tolerance := z 19%nat; g_duration := z 20%nat; g_expected_duration := as_opt_int (vnth 21 v); g_timescale := z 22%nat |} in
  of_ints (map c18_code (seg_errors f)).

Definition dispatch (comp : Z) (v : val) : val :=
  if comp =? 20 then c20_run v
  else if comp =? 18 then c18_run v
  else if comp =? 17 then c17_run v
  else if comp =? 5 then c05_run v
  else if comp =? 16 then c16_run v
  else if comp =? 11 then c11_run v
  else if comp =? 3 then c03_run v
  else if comp =? 4 then c04_run v
  else if comp =? 7 then c07_run v
  else if comp =? 15 then c15_run v
  else if comp =? 12 then c12_run v
  else if comp =? 14 then c14_run v
  else if comp =? 2 then seg_run v
  else if comp =? 8 then c08_run v
  else if comp =? 13 then c13_run v
  else if comp =? 19 then c19_run v
  else verr 999.
