(* Request decoding / result encoding for the extracted model runner.
   dispatch <component> <request> : val.  Definitions only. *)
From Verif Require Import Base.Tactics Base.ZList Base.Val.
From Verif Require Import Model.BufReaderModel Model.RangeModel.

(* ---- C20 ---- request: (file off bs maxb (size?) mode ops) *)
Definition c20_op (v : val) : op :=
  let t := vint (vnth 0 v) in
  let a := vint (vnth 1 v) in
  let b := vint (vnth 2 v) in
  if t =? 0 then Read a else if t =? 1 then Seek a b else if t =? 2 then Tell else Peek a.
Definition c20_out (x : out) : val :=
  match x with
  | OBytes b => VL [VI 0; of_ints b]
  | OInt z => VL [VI 1; VI z]
  | OAssert => VL [VI 2]
  end.
Definition c20_run (v : val) : val :=
  let file := vints (vnth 0 v) in
  let g := {| g_offset := vint (vnth 1 v); g_bs := vint (vnth 2 v); g_maxb := vint (vnth 3 v) |} in
  let sz := as_opt_int (vnth 4 v) in
  let mode := vint (vnth 5 v) in
  let ops := map c20_op (vlist (vnth 6 v)) in
  if mode =? 1 then VL (map c20_out (run file (data_geom file) (init_data file) ops))
  else VL (map c20_out (run file g (init_state sz) ops)).

(* ---- C13 ---- request: (mode len (h?))   mode 0 get_http_range, 1 segment, 2 on-demand
   the resource is [0;1;..;len-1] so that a body is described by (first, length, is_run) *)
Fixpoint iota_from (n : nat) (start : Z) : list Z :=
  match n with O => [] | S k => start :: iota_from k (start + 1) end.
Fixpoint is_run (l : list Z) : bool :=
  match l with
  | a :: ((b :: _) as r) => (b =? a + 1) && is_run r
  | _ => true
  end.
Definition c13_body (b : list Z) : val :=
  VL [VI (match b with x :: _ => x | [] => 0 end); VI (zlen b); vbool (is_run b)].
Definition c13_cr (c : crange) : val :=
  match c with
  | CRnone => VL []
  | CRrange a b len => VL [VI a; VI b; VI len]
  | CRstar len => VL [VI len]
  end.
Definition c13_resp (r : resp) : val :=
  match r with
  | Crash => VL [VI (-1)]
  | Resp st body cr => VL [VI st; c13_body body; c13_cr cr]
  end.
Definition c13_run (v : val) : val :=
  let mode := vint (vnth 0 v) in
  let len := vint (vnth 1 v) in
  let h := match vnth 2 v with VL [VL codes] => Some (map vint codes) | _ => None end in
  if mode =? 0 then
    match get_http_range pyint_latin1 len h with
    | RNone => VL [VI 0] | RBad => VL [VI 1]
    | R206 a b => VL [VI 2; VI a; VI b] | R416 a b => VL [VI 3; VI a; VI b]
    end
  else if mode =? 1 then c13_resp (serve_segment pyint_latin1 (iota_from (Z.to_nat len) 0) h)
  else c13_resp (serve_ondemand pyint_latin1 (iota_from (Z.to_nat len) 0) h).

Definition dispatch (comp : Z) (v : val) : val :=
  if comp =? 20 then c20_run v
  else if comp =? 13 then c13_run v
  else verr 999.
