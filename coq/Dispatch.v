(* Request decoding / result encoding for the extracted model runner.
   dispatch <component> <request> : val.  Definitions only. *)
From Verif Require Import Base.Tactics Base.ZList Base.Val.
From Verif Require Import Model.BufReaderModel.

(* ---- C20 ---- request: (file off bs maxb (size?) mode ops) *)
Definition c20_op (v : val) : op :=
  let t := vint (vnth 0 v) in
  let a := vint (vnth 1 v) in
  let b := vint (vnth 2 v) in
  if t =? 0 then Read a else if t =? 1 then Seek a b else if t =? 2 then Tell else Peek a.
Definition c20_out (x : out) : val :=
  match x with
  | OBytes b => VL [VI 0; of_ints b]
  | OInt z => VL [VI 1; VI z]
  | OAssert => VL [VI 2]
  end.
Definition c20_run (v : val) : val :=
  let file := vints (vnth 0 v) in
  let g := {| g_offset := vint (vnth 1 v); g_bs := vint (vnth 2 v); g_maxb := vint (vnth 3 v) |} in
  let sz := as_opt_int (vnth 4 v) in
  let mode := vint (vnth 5 v) in
  let ops := map c20_op (vlist (vnth 6 v)) in
  if mode =? 1 then VL (map c20_out (run file (data_geom file) (init_data file) ops))
  else VL (map c20_out (run file g (init_state sz) ops)).

Definition dispatch (comp : Z) (v : val) : val :=
  if comp =? 20 then c20_run v
  else verr 999.
