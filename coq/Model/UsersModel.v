(* the user table under the two management operations an administrator has (PUT /api/users, POST /api/users/<pk>) and
   the self-service edit: names and addresses are interned integers *)
From Verif Require Import Base.Tactics Base.ZList Model.UserModel.

Record uacct := { a_pk : Z; a_rec : urec }.
Definition utable := list uacct.

Definition name_taken (t : utable) (n : Z) (except : Z) : bool :=
  existsb (fun a => (u_name (a_rec a) =? n) && negb (a_pk a =? except)) t.
Definition email_taken (t : utable) (e : Z) (except : Z) : bool :=
  existsb (fun a => (u_email (a_rec a) =? e) && negb (a_pk a =? except)) t.

Inductive uop :=
  | UAdd (pk name email pw confirm groups : Z) (must : bool)      (* PUT /api/users by an administrator; pk chosen by the database *)
  | UEdit (q : ureq).                                              (* POST /api/users/<q_target> *)

(* EditUser.post after the repair: the taken-name / taken-address checks come first and commit nothing *)
Definition edit_row (t : utable) (a : uacct) (q : ureq) : uacct :=
  if email_taken t (q_email q) (a_pk a) then a
  else if q_admin q && name_taken t (q_name q) (a_pk a) then a
  else {| a_pk := a_pk a; a_rec := after (a_rec a) q |}.

Definition ustep (t : utable) (o : uop) : utable :=
  match o with
  | UAdd pk name email pw confirm groups must =>
      if (pk <? 0) || existsb (fun a => a_pk a =? pk) t || name_taken t name (-1) || email_taken t email (-1) || negb (pw =? confirm) then t
      else {| a_pk := pk; a_rec := {| u_name := name; u_must := must; u_email := email; u_pw := pw; u_groups := groups |} |} :: t
  | UEdit q =>
      if negb (q_admin q) && negb (q_target q =? q_caller q) then t
      else map (fun a => if a_pk a =? q_target q then edit_row t a q else a) t
  end.

Definition UInv (t : utable) : Prop :=
  Forall (fun a => 0 <= a_pk a) t /\ NoDup (map a_pk t) /\ NoDup (map (fun a => u_name (a_rec a)) t) /\ NoDup (map (fun a => u_email (a_rec a)) t).
