(* C07 - option values travel from the manifest request to the media request as URL text:
   dashlive/server/options (DashOption codecs, OptionsContainer.generate_cgi_parameters),
   dashlive/utils/objects.dict_to_cgi_params (no escaping) and the query-string decoding the
   media endpoint applies (werkzeug: '+' -> space, %XX -> byte).  Strings are lists of
   character codes.  Definitions only. *)
From Verif Require Import Base.Tactics Base.ZList Base.Str.

(* ------------------------------------------------------------ the URL layer *)
Definition hexval (c : Z) : option Z :=
  if (48 <=? c) && (c <=? 57) then Some (c - 48)
  else if (65 <=? c) && (c <=? 70) then Some (c - 55)
  else if (97 <=? c) && (c <=? 102) then Some (c - 87)
  else None.

(* what request.args hands to the handler for one value *)
Fixpoint qdecode (s : str) : str :=
  match s with
  | [] => []
  | c :: r =>
      if c =? 43 then 32 :: qdecode r                              (* '+' *)
      else if c =? 37 then                                         (* '%XX' *)
        match r with
        | a :: b :: r2 =>
            match hexval a, hexval b with
            | Some x, Some y => (16 * x + y) :: qdecode r2
            | _, _ => 37 :: qdecode r
            end
        | _ => 37 :: qdecode r
        end
      else c :: qdecode r
  end.

(* characters that survive a query string unchanged (and do not end the value) *)
Definition url_plain (c : Z) : bool :=
  negb ((c =? 43) || (c =? 37) || (c =? 38) || (c =? 35) || (c =? 61) && false) && (33 <=? c) && (c <=? 126).
Definition plain (s : str) : bool := forallb url_plain s.

(* ------------------------------------------------------------ option kinds *)
Inductive kind :=
  | KBool                      (* bool_from_string / bool_to_string *)
  | KIntOrNone                 (* int_or_none_from_string / flatten *)
  | KIntDefault (d : Z)        (* EventBase.int_or_default_from_string(d) / str *)
  | KStrOrNone                 (* string_or_none / flatten *)
  | KStr                       (* str / str *)
  | KList                      (* list_without_none_from_string / ','.join *)
  | KFloatOrNone               (* float_or_none_from_string / flatten *)
  | KUrl                       (* unquoted_url_or_none_from_string / quoted_url_or_none_to_string *)
  | KAst                       (* ast_from_string / ast_to_string *)
  | KDrm                       (* _drm_selection_from_string / _drm_selection_to_string *)
  | KErrors                    (* _errors_from_string / _errors_to_string *)
  | KUnknown.

Inductive value :=
  | VBool (b : bool)
  | VOptInt (o : option Z)
  | VInt (n : Z)
  | VOptStr (o : option str)
  | VStr (s : str)
  | VList (l : list str).

Definition lower_c (c : Z) : Z := if (65 <=? c) && (c <=? 90) then c + 32 else c.
Definition lower (s : str) : str := map lower_c s.
Definition s_none : str := [110; 111; 110; 101].
Definition s_true : str := [116; 114; 117; 101].
Definition s_on : str := [111; 110].
Definition str_eqb (a b : str) : bool := if list_eq_dec Z.eq_dec a b then true else false.
Definition is_none_text (s : str) : bool := str_eqb (lower s) [] || str_eqb (lower s) s_none.

(* Python's str(int) / int(text, 10) on the texts the model produces: optional '-' and digits *)
Definition fmt_int (n : Z) : str := if n <? 0 then 45 :: dec (- n) else dec n.
Definition parse_int (s : str) : option Z :=
  match s with
  | c :: r => if c =? 45 then (if all_digits r && negb (str_eqb r []) then Some (- dval r) else None)
              else if all_digits s then Some (dval s) else None
  | [] => None
  end.

Fixpoint join_comma (l : list str) : str :=
  match l with
  | [] => []
  | [x] => x
  | x :: r => x ++ 44 :: join_comma r
  end.
Fixpoint split_comma_acc (s cur : str) : list str :=
  match s with
  | [] => [rev cur]
  | c :: r => if c =? 44 then rev cur :: split_comma_acc r [] else split_comma_acc r (c :: cur)
  end.
Definition split_comma (s : str) : list str := split_comma_acc s [].

(* to_string, as written into the URL (None is spelled "none") *)
Definition fmt (k : kind) (v : value) : option str :=
  match k, v with
  | KBool, VBool b => Some (if b then [49] else [48])
  | KIntOrNone, VOptInt None => Some s_none
  | KIntOrNone, VOptInt (Some n) => Some (fmt_int n)
  | KIntDefault _, VInt n => Some (fmt_int n)
  | KStrOrNone, VOptStr None => Some s_none
  | KStrOrNone, VOptStr (Some s) => Some s
  | KStr, VStr s => Some s
  | KList, VList l => Some (join_comma l)
  | _, _ => None
  end.

(* from_string, applied to the decoded query value; None = ValueError (HTTP 400) *)
Definition parse (k : kind) (s : str) : option value :=
  match k with
  | KBool => let l := lower s in Some (VBool (str_eqb l s_true || str_eqb l [49] || str_eqb l s_on))
  | KIntOrNone => if str_eqb s [] || str_eqb s s_none then Some (VOptInt None)
                  else match parse_int s with Some n => Some (VOptInt (Some n)) | None => None end
  | KIntDefault d => if str_eqb s [] || str_eqb s s_none then Some (VInt d)
                     else match parse_int s with Some n => Some (VInt n) | None => None end
  | KStrOrNone => if is_none_text s then Some (VOptStr None) else Some (VOptStr (Some s))
  | KStr => Some (VStr s)
  | KList => if is_none_text s then Some (VList [])
             else Some (VList (filter (fun x => negb (is_none_text x)) (split_comma s)))
  | _ => None
  end.

(* the value the media endpoint obtains from the URL text the manifest wrote *)
Definition through_url (k : kind) (v : value) : option value :=
  match fmt k v with Some t => parse k (qdecode t) | None => None end.

(* legal values of a kind: what its from_string can produce and the URL can carry *)
Definition token_ok (s : str) : bool := plain s && negb (is_none_text s) && negb (existsb (Z.eqb 44) s).
Definition legal (k : kind) (v : value) : bool :=
  match k, v with
  | KBool, VBool _ => true
  | KIntOrNone, VOptInt _ => true
  | KIntDefault _, VInt _ => true
  | KStrOrNone, VOptStr None => true
  | KStrOrNone, VOptStr (Some s) => plain s && negb (is_none_text s)
  | KStr, VStr s => plain s
  | KList, VList l => forallb token_ok l
  | _, _ => false
  end.

(* ------------------------------------------------------------ the option table *)
Record orow := { o_name : str; o_cgi : str; o_usage : Z; o_kind : kind }.
(* OptionUsage bits *)
Definition U_MANIFEST := 1. Definition U_VIDEO := 2. Definition U_AUDIO := 4. Definition U_TEXT := 8.
(* generate_cgi_parameters(use=m): an option is written into the URLs of media type m iff its
   usage mask contains m (and its value differs from the default) *)
Definition forwarded (m : Z) (r : orow) (differs_from_default : bool) : bool :=
  differs_from_default && negb (Z.land (o_usage r) m =? 0).
Definition proved_kind (k : kind) : bool :=
  match k with KBool | KIntOrNone | KIntDefault _ | KStrOrNone | KStr | KList => true | _ => false end.
Definition modelled_kind (k : kind) : bool := match k with KUnknown => false | _ => true end.
