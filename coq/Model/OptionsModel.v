(* C07 - option values travel from the manifest request to the media request as URL text:
   dashlive/server/options (DashOption codecs, OptionsContainer.generate_cgi_parameters),
   dashlive/utils/objects.dict_to_cgi_params (no escaping) and the query-string decoding the
   media endpoint applies (werkzeug: '+' -> space, %XX -> byte).  Strings are lists of
   character codes.  Definitions only. *)
From Verif Require Import Base.Tactics Base.ZList Base.Str Model.IsoTimeModel.

(* ------------------------------------------------------------ the URL layer *)
Definition hexval (c : Z) : option Z :=
  if (48 <=? c) && (c <=? 57) then Some (c - 48)
  else if (65 <=? c) && (c <=? 70) then Some (c - 55)
  else if (97 <=? c) && (c <=? 102) then Some (c - 87)
  else None.

(* what request.args hands to the handler for one value *)
Fixpoint qdecode (s : str) : str :=
  match s with
  | [] => []
  | c :: r =>
      if c =? 43 then 32 :: qdecode r                              (* '+' *)
      else if c =? 37 then                                         (* '%XX' *)
        match r with
        | a :: b :: r2 =>
            match hexval a, hexval b with
            | Some x, Some y => (16 * x + y) :: qdecode r2
            | _, _ => 37 :: qdecode r
            end
        | _ => 37 :: qdecode r
        end
      else c :: qdecode r
  end.

(* characters that survive a query string unchanged (and do not end the value) *)
Definition url_plain (c : Z) : bool :=
  negb ((c =? 43) || (c =? 37) || (c =? 38) || (c =? 35) || (c =? 61) && false) && (33 <=? c) && (c <=? 126).
Definition plain (s : str) : bool := forallb url_plain s.

(* ------------------------------------------------------------ option kinds *)
Inductive kind :=
  | KBool                      (* bool_from_string / bool_to_string *)
  | KIntOrNone                 (* int_or_none_from_string / flatten *)
  | KIntDefault (d : Z)        (* EventBase.int_or_default_from_string(d) / str *)
  | KStrOrNone                 (* string_or_none / flatten *)
  | KStr                       (* str / str *)
  | KList                      (* list_without_none_from_string / ','.join *)
  | KFloatOrNone               (* float_or_none_from_string / flatten *)
  | KUrl                       (* unquoted_url_or_none_from_string / quoted_url_or_none_to_string *)
  | KAst                       (* ast_from_string / ast_to_string *)
  | KDrm                       (* _drm_selection_from_string / _drm_selection_to_string *)
  | KErrors                    (* _errors_from_string / _errors_to_string *)
  | KUnknown.

Inductive value :=
  | VBool (b : bool)
  | VOptInt (o : option Z)
  | VInt (n : Z)
  | VOptStr (o : option str)
  | VStr (s : str)
  | VList (l : list str)
  | VErrs (l : list (Z * Z))
  | VSym (s : str)                (* availabilityStartTime: one of the symbolic names *)
  | VDt (d : dt)                  (* ... or a date-time (Model/IsoTimeModel.v) *)
  | VDrm (l : list (Z * (bool * bool * bool))).   (* DRM selection: (system 0..2, locations cenc / moov / pro) *)     (* (HTTP status, integer position) pairs of an error-injection option *)

Definition lower_c (c : Z) : Z := if (65 <=? c) && (c <=? 90) then c + 32 else c.
Definition lower (s : str) : str := map lower_c s.
Definition s_none : str := [110; 111; 110; 101].
Definition s_true : str := [116; 114; 117; 101].
Definition s_on : str := [111; 110].
Definition str_eqb (a b : str) : bool := if list_eq_dec Z.eq_dec a b then true else false.
Definition is_none_text (s : str) : bool := str_eqb (lower s) [] || str_eqb (lower s) s_none.

(* Python's str(int) / int(text, 10) on the texts the model produces: optional '-' and digits *)
Definition fmt_int (n : Z) : str := if n <? 0 then 45 :: dec (- n) else dec n.
Definition parse_int (s : str) : option Z :=
  match s with
  | c :: r => if c =? 45 then (if all_digits r && negb (str_eqb r []) then Some (- dval r) else None)
              else if all_digits s then Some (dval s) else None
  | [] => None
  end.

Fixpoint join_comma (l : list str) : str :=
  match l with
  | [] => []
  | [x] => x
  | x :: r => x ++ 44 :: join_comma r
  end.
Fixpoint split_comma_acc (s cur : str) : list str :=
  match s with
  | [] => [rev cur]
  | c :: r => if c =? 44 then rev cur :: split_comma_acc r [] else split_comma_acc r (c :: cur)
  end.
Definition split_comma (s : str) : list str := split_comma_acc s [].

(* urllib.parse.quote_plus over the bytes of the text: letters, digits and _.-~ unchanged, space -> '+',
   everything else %XX with upper-case hex digits *)
Definition hexdigit (n : Z) : Z := if n <? 10 then 48 + n else 55 + n.
Definition url_safe (c : Z) : bool :=
  ((48 <=? c) && (c <=? 57)) || ((65 <=? c) && (c <=? 90)) || ((97 <=? c) && (c <=? 122))
  || (c =? 95) || (c =? 46) || (c =? 45) || (c =? 126).
Fixpoint quote_plus (s : str) : str :=
  match s with
  | [] => []
  | c :: r => (if url_safe c then [c] else if c =? 32 then [43] else [37; hexdigit (c / 16); hexdigit (c mod 16)])
              ++ quote_plus r
  end.
Definition is_byte (c : Z) : bool := (0 <=? c) && (c <? 256).

(* urllib.parse.quote(text, safe=':'): as quote_plus, but ':' is kept and a space is %20 *)
Fixpoint quote_colon (s : str) : str :=
  match s with
  | [] => []
  | c :: r => (if url_safe c || (c =? 58) then [c] else [37; hexdigit (c / 16); hexdigit (c mod 16)]) ++ quote_colon r
  end.
(* SPECIAL_AST_VALUES *)
Definition special_ast : list str :=
  [[110; 111; 119]; [116; 111; 100; 97; 121]; [109; 111; 110; 116; 104]; [121; 101; 97; 114]; [101; 112; 111; 99; 104]].
Definition in_special (s : str) : bool := existsb (str_eqb s) special_ast.

Fixpoint split_on_acc (d : Z) (s cur : str) : list str :=
  match s with
  | [] => [rev cur]
  | c :: r => if c =? d then rev cur :: split_on_acc d r [] else split_on_acc d r (c :: cur)
  end.
(* DRM selection: "<system>[-<location>...],..." with the systems clearkey, marlin, playready (DrmSystem.values())
   and the locations cenc, moov, pro (sorted as _drm_selection_to_string sorts them); "all" when every system is
   listed with every location *)
Definition n_clearkey : str := [99; 108; 101; 97; 114; 107; 101; 121].
Definition n_marlin : str := [109; 97; 114; 108; 105; 110].
Definition n_playready : str := [112; 108; 97; 121; 114; 101; 97; 100; 121].
Definition n_cenc : str := [99; 101; 110; 99].
Definition n_moov : str := [109; 111; 111; 118].
Definition n_pro : str := [112; 114; 111].
Definition s_all : str := [97; 108; 108].
Definition locs := (bool * bool * bool)%type.
Definition all_locs : locs := (true, true, true).
Definition locs_eqb (a b : locs) : bool :=
  let '(a1, a2, a3) := a in let '(b1, b2, b3) := b in Bool.eqb a1 b1 && Bool.eqb a2 b2 && Bool.eqb a3 b3.
Definition sys_name (s : Z) : str := if s =? 0 then n_clearkey else if s =? 1 then n_marlin else n_playready.
Definition sys_of (t : str) : option Z :=
  if str_eqb t n_clearkey then Some 0 else if str_eqb t n_marlin then Some 1 else if str_eqb t n_playready then Some 2 else None.
Definition fmt_item (i : Z * locs) : str :=
  let '(s, (c, m, p)) := i in
  sys_name s ++ (if c && m && p then []
                 else (if c then 45 :: n_cenc else []) ++ (if m then 45 :: n_moov else []) ++ (if p then 45 :: n_pro else [])).
Definition is_sys_name (t : str) : bool := match sys_of t with Some _ => true | None => false end.
Definition is_all (items : list str) : bool :=
  forallb is_sys_name items && existsb (str_eqb n_clearkey) items && existsb (str_eqb n_marlin) items
  && existsb (str_eqb n_playready) items.
Fixpoint starts_with (p s : str) : bool :=
  match p, s with
  | [], _ => true
  | a :: p', b :: s' => (a =? b) && starts_with p' s'
  | _ :: _, [] => false
  end.
Fixpoint parse_locs (parts : list str) (acc : locs) : option locs :=
  match parts with
  | [] => Some acc
  | t :: r => let '(c, m, p) := acc in
              if str_eqb t n_cenc then parse_locs r (true, m, p)
              else if str_eqb t n_moov then parse_locs r (c, true, p)
              else if str_eqb t n_pro then parse_locs r (c, m, true)
              else None
  end.
Definition parse_item (it : str) : option (Z * locs) :=
  match split_on_acc 45 it [] with
  | [] => None
  | [d] => match sys_of d with Some s => Some (s, all_locs) | None => None end
  | d :: ls => match parse_locs ls (false, false, false), sys_of d with Some L, Some s => Some (s, L) | _, _ => None end
  end.
Fixpoint parse_items (items : list str) : option (list (Z * locs)) :=
  match items with
  | [] => Some []
  | i :: r => match parse_item i, parse_items r with Some e, Some l => Some (e :: l) | _, _ => None end
  end.
Definition every_system (L : locs) : list (Z * locs) := [(0, L); (1, L); (2, L)].

(* error lists: "<code>=<pos>,<code>=<pos>" (positions that are date-times are outside the model) *)
Definition fmt_err (e : Z * Z) : str := fmt_int (fst e) ++ 61 :: fmt_int (snd e).
Definition parse_err (item : str) : option (Z * Z) :=
  match split_on_acc 61 item [] with
  | [a; b] => match parse_int a, parse_int b with Some c, Some p => Some (c, p) | _, _ => None end
  | _ => None
  end.
Fixpoint parse_errs (items : list str) : option (list (Z * Z)) :=
  match items with
  | [] => Some []
  | i :: r => match parse_err i, parse_errs r with Some e, Some l => Some (e :: l) | _, _ => None end
  end.

(* the PlayReady version: a float with one fractional digit (the listed choices 1.0 .. 4.0; Python writes 2.0 as "2.0"),
   modelled as tenths *)
Definition fmt_tenths (t : Z) : str := dec (t / 10) ++ [46; 48 + t mod 10].
Definition parse_tenths (s : str) : option Z :=
  match split_on_acc 46 s [] with
  | [a; [c]] => if all_digits a && negb (str_eqb a []) && is_digit c then Some (10 * dval a + (c - 48)) else None
  | _ => None
  end.

(* to_string, as written into the URL (None is spelled "none") *)
Definition fmt (k : kind) (v : value) : option str :=
  match k, v with
  | KBool, VBool b => Some (if b then [49] else [48])
  | KIntOrNone, VOptInt None => Some s_none
  | KIntOrNone, VOptInt (Some n) => Some (fmt_int n)
  | KIntDefault _, VInt n => Some (fmt_int n)
  | KStrOrNone, VOptStr None => Some s_none
  | KStrOrNone, VOptStr (Some s) => Some s
  | KStr, VStr s => Some s
  | KList, VList l => Some (join_comma l)
  | KFloatOrNone, VOptInt None => Some s_none
  | KFloatOrNone, VOptInt (Some t) => Some (fmt_tenths t)
  | KUrl, VOptStr None => Some s_none
  | KUrl, VOptStr (Some s) => Some (quote_plus s)
  | KErrors, VErrs l => Some (join_comma (map fmt_err l))
  | KDrm, VDrm l => let items := map fmt_item l in Some (if is_all items then s_all else join_comma items)
  | KAst, VSym s => Some s
  | KAst, VDt d => Some (quote_colon (fmt_datetime d))
  | _, _ => None
  end.

(* from_string, applied to the decoded query value; None = ValueError (HTTP 400) *)
Definition parse (k : kind) (s : str) : option value :=
  match k with
  | KBool => let l := lower s in Some (VBool (str_eqb l s_true || str_eqb l [49] || str_eqb l s_on))
  | KIntOrNone => if str_eqb s [] || str_eqb s s_none then Some (VOptInt None)
                  else match parse_int s with Some n => Some (VOptInt (Some n)) | None => None end
  | KIntDefault d => if str_eqb s [] || str_eqb s s_none then Some (VInt d)
                     else match parse_int s with Some n => Some (VInt n) | None => None end
  | KStrOrNone => if is_none_text s then Some (VOptStr None) else Some (VOptStr (Some s))
  | KStr => Some (VStr s)
  | KList => if is_none_text s then Some (VList [])
             else Some (VList (filter (fun x => negb (is_none_text x)) (split_comma s)))
  | KFloatOrNone => if str_eqb s [] || str_eqb s s_none then Some (VOptInt None)
                    else match parse_tenths s with Some t => Some (VOptInt (Some t)) | None => None end
  | KUrl => if is_none_text s then Some (VOptStr None) else Some (VOptStr (Some s))   (* request.args has decoded it; nothing is decoded twice *)
  | KErrors => if is_none_text s then Some (VErrs [])
               else match parse_errs (split_comma s) with Some l => Some (VErrs l) | None => None end
  | KDrm => let v := lower s in
            if starts_with s_none v || str_eqb v [] then Some (VDrm [])
            else if starts_with s_all v then
              (if existsb (Z.eqb 45) v then
                 match parse_locs (tl (split_on_acc 45 v [])) (false, false, false) with
                 | Some L => Some (VDrm (every_system L)) | None => None end
               else Some (VDrm (every_system all_locs)))
            else match parse_items (split_comma v) with Some l => Some (VDrm l) | None => None end
  | KAst => if in_special s then Some (VSym s)
            else match parse_datetime s with DtVal d _ => Some (VDt d) | _ => None end
  | _ => None
  end.

(* the value the media endpoint obtains from the URL text the manifest wrote *)
Definition through_url (k : kind) (v : value) : option value :=
  match fmt k v with Some t => parse k (qdecode t) | None => None end.

(* legal values of a kind: what its from_string can produce and the URL can carry *)
Definition token_ok (s : str) : bool := plain s && negb (is_none_text s) && negb (existsb (Z.eqb 44) s).
Definition legal (k : kind) (v : value) : bool :=
  match k, v with
  | KBool, VBool _ => true
  | KIntOrNone, VOptInt _ => true
  | KIntDefault _, VInt _ => true
  | KStrOrNone, VOptStr None => true
  | KStrOrNone, VOptStr (Some s) => plain s && negb (is_none_text s)
  | KStr, VStr s => plain s
  | KList, VList l => forallb token_ok l
  | KFloatOrNone, VOptInt None => true
  | KFloatOrNone, VOptInt (Some t) => 0 <=? t
  | KUrl, VOptStr None => true
  | KUrl, VOptStr (Some s) => forallb is_byte s && negb (is_none_text s)      (* ANY text: reserved characters, '+' and '%' included *)
  | KErrors, VErrs _ => true
  | KAst, VSym s => in_special s
  | KAst, VDt d => valid_dt d && valid_off d && match d_off d with Some _ => true | None => false end
  | _, _ => false
  end.

(* DRM selections have their own statement (Proofs: drm_roundtrip): a selection that lists every system with every
   location is written as "all" and comes back in the repository's order, so the result is the canonical form *)
Definition legal_item (i : Z * locs) : bool := let '(s, (c, m, p)) := i in (0 <=? s) && (s <=? 2) && (c || m || p).
Definition legal_drm (l : list (Z * locs)) : bool := forallb legal_item l.
Definition drm_canon (l : list (Z * locs)) : list (Z * locs) :=
  if is_all (map fmt_item l) then every_system all_locs else l.

(* ------------------------------------------------------------ the option table *)
Record orow := { o_name : str; o_cgi : str; o_usage : Z; o_kind : kind }.
(* OptionUsage bits *)
Definition U_MANIFEST := 1. Definition U_VIDEO := 2. Definition U_AUDIO := 4. Definition U_TEXT := 8.
(* generate_cgi_parameters(use=m): an option is written into the URLs of media type m iff its
   usage mask contains m (and its value differs from the default) *)
Definition forwarded (m : Z) (r : orow) (differs_from_default : bool) : bool :=
  differs_from_default && negb (Z.land (o_usage r) m =? 0).
Definition proved_kind (k : kind) : bool :=
  match k with KBool | KIntOrNone | KIntDefault _ | KStrOrNone | KStr | KList | KUrl | KErrors | KAst | KDrm | KFloatOrNone => true | _ => false end.
Definition modelled_kind (k : kind) : bool := match k with KUnknown => false | _ => true end.
