(* C02 / C09 / C01 / C06 - the segment-timing core.
   Transcribes dashlive/mpeg/dash/representation.py (get_segment_index,
   calculate_segment_from_timecode, generateSegmentTimeline,
   calculate_first_and_last_segment_number, calculate_segment_number_and_time,
   generateSegmentList) and LiveMedia.calculate_media_segment_index /
   generate_media_segment's tfdt and mfhd bookkeeping (server/requesthandler/media_requests.py).
   Times are integer ticks of the representation's timescale; timedeltas are integer
   microseconds.  Definitions only. *)
From Verif Require Import Base.Tactics Base.ZList Model.IsoTimeModel.

Fixpoint sumz (l : list Z) : Z := match l with [] => 0 | x :: r => x + sumz r end.

Record rep := {
  r_ts : Z;                 (* timescale *)
  r_durs : list Z;          (* durations of media segments 1..n *)
  r_start_number : Z;
  r_seg_dur : Z;            (* nominal segment_duration *)
  r_lr : Z;                 (* stream_reference.media_duration_using_timescale(timescale) *)
  r_start_time : Z          (* first decode time of the file (tfdt of segment 1) *)
}.

Definition nseg (r : rep) : Z := zlen (r_durs r).
Definition media_dur (r : rep) : Z := sumz (r_durs r).
Definition drift (r : rep) : Z := r_lr r - media_dur r.
Definition dur_at (r : rep) (m : Z) : Z := nth (Z.to_nat (m - 1)) (r_durs r) 0.
Definition prefix (r : rep) (k : Z) : Z := sumz (ztake k (r_durs r)).   (* start of segment k+1 in its loop *)
(* duration the timeline advertises for segment m: the loop-final one absorbs the drift *)
Definition eff_dur (r : rep) (m : Z) : Z := dur_at r m + (if m =? nseg r then drift r else 0).
Definition next_m (r : rep) (m : Z) : Z := if nseg r <? m + 1 then 1 else m + 1.

(* the while loop of get_segment_index inside one pass over the file: first segment
   (1-based number, start) with start + d//2 >= tc; None = ran past the last segment *)
Fixpoint walk (ds : list Z) (m start tc : Z) : option (Z * Z) :=
  match ds with
  | [] => None
  | d :: rest => if start + d / 2 <? tc then walk rest (m + 1) (start + d) tc else Some (m, start)
  end.

(* -> (mod_segment, seg_start_tc, origin_time).  After the wrap (mod_segment=1,
   origin+=Lr) the loop test is false at once because origin+Lr > tc (lemma wrap_stops). *)
Definition get_segment_index (r : rep) (tc : Z) : Z * Z * Z :=
  let origin := tc / r_lr r * r_lr r in
  match walk (r_durs r) 1 origin tc with
  | Some (m, s) => (m, s, origin)
  | None => (1, origin + r_lr r, origin + r_lr r)
  end.

(* one pass of the generateSegmentTimeline loop per unit of fuel *)
Fixpoint tl_loop (fuel : nat) (r : rep) (m t dur end_ : Z) : list (Z * Z * Z) :=
  match fuel with
  | O => []
  | S f => if dur <? end_
           then let d := eff_dur r m in (t, d, m) :: tl_loop f r (next_m r m) (t + d) (dur + d) end_
           else []
  end.

Definition min_eff (r : rep) : Z :=
  Z.max 1 (fold_right Z.min (Z.max 1 (eff_dur r (nseg r))) (r_durs r)).
Definition tl_fuel (r : rep) (end_ : Z) : nat := Z.to_nat (end_ / min_eff r + 2).

(* live timeline, expanded: one (t, d, mod_segment) per segment *)
Definition live_timeline (r : rep) (fta_us tsbd : Z) : list (Z * Z * Z) :=
  let start := us_to_tc fta_us (r_ts r) in
  let '(m0, s0, _) := get_segment_index r start in
  let end_ := tsbd * r_ts r in
  tl_loop (tl_fuel r end_) r m0 s0 0 end_.

(* vod timeline: from 0, segment 1, no drift, until the reference duration is covered *)
Fixpoint vod_loop (fuel : nat) (r : rep) (m t dur end_ : Z) : list (Z * Z * Z) :=
  match fuel with
  | O => []
  | S f => if dur <? end_
           then let d := dur_at r m in (t, d, m) :: vod_loop f r (next_m r m) (t + d) (dur + d) end_
           else []
  end.
Definition vod_timeline (r : rep) : list (Z * Z * Z) :=
  vod_loop (tl_fuel r (r_lr r)) r 1 0 0 (r_lr r).

(* timescale_to_timedelta: timedelta(seconds=float(tc)/float(ts)) - nearest microsecond,
   modelled on exact rationals, ties to even *)
Definition rhe (n d : Z) : Z :=
  let q := n / d in let r := n mod d in
  if 2 * r <? d then q else if d <? 2 * r then q + 1 else (if Z.even q then q else q + 1).
Definition tc_to_td_round (tc ts : Z) : Z := rhe (tc * 1000000) ts.

(* calculate_first_and_last_segment_number (live) *)
Definition first_last_live (r : rep) (elapsed_us tsbd : Z) : Z * Z :=
  let last := r_start_number r + (r_ts r * elapsed_us / 1000000) / r_seg_dur r in
  let first := last - 1 - (r_ts r * tsbd / r_seg_dur r) - 1 in
  (Z.max (r_start_number r) first, last).
Definition first_last_vod (r : rep) : Z * Z :=
  (r_start_number r, nseg r + r_start_number r - 1).

Record timing := { t_live : bool; t_elapsed : Z; t_tsbd : Z; t_fta : Z; t_leeway : Z }.

(* calculate_segment_number_and_time -> Some (segment_num, mod_segment, origin_time) | None = ValueError *)
Definition number_and_time (r : rep) (tm : timing) (seg_time seg_num : option Z) : option (Z * Z * Z) :=
  if negb (t_live tm) then
    let num := match seg_num with
               | Some n => n
               | None => match seg_time with
                         | Some t => (t + r_seg_dur r / 4) / r_seg_dur r + r_start_number r
                         | None => 0 end
               end in
    Some (num, 1 + num - r_start_number r, 0)
  else
    let timecode := match seg_time with
                    | Some t => t
                    | None => match seg_num with Some n => (n - r_start_number r) * r_seg_dur r | None => 0 end
                    end in
    let num := match seg_num with
               | Some n => n
               | None => timecode / r_seg_dur r
               end in
    let seg_delta := tc_to_td_round timecode (r_ts r) in
    if (seg_delta <? t_fta tm - t_leeway tm) || (t_elapsed tm <? seg_delta) then None
    else if timecode <? 0 then None
    else if nseg r <? 2 then None
    else let '(m, _, origin) := get_segment_index r timecode in Some (num, m, origin).

(* LiveMedia.calculate_media_segment_index *)
Definition media_index (r : rep) (tm : timing) (seg_time seg_num : option Z) : option (Z * Z * Z) :=
  let '(first, last) := if t_live tm then first_last_live r (t_elapsed tm) (t_tsbd tm) else first_last_vod r in
  match number_and_time r tm seg_time seg_num with
  | None => None
  | Some (num, m, origin) =>
      if (num <? first) || (last <? num) then None else Some (m, origin, num)
  end.

(* generate_media_segment: -> Some (mod_segment, baseMediaDecodeTime, sequence_number, sample duration)
   None = 404.  The stored segment m has tfdt = start_time + prefix (m-1). *)
Definition serve (r : rep) (tm : timing) (seg_time seg_num : option Z) : option (Z * Z * Z * Z) :=
  match media_index r tm seg_time seg_num with
  | None => None
  | Some (m, origin, num) =>
      if (m <? 0) || (nseg r <? m) then None          (* the handler asserts 0 <= m <= n *)
      else Some (m, r_start_time r + prefix r (m - 1) + origin, num, dur_at r m)
  end.

(* generateSegmentList over (pos,size) pairs: init = first, media = the rest, as (start,end) *)
Definition segment_list (segs : list (Z * Z)) : list (Z * Z) :=
  map (fun ps => (fst ps, fst ps + snd ps - 1)) segs.

(* well-formedness the theorems assume *)
Definition rep_ok (r : rep) : Prop :=
  2 <= nseg r /\ Forall (fun d => 1 <= d) (r_durs r) /\ 0 < r_lr r /\ 0 < r_ts r /\ 0 < r_seg_dur r /\
  1 <= eff_dur r (nseg r).
