(* C04 / C10 / C03 - ISO-BMFF box framing (dashlive/mpeg/mp4.py: Mp4Atom.load / encode with the
   32-bit size form; container boxes hold child boxes, every other box is an opaque payload, as
   UnknownBox / the cached _encoded bytes are in 'rw' mode).  Bytes are Z in [0,256).
   Definitions only. *)
From Verif Require Import Base.Tactics Base.ZList.

Definition bytes := list Z.
Definition be32 (v : Z) : bytes := [v / 16777216 mod 256; v / 65536 mod 256; v / 256 mod 256; v mod 256].
Definition rd32 (bs : bytes) : option (Z * bytes) :=
  match bs with
  | a :: b :: c :: d :: r => Some (a * 16777216 + b * 65536 + c * 256 + d, r)
  | _ => None
  end.
Definition be64 (v : Z) : bytes := be32 (v / 4294967296) ++ be32 (v mod 4294967296).
Definition rd64 (bs : bytes) : option (Z * bytes) :=
  match rd32 bs with
  | Some (hi, r) => match rd32 r with Some (lo, r') => Some (hi * 4294967296 + lo, r') | None => None end
  | None => None
  end.

Inductive box :=
  | Leaf (typ : bytes) (payload : bytes)
  | Node (typ : bytes) (children : list box).

Fixpoint enc (b : box) : bytes :=
  match b with
  | Leaf t p => be32 (8 + zlen p) ++ t ++ p
  | Node t cs => let body := flat_map enc cs in be32 (8 + zlen body) ++ t ++ body
  end.
Definition enc_list (l : list box) : bytes := flat_map enc l.
Definition box_typ (b : box) : bytes := match b with Leaf t _ => t | Node t _ => t end.
Definition box_size (b : box) : Z := zlen (enc b).

(* fourcc codes of the container boxes the library descends into *)
Definition fourcc (a b c d : Z) : bytes := [a; b; c; d].
Definition containers : list bytes :=
  [fourcc 109 111 111 118; fourcc 116 114 97 107; fourcc 116 114 97 102; fourcc 109 111 111 102;
   fourcc 109 105 110 102; fourcc 109 118 101 120; fourcc 109 100 105 97; fourcc 115 99 104 105;
   fourcc 115 105 110 102; fourcc 115 116 98 108; fourcc 117 100 116 97].
   (* moov trak traf moof minf mvex mdia schi sinf stbl udta *)
Definition bytes_eqb (a b : bytes) : bool := if list_eq_dec Z.eq_dec a b then true else false.
Definition is_container (t : bytes) : bool := existsb (bytes_eqb t) containers.

(* parse a run of boxes filling exactly the input; fuel bounds the nesting depth + length *)
Fixpoint parse (fuel : nat) (bs : bytes) : option (list box) :=
  match fuel with
  | O => None
  | S f =>
      match bs with
      | [] => Some []
      | _ =>
          match rd32 bs with
          | None => None
          | Some (size, r) =>
              let t := firstn 4 r in
              let rest := skipn 4 r in
              if (size <? 8) || (zlen bs <? size) || (zlen r <? 4) then None
              else
                let body := ztake (size - 8) rest in
                let after := zdrop (size - 8) rest in
                let this := if is_container t
                            then match parse f body with Some cs => Some (Node t cs) | None => None end
                            else Some (Leaf t body) in
                match this, parse f after with
                | Some b, Some l => Some (b :: l)
                | _, _ => None
                end
          end
      end
  end.

(* well-formed trees: 4-byte types, byte-valued payloads, sizes that fit 32 bits, and the
   tree shape agrees with the container table *)
Fixpoint wf (b : box) : Prop :=
  match b with
  | Leaf t p => length t = 4%nat /\ is_container t = false /\ 8 + zlen p < 4294967296
  | Node t cs => length t = 4%nat /\ is_container t = true /\ 8 + zlen (flat_map enc cs) < 4294967296 /\
                 (fix all (l : list box) : Prop := match l with [] => True | x :: r => wf x /\ all r end) cs
  end.
Fixpoint depth (b : box) : nat :=
  match b with
  | Leaf _ _ => 1
  | Node _ cs => S (fold_right (fun c acc => Nat.max (depth c) acc) 0%nat cs)
  end.

(* ---------------------------------------------------------------- init segment rewrite (C10) *)
Definition typ_moov := fourcc 109 111 111 118.
Definition typ_mehd := fourcc 109 101 104 100.
Definition typ_pssh := fourcc 112 115 115 104.
Definition typ_mvex := fourcc 109 118 101 120.
(* del parent.<type>: the first child of that type goes (AttributeError, swallowed, when there is none) *)
Fixpoint drop_first_typ (t : bytes) (l : list box) : list box :=
  match l with
  | [] => []
  | x :: r => if bytes_eqb (box_typ x) t then r else x :: drop_first_typ t r
  end.
(* parent.<type>.<...>: the edit applies to the children of the first child of that type *)
Fixpoint in_first_typ (t : bytes) (f : list box -> list box) (l : list box) : list box :=
  match l with
  | [] => []
  | Node t' cs :: r => if bytes_eqb t' t then Node t' (f cs) :: r else Node t' cs :: in_first_typ t f r
  | x :: r => if bytes_eqb (box_typ x) t then x :: r else x :: in_first_typ t f r
  end.
(* generate_init_segment: append the pssh boxes to moov; in live mode delete the mehd box - a direct child of moov
   (del atom.moov.mehd) and the one inside moov/mvex, where it normally lives (del atom.moov.mvex.mehd) *)
Definition rewrite_moov_children (live : bool) (psshs cs : list box) : list box :=
  if live then in_first_typ typ_mvex (drop_first_typ typ_mehd) (drop_first_typ typ_mehd (cs ++ psshs))
  else cs ++ psshs.
Definition rewrite_init (live : bool) (psshs : list box) (top : list box) : list box :=
  map (fun b => match b with
                | Node t cs => if bytes_eqb t typ_moov then Node t (rewrite_moov_children live psshs cs) else b
                | _ => b
                end) top.
