(* C17 - the management store as finite tables and the management operations as total functions:
   dashlive/server/models (Stream, MediaFile, Blob, Key, mediafile_keys, MultiPeriodStream, Period,
   AdaptationSet and their ORM cascade declarations) and the handlers of requesthandler/streams.py,
   media_management.py, keypairs.py, multi_period_streams.py.  Names are small integers here (the
   harness interns directory / file / key-id / mps names); primary keys of new rows are inputs (the
   database picks them) and must be fresh.  Definitions only.

   Cascades, as declared:  stream -> its media files -> their blob, key links;  stream -> the periods
   that play it -> their adaptation sets;  multi-period stream -> periods -> adaptation sets;
   key -> its links.  SQLite does not enforce foreign keys: consistency is whatever these functions keep. *)
From Verif Require Import Base.Tactics Base.ZList.

Record file := { f_pk : Z; f_name : Z; f_stream : Z; f_blob : Z }.
Record period := { p_pk : Z; p_mps : Z; p_pid : Z; p_stream : Z }.

Record store := {
  streams : list (Z * Z);          (* pk, directory *)
  files : list file;
  blobs : list (Z * Z);            (* pk, filename *)
  keys : list (Z * Z);             (* pk, key id *)
  links : list (Z * Z);            (* media file pk, key pk *)
  mpss : list (Z * Z);             (* pk, name *)
  periods : list period;
  asets : list (Z * Z)             (* pk, period pk *)
}.

Definition sempty : store :=
  {| streams := []; files := []; blobs := []; keys := []; links := []; mpss := []; periods := []; asets := [] |}.

Definition zmem (x : Z) (l : list Z) : bool := existsb (Z.eqb x) l.
Definition pks {A} (pk : A -> Z) (l : list A) : list Z := map pk l.

(* ---- deletions with their cascades *)
Definition drop_files (s : store) (gone : file -> bool) : store :=
  let dead := filter gone (files s) in
  {| streams := streams s;
     files := filter (fun f => negb (gone f)) (files s);
     blobs := filter (fun b => negb (zmem (fst b) (map f_blob dead))) (blobs s);
     keys := keys s;
     links := filter (fun l => negb (zmem (fst l) (map f_pk dead))) (links s);
     mpss := mpss s; periods := periods s; asets := asets s |}.

Definition drop_periods (s : store) (gone : period -> bool) : store :=
  let dead := filter gone (periods s) in
  {| streams := streams s; files := files s; blobs := blobs s; keys := keys s; links := links s; mpss := mpss s;
     periods := filter (fun p => negb (gone p)) (periods s);
     asets := filter (fun a => negb (zmem (snd a) (map p_pk dead))) (asets s) |}.

Definition set_streams (s : store) (l : list (Z * Z)) : store :=
  {| streams := l; files := files s; blobs := blobs s; keys := keys s; links := links s; mpss := mpss s;
     periods := periods s; asets := asets s |}.
Definition set_mpss (s : store) (l : list (Z * Z)) : store :=
  {| streams := streams s; files := files s; blobs := blobs s; keys := keys s; links := links s; mpss := l;
     periods := periods s; asets := asets s |}.

Definition delete_stream (s : store) (spk : Z) : store :=
  let s1 := drop_files s (fun f => f_stream f =? spk) in
  let s2 := drop_periods s1 (fun p => p_stream p =? spk) in
  set_streams s2 (filter (fun x => negb (fst x =? spk)) (streams s2)).

Definition delete_mps (s : store) (mpk : Z) : store :=
  let s1 := drop_periods s (fun p => p_mps p =? mpk) in
  set_mpss s1 (filter (fun x => negb (fst x =? mpk)) (mpss s1)).

Definition delete_key (s : store) (kpk : Z) : store :=
  {| streams := streams s; files := files s; blobs := blobs s;
     keys := filter (fun k => negb (fst k =? kpk)) (keys s);
     links := filter (fun l => negb (snd l =? kpk)) (links s);
     mpss := mpss s; periods := periods s; asets := asets s |}.

(* ---- operations *)
Inductive sop :=
  | OAddStream (spk dir : Z)                       (* an existing stream of that directory is deleted first *)
  | ODelStream (spk : Z)
  | OUpload (mfpk blobpk spk name : Z)             (* replaces a media file / blob of that name wherever it is *)
  | ODelFile (mfpk : Z)
  | OAddKey (kpk kid : Z)
  | ODelKey (kpk : Z)
  | OLink (mfpk kpk : Z)                           (* indexing records the keys an encrypted file uses *)
  | OAddMps (mpk name : Z)
  | ODelMps (mpk : Z)
  | OAddPeriod (ppk mpk pid spk : Z)
  | ODelPeriod (ppk : Z)
  | OAddAset (apk ppk : Z)
  | ORename (spk dir : Z)                          (* edit stream: the directory changes only while the stream has no media *)
  | ODelAset (apk : Z).                            (* edit multi-period stream: a track is dropped from a Period *)

Definition fresh (x : Z) (l : list Z) : bool := negb (zmem x l).

Definition sstep (s : store) (o : sop) : store :=
  match o with
  | OAddStream spk dir =>
      let s1 := match filter (fun x => snd x =? dir) (streams s) with
                | (old, _) :: _ => delete_stream s old
                | [] => s
                end in
      if fresh spk (map fst (streams s1)) then set_streams s1 ((spk, dir) :: streams s1) else s
  | ODelStream spk => delete_stream s spk
  | OUpload mfpk blobpk spk name =>
      if zmem spk (map fst (streams s)) then
        let s1 := drop_files s (fun f => f_name f =? name) in
        if fresh mfpk (map f_pk (files s1)) && fresh blobpk (map fst (blobs s1)) && fresh name (map snd (blobs s1)) then
          {| streams := streams s1;
             files := {| f_pk := mfpk; f_name := name; f_stream := spk; f_blob := blobpk |} :: files s1;
             blobs := (blobpk, name) :: blobs s1;
             keys := keys s1; links := links s1; mpss := mpss s1; periods := periods s1; asets := asets s1 |}
        else s
      else s
  | ODelFile mfpk => drop_files s (fun f => f_pk f =? mfpk)
  | OAddKey kpk kid =>
      if fresh kpk (map fst (keys s)) && fresh kid (map snd (keys s)) then
        {| streams := streams s; files := files s; blobs := blobs s; keys := (kpk, kid) :: keys s; links := links s;
           mpss := mpss s; periods := periods s; asets := asets s |}
      else s
  | ODelKey kpk => delete_key s kpk
  | OLink mfpk kpk =>
      if zmem mfpk (map f_pk (files s)) && zmem kpk (map fst (keys s)) then
        {| streams := streams s; files := files s; blobs := blobs s; keys := keys s; links := (mfpk, kpk) :: links s;
           mpss := mpss s; periods := periods s; asets := asets s |}
      else s
  | OAddMps mpk name =>
      if fresh mpk (map fst (mpss s)) && fresh name (map snd (mpss s)) then set_mpss s ((mpk, name) :: mpss s) else s
  | ODelMps mpk => delete_mps s mpk
  | OAddPeriod ppk mpk pid spk =>
      if zmem mpk (map fst (mpss s)) && zmem spk (map fst (streams s)) && fresh ppk (map p_pk (periods s)) then
        {| streams := streams s; files := files s; blobs := blobs s; keys := keys s; links := links s; mpss := mpss s;
           periods := {| p_pk := ppk; p_mps := mpk; p_pid := pid; p_stream := spk |} :: periods s; asets := asets s |}
      else s
  | ODelPeriod ppk => drop_periods s (fun p => p_pk p =? ppk)
  | OAddAset apk ppk =>
      if zmem ppk (map p_pk (periods s)) && fresh apk (map fst (asets s)) then
        {| streams := streams s; files := files s; blobs := blobs s; keys := keys s; links := links s; mpss := mpss s;
           periods := periods s; asets := (apk, ppk) :: asets s |}
      else s
  | ORename spk dir =>
      if existsb (fun f => f_stream f =? spk) (files s) || zmem dir (map snd (streams s)) then s
      else set_streams s (map (fun x => if fst x =? spk then (spk, dir) else x) (streams s))
  | ODelAset apk =>
      {| streams := streams s; files := files s; blobs := blobs s; keys := keys s; links := links s; mpss := mpss s;
         periods := periods s; asets := filter (fun a => negb (fst a =? apk)) (asets s) |}
  end.

Definition srun (ops : list sop) : store := fold_left sstep ops sempty.

(* ---- referential consistency *)
Definition refs {A} (fk : A -> Z) (children : list A) (parents : list Z) : Prop :=
  forall c, In c children -> In (fk c) parents.

Record SInv (s : store) : Prop := {
  i_file_stream : refs f_stream (files s) (map fst (streams s));
  i_file_blob : refs f_blob (files s) (map fst (blobs s));
  i_blob_owned : refs fst (blobs s) (map f_blob (files s));
  i_link_file : refs fst (links s) (map f_pk (files s));
  i_link_key : refs snd (links s) (map fst (keys s));
  i_period_mps : refs p_mps (periods s) (map fst (mpss s));
  i_period_stream : refs p_stream (periods s) (map fst (streams s));
  i_aset_period : refs snd (asets s) (map p_pk (periods s));
  i_stream_pk : NoDup (map fst (streams s));
  i_file_pk : NoDup (map f_pk (files s));
  i_blob_pk : NoDup (map fst (blobs s));
  i_blob_shared : NoDup (map f_blob (files s))
}.

(* boolean form, for the correspondence runs and examples *)
Definition refsb {A} (fk : A -> Z) (children : list A) (parents : list Z) : bool :=
  forallb (fun c => zmem (fk c) parents) children.
Fixpoint nodupb (l : list Z) : bool :=
  match l with [] => true | x :: r => negb (zmem x r) && nodupb r end.
Definition invb (s : store) : bool :=
  refsb f_stream (files s) (map fst (streams s)) && refsb f_blob (files s) (map fst (blobs s)) &&
  refsb fst (blobs s) (map f_blob (files s)) && refsb fst (links s) (map f_pk (files s)) &&
  refsb snd (links s) (map fst (keys s)) && refsb p_mps (periods s) (map fst (mpss s)) &&
  refsb p_stream (periods s) (map fst (streams s)) && refsb snd (asets s) (map p_pk (periods s)) &&
  nodupb (map fst (streams s)) && nodupb (map f_pk (files s)) && nodupb (map fst (blobs s)) && nodupb (map f_blob (files s)).

(* the pinned upstream behaviour: deleting a stream leaves the periods that play it *)
Definition delete_stream_pinned (s : store) (spk : Z) : store :=
  let s1 := drop_files s (fun f => f_stream f =? spk) in
  set_streams s1 (filter (fun x => negb (fst x =? spk)) (streams s1)).
