(* C16 - which option texts are rejected (ValueError -> HTTP 400): the from_string functions of
   dashlive/server/options/dash_option.py on ARBITRARY ASCII text, not only on the texts the
   manifest writes (that was C07).  Python's int(text, 10): surrounding whitespace, one optional
   sign, decimal digits with single underscores between digits.  Definitions only. *)
From Verif Require Import Base.Tactics Base.ZList Base.Str Model.OptionsModel.

(* ASCII characters int() skips around the number: \t \n \v \f \r and space (not FS GS RS US, which
   str.strip() would remove - measured on CPython 3.12 by the correspondence run) *)
Definition is_ws (c : Z) : bool := ((9 <=? c) && (c <=? 13)) || (c =? 32).

Fixpoint drop_ws (s : str) : str :=
  match s with
  | c :: r => if is_ws c then drop_ws r else s
  | [] => []
  end.
Definition strip (s : str) : str := rev (drop_ws (rev (drop_ws s))).

(* digits with single underscores strictly between digits; prev = "the previous character was a digit" *)
Fixpoint digits_us (s : str) (acc : Z) (prev : bool) : option Z :=
  match s with
  | [] => if prev then Some acc else None
  | c :: r => if is_digit c then digits_us r (dstep acc c) true
              else if (c =? 95) && prev then digits_us r acc false
              else None
  end.

Definition py_int (s : str) : option Z :=
  match strip s with
  | 43 :: r => digits_us r 0 false
  | 45 :: r => match digits_us r 0 false with Some n => Some (- n) | None => None end
  | t => digits_us t 0 false
  end.

(* from_string on arbitrary text; None = ValueError.  Kinds not listed (float, URL, datetime, DRM
   selection, error lists) are not modelled here: KOther. *)
Definition parse_any (k : kind) (s : str) : option value :=
  match k with
  | KIntOrNone => if str_eqb s [] || str_eqb s s_none then Some (VOptInt None)
                  else match py_int s with Some n => Some (VOptInt (Some n)) | None => None end
  | KIntDefault d => if str_eqb s [] || str_eqb s s_none then Some (VInt d)
                     else match py_int s with Some n => Some (VInt n) | None => None end
  | _ => parse k s
  end.

Definition never_rejects (k : kind) : bool :=
  match k with KBool | KStrOrNone | KStr | KList => true | _ => false end.
