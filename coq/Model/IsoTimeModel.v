(* C19 - model of dashlive/utils/date_time.py: toIsoDuration, from_isodatetime
   (durations and date-times), to_iso_datetime and the tick conversions.
   Durations and instants are integers of microseconds; text is a list of code points.
   Float arithmetic is modelled as exact rational arithmetic followed by the
   documented rounding (DESIGN section 4).  Definitions only. *)
From Verif Require Import Base.Tactics Base.ZList Base.Str.

Definition cP := 80. Definition cT := 84. Definition cH := 72. Definition cM := 77.
Definition cS := 83. Definition cY := 89. Definition cD := 68. Definition cDot := 46.
Definition cColon := 58. Definition cMinus := 45. Definition cPlus := 43. Definition cZ := 90.

(* ---------------- toIsoDuration ---------------- *)
(* ms = int((secs - floor(secs)) * 1000 + 0.5) is floor((f + 500) / 1000) for a fraction of
   f microseconds, except exactly on a tie (f mod 1000 = 500) where the float product may
   fall just below the integer: [tie_down] selects that outcome. *)
Definition ms_of (f : Z) (tie_down : bool) : Z :=
  let m := (f + 500) / 1000 in
  if tie_down && (f mod 1000 =? 500) then m - 1 else m.

Fixpoint strip0 (r : str) : str :=   (* on the reversed string: drop leading '0' *)
  match r with 48 :: t => strip0 t | _ => r end.
Definition frac_str (ms : Z) : str := rev (strip0 (rev (pad 3 ms))).

Definition fmt_hms (secs ms : Z) : str :=
  let hrs := secs / 3600 in
  let r := secs mod 3600 in
  let mins := r / 60 in
  let s := r mod 60 in
  [cP; cT]
  ++ (if hrs =? 0 then [] else dec hrs ++ [cH])
  ++ (if (hrs =? 0) && (mins =? 0) then [] else dec mins ++ [cM])
  ++ dec s
  ++ (if 0 <? ms then cDot :: frac_str ms else [])
  ++ [cS].

Definition fmt_duration (us : Z) (tie_down : bool) : str :=
  let ms := ms_of (us mod 1000000) tie_down in
  let secs := us / 1000000 in
  if ms >=? 1000 then fmt_hms (secs + 1) (ms - 1000) else fmt_hms secs ms.

(* the two fields the property bounds *)
Definition dur_fields (us : Z) (tie_down : bool) : Z * Z * Z :=   (* minutes, seconds, ms *)
  let ms := ms_of (us mod 1000000) tie_down in
  let secs := us / 1000000 in
  let '(secs, ms) := if ms >=? 1000 then (secs + 1, ms - 1000) else (secs, ms) in
  ((secs mod 3600) / 60, (secs mod 3600) mod 60, ms).

(* ---------------- from_isodatetime: durations ---------------- *)
Definition mem_z (c : Z) (l : list Z) : bool := existsb (Z.eqb c) l.

(* ((?P<x>\d+)[delims])? *)
Definition opt_field (delims : list Z) (s : str) : option Z * str :=
  let '(ds, r) := span is_digit s in
  match ds, r with
  | _ :: _, c :: r' => if mem_z c delims then (Some (dval ds), r') else (None, s)
  | _, _ => (None, s)
  end.

Definition is_digit_or_dot (c : Z) : bool := is_digit c || (c =? cDot).

(* float(text) for text in [\d.]+ , as (whole seconds, fraction in us, exact?) ;
   None = ValueError.  Fractions are exact up to 6 digits; beyond that the 7th.. digits
   are dropped and the result is flagged inexact (not compared). *)
Inductive secval := SecErr | SecVal (whole frac_us : Z) (exact : bool).
Definition frac_us (fr : str) : Z := dval (firstn 6 (fr ++ zeros 6)).
Definition parse_seconds (s : str) : secval :=
  let '(w, r) := span is_digit s in
  match r with
  | [] => match w with [] => SecErr | _ => SecVal (dval w) 0 true end
  | c :: r' =>
    if c =? cDot then
      let '(fr, rest) := span is_digit r' in
      match rest with
      | [] => match w, fr with
              | [], [] => SecErr
              | _, _ => SecVal (dval w) (frac_us fr) (Nat.leb (length fr) 6)
              end
      | _ => SecErr
      end
    else SecErr
  end.

Inductive pdur := DurNoMatch | DurFloatErr | DurVal (us : Z) (exact : bool).

Definition parse_duration (s : str) : pdur :=
  match s with
  | c :: s1 =>
    if negb (c =? cP) then DurNoMatch else
    let '(years, s2) := opt_field [cY] s1 in
    let '(months, s3) := opt_field [cM] s2 in
    let '(days, s4) := opt_field [cD] s3 in
    match s4 with
    | t :: s5 =>
      if negb (t =? cT) then DurNoMatch else
      let '(hours, s6) := opt_field [cH; cColon] s5 in
      let '(minutes, s7) := opt_field [cM; cColon] s6 in
      let '(sec_txt, s8) := span is_digit_or_dot s7 in
      let ok_end := match sec_txt, s8 with
                    | _, [] => true
                    | _ :: _, [c8] => c8 =? cS
                    | _, _ => false
                    end in
      if negb ok_end then DurNoMatch else
      let get o := match o with Some v => v | None => 0 end in
      let base := get years * (3600 * 24 * 365) + get months * (3600 * 24 * 30)
                  + get days * (3600 * 24) + get hours * 3600 + get minutes * 60 in
      match sec_txt with
      | [] => DurVal (base * 1000000) true
      | _ => match parse_seconds sec_txt with
             | SecErr => DurFloatErr
             | SecVal w f e => DurVal ((base + w) * 1000000 + f) e
             end
      end
    | [] => DurNoMatch
    end
  | [] => DurNoMatch
  end.

(* ---------------- date-times ---------------- *)
Record dt := { d_year : Z; d_month : Z; d_day : Z; d_hour : Z; d_min : Z; d_sec : Z;
               d_us : Z; d_off : option Z (* utcoffset in minutes; None = naive *) }.

Definition is_leap (y : Z) : bool :=
  ((y mod 4 =? 0) && negb (y mod 100 =? 0)) || (y mod 400 =? 0).
Definition days_in_month (y m : Z) : Z :=
  if m =? 2 then (if is_leap y then 29 else 28)
  else if (m =? 4) || (m =? 6) || (m =? 9) || (m =? 11) then 30 else 31.

(* the checks datetime.datetime(...) performs on its arguments *)
Definition valid_dt (d : dt) : bool :=
  (1 <=? d_year d) && (d_year d <=? 9999) && (1 <=? d_month d) && (d_month d <=? 12) &&
  (1 <=? d_day d) && (d_day d <=? days_in_month (d_year d) (d_month d)) &&
  (0 <=? d_hour d) && (d_hour d <=? 23) && (0 <=? d_min d) && (d_min d <=? 59) &&
  (0 <=? d_sec d) && (d_sec d <=? 59) && (0 <=? d_us d) && (d_us d <=? 999999).
(* tzinfo.utcoffset() must be strictly between -24h and 24h *)
Definition valid_off (d : dt) : bool :=
  match d_off d with None => true | Some o => (-1440 <? o) && (o <? 1440) end.

(* value.isoformat() + the 'Z' rules of to_iso_datetime *)
Definition fmt_offset (o : Z) : str :=
  let a := Z.abs o in
  (if o <? 0 then cMinus else cPlus) :: pad 2 (a / 60) ++ [cColon] ++ pad 2 (a mod 60).
Definition fmt_datetime (d : dt) : str :=
  pad 4 (d_year d) ++ [cMinus] ++ pad 2 (d_month d) ++ [cMinus] ++ pad 2 (d_day d) ++ [cT]
  ++ pad 2 (d_hour d) ++ [cColon] ++ pad 2 (d_min d) ++ [cColon] ++ pad 2 (d_sec d)
  ++ (if d_us d =? 0 then [] else cDot :: pad 6 (d_us d))
  ++ match d_off d with
     | None => [cZ]
     | Some o => if o =? 0 then [cZ] else fmt_offset o
     end.

Inductive pdt := DtNoMatch | DtErr | DtVal (d : dt) (exact : bool).

(* one \d+ group followed by the separator c *)
Definition digits_then (c : Z) (s : str) : option (Z * str) :=
  let '(ds, r) := span is_digit s in
  match ds, r with
  | _ :: _, x :: r' => if x =? c then Some (dval ds, r') else None
  | _, _ => None
  end.

(* (Z|([+-]\d+:\d+))?$  -> None = no match; Some None = absent; Some (Some o) *)
Definition parse_tz (s : str) : option (option Z) :=
  match s with
  | [] => Some None
  | c :: r =>
    if (c =? cZ) then (match r with [] => Some (Some 0) | _ => None end)
    else if (c =? cPlus) || (c =? cMinus) then
      match digits_then cColon r with
      | Some (hh, r2) =>
        let '(ms, r3) := span is_digit r2 in
        match ms, r3 with
        | _ :: _, [] => let o := hh * 60 + dval ms in
                        Some (Some (if c =? cMinus then - o else o))
        | _, _ => None
        end
      | None => None
      end
    else None
  end.

Definition parse_datetime (s : str) : pdt :=
  match digits_then cMinus s with
  | None => DtNoMatch
  | Some (y, s1) =>
  match digits_then cMinus s1 with
  | None => DtNoMatch
  | Some (mo, s2) =>
  match digits_then cT s2 with
  | None => DtNoMatch
  | Some (d, s3) =>
  match digits_then cColon s3 with
  | None => DtNoMatch
  | Some (h, s4) =>
  match digits_then cColon s4 with
  | None => DtNoMatch
  | Some (mi, s5) =>
    let '(sec_txt, s6) := span is_digit_or_dot s5 in
    match sec_txt with
    | [] => DtNoMatch
    | _ =>
      match parse_tz s6 with
      | None => DtNoMatch
      | Some off =>
        let has_dot := mem_z cDot sec_txt in
        match parse_seconds sec_txt with
        | SecErr => DtErr
        | SecVal w f e =>
          (* with '.', microsecond = min(999999, round(1e6*frac)); the model is exact
             for <= 6 fraction digits *)
          let r := {| d_year := y; d_month := mo; d_day := d; d_hour := h; d_min := mi;
                      d_sec := w; d_us := (if has_dot then f else 0); d_off := off |} in
          if valid_dt r then DtVal r e else DtErr
        end
      end
    end
  end end end end end.

(* ---------------- tick conversions ---------------- *)
Definition tc_to_us (tc ts : Z) : Z := tc * 1000000 / ts.          (* timecode_to_timedelta *)
Definition us_to_tc (us ts : Z) : Z :=                               (* timedelta_to_timecode *)
  let days := us / 86400000000 in
  let rem := us mod 86400000000 in
  let secs := rem / 1000000 in
  let micro := rem mod 1000000 in
  ts * days * 86400 + ts * secs + ts * micro / 1000000.
(* multiply_timedelta(delta, num): floor(num * delta) in seconds *)
Definition multiply_td (us num : Z) : Z :=
  let days := us / 86400000000 in
  let rem := us mod 86400000000 in
  num * (rem / 1000000) + num * days * 86400 + num * (rem mod 1000000) / 1000000.
