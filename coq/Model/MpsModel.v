(* C12 - multi-period presentations: ManifestContext.create_all_vod_periods /
   create_all_live_periods and ServeMpsMedia.calculate_media_segment_index.
   Period starts and durations are integer microseconds; a stored period is identified by its
   position in the definition.  Definitions only. *)
From Verif Require Import Base.Tactics Base.ZList Model.IsoTimeModel Model.SegModel.

(* a listed period: (position, loop count of its id suffix, start_us, duration_us) *)
Definition plisted := (Z * Z * Z * Z)%type.

Fixpoint vod_periods (ds : list Z) (k start : Z) : list plisted :=
  match ds with
  | [] => []
  | d :: rest => (k, 0, start, d) :: vod_periods rest (k + 1) (start + d)
  end.

(* the while start <= elapsed loop; [todo] = periods not yet visited in this pass *)
Fixpoint live_loop (fuel : nat) (all todo : list Z) (loop start fta elapsed : Z) : list plisted :=
  match fuel with
  | O => []
  | S f =>
      if elapsed <? start then []
      else match todo with
           | [] => []
           | d :: rest =>
               let k := zlen all - zlen todo in
               let here := if fta <=? start + d then [(k, loop, start, d)] else [] in
               here ++ match rest with
                       | [] => live_loop f all all (loop + 1) (start + d) fta elapsed
                       | _ => live_loop f all rest loop (start + d) fta elapsed
                       end
           end
  end.

Definition live_fuel (ds : list Z) (fta elapsed : Z) : nat :=
  let total := sumz ds in
  Z.to_nat (zlen ds * ((elapsed - total * (fta / total)) / total + 2) + 1).

Definition live_periods (ds : list Z) (fta elapsed : Z) : list plisted :=
  let total := sumz ds in
  let loops := fta / total in          (* int(fta.total_seconds() // duration.total_seconds()) *)
  live_loop (live_fuel ds fta elapsed) ds ds loops (total * loops) fta elapsed.

(* ServeMpsMedia.calculate_media_segment_index for $Number$ requests: period_start_us =
   Period.start (offset into the source), ref_ts = timescale of the stream's timing reference.
   -> Some (mod_segment, origin_time, baseMediaDecodeTime) | None (404) *)
Definition mps_start_tc (r : rep) (period_start_us ref_ts : Z) : Z :=
  let st := period_start_us * ref_ts / 1000000 in
  if r_ts r =? ref_ts then st else st * r_ts r / ref_ts.

Definition mps_number (r : rep) (period_start_us ref_ts N : Z) : option (Z * Z * Z) :=
  let '(m0, s0, _) := get_segment_index r (mps_start_tc r period_start_us ref_ts) in
  let m := m0 + (N - r_start_number r) in
  if N <? r_start_number r then None       (* numbers count from the first segment of the Period *)
  else if nseg r <? m then None
  else Some (m, - s0, r_start_time r + prefix r (m - 1) - s0).
