(* C14 - repeating in-band / manifest events (dashlive/server/events/repeating_event_base.py).
   All times are in the EVENT timescale unless stated.  Definitions only. *)
From Verif Require Import Base.Tactics Base.ZList.

Record sched := { e_start : Z; e_interval : Z; e_count : Z; e_timescale : Z; e_duration : Z;
                  e_version : Z; e_inband : bool }.

(* segment boundaries: representation ticks -> event ticks (floor) *)
Definition to_ev (s : sched) (x rts : Z) : Z := x * e_timescale s / rts.

(* the while loop of create_emsg_boxes; emits (event_id, presentation_time) *)
Fixpoint ev_loop (fuel : nat) (s : sched) (a b id pt : Z) : list (Z * Z) :=
  match fuel with
  | O => []
  | S f =>
      if pt <? b then
        if pt <? a then
          let id' := id + 1 in
          let pt' := pt + e_interval s in
          if (0 <? e_count s) && (e_count s <=? id') then [] else ev_loop f s a b id' pt'
        else
          (id, pt) ::
          (if (0 <? e_count s) && (e_count s <=? id + 1) then []
           else ev_loop f s a b (id + 1) (pt + e_interval s))
      else []
  end.

Definition ev_fuel (s : sched) (a b : Z) : nat := Z.to_nat ((b - a) / e_interval s + 3).

(* create_emsg_boxes for the segment [a, b) (event ticks) *)
Definition emsg (s : sched) (a b : Z) : list (Z * Z) :=
  if negb (e_inband s) then [] else
  let pt := e_start s in
  if b <=? pt then [] else
  if (0 <? e_count s) && (pt + e_count s * e_interval s <=? a) then [] else
  let id0 := if pt <? a then (a - pt) / e_interval s else 0 in
  ev_loop (ev_fuel s a b) s a b id0 (pt + id0 * e_interval s).

(* what an emsg box carries for an event: v0 delta from the segment start, v1 the instant *)
Definition emsg_time_field (s : sched) (a pt : Z) : Z := if e_version s =? 0 then pt - a else pt.

(* the event_id field of the emsg box (and splice_event_id of a SCTE-35 payload) is 32 bits wide: the running index wraps *)
Definition emsg_id_field (k : Z) : Z := k mod 2 ^ 32.

(* EventBase.check_parameters: the schedules the service accepts (anything else is answered 400) *)
Definition params_ok (s : sched) : bool :=
  (1 <=? e_interval s) && (1 <=? e_timescale s) && (0 <=? e_count s) && (0 <=? e_duration s) && (0 <=? e_start s)
  && ((e_version s =? 0) || (e_version s =? 1))
  && (e_timescale s <=? 4294967295) && (e_duration s <=? 4294967295)
  && (e_timescale s <=? e_interval s * 1000).

(* out-of-band: the manifest lists the first count schedule points *)
Definition manifest_events (s : sched) : list (Z * Z) :=
  if e_inband s then [] else
  if e_count s <=? 0 then [] else
  map (fun i => (Z.of_nat i, e_start s + Z.of_nat i * e_interval s)) (seq 0 (Z.to_nat (e_count s))).

(* ------------------------------------------------------------ the schedule (specification) *)
Definition zrange (lo hi : Z) : list Z := map (fun i => lo + Z.of_nat i) (seq 0 (Z.to_nat (hi - lo))).
(* number of schedule points strictly before x *)
Definition K (s : sched) (x : Z) : Z :=
  if x <=? e_start s then 0 else (x - e_start s + e_interval s - 1) / e_interval s.
Definition cap (s : sched) (k : Z) : Z := if 0 <? e_count s then Z.min k (e_count s) else k.
Definition ev_of (s : sched) (k : Z) : Z * Z := (k, e_start s + k * e_interval s).
(* exactly the scheduled events with a <= instant < b *)
Definition events_in (s : sched) (a b : Z) : list (Z * Z) :=
  map (ev_of s) (zrange (cap s (K s a)) (cap s (K s b))).

(* SCTE-35 payload fields of event k at instant pt (Scte35Events.create_binary_signal) *)
Definition scte35_pts (s : sched) (pt : Z) : Z := (pt * 90000 / e_timescale s) mod 2 ^ 33.
Definition scte35_break (s : sched) : Z := e_duration s * 90000 / e_timescale s.
