(* C08 - model of DashTiming.calculate_live_params (dashlive/mpeg/dash/timing.py).
   Instants are microseconds since the Unix epoch (UTC, no leap seconds, as Python's
   datetime), timedeltas are microseconds.  The civil calendar enters only through the
   day-of-month [dom] and day-of-year [doy] of [now] (inputs).  Definitions only. *)
From Verif Require Import Base.Tactics.

Definition SEC := 1000000.
Definition DAY := 86400000000.
Definition DEFAULT_DEPTH := 60.

Inductive start := SEpoch | SToday | SMonth | SYear | SNow | SExplicit (ast_us : Z).

Record opts := { o_start : start; o_depth : option Z; o_mup : option Z; o_leeway : option Z }.

Record live := { l_ast : Z; l_elapsed : Z; l_tsbd : Z; l_fta : Z; l_mup : option Z;
                 l_publish : Z; l_leeway : Z }.

(* now.replace(microsecond=0) *)
Definition floor_sec (t : Z) : Z := t - t mod SEC.
Definition day_start (t : Z) : Z := t - t mod DAY.

(* round(x) of the exact quotient 2*seg_dur/timescale, half to even *)
Definition round_half_even (n d : Z) : Z :=
  let q := n / d in let r := n mod d in
  if 2 * r <? d then q else if d <? 2 * r then q + 1 else (if Z.even q then q else q + 1).

Definition resolve_ast (now dom doy : Z) (s : start) : Z :=
  let pub0 := floor_sec now in
  match s with
  | SEpoch => 0
  | SToday =>
      let a := day_start now in
      (* publishTime.hour == 0 and publishTime.minute == 0 *)
      if pub0 - a <? 60 * SEC then a - DAY else a
  | SMonth =>
      let a := day_start now - (dom - 1) * DAY in
      if pub0 - a <? DAY then a - DAY else a
  | SYear =>
      let a := day_start now - (doy - 1) * DAY in
      if pub0 - a <? DAY then a - DAY else a
  | SNow => pub0 - DEFAULT_DEPTH * SEC
  | SExplicit a => a
  end.

Definition live_params (now dom doy seg_dur timescale : Z) (o : opts) : live :=
  let tsbd0 := match o_depth o with
               | None => DEFAULT_DEPTH
               | Some d => if (d =? 0) || (d <? 0) then DEFAULT_DEPTH else d
               end in
  let ast0 := resolve_ast now dom doy (o_start o) in
  let elapsed0 := now - ast0 in
  (* zero elapsed: move availabilityStartTime back one day *)
  let '(ast, elapsed) := if elapsed0 =? 0 then (ast0 - DAY, DAY) else (ast0, elapsed0) in
  (* elapsed.total_seconds() < depth  ->  depth = max(0, int(elapsed.total_seconds())) *)
  let tsbd := if elapsed <? tsbd0 * SEC then Z.max 0 (Z.quot elapsed SEC) else tsbd0 in
  let default_mup := Z.max 1 (round_half_even (2 * seg_dur) timescale) in
  let mup := match o_mup o with
             | None => Some default_mup
             | Some p => if p <=? 0 then None else Some p
             end in
  let fta := elapsed - tsbd * SEC in
  let leeway := match o_leeway o with Some l => l * SEC | None => 0 end in
  let publish := match mup with
                 | None => floor_sec now
                 | Some p =>
                     let n := elapsed / (p * SEC) in       (* int(total_seconds() // p) *)
                     floor_sec (ast + n * p * SEC)
                 end in
  {| l_ast := ast; l_elapsed := elapsed; l_tsbd := tsbd; l_fta := fta; l_mup := mup;
     l_publish := publish; l_leeway := leeway |}.

Definition symbolic (s : start) : bool :=
  match s with SExplicit _ => false | _ => true end.
