(* C16 - synthetic HTTP errors: dashlive/server/requesthandler/media_requests.py
   check_for_synthetic_http_error, manifest_requests.py check_for_synthetic_manifest_error and the
   per-session failure counter of requesthandler/base.py (increment_error_counter /
   reset_error_counter).  Definitions only.

   The session is a dictionary from the key "error-<usage>-<code>" to an integer; a missing key reads
   as 0 (session.get(key, 0)).  A request carries its own error list, failure count and position. *)
From Verif Require Import Base.Tactics Base.ZList.

Definition ekey := (Z * Z)%type.                        (* usage (0 manifest,1 video,2 audio,3 text), code *)
Definition sess := list (ekey * Z).                    (* newest binding first *)

Definition key_eqb (a b : ekey) : bool := (fst a =? fst b) && (snd a =? snd b).

Fixpoint sget (s : sess) (k : ekey) : Z :=
  match s with
  | [] => 0
  | (k', v) :: r => if key_eqb k' k then v else sget r k
  end.
Definition sset (s : sess) (k : ekey) (v : Z) : sess := (k, v) :: s.

(* one (code, position) entry of verr/aerr/terr/merr; the position test is a parameter: segment number
   equality for media, update count equality or a time window for manifests *)
Section Check.
  Context {P : Type}.
  Variable hit : P -> bool.
  Variable usage : Z.
  Variable fc : option Z.                              (* failures=<n>, None when absent *)

  Fixpoint inject (errs : list (Z * P)) (s : sess) : option Z * sess :=
    match errs with
    | [] => (None, s)
    | (code, pos) :: r =>
        if hit pos then
          match fc with
          | Some f =>
              if 500 <=? code then
                let v := sget s (usage, code) + 1 in
                let s1 := sset s (usage, code) v in
                if f <? v then inject r (sset s1 (usage, code) 0)       (* reset, try the next entry *)
                else (Some code, s1)
              else (Some code, s)
          | None => (Some code, s)
          end
        else inject r s
    end.
End Check.

(* ---- media requests: position = segment number *)
Definition media_check (usage : Z) (fc : option Z) (errs : list (Z * Z)) (seg : Z) (s : sess) :=
  inject (fun p => p =? seg) usage fc errs s.

(* a sequence of requests for segment numbers with the same option vector *)
Fixpoint media_run (usage : Z) (fc : option Z) (errs : list (Z * Z)) (segs : list Z) (s : sess) : list (option Z) :=
  match segs with
  | [] => []
  | g :: r => let '(o, s') := media_check usage fc errs g s in o :: media_run usage fc errs r s'
  end.

(* ---- manifest requests: position = update count, or a wall-clock window [tm, tm + mup] (seconds) *)
Inductive mpos := MNum (n : Z) | MTime (tm : Z).
Definition manifest_hit (upd : option Z) (now mup : Z) (p : mpos) : bool :=
  match p with
  | MNum n => match upd with Some u => n =? u | None => false end
  | MTime tm => (tm <=? now) && (now <=? tm + mup)
  end.
Definition manifest_check (fc : option Z) (errs : list (Z * mpos)) (upd : option Z) (now mup : Z) (s : sess) :=
  inject (manifest_hit upd now mup) 0 fc errs s.

(* ---- number of earlier requests of a sequence that addressed a position *)
Fixpoint count_hits (pos : Z) (segs : list Z) : Z :=
  match segs with
  | [] => 0
  | g :: r => (if g =? pos then 1 else 0) + count_hits pos r
  end.

(* ---- the segment a wall-clock position addresses (ManifestContext.calculate_injected_error_segments):
   delta seconds after availabilityStartTime, scaled to the representation; numbers count from start_number *)
Definition time_to_segment (start_number delta_s timescale seg_dur : Z) : Z :=
  start_number + (delta_s * timescale) / seg_dur.
