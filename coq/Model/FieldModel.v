(* C04 - typed box field codecs: the big-endian field layouts of the versioned / flag-dependent full boxes
   of dashlive/mpeg/mp4.py (mvhd, tkhd, mdhd, mehd, tfdt, mfhd, trex, tfhd, trun header + samples, saio,
   tenc, pssh), as data; one generic encoder / decoder over layouts.  Definitions only.

   A layout is a list of fields: an unsigned big-endian integer of w bytes, or w raw bytes (reserved
   areas, matrices, key ids).  The layout of a box body is a FUNCTION of its version, flags and counts,
   exactly as the parse methods branch on them. *)
From Verif Require Import Base.Tactics Base.ZList.

Definition bytes := list Z.
Inductive fld := FU (w : nat) | FB (n : nat).
Inductive fval := VU (z : Z) | VB (bs : bytes).

Fixpoint be (w : nat) (v : Z) : bytes :=
  match w with O => [] | S k => (v / 256 ^ Z.of_nat k) mod 256 :: be k v end.
Fixpoint rd (w : nat) (bs : bytes) (acc : Z) : option (Z * bytes) :=
  match w with
  | O => Some (acc, bs)
  | S k => match bs with b :: r => rd k r (acc * 256 + b) | [] => None end
  end.

Fixpoint enc_fields (l : list fld) (vs : list fval) : option bytes :=
  match l, vs with
  | [], [] => Some []
  | FU w :: l', VU z :: vs' => match enc_fields l' vs' with Some r => Some (be w z ++ r) | None => None end
  | FB n :: l', VB b :: vs' => if Nat.eqb (length b) n then
                                 match enc_fields l' vs' with Some r => Some (b ++ r) | None => None end
                               else None
  | _, _ => None
  end.

Fixpoint dec_fields (l : list fld) (bs : bytes) : option (list fval * bytes) :=
  match l with
  | [] => Some ([], bs)
  | FU w :: l' => match rd w bs 0 with
                  | Some (z, r) => match dec_fields l' r with Some (vs, rest) => Some (VU z :: vs, rest) | None => None end
                  | None => None
                  end
  | FB n :: l' => if Nat.leb n (length bs) then
                    match dec_fields l' (skipn n bs) with Some (vs, rest) => Some (VB (firstn n bs) :: vs, rest) | None => None end
                  else None
  end.

Definition val_ok (f : fld) (v : fval) : Prop :=
  match f, v with
  | FU w, VU z => 0 <= z < 256 ^ Z.of_nat w
  | FB n, VB b => length b = n
  | _, _ => False
  end.
Fixpoint vals_ok (l : list fld) (vs : list fval) : Prop :=
  match l, vs with
  | [], [] => True
  | f :: l', v :: vs' => val_ok f v /\ vals_ok l' vs'
  | _, _ => False
  end.

(* ---- layouts (after the 4-byte version+flags word, which is FU 1; FU 3 at the front) *)
Definition wide (version : Z) : nat := if version =? 1 then 8%nat else 4%nat.
Definition full (body : list fld) : list fld := FU 1 :: FU 3 :: body.

Definition l_mdhd (v : Z) : list fld := full [FU (wide v); FU (wide v); FU 4; FU (wide v); FU 2; FU 2].
Definition l_mvhd (v : Z) : list fld :=
  full [FU (wide v); FU (wide v); FU 4; FU (wide v); FU 4; FU 2; FB 10; FB 36; FB 24; FU 4].
Definition l_tkhd (v : Z) : list fld :=
  full [FU (wide v); FU (wide v); FU 4; FB 4; FU (wide v); FB 8; FU 2; FU 2; FU 2; FB 2; FB 36; FU 4; FU 4].
Definition l_mehd (v : Z) : list fld := full [FU (wide v)].
Definition l_tfdt (v : Z) : list fld := full [FU (wide v)].
Definition l_mfhd : list fld := full [FU 4].
Definition l_trex : list fld := full [FU 4; FU 4; FU 4; FU 4; FU 4].
Definition opt (flags bit : Z) (f : fld) : list fld := if Z.testbit flags (Z.log2 bit) then [f] else [].
Definition l_tfhd (flags : Z) : list fld :=
  full ([FU 4] ++ opt flags 1 (FU 8) ++ opt flags 2 (FU 4) ++ opt flags 8 (FU 4) ++ opt flags 16 (FU 4) ++ opt flags 32 (FU 4)).
Definition l_trun_sample (flags : Z) : list fld :=
  opt flags 256 (FU 4) ++ opt flags 512 (FU 4) ++ opt flags 1024 (FU 4) ++ opt flags 2048 (FU 4).
Fixpoint rep {A} (n : nat) (l : list A) : list A := match n with O => [] | S k => l ++ rep k l end.
Definition l_trun (flags : Z) (count : nat) : list fld :=
  full ([FU 4] ++ opt flags 1 (FU 4) ++ opt flags 4 (FU 4) ++ rep count (l_trun_sample flags)).
Definition l_saio (v flags : Z) (count : nat) : list fld :=
  full (opt flags 1 (FU 4) ++ opt flags 1 (FU 4) ++ [FU 4] ++ rep count [FU (wide v)]).
Definition l_tenc : list fld := full [FU 2; FU 1; FU 1; FB 16].
Definition l_pssh (v : Z) (kids datalen : nat) : list fld :=
  full ([FB 16] ++ (if v =? 0 then [] else FU 4 :: rep kids [FB 16]) ++ [FU 4; FB datalen]).

Definition l_sidx (v : Z) (count : nat) : list fld :=
  full ([FU 4; FU 4; FU (wide v); FU (wide v); FU 2; FU 2] ++ rep count [FU 4; FU 4; FU 4]).
(* saiz: per-sample sizes follow only when default_sample_info_size = 0 (the runner passes that many) *)
Definition l_saiz (flags : Z) (listed : nat) : list fld :=
  full (opt flags 1 (FU 4) ++ opt flags 1 (FU 4) ++ [FU 1; FU 4] ++ rep listed [FU 1]).

(* box type codes used by the runner: 0 mdhd 1 mvhd 2 tkhd 3 mehd 4 tfdt 5 mfhd 6 trex 7 tfhd 8 trun 9 saio 10 tenc 11 pssh 12 sidx 13 saiz 14 btrt 15 pasp 16 frma 17 schm 18 senc 19 emsg 20 hdlr 21 ftyp/styp *)
(* sample-entry children and protection boxes *)
Definition l_btrt : list fld := [FU 4; FU 4; FU 4].
Definition l_pasp : list fld := [FU 4; FU 4].
Definition l_frma : list fld := [FB 4].
(* schm: scheme_type, scheme_version, and with flags&1 a NUL-terminated URI of urilen bytes (terminator included) *)
Definition l_schm (flags : Z) (urilen : nat) : list fld := full ([FB 4; FU 4] ++ opt flags 1 (FB urilen)).
(* senc: with flags&1 the PIFF override (algorithm id 3 bytes, iv size, key id); sample count; per sample the IV and,
   with flags&2, a 16-bit subsample count and that many (clear u16, encrypted u32) pairs.  A sample whose saiz size
   leaves no room for the count (size < iv + 2) has no count field: the harness passes None for it as the library
   reads the saiz sizes; here that is the entry  None  of the count list *)
Fixpoint l_senc_samples (flags : Z) (iv : nat) (counts : list (option nat)) : list fld :=
  match counts with
  | [] => []
  | c :: r => (FB iv :: (if Z.testbit flags 1 then
                           match c with Some k => FU 2 :: rep k [FU 2; FU 4] | None => [] end
                         else [])) ++ l_senc_samples flags iv r
  end.
Definition l_senc (flags : Z) (iv : nat) (counts : list (option nat)) : list fld :=
  full (opt flags 1 (FB 3) ++ opt flags 1 (FU 1) ++ opt flags 1 (FB 16) ++ [FU 4] ++ l_senc_samples flags iv counts).

(* ---- strings and brand lists.  'S0' fields are NUL-terminated: cstr_len is the length INCLUDING the terminator,
   found from the bytes themselves (None: no terminator before the end of the data) *)
Fixpoint cstr_len (bs : bytes) : option nat :=
  match bs with
  | [] => None
  | b :: r => if b =? 0 then Some 1%nat else match cstr_len r with Some n => Some (S n) | None => None end
  end.
(* hdlr: pre_defined, handler type, 12 reserved bytes, the name up to the end of the box *)
Definition l_hdlr (namelen : nat) : list fld := full [FU 4; FB 4; FB 12; FB namelen].
(* ftyp / styp (not full boxes): major brand, minor version, compatible brands *)
Definition l_ftyp (brands : nat) : list fld := [FB 4; FU 4] ++ rep brands [FB 4].
(* emsg: version 0 puts the two strings first and a 32-bit presentation time DELTA; version 1 puts them last and has a
   64-bit presentation TIME; any other version has only message data *)
Definition l_emsg (v : Z) (uri value data : nat) : list fld :=
  full (if v =? 0 then [FB uri; FB value; FU 4; FU 4; FU 4; FU 4; FB data]
        else if v =? 1 then [FU 4; FU 8; FU 4; FU 4; FB uri; FB value; FB data]
        else [FB data]).
(* the layout of an emsg payload found from its own bytes: where the strings end decides where the numbers / data start *)
Definition emsg_layout (payload : bytes) : option (list fld) :=
  match payload with
  | [] => None
  | v :: _ =>
      if (v =? 0) || (v =? 1) then
        let strs := if v =? 0 then skipn 4 payload else skipn 24 payload in
        match cstr_len strs with
        | Some u => match cstr_len (skipn u strs) with
                    | Some w => Some (l_emsg v u w (length payload - (if v =? 0 then 20 else 24) - u - w))
                    | None => None
                    end
        | None => None
        end
      else Some (l_emsg v 0 0 (length payload - 4))
  end%bool.

Definition layout_of (t version flags : Z) (n1 n2 : nat) : list fld :=
  if t =? 0 then l_mdhd version else if t =? 1 then l_mvhd version else if t =? 2 then l_tkhd version
  else if t =? 3 then l_mehd version else if t =? 4 then l_tfdt version else if t =? 5 then l_mfhd
  else if t =? 6 then l_trex else if t =? 7 then l_tfhd flags else if t =? 8 then l_trun flags n1
  else if t =? 9 then l_saio version flags n1 else if t =? 10 then l_tenc else if t =? 12 then l_sidx version n1
  else if t =? 13 then l_saiz flags n1 else if t =? 14 then l_btrt else if t =? 15 then l_pasp else if t =? 16 then l_frma
  else if t =? 17 then l_schm flags n1 else if t =? 20 then l_hdlr n1 else if t =? 21 then l_ftyp n1
  else l_pssh version n1 n2.
