(* C15 - who may call a state-changing route (decorators.py, User.has_permission) and the
   CSRF token protocol (csrf.py).  Definitions only. *)
From Verif Require Import Base.Tactics.
From Coq Require Import String.

Inductive role := Anon | User | Media | Admin.
Inductive perm := PNone | PUser | PMedia | PAdmin | PUnknown.
Inductive guard :=
  | GLogin (admin : bool) (p : perm)        (* login_required(admin=, permission=) *)
  | GJwtLogin (admin : bool) (p : perm)     (* jwt_login_required(admin=, permission=) *)
  | GJwt (optional : bool)                  (* flask_jwt_extended.jwt_required(optional=) *)
  | GCsrf (optional : bool)                 (* csrf_token_required: any client can harvest a token *)
  | GNeutral                                (* uses_stream & co: fetch a row, no authorisation *)
  | GUnknown.                               (* not recognised by the translator: assumed to let everybody in *)
Inductive required := RAnon | RUser | RMedia | RAdmin | RUnknown.

Record row := { rw_endpoint : string; rw_method : string; rw_class : string; rw_guards : list guard;
                rw_mutates : bool; rw_required : required }.

(* User.has_permission: the group bit, or admin *)
Definition has_perm (r : role) (p : perm) : bool :=
  match p with
  | PNone => true
  | PUser => match r with Anon => false | _ => true end
  | PMedia => match r with Media | Admin => true | _ => false end
  | PAdmin => match r with Admin => true | _ => false end
  | PUnknown => true
  end.
Definition authenticated (r : role) : bool := match r with Anon => false | _ => true end.
Definition is_admin (r : role) : bool := match r with Admin => true | _ => false end.

(* an anonymous client obtains a JWT for the built-in guest account from /api/refresh/access,
   so jwt_required alone lets every role through; jwt_login_required refuses the guest token *)
Definition passes (r : role) (g : guard) : bool :=
  match g with
  | GLogin admin p | GJwtLogin admin p => authenticated r && (negb admin || is_admin r) && has_perm r p
  | GJwt optional => true
  | GCsrf _ => true
  | GNeutral => true
  | GUnknown => true
  end.
Definition allowed (r : role) (gs : list guard) : bool := forallb (passes r) gs.

Definition role_ge (r : role) (q : required) : bool :=
  match q with
  | RAnon => true
  | RUser => authenticated r
  | RMedia => match r with Media | Admin => true | _ => false end
  | RAdmin => is_admin r
  | RUnknown => false
  end.

Definition all_roles : list role := [Anon; User; Media; Admin].
(* no state-changing row is reachable below its role *)
Definition row_ok (w : row) : bool :=
  forallb (fun r => implb (rw_mutates w && allowed r (rw_guards w)) (role_ge r (rw_required w))) all_roles.

(* ---------------------------------------------------------------- CSRF *)
Definition str := list Z.
Section Csrf.
Variable mac : str -> str.          (* base64(HMAC-SHA1(secret, message)) *)
Definition SALT_LEN : nat := 8.

(* CsrfProtection.generate_token *)
Definition issue (cookie service salt : str) : str := salt ++ mac (cookie ++ service ++ salt).

Fixpoint mem_str (x : str) (l : list str) : bool :=
  match l with [] => false | y :: r => (if list_eq_dec Z.eq_dec x y then true else false) || mem_str x r end.

(* CsrfProtection.check: state = tokens recorded so far.  -> (new state, accepted) *)
Definition check (used : list str) (cookie : option str) (service token : str) : list str * bool :=
  match cookie with
  | None | Some [] => (used, false)
  | Some c =>
      if mem_str token used then (used, false)
      else
        let used' := token :: used in               (* recorded BEFORE the signature is verified *)
        let salt := firstn SALT_LEN token in
        let sig := skipn SALT_LEN token in
        (used', if list_eq_dec Z.eq_dec sig (mac (c ++ service ++ salt)) then true else false)
  end.

(* a run of check calls; returns the accepted (cookie, service, token) triples in order *)
Fixpoint run_checks (used : list str) (calls : list (option str * str * str)) : list (str * str * str) :=
  match calls with
  | [] => []
  | (c, s, t) :: rest =>
      let '(used', ok) := check used c s t in
      (if ok then match c with Some c' => [(c', s, t)] | None => [] end else []) ++ run_checks used' rest
  end.
End Csrf.

(* no service name is a proper suffix of another (so cookie ++ service splits uniquely) *)
Fixpoint is_suffix (a b : str) : bool :=      (* a is a suffix of b *)
  (if list_eq_dec Z.eq_dec a b then true else false) ||
  match b with [] => false | _ :: b' => is_suffix a b' end.
Definition suffix_free (l : list str) : bool :=
  forallb (fun a => forallb (fun b => (if list_eq_dec Z.eq_dec a b then true else false) || negb (is_suffix a b)) l) l.
