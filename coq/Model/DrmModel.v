(* C11 - DRM key and licence data: dashlive/drm/playready.py (hex_to_le_guid, generate_content_key,
   generate_pro / parse_pro), the ClearKey licence handler (base64url, key lookup).
   SHA-256 is a Section variable (only its output length is assumed).  Definitions only. *)
From Verif Require Import Base.Tactics Base.ZList.

Definition bytes := list Z.

(* ------------------------------------------------------------ GUID byte order *)
(* PlayReady.hex_to_le_guid(raw=True): first three fields byte-swapped, the rest kept *)
Definition le_guid (g : bytes) : bytes :=
  match g with
  | [a0; a1; a2; a3; b0; b1; c0; c1; d0; d1; d2; d3; d4; d5; d6; d7] =>
      [a3; a2; a1; a0; b1; b0; c1; c0; d0; d1; d2; d3; d4; d5; d6; d7]
  | _ => []                     (* ValueError: GUID should be 16 bytes *)
  end.

(* RFC 4122 bytes_le, stated field by field: time_low (4 bytes), time_mid (2), time_hi_version
   (2) little-endian, then clock_seq and node in network order *)
Definition rfc4122_bytes_le (g : bytes) : bytes :=
  rev (ztake 4 g) ++ rev (ztake 2 (zdrop 4 g)) ++ rev (ztake 2 (zdrop 6 g)) ++ zdrop 8 g.

(* ------------------------------------------------------------ key seed *)
Fixpoint xor_bytes (a b : bytes) : bytes :=
  match a, b with
  | x :: a', y :: b' => Z.lxor x y :: xor_bytes a' b'
  | _, _ => []
  end.
Section KeySeed.
Variable sha256 : bytes -> bytes.
(* PlayReady.generate_content_key *)
Definition content_key (seed kid : bytes) : bytes :=
  let s := ztake 30 seed in
  let k := le_guid kid in
  let a := sha256 (s ++ k) in
  let b := sha256 (s ++ k ++ s) in
  let c := sha256 (s ++ k ++ s ++ k) in
  let half x := xor_bytes (ztake 16 x) (zdrop 16 x) in
  xor_bytes (xor_bytes (half a) (half b)) (half c).
End KeySeed.

(* ------------------------------------------------------------ PlayReady Object framing *)
Definition le16 (v : Z) : bytes := [v mod 256; v / 256 mod 256].
Definition le32 (v : Z) : bytes := [v mod 256; v / 256 mod 256; v / 65536 mod 256; v / 16777216 mod 256].
Definition rd_le16 (bs : bytes) : option (Z * bytes) :=
  match bs with a :: b :: r => Some (a + 256 * b, r) | _ => None end.
Definition rd_le32 (bs : bytes) : option (Z * bytes) :=
  match bs with a :: b :: c :: d :: r => Some (a + 256 * b + 65536 * c + 16777216 * d, r) | _ => None end.

(* generate_pro: one record of type 1 holding the WRMHEADER *)
Definition generate_pro (wrm : bytes) : bytes :=
  let record := le16 1 ++ le16 (zlen wrm) ++ wrm in
  le32 (zlen record + 6) ++ le16 1 ++ record.

(* parse_pro -> list of (record_type, length, header bytes) *)
Fixpoint parse_records (n : nat) (bs : bytes) : option (list (Z * Z * bytes)) :=
  match n with
  | O => Some []
  | S k =>
      match rd_le16 bs with
      | None => None
      | Some (rt, r1) =>
          match rd_le16 r1 with
          | None => None
          | Some (rl, r2) =>
              if rt =? 1 then
                if zlen r2 <? rl then None
                else match parse_records k (zdrop rl r2) with
                     | Some l => Some ((rt, rl, ztake rl r2) :: l)
                     | None => None
                     end
              else match parse_records k r2 with
                   | Some l => Some ((rt, rl, []) :: l)
                   | None => None
                   end
          end
      end
  end.
Definition parse_pro (bs : bytes) : option (list (Z * Z * bytes)) :=
  match rd_le32 bs with
  | None => None
  | Some (_, r) => match rd_le16 r with
                   | None => None
                   | Some (count, r') => parse_records (Z.to_nat count) r'
                   end
  end.

(* ------------------------------------------------------------ base64url, unpadded *)
(* sextets: 3 bytes -> 4 values below 64 *)
Fixpoint to_sextets (bs : bytes) : list Z :=
  match bs with
  | a :: b :: c :: r => (a / 4) :: ((a mod 4) * 16 + b / 16) :: ((b mod 16) * 4 + c / 64) :: (c mod 64) :: to_sextets r
  | [a; b] => [a / 4; (a mod 4) * 16 + b / 16; (b mod 16) * 4]
  | [a] => [a / 4; (a mod 4) * 16]
  | [] => []
  end.
Fixpoint of_sextets (ss : list Z) : bytes :=
  match ss with
  | w :: x :: y :: z :: r => (w * 4 + x / 16) :: ((x mod 16) * 16 + y / 4) :: ((y mod 4) * 64 + z) :: of_sextets r
  | [w; x; y] => [w * 4 + x / 16; (x mod 16) * 16 + y / 4]
  | [w; x] => [w * 4 + x / 16]
  | _ => []
  end.
(* the URL-safe alphabet A-Z a-z 0-9 - _ *)
Definition b64_char (s : Z) : Z :=
  if s <? 26 then 65 + s else if s <? 52 then 97 + (s - 26) else if s <? 62 then 48 + (s - 52)
  else if s =? 62 then 45 else 95.
Definition b64_val (c : Z) : option Z :=
  if (65 <=? c) && (c <=? 90) then Some (c - 65)
  else if (97 <=? c) && (c <=? 122) then Some (c - 97 + 26)
  else if (48 <=? c) && (c <=? 57) then Some (c - 48 + 52)
  else if c =? 45 then Some 62 else if c =? 95 then Some 63
  else if c =? 43 then Some 62 else if c =? 47 then Some 63      (* the decoder also accepts the standard alphabet *)
  else None.
Definition b64url_encode (bs : bytes) : list Z := map b64_char (to_sextets bs).
Fixpoint vals (cs : list Z) : option (list Z) :=
  match cs with
  | [] => Some []
  | c :: r => match b64_val c, vals r with Some v, Some l => Some (v :: l) | _, _ => None end
  end.
Definition b64url_decode (cs : list Z) : option bytes :=
  match vals cs with Some ss => Some (of_sextets ss) | None => None end.

(* ------------------------------------------------------------ ClearKey licence response *)
(* the store maps key ids to keys; the response lists each requested known id once *)
Fixpoint lookup (store : list (bytes * bytes)) (kid : bytes) : option bytes :=
  match store with
  | [] => None
  | (k, v) :: r => if list_eq_dec Z.eq_dec k kid then Some v else lookup r kid
  end.
Fixpoint mem (x : bytes) (l : list bytes) : bool :=
  match l with [] => false | y :: r => (if list_eq_dec Z.eq_dec x y then true else false) || mem x r end.
Fixpoint dedup (l : list bytes) : list bytes :=
  match l with [] => [] | x :: r => if mem x r then dedup r else x :: dedup r end.
Definition clearkey_response (store : list (bytes * bytes)) (req : list bytes) : list (bytes * bytes) :=
  flat_map (fun kid => match lookup store kid with Some k => [(kid, k)] | None => [] end) (dedup req).
