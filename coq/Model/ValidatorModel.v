(* C18 - the decision predicates of the bundled DASH validator for one media segment, as boolean
   functions of already-parsed facts: dashlive/mpeg/dash/validator/media_segment.py
   (validate_segment / parse_data / check_saio_offset), with the tolerances of representation.py.
   The traversal (which segments are generated, fetching, XML loading) is not modelled.  Definitions only. *)
From Verif Require Import Base.Tactics Base.ZList.

Record segfacts := {
  g_status : Z;                      (* HTTP status of the segment response *)
  g_has_moof : bool; g_has_mdat : bool;
  g_first_sample : Z;                (* tfhd.base_data_offset + trun.data_offset *)
  g_payload_start : Z;               (* mdat.position + header *)
  g_last_sample_end : Z;             (* first sample + sum of sample sizes *)
  g_mdat_end : Z;
  g_encrypted : bool;                (* the representation is encrypted *)
  g_has_senc : bool; g_has_saio : bool; g_saio_entries : Z;
  g_saio_target : Z;                 (* saio.offsets[0] + base *)
  g_senc_first : Z;                  (* position of the first CencSampleAuxiliaryData entry *)
  g_trun_n : Z; g_senc_n : Z;
  g_seq : Z; g_expected_seq : option Z;
  g_decode : Z; g_expected_decode : option Z; g_tolerance : Z;
  g_duration : Z; g_expected_duration : option Z; g_timescale : Z
}.

Inductive vkind := EStatus | EMoof | EMdat | ETrunOffset | ETrunEnd | ESencMissing | ESaioMissing | ESaioCount | ESaioOffset
                | ESencCount | ESencInClear | ESeq | EDecode | EDuration.

Definition within (a b delta : Z) : bool := Z.abs (a - b) <=? delta.

(* the errors the validator records for a segment, in the order it finds them; an error that makes
   it stop (status, missing boxes) hides the later ones *)
Definition seg_errors (f : segfacts) : list vkind :=
  if negb (g_status f =? 200) then [EStatus]
  else if negb (g_has_moof f) then [EMoof]
  else if negb (g_has_mdat f) then [EMdat]
  else
    (if g_first_sample f =? g_payload_start f then [] else [ETrunOffset]) ++
    (if g_last_sample_end f <=? g_mdat_end f then [] else [ETrunEnd]) ++
    (if g_encrypted f then
       (if negb (g_has_senc f) then [ESencMissing]
        else (if g_has_saio f then [] else [ESaioMissing]) ++
             (if g_has_saio f then
                (if g_saio_entries f =? 1 then [] else [ESaioCount]) ++
                (if g_senc_first f =? g_saio_target f then [] else [ESaioOffset])
              else []) ++
             (if g_trun_n f =? g_senc_n f then [] else [ESencCount]))
     else (if g_has_senc f then [ESencInClear] else [])) ++
    (match g_expected_seq f with Some e => if e =? g_seq f then [] else [ESeq] | None => [] end) ++
    (match g_expected_decode f with Some e => if within e (g_decode f) (g_tolerance f) then [] else [EDecode] | None => [] end) ++
    (match g_expected_duration f with Some e => if within e (g_duration f) (g_timescale f) then [] else [EDuration] | None => [] end).

Definition seg_ok (f : segfacts) : bool := match seg_errors f with [] => true | _ => false end.

(* what the server guarantees for a segment it generated (C03: offsets; C02/C06: numbering, decode time,
   duration), stated on the same facts *)
Definition server_made (f : segfacts) : Prop :=
  g_status f = 200 /\ g_has_moof f = true /\ g_has_mdat f = true /\
  g_first_sample f = g_payload_start f /\ g_last_sample_end f <= g_mdat_end f /\
  (g_encrypted f = true -> g_has_senc f = true /\ g_has_saio f = true /\ g_saio_entries f = 1 /\
                           g_senc_first f = g_saio_target f /\ g_trun_n f = g_senc_n f) /\
  (g_encrypted f = false -> g_has_senc f = false) /\
  (forall e, g_expected_seq f = Some e -> e = g_seq f) /\
  (forall e, g_expected_decode f = Some e -> e = g_decode f) /\
  (forall e, g_expected_duration f = Some e -> e = g_duration f) /\
  0 <= g_tolerance f /\ 0 <= g_timescale f.

(* the corruption catalogue, as edits of the facts *)
Definition set_seq (f : segfacts) (v : Z) : segfacts :=
  {| g_status := g_status f; g_has_moof := g_has_moof f; g_has_mdat := g_has_mdat f; g_first_sample := g_first_sample f;
     g_payload_start := g_payload_start f; g_last_sample_end := g_last_sample_end f; g_mdat_end := g_mdat_end f;
     g_encrypted := g_encrypted f; g_has_senc := g_has_senc f; g_has_saio := g_has_saio f; g_saio_entries := g_saio_entries f;
     g_saio_target := g_saio_target f; g_senc_first := g_senc_first f; g_trun_n := g_trun_n f; g_senc_n := g_senc_n f;
     g_seq := v; g_expected_seq := g_expected_seq f; g_decode := g_decode f; g_expected_decode := g_expected_decode f;
     g_tolerance := g_tolerance f; g_duration := g_duration f; g_expected_duration := g_expected_duration f; g_timescale := g_timescale f |}.
Definition set_decode (f : segfacts) (v : Z) : segfacts :=
  {| g_status := g_status f; g_has_moof := g_has_moof f; g_has_mdat := g_has_mdat f; g_first_sample := g_first_sample f;
     g_payload_start := g_payload_start f; g_last_sample_end := g_last_sample_end f; g_mdat_end := g_mdat_end f;
     g_encrypted := g_encrypted f; g_has_senc := g_has_senc f; g_has_saio := g_has_saio f; g_saio_entries := g_saio_entries f;
     g_saio_target := g_saio_target f; g_senc_first := g_senc_first f; g_trun_n := g_trun_n f; g_senc_n := g_senc_n f;
     g_seq := g_seq f; g_expected_seq := g_expected_seq f; g_decode := v; g_expected_decode := g_expected_decode f;
     g_tolerance := g_tolerance f; g_duration := g_duration f; g_expected_duration := g_expected_duration f; g_timescale := g_timescale f |}.
Definition shift_trun (f : segfacts) (d : Z) : segfacts :=
  {| g_status := g_status f; g_has_moof := g_has_moof f; g_has_mdat := g_has_mdat f; g_first_sample := g_first_sample f + d;
     g_payload_start := g_payload_start f; g_last_sample_end := g_last_sample_end f + d; g_mdat_end := g_mdat_end f;
     g_encrypted := g_encrypted f; g_has_senc := g_has_senc f; g_has_saio := g_has_saio f; g_saio_entries := g_saio_entries f;
     g_saio_target := g_saio_target f; g_senc_first := g_senc_first f; g_trun_n := g_trun_n f; g_senc_n := g_senc_n f;
     g_seq := g_seq f; g_expected_seq := g_expected_seq f; g_decode := g_decode f; g_expected_decode := g_expected_decode f;
     g_tolerance := g_tolerance f; g_duration := g_duration f; g_expected_duration := g_expected_duration f; g_timescale := g_timescale f |}.
Definition shift_saio (f : segfacts) (d : Z) : segfacts :=
  {| g_status := g_status f; g_has_moof := g_has_moof f; g_has_mdat := g_has_mdat f; g_first_sample := g_first_sample f;
     g_payload_start := g_payload_start f; g_last_sample_end := g_last_sample_end f; g_mdat_end := g_mdat_end f;
     g_encrypted := g_encrypted f; g_has_senc := g_has_senc f; g_has_saio := g_has_saio f; g_saio_entries := g_saio_entries f;
     g_saio_target := g_saio_target f + d; g_senc_first := g_senc_first f; g_trun_n := g_trun_n f; g_senc_n := g_senc_n f;
     g_seq := g_seq f; g_expected_seq := g_expected_seq f; g_decode := g_decode f; g_expected_decode := g_expected_decode f;
     g_tolerance := g_tolerance f; g_duration := g_duration f; g_expected_duration := g_expected_duration f; g_timescale := g_timescale f |}.

(* SegmentTimeline: entries (t?, d, r) expand to (start, duration) pairs; a timeline has no gap when every
   explicit t equals the running position *)
Definition upto (n : Z) : list Z := map Z.of_nat (seq 0 (Z.to_nat n)).
Fixpoint expand_tl (tl : list (option Z * Z * Z)) (pos : Z) : list (Z * Z) :=
  match tl with
  | [] => []
  | (t, d, r) :: rest =>
      let start := match t with Some v => v | None => pos end in
      map (fun k => (start + k * d, d)) (upto (r + 1)) ++ expand_tl rest (start + (r + 1) * d)
  end.
Fixpoint contiguous (segs : list (Z * Z)) : bool :=
  match segs with
  | (s1, d1) :: (((s2, _) :: _) as r) => (s1 + d1 =? s2) && contiguous r
  | _ => true
  end.

(* ---- manifest level: Manifest.validate_self and the cross-refresh check of DashValidator.validate *)
Record mfacts := {
  m_live : bool;                     (* the mode the validator was started in *)
  m_dynamic : bool;                  (* MPD@type = "dynamic" *)
  m_periods : Z;
  m_has_minbuf : bool; m_has_ast : bool; m_has_tsbd : bool; m_has_mup : bool;
  m_mpd : option Z;                  (* mediaPresentationDuration, microseconds *)
  m_period_durations : bool;         (* every Period has @duration *)
  m_patches : Z;
  m_prev_ast : option Z; m_ast : option Z      (* availabilityStartTime of the previous / this manifest (refresh) *)
}.
Inductive mkind := MNoPeriod | MMinBuf | MType | MAst | MTsbd | MMpdInLive | MMpdInvalid | MPeriodDur | MMupInVod | MAstInVod | MPatchInVod
                 | MAstChanged.

Definition manifest_errors (f : mfacts) : list mkind :=
  (if 0 <? m_periods f then [] else [MNoPeriod]) ++
  (if m_has_minbuf f then [] else [MMinBuf]) ++
  (if m_live f then
     (if m_dynamic f then [] else [MType]) ++ (if m_has_ast f then [] else [MAst]) ++ (if m_has_tsbd f then [] else [MTsbd]) ++
     (match m_mpd f with Some _ => [MMpdInLive] | None => [] end)
   else
     (if m_dynamic f then [MType] else []) ++
     (match m_mpd f with Some d => if 0 <? d then [] else [MMpdInvalid] | None => if m_period_durations f then [] else [MPeriodDur] end) ++
     (if m_has_mup f then [MMupInVod] else []) ++ (if m_has_ast f then [MAstInVod] else []) ++
     (if 0 <? m_patches f then [MPatchInVod] else [])) ++
  (if m_live f then match m_prev_ast f, m_ast f with
                    | Some a, Some b => if a =? b then [] else [MAstChanged]
                    | Some _, None => [MAstChanged]
                    | _, _ => []
                    end else []).

(* what the server's manifests look like, on the same facts *)
Definition server_manifest (f : mfacts) : Prop :=
  0 < m_periods f /\ m_has_minbuf f = true /\
  (m_live f = true -> m_dynamic f = true /\ m_has_ast f = true /\ m_has_tsbd f = true /\ m_mpd f = None /\
                      (forall a, m_prev_ast f = Some a -> m_ast f = Some a)) /\
  (m_live f = false -> m_dynamic f = false /\ (exists d, m_mpd f = Some d /\ 0 < d) /\ m_has_mup f = false /\ m_has_ast f = false /\
                       m_patches f = 0).

(* ---- the decode-time tolerance the validator grants (representation.py): SegmentTemplate with @duration:
   timescale // frameRate, doubled for the first segment, halved for audio; SegmentTimeline:
   timescale // 20 for audio, timescale // frameRate otherwise.  frameRate = num/den as FrameRateType parses
   it (the first present of Representation@frameRate, AdaptationSet@maxFrameRate, @minFrameRate, else 24) *)
Definition tol_base (timescale num den : Z) : Z := (timescale * den) / num.
Definition tol_template (timescale num den idx : Z) (audio : bool) : Z :=
  let t := tol_base timescale num den in
  if idx =? 0 then t * 2 else if audio then t / 2 else t.
Definition tol_timeline (timescale num den : Z) (audio : bool) : Z :=
  if audio then timescale / 20 else tol_base timescale num den.
