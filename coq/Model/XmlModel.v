(* C05 - template output sites and XML escaping: templates/manifests/*.mpd, templates/patches/*.xml,
   templates/segment, templates/drm, templates/events; dashlive/server/template_tags.xmlSafe;
   Jinja autoescaping (markupsafe.escape).  Strings are lists of character codes.  Definitions only.

   A site {{ e | f1 | ... }} emits:  the value of e pushed through its filters; if the template is
   autoescaped and the result is not marked safe (Markup), markupsafe.escape of it. *)
From Verif Require Import Base.Tactics Base.ZList Base.Str.

(* ---- the escaping functions *)
Definition esc_char (c : Z) : str :=
  if c =? 38 then [38; 97; 109; 112; 59]            (* & -> &amp; *)
  else if c =? 60 then [38; 108; 116; 59]           (* < -> &lt; *)
  else if c =? 62 then [38; 103; 116; 59]           (* > -> &gt; *)
  else if c =? 34 then [38; 35; 51; 52; 59]         (* double quote -> &#34; *)
  else if c =? 39 then [38; 35; 51; 57; 59]         (* apostrophe -> &#39; *)
  else [c].
Definition escape (s : str) : str := flat_map esc_char s.             (* markupsafe.escape *)

Definition amp_char (c : Z) : str := if c =? 38 then [38; 97; 109; 112; 59] else [c].
Definition amp_only (s : str) : str := flat_map amp_char s.           (* the pinned xmlSafe: '&' only *)

Definition special (c : Z) : bool := (c =? 38) || (c =? 60) || (c =? 62) || (c =? 34) || (c =? 39).
Definition inert (s : str) : bool := forallb (fun c => negb (special c)) s.

(* ---- where a value lands in the document *)
Inductive ctx := CText | CAttr (quote : Z) | CTag.

(* every '&' starts one of the five references the escapers produce *)
Fixpoint prefix (p s : str) : bool :=
  match p, s with
  | [], _ => true
  | a :: p', b :: s' => (a =? b) && prefix p' s'
  | _ :: _, [] => false
  end.
Definition ref_here (s : str) : bool :=
  prefix [38; 97; 109; 112; 59] s || prefix [38; 108; 116; 59] s || prefix [38; 103; 116; 59] s ||
  prefix [38; 35; 51; 52; 59] s || prefix [38; 35; 51; 57; 59] s.
Fixpoint amp_ok (s : str) : bool :=
  match s with
  | [] => true
  | c :: r => (if c =? 38 then ref_here s else true) && amp_ok r
  end.

(* the emitted text cannot end the character data / the attribute value it stands in, nor open markup *)
Definition ctx_safe (c : ctx) (out : str) : bool :=
  match c with
  | CText => negb (existsb (Z.eqb 60) out) && amp_ok out
  | CAttr q => negb (existsb (Z.eqb 60) out) && negb (existsb (Z.eqb q) out) && amp_ok out
  | CTag => false
  end.

(* ---- sites *)
Inductive skind := SInert | SAny | SUnknown.
Inductive filt :=
  | FEscape            (* complete escape, result marked safe *)
  | FAmpOnly           (* '&' only, result NOT marked safe *)
  | FInert             (* output drawn from an alphabet without special characters *)
  | FPass              (* characters of the input pass through *)
  | FSafe              (* marks the value safe without changing it *)
  | FUnknown.

Record site := { s_tpl : str; s_line : Z; s_ctx : ctx; s_auto : bool; s_kind : skind; s_filters : list filt }.

(* abstract value flowing through a filter chain: may it contain special characters, is it marked
   safe, did it go through a complete escape as its last character-changing step *)
Record aval := { a_special : bool; a_markup : bool; a_escaped : bool }.

Definition astart (k : skind) : option aval :=
  match k with
  | SInert => Some {| a_special := false; a_markup := false; a_escaped := false |}
  | SAny => Some {| a_special := true; a_markup := false; a_escaped := false |}
  | SUnknown => None
  end.
Definition astep (v : aval) (f : filt) : option aval :=
  match f with
  | FEscape => Some {| a_special := a_special v; a_markup := true; a_escaped := true |}
  | FAmpOnly => Some {| a_special := a_special v; a_markup := false; a_escaped := false |}
  | FInert => Some {| a_special := false; a_markup := false; a_escaped := false |}
  | FPass => Some {| a_special := a_special v; a_markup := a_markup v; a_escaped := false |}
  | FSafe => Some {| a_special := a_special v; a_markup := true; a_escaped := a_escaped v |}
  | FUnknown => None
  end.
Fixpoint arun (v : aval) (fs : list filt) : option aval :=
  match fs with
  | [] => Some v
  | f :: r => match astep v f with Some v' => arun v' r | None => None end
  end.

(* a site is accepted when what reaches the document is inert, or was completely escaped by the last
   character-changing filter, or will be escaped by Jinja (autoescaped template, value not marked safe) *)
Definition text_like (c : ctx) : bool :=
  match c with CTag => false | CText => true | CAttr q => (q =? 34) || (q =? 39) end.
Definition site_ok (st : site) : bool :=
  text_like (s_ctx st) &&
  match astart (s_kind st) with
  | None => false
  | Some v0 =>
      match arun v0 (s_filters st) with
      | None => false
      | Some v => negb (a_special v) || a_escaped v || (s_auto st && negb (a_markup v))
      end
  end.

(* sites inside a tag (element names, pre-rendered attribute lists) and |safe markup are outside the
   escaping argument: they must be listed as trusted *)
Definition trusted_markup (st : site) : bool :=
  match s_ctx st with CTag => true | _ => existsb (fun f => match f with FSafe => true | _ => false end) (s_filters st) end.

(* ---- concrete semantics of the last step, for the soundness theorem: p is the string after the
   filters that precede the final escaping decision *)
Definition finish (auto markup escaped : bool) (p : str) : str :=
  if escaped then escape p else if auto && negb markup then escape p else p.
