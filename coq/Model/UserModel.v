(* C15 - authorisation decided inside a method body: EditUser.post (dashlive/server/requesthandler/user_management.py).
   Strings are interned as integers by the harness; the password is the value check_password accepts.  Definitions only. *)
From Verif Require Import Base.Tactics Base.ZList.

Record urec := { u_name : Z; u_must : bool; u_email : Z; u_pw : Z; u_groups : Z }.
Record ureq := { q_admin : bool;          (* the caller's access token belongs to an administrator *)
                 q_caller : Z; q_target : Z;   (* primary keys *)
                 q_name : Z; q_must : bool; q_email : Z;
                 q_pw : option Z;         (* None: absent or empty *)
                 q_confirm : Z;
                 q_groups : Z }.          (* the group mask the *Group fields of the body spell *)

Inductive uout := URefused | UMismatch | UDone (u : urec).

(* POST /api/users/<target> on an existing user u: UDone u' = committed; the others commit nothing *)
Definition edit_user (u : urec) (q : ureq) : uout :=
  if negb (q_admin q) && negb (q_target q =? q_caller q) then URefused
  else
    match q_pw q with
    | Some p => if negb (p =? q_confirm q) then UMismatch
                else UDone {| u_name := if q_admin q then q_name q else u_name u;
                              u_must := if q_admin q then q_must q else u_must u;
                              u_email := q_email q; u_pw := p;
                              u_groups := if q_admin q then q_groups q else u_groups u |}
    | None => UDone {| u_name := if q_admin q then q_name q else u_name u;
                       u_must := if q_admin q then q_must q else u_must u;
                       u_email := q_email q; u_pw := u_pw u;
                       u_groups := if q_admin q then q_groups q else u_groups u |}
    end.

(* what the database holds afterwards *)
Definition after (u : urec) (q : ureq) : urec := match edit_user u q with UDone u' => u' | _ => u end.
