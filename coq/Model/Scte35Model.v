(* C14 - SCTE-35 splice_info_section: dashlive/scte35/{binarysignal,splice_insert,splice_time,
   break_duration,descriptors}.py over dashlive/mpeg/section_table.py and the bit field
   reader/writer.  Modelled: splice_null / splice_insert (program splice with a time) /
   time_signal commands; avail, segmentation (program segmentation), time and unknown
   descriptors.  Not modelled: splice_schedule, component lists, DTMF and audio descriptors,
   encrypted packets.  Definitions only. *)
From Verif Require Import Base.Tactics Base.ZList Base.Bits Model.CrcModel.

Definition P (A : Type) := bits -> option (A * bits).
Definition ret {A} (x : A) : P A := fun bs => Some (x, bs).
Definition bind {A B} (p : P A) (f : A -> P B) : P B :=
  fun bs => match p bs with None => None | Some (x, r) => f x r end.
Definition fail {A} : P A := fun _ => None.
Notation "x <- p ;; q" := (bind p (fun x => q)) (at level 61, p at next level, right associativity).
Definition rdb : P bool := x <- rd 1 ;; ret (x =? 1).
Definition putb (b : bool) : bits := put_uint 1 (b2z b).

Record break_dur := { bd_auto : bool; bd_dur : Z }.
Record insert := { si_id : Z; si_out : bool; si_pts : option Z; si_break : option break_dur;
                   si_program_id : Z; si_avail_num : Z; si_avails_expected : Z }.
Inductive command := CNull | CInsert (i : insert) | CTime (pts : option Z).

Record segd := { sd_event_id : Z; sd_duration : option Z; sd_dnr : bool;
                 sd_web : bool; sd_noreg : bool; sd_archive : bool; sd_device : Z;
                 sd_upid_type : Z; sd_upid : list Z; sd_type : Z; sd_num : Z; sd_expected : Z;
                 sd_sub_num : Z; sd_sub_expected : Z }.
Inductive desc :=
  | DAvail (ident id : Z)
  | DSeg (ident : Z) (s : segd)
  | DTime (ident tai_s tai_ns utc : Z)
  | DUnknown (tag ident : Z) (data : list Z).

Record signal := { sg_table_id : Z; sg_sap : Z; sg_ssi : bool; sg_private : bool; sg_protocol : Z;
                   sg_enc_alg : Z; sg_pts_adj : Z; sg_cw : Z; sg_tier : Z; sg_cmd : command;
                   sg_descs : list desc }.

Definition zbits (l : bits) : Z := Z.of_nat (length l).

(* ---------------------------------------------------------------- encoders *)
Definition enc_time (pts : option Z) : bits :=
  match pts with
  | Some p => put_uint 1 1 ++ put_uint 6 63 ++ put_uint 33 p
  | None => put_uint 1 0 ++ put_uint 7 127
  end.
Definition enc_break (b : break_dur) : bits :=
  putb (bd_auto b) ++ put_uint 6 63 ++ put_uint 33 (bd_dur b).
Definition enc_insert (i : insert) : bits :=
  put_uint 32 (si_id i) ++ put_uint 1 0 ++ put_uint 7 127 ++
  putb (si_out i) ++ put_uint 1 1 ++ putb (match si_break i with Some _ => true | None => false end) ++
  put_uint 1 0 ++ put_uint 4 15 ++
  enc_time (si_pts i) ++
  (match si_break i with Some b => enc_break b | None => [] end) ++
  put_uint 16 (si_program_id i) ++ put_uint 8 (si_avail_num i) ++ put_uint 8 (si_avails_expected i).
Definition cmd_type (c : command) : Z := match c with CNull => 0 | CInsert _ => 5 | CTime _ => 6 end.
Definition enc_cmd (c : command) : bits :=
  match c with CNull => [] | CInsert i => enc_insert i | CTime pts => enc_time pts end.

Definition sub_types (t : Z) : bool := (t =? 52) || (t =? 54) || (t =? 56) || (t =? 58).
Definition enc_segd (s : segd) : bits :=
  put_uint 32 (sd_event_id s) ++ put_uint 1 0 ++ put_uint 7 127 ++
  put_uint 1 1 ++ putb (match sd_duration s with Some _ => true | None => false end) ++ putb (sd_dnr s) ++
  (if sd_dnr s then put_uint 5 31
   else putb (sd_web s) ++ putb (sd_noreg s) ++ putb (sd_archive s) ++ put_uint 2 (sd_device s)) ++
  (match sd_duration s with Some d => put_uint 40 d | None => [] end) ++
  put_uint 8 (match sd_upid s with [] => 15 | _ => sd_upid_type s end) ++
  put_uint 8 (zlen (sd_upid s)) ++ byte_bits (sd_upid s) ++
  put_uint 8 (sd_type s) ++ put_uint 8 (sd_num s) ++ put_uint 8 (sd_expected s) ++
  (if sub_types (sd_type s) then put_uint 8 (sd_sub_num s) ++ put_uint 8 (sd_sub_expected s) else []).
Definition desc_tag (d : desc) : Z :=
  match d with DAvail _ _ => 0 | DSeg _ _ => 2 | DTime _ _ _ _ => 3 | DUnknown t _ _ => t end.
Definition desc_ident (d : desc) : Z :=
  match d with DAvail i _ => i | DSeg i _ => i | DTime i _ _ _ => i | DUnknown _ i _ => i end.
Definition enc_desc_fields (d : desc) : bits :=
  match d with
  | DAvail _ id => put_uint 32 id
  | DSeg _ s => enc_segd s
  | DTime _ a b c => put_uint 48 a ++ put_uint 32 b ++ put_uint 16 c
  | DUnknown _ _ data => byte_bits data
  end.
Definition enc_desc (d : desc) : bits :=
  let body := put_uint 32 (desc_ident d) ++ enc_desc_fields d in
  put_uint 8 (desc_tag d) ++ put_uint 8 (zbits body / 8) ++ body.
Definition enc_descs (l : list desc) : bits := flat_map enc_desc l.

Definition pad8 (bs : bits) : bits := bs ++ repeat false (Nat.modulo (8 - Nat.modulo (length bs) 8) 8).

Definition enc_fields (s : signal) : bits :=
  let cmd := enc_cmd (sg_cmd s) in
  let ds := enc_descs (sg_descs s) in
  put_uint 8 (sg_protocol s) ++ put_uint 1 0 ++ put_uint 6 (sg_enc_alg s) ++ put_uint 33 (sg_pts_adj s) ++
  put_uint 8 (sg_cw s) ++ put_uint 12 (sg_tier s) ++ put_uint 12 (zbits cmd / 8) ++
  put_uint 8 (cmd_type (sg_cmd s)) ++ cmd ++ put_uint 16 (zbits ds / 8) ++ ds.
Definition enc_body (s : signal) : bits :=
  let f := enc_fields s in
  put_uint 8 (sg_table_id s) ++ putb (sg_ssi s) ++ putb (sg_private s) ++ put_uint 2 (sg_sap s) ++
  put_uint 12 (4 + zbits f / 8) ++ f.
(* MpegSectionTable.encode: CRC over the (byte padded) section so far, appended as 32 bits *)
Definition enc_signal (s : signal) : bits :=
  let b := enc_body s in b ++ put_uint 32 (crc32 (pad8 b)).

(* ---------------------------------------------------------------- decoders *)
Definition dec_time : P (option Z) :=
  f <- rd 1 ;; if f =? 1 then (_ <- rd 6 ;; p <- rd 33 ;; ret (Some p)) else (_ <- rd 7 ;; ret None).
Definition dec_break : P break_dur :=
  a <- rdb ;; _ <- rd 6 ;; d <- rd 33 ;; ret {| bd_auto := a; bd_dur := d |}.
(* None as a value = a shape outside the model (cancel indicator, component splice, immediate) *)
Definition dec_insert : P (option insert) :=
  id <- rd 32 ;; cancel <- rdb ;; _ <- rd 7 ;;
  if cancel then ret None else
  out <- rdb ;; prog <- rdb ;; durf <- rdb ;; imm <- rdb ;; _ <- rd 4 ;;
  if negb prog || imm then ret None else
  pts <- dec_time ;;
  bd <- (if durf then (b <- dec_break ;; ret (Some b)) else ret None) ;;
  pid <- rd 16 ;; an <- rd 8 ;; ae <- rd 8 ;;
  ret (Some {| si_id := id; si_out := out; si_pts := pts; si_break := bd; si_program_id := pid;
               si_avail_num := an; si_avails_expected := ae |}).

Definition dec_segd : P (option segd) :=
  id <- rd 32 ;; cancel <- rdb ;; _ <- rd 7 ;;
  if cancel then ret None else
  prog <- rdb ;; durf <- rdb ;; dnr <- rdb ;;
  restr <- (if dnr then (_ <- rd 5 ;; ret (true, true, true, 3))
            else (w <- rdb ;; n <- rdb ;; a <- rdb ;; dv <- rd 2 ;; ret (w, n, a, dv))) ;;
  if negb prog then ret None else
  dur <- (if durf then (d <- rd 40 ;; ret (Some d)) else ret None) ;;
  ut <- rd 8 ;; ul <- rd 8 ;; up <- rd_bytes (Z.to_nat ul) ;;
  ty <- rd 8 ;; num <- rd 8 ;; ex <- rd 8 ;;
  sub <- (if sub_types ty then (a <- rd 8 ;; b <- rd 8 ;; ret (a, b)) else ret (0, 0)) ;;
  let '(w, n, a, dv) := restr in
  ret (Some {| sd_event_id := id; sd_duration := dur; sd_dnr := dnr; sd_web := w; sd_noreg := n;
               sd_archive := a; sd_device := dv; sd_upid_type := ut; sd_upid := up; sd_type := ty;
               sd_num := num; sd_expected := ex; sd_sub_num := fst sub; sd_sub_expected := snd sub |}).

Definition dec_desc : P (option desc) :=
  tag <- rd 8 ;; len <- rd 8 ;; ident <- rd 32 ;;
  if tag =? 0 then (id <- rd 32 ;; ret (Some (DAvail ident id)))
  else if tag =? 2 then (s <- dec_segd ;; ret (match s with Some s => Some (DSeg ident s) | None => None end))
  else if tag =? 3 then (a <- rd 48 ;; b <- rd 32 ;; c <- rd 16 ;; ret (Some (DTime ident a b c)))
  else if (tag =? 1) || (tag =? 4) then ret None
  else (data <- rd_bytes (Z.to_nat (len - 4)) ;; ret (Some (DUnknown tag ident data))).

(* while r.bytepos() < endpos: one descriptor per unit of fuel; [left] = bits still inside
   the loop.  A descriptor outside the model aborts with None. *)
Fixpoint dec_descs (fuel : nat) (left : Z) : P (option (list desc)) :=
  fun bs =>
  match fuel with
  | O => None
  | S f =>
      if left <=? 0 then Some (Some [], bs)
      else match dec_desc bs with
           | None => None
           | Some (None, r) => Some (None, r)
           | Some (Some d, r) =>
               match dec_descs f (left - (zbits bs - zbits r)) r with
               | Some (Some l, r') => Some (Some (d :: l), r')
               | other => other
               end
           end
  end.

(* MpegSectionTable.parse + BinarySignal.parse_payload, up to (excluding) the CRC *)
Definition dec_fields : P (option signal) :=
   tid <- rd 8 ;; ssi <- rdb ;; priv <- rdb ;; sap <- rd 2 ;; _ <- rd 12 ;;
   proto <- rd 8 ;; encp <- rdb ;; alg <- rd 6 ;; adj <- rd 33 ;; cw <- rd 8 ;; tier <- rd 12 ;;
   _ <- rd 12 ;; ct <- rd 8 ;;
   cmd <- (if ct =? 0 then ret (Some CNull)
           else if ct =? 5 then (i <- dec_insert ;; ret (match i with Some i => Some (CInsert i) | None => None end))
           else if ct =? 6 then (t <- dec_time ;; ret (Some (CTime t)))
           else if ct =? 7 then ret (Some CNull)
           else ret None) ;;
   match cmd with
   | None => ret None
   | Some c =>
       if encp then ret None else
       dl <- rd 16 ;;
       ds <- dec_descs (S (Z.to_nat dl)) (8 * dl) ;;
       match ds with
       | None => ret None
       | Some ds =>
           ret (Some {| sg_table_id := tid; sg_sap := sap; sg_ssi := ssi; sg_private := priv;
                        sg_protocol := proto; sg_enc_alg := alg; sg_pts_adj := adj; sg_cw := cw;
                        sg_tier := tier; sg_cmd := c; sg_descs := ds |})
       end
   end.

(* ... then the 32-bit CRC; crc_valid = CRC over everything consumed is zero *)
Definition dec_signal_p (bs : bits) : option (option (signal * bool) * bits) :=
  match dec_fields bs with
  | None => None
  | Some (None, r) => Some (None, r)
  | Some (Some s, r') =>
      match rd 32 r' with
      | None => None
      | Some (crc, r'') => Some (Some (s, crc32 (firstn (length bs - length r'') bs) =? 0), r'')
      end
  end.
Definition dec_signal (bs : bits) : option (option signal * bool) :=
  match dec_signal_p bs with
  | Some (Some (s, ok), _) => Some (Some s, ok)
  | Some (None, _) => Some (None, false)
  | None => None
  end.

(* Scte35Events.create_binary_signal: the section carried for event k at instant pt *)
From Verif Require Import Model.EventsModel.
(* Scte35Events.check_parameters: the fields of a splice_insert have a fixed width *)
Definition scte35_params_ok (s : sched) (program_id : Z) : bool :=
  params_ok s && (1 + e_count s / 2 <=? 255) && (e_duration s * 90000 / e_timescale s <=? 8589934591)
  && (0 <=? program_id) && (program_id <=? 65535).
Definition event_signal (s : sched) (program_id k pt : Z) : signal :=
  let avail_num := if 0 <? e_count s then 1 + k / 2 else 0 in
  let avails_expected := if 0 <? e_count s then 1 + e_count s / 2 else 0 in
  {| sg_table_id := 252; sg_sap := 0; sg_ssi := false; sg_private := false; sg_protocol := 0;
     sg_enc_alg := 0; sg_pts_adj := 0; sg_cw := 255; sg_tier := 4095;
     sg_cmd := CInsert {| si_id := emsg_id_field k; si_out := true; si_pts := Some (scte35_pts s pt);
                          si_break := Some {| bd_auto := Z.even k; bd_dur := scte35_break s |};
                          si_program_id := program_id; si_avail_num := avail_num;
                          si_avails_expected := avails_expected |};
     sg_descs := [DSeg 1129661769
                   {| sd_event_id := avail_num; sd_duration := Some 0; sd_dnr := true; sd_web := true;
                      sd_noreg := true; sd_archive := true; sd_device := 3; sd_upid_type := 15; sd_upid := [];
                      sd_type := 52 + k mod 2; sd_num := 0; sd_expected := 0; sd_sub_num := 0;
                      sd_sub_expected := 0 |}] |}.
