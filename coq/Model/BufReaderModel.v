(* C20 - model of dashlive/utils/buffered_reader.py (BufferedReader).
   Definitions only.  A literal transcription: one Gallina function per
   Python method, same branches in the same order.

   file   : the bytes of the underlying reader (list of byte values)
   geom   : constructor arguments offset / buffersize / max_buffers
   state  : pos, size (None until discovered), buffers (dict in insertion
            order: Python dicts iterate in insertion order, and Buffer
            timestamps are taken at insertion and never refreshed, so the
            entry with the least timestamp is the first one in iteration
            order - eviction is "drop the head")                           *)
From Verif Require Import Base.Tactics Base.ZList.

Record geom := { g_offset : Z; g_bs : Z; g_maxb : Z }.
Record state := { pos : Z; size : option Z; buffers : list (Z * list Z) }.

Inductive op :=
| Read (n : Z)           (* read(n), n = -1 is readall *)
| Seek (off whence : Z)  (* whence 0=SET 1=CUR 2=END, others leave pos *)
| Tell
| Peek (n : Z).

Inductive out :=
| OBytes (b : list Z)
| OInt (z : Z)
| OAssert.               (* peek(size <= 0): AssertionError *)

Definition init_state (sz : option Z) : state :=
  {| pos := 0; size := sz; buffers := [] |}.

(* BufferedReader(None, data=d): one pre-loaded bucket, buffersize=len(d) *)
Definition data_geom (d : list Z) : geom :=
  {| g_offset := 0; g_bs := zlen d; g_maxb := 2 |}.
Definition init_data (d : list Z) : state :=
  {| pos := 0; size := Some (zlen d); buffers := [(0, d)] |}.

Fixpoint lookup (b : Z) (c : list (Z * list Z)) : option (list Z) :=
  match c with
  | [] => None
  | (k, d) :: r => if k =? b then Some d else lookup b r
  end.

(* reader.seek(bucket+offset); reader.read(buffersize) on a BytesIO *)
Definition file_read (file : list Z) (at_ n : Z) : list Z := ztake n (zdrop at_ file).

(* cache(bucket) *)
Definition cache (file : list Z) (g : geom) (s : state) (bucket : Z) : state :=
  match lookup bucket (buffers s) with
  | Some _ => s
  | None =>
    let bufs := if zlen (buffers s) =? g_maxb g then tl (buffers s) else buffers s in
    let data := file_read file (bucket + g_offset g) (g_bs g) in
    let sz := match size s with
              | None => if zlen data <? g_bs g then Some (bucket + zlen data) else None
              | Some z => Some z
              end in
    {| pos := pos s; size := sz; buffers := bufs ++ [(bucket, data)] |}
  end.

Definition bucket_data (s : state) (bucket : Z) : list Z :=
  match lookup bucket (buffers s) with Some d => d | None => [] end.

(* the [while todo] loop of peek; fuel = todo (each turn removes >= 1) *)
Fixpoint peek_loop (fuel : nat) (file : list Z) (g : geom) (s : state)
         (bucket offset todo : Z) (acc : list Z) : state * list Z :=
  match fuel with
  | O => (s, acc)
  | S fuel' =>
    if todo =? 0 then (s, acc) else
    let s1 := cache file g s bucket in
    let sz := Z.min todo (g_bs g - offset) in
    let acc1 := acc ++ zdrop offset (bucket_data s1 bucket) in
    peek_loop fuel' file g s1 (bucket + g_bs g) 0 (todo - sz) acc1
  end.

(* peek(size); None = AssertionError *)
Definition peek (file : list Z) (g : geom) (s : state) (n : Z) : state * option (list Z) :=
  if n <=? 0 then (s, None) else
  let n1 := match size s with Some z => Z.min n (z - pos s) | None => n end in
  if (match size s with Some _ => n1 <=? 0 | None => false end) then (s, Some [])
  else
    let bucket := (pos s / g_bs g) * g_bs g in
    let offset := pos s - bucket in
    let '(s1, data) := peek_loop (Z.to_nat n1) file g s bucket offset n1 [] in
    (s1, Some data).

(* seek(offset, whence) *)
Definition seek (file : list Z) (g : geom) (s : state) (off whence : Z) : state * Z :=
  let s1 :=
    if whence =? 0 then {| pos := off; size := size s; buffers := buffers s |}
    else if whence =? 1 then {| pos := pos s + off; size := size s; buffers := buffers s |}
    else if whence =? 2 then
      let sz := match size s with Some z => z | None => zlen file - g_offset g end in
      {| pos := sz + off; size := Some sz; buffers := buffers s |}
    else s in
  let p := Z.max 0 (pos s1) in
  let p := match size s1 with Some z => Z.min p z | None => p end in
  ({| pos := p; size := size s1; buffers := buffers s1 |}, p).

(* read(n) for n <> -1 *)
Definition read_n (file : list Z) (g : geom) (s : state) (n : Z) : state * out :=
  let n1 := match size s with Some z => Z.min n (z - pos s) | None => n end in
  if (match size s with Some _ => n1 <=? 0 | None => false end) then (s, OBytes [])
  else
    match peek file g s n1 with
    | (s1, Some b) =>
        ({| pos := pos s1 + n1; size := size s1; buffers := buffers s1 |},
         OBytes (ztake n1 b))
    | (s1, None) => (s1, OAssert)
    end.

(* readall(): (after the fix) discover the size if needed, then read the rest *)
Definition readall (file : list Z) (g : geom) (s : state) : state * out :=
  let sz := match size s with Some z => z | None => zlen file - g_offset g end in
  let s1 := {| pos := pos s; size := Some sz; buffers := buffers s |} in
  read_n file g s1 (Z.max 0 (sz - pos s)).

Definition step (file : list Z) (g : geom) (s : state) (o : op) : state * out :=
  match o with
  | Read n => if n =? -1 then readall file g s else read_n file g s n
  | Seek off wh => let '(s1, p) := seek file g s off wh in (s1, OInt p)
  | Tell => (s, OInt (pos s))
  | Peek n => match peek file g s n with
              | (s1, Some b) => (s1, OBytes b)
              | (s1, None) => (s1, OAssert)
              end
  end.

Fixpoint run (file : list Z) (g : geom) (s : state) (ops : list op) : list out :=
  match ops with
  | [] => []
  | o :: r => let '(s1, x) := step file g s o in x :: run file g s1 r
  end.

(* ---------------- abstract specification: an in-memory stream -------- *)
Definition window (file : list Z) (off sz : Z) : list Z := ztake sz (zdrop off file).

Definition spec_step (win : list Z) (p : Z) (o : op) : Z * out :=
  let sz := zlen win in
  match o with
  | Read n =>
      let n1 := if n =? -1 then sz - p else Z.max 0 (Z.min n (sz - p)) in
      (p + n1, OBytes (ztake n1 (zdrop p win)))
  | Seek off wh =>
      let q := if wh =? 0 then off else if wh =? 1 then p + off
               else if wh =? 2 then sz + off else p in
      let q := Z.min (Z.max 0 q) sz in (q, OInt q)
  | Tell => (p, OInt p)
  | Peek n => (p, OBytes (ztake (Z.min n (sz - p)) (zdrop p win)))
  end.
