(* C13 - model of RequestHandlerBase.get_http_range and its two call sites
   (dashlive/server/requesthandler/base.py, media_requests.py).  Definitions only.
   A header value is the list of its code points AFTER .lower().strip() (library
   calls; the theorems hold for every string, hence for whatever they return).
   Python's int(s, 10) is the parameter [pyint] (None = ValueError). *)
From Verif Require Import Base.Tactics Base.ZList.

Definition str := list Z.

Fixpoint startswith (p s : str) : bool :=
  match p, s with
  | [], _ => true
  | a :: p', b :: s' => (a =? b) && startswith p' s'
  | _ :: _, [] => false
  end.

Fixpoint mem (c : Z) (s : str) : bool :=
  match s with [] => false | x :: r => (x =? c) || mem c r end.

(* str.split(c): always at least one piece *)
Fixpoint split_on (c : Z) (s : str) : list str :=
  match s with
  | [] => [[]]
  | x :: r =>
    if x =? c then [] :: split_on c r
    else match split_on c r with
         | [] => [[x]]          (* unreachable *)
         | p :: ps => (x :: p) :: ps
         end
  end.

Definition bytes_eq : str := [98; 121; 116; 101; 115; 61].   (* "bytes=" *)
Definition DASH := 45.
Definition COMMA := 44.

Inductive rng :=
| RNone                 (* no Range header: (None, None, 200, {}) *)
| RBad                  (* ValueError *)
| R206 (a b : Z)        (* (start, end, 206, Content-Range: bytes a-b/len) *)
| R416 (a b : Z).       (* (start, end, 416, Content-Range: bytes */len)  *)

Definition fin (len a b : Z) : rng :=
  if (b >=? len) || (b <? a) then R416 a b else R206 a b.

Definition get_http_range (pyint : str -> option Z) (len : Z) (h : option str) : rng :=
  match h with
  | None => RNone
  | Some h =>
    if negb (startswith bytes_eq h) then RBad else
    if mem COMMA h then RBad else
    match split_on DASH (zdrop 6 h) with
    | [s; e] =>
      match s with
      | [] => match pyint e with
              | None => RBad
              | Some amount => fin len (Z.max 0 (len - amount)) (len - 1)
              end
      | _ => match pyint s with
             | None => RBad
             | Some a =>
               match e with
               | [] => fin len a (len - 1)
               | _ => match pyint e with
                      | None => RBad
                      | Some b => fin len a (Z.min b (len - 1))
                      end
               end
             end
      end
    | _ => RBad            (* unpacking a list of length <> 2: ValueError *)
    end
  end.

(* Python slice l[a:b] for arbitrary integers *)
Definition pyidx (len i : Z) : Z := if i <? 0 then Z.max 0 (len + i) else Z.min i len.
Definition pyslice {A} (a b : Z) (l : list A) : list A :=
  let n := zlen l in zslice (pyidx n a) (pyidx n b) l.

Inductive crange := CRnone | CRrange (a b len : Z) | CRstar (len : Z).
Inductive resp :=
| Resp (status : Z) (body : list Z) (cr : crange)
| Crash.                                         (* unhandled exception: 5xx *)

(* MediaRequestBase.generate_media_segment tail: slice of the generated segment *)
Definition serve_segment (pyint : str -> option Z) (data : list Z) (h : option str) : resp :=
  match get_http_range pyint (zlen data) h with
  | RNone => Resp 200 data CRnone
  | RBad => Resp 400 [] CRnone
  | R206 a b => Resp 206 (pyslice a (b + 1) data) (CRrange a b (zlen data))
  | R416 a b => Resp 416 (pyslice a (b + 1) data) (CRstar (zlen data))
  end.

(* OnDemandMedia.get: file seek(start) + read(1+end-start); seek(<0) raises OSError *)
Definition serve_ondemand (pyint : str -> option Z) (file : list Z) (h : option str) : resp :=
  match get_http_range pyint (zlen file) h with
  | RNone => Resp 400 [] CRnone
  | RBad => Resp 400 [] CRnone
  | R206 a b => if a <? 0 then Crash
                else Resp 206 (ztake (1 + b - a) (zdrop a file)) (CRrange a b (zlen file))
  | R416 a b => Resp 416 [] (CRstar (zlen file))
  end.

(* ---- executable int(s, 10) for code points < 256 (latin-1 header values) ---- *)
Definition is_space (c : Z) : bool :=
  ((9 <=? c) && (c <=? 13)) || (c =? 32) || (c =? 133) || (c =? 160).
Definition is_digit (c : Z) : bool := (48 <=? c) && (c <=? 57).

Fixpoint lstrip (s : str) : str :=
  match s with x :: r => if is_space x then lstrip r else s | [] => [] end.
Definition strip (s : str) : str := rev (lstrip (rev (lstrip s))).

(* digits with single underscores between digits; st: 0 = need digit (start),
   1 = after digit, 2 = after underscore *)
Fixpoint digits_val (s : str) (st : Z) (acc : Z) : option Z :=
  match s with
  | [] => if st =? 1 then Some acc else None
  | x :: r =>
    if is_digit x then digits_val r 1 (acc * 10 + (x - 48))
    else if (x =? 95) && (st =? 1) then digits_val r 2 acc
    else None
  end.

Definition pyint_latin1 (s : str) : option Z :=
  match strip s with
  | 43 :: r => digits_val r 0 0
  | 45 :: r => match digits_val r 0 0 with Some v => Some (- v) | None => None end
  | r => digits_val r 0 0
  end.
