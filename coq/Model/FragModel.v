(* C03 - the media-segment rewrite of generate_media_segment, at the level the property speaks
   about: which boxes there are, in which order, how big they are, and the offsets that must
   address the payload.  Box contents are not modelled (C04).  Definitions only. *)
From Verif Require Import Base.Tactics Base.ZList.

Inductive tag := Tfhd | Tfdt | Trun | Saiz | Saio | Senc | Piff | OtherT.
Definition tag_eqb (a b : tag) : bool :=
  match a, b with
  | Tfhd, Tfhd | Tfdt, Tfdt | Trun, Trun | Saiz, Saiz | Saio, Saio | Senc, Senc | Piff, Piff | OtherT, OtherT => true
  | _, _ => false
  end.
Inductive top := TStyp | TSidx | TEmsg | TMoof | TMdat | TOther.

Record seg := {
  s_top : list (top * Z);          (* top-level boxes with sizes; the moof entry's size is recomputed *)
  s_traf : list (tag * Z);         (* children of moof/traf with sizes *)
  s_tfdt : option Z;               (* baseMediaDecodeTime of the stored fragment, if it has a tfdt *)
  s_prefix_time : Z;               (* sum of the durations of the earlier segments (used when tfdt is absent) *)
  s_senc_flags1 : bool             (* senc carries the 20-byte override header (flags & 1) *)
}.

Record ropts := {
  o_origin : Z;                    (* origin_time added to the decode time *)
  o_emsg : list Z;                 (* sizes of the emsg boxes to insert before moof *)
  o_piff : bool                    (* PlayReady PIFF copy of senc requested (and the media is encrypted) *)
}.

Fixpoint sumz (l : list Z) : Z := match l with [] => 0 | x :: r => x + sumz r end.
Definition sizes {A} (l : list (A * Z)) : list Z := map snd l.

Definition tfdt_size (v : Z) : Z := if v <? 4294967296 then 16 else 20.

(* insert x before the first element with tag t (append when absent) *)
Fixpoint insert_before (t : tag) (x : tag * Z) (l : list (tag * Z)) : list (tag * Z) :=
  match l with
  | [] => [x]
  | (t', s) :: r => if tag_eqb t t' then x :: (t', s) :: r else (t', s) :: insert_before t x r
  end.
Fixpoint insert_after (t : tag) (x : tag * Z) (l : list (tag * Z)) : list (tag * Z) :=
  match l with
  | [] => [x]
  | (t', s) :: r => if tag_eqb t t' then (t', s) :: x :: r else (t', s) :: insert_after t x r
  end.
Fixpoint size_of (t : tag) (l : list (tag * Z)) : option Z :=
  match l with [] => None | (t', s) :: r => if tag_eqb t t' then Some s else size_of t r end.
Fixpoint set_size (t : tag) (v : Z) (l : list (tag * Z)) : list (tag * Z) :=
  match l with [] => [] | (t', s) :: r => if tag_eqb t t' then (t', v) :: r else (t', s) :: set_size t v r end.
Fixpoint before (t : tag) (l : list (tag * Z)) : list (tag * Z) :=
  match l with [] => [] | (t', s) :: r => if tag_eqb t t' then [] else (t', s) :: before t r end.

Definition new_time (o : ropts) (s : seg) : Z :=
  (match s_tfdt s with Some v => v | None => s_prefix_time s end) + o_origin o.

Definition rewrite_traf (o : ropts) (s : seg) : list (tag * Z) :=
  let t1 := match s_tfdt s with
            | Some _ => set_size Tfdt (Z.max (match size_of Tfdt (s_traf s) with Some z => z | None => 16 end)
                                             (tfdt_size (new_time o s))) (s_traf s)
            | None => insert_after Tfhd (Tfdt, tfdt_size (new_time o s)) (s_traf s)
            end in
  match o_piff o, size_of Senc t1 with
  | true, Some z => insert_before Saiz (Piff, z + 16) t1
  | _, _ => t1
  end.

Definition moof_size (traf : list (tag * Z)) : Z := 8 + 16 + 8 + sumz (sizes traf).

Fixpoint drop_sidx (l : list (top * Z)) : list (top * Z) :=
  match l with
  | [] => []
  | (TSidx, _) :: r => r                       (* del atom.sidx removes the first sidx *)
  | x :: r => x :: drop_sidx r
  end.
Fixpoint insert_emsg (e : list Z) (l : list (top * Z)) : list (top * Z) :=
  match l with
  | [] => []
  | (TMoof, z) :: r => map (fun x => (TEmsg, x)) e ++ (TMoof, z) :: r
  | x :: r => x :: insert_emsg e r
  end.
Fixpoint set_moof (v : Z) (l : list (top * Z)) : list (top * Z) :=
  match l with [] => [] | (TMoof, _) :: r => (TMoof, v) :: r | x :: r => x :: set_moof v r end.

Definition rewrite_top (o : ropts) (s : seg) : list (top * Z) :=
  set_moof (moof_size (rewrite_traf o s)) (insert_emsg (o_emsg o) (drop_sidx (s_top s))).

Fixpoint moof_pos (l : list (top * Z)) : Z :=
  match l with [] => 0 | (TMoof, _) :: _ => 0 | (_, z) :: r => z + moof_pos r end.

(* what the encoder writes (post_encode fix-ups): relative to base_data_offset = moof position *)
Definition data_offset (o : ropts) (s : seg) : Z := moof_size (rewrite_traf o s) + 8.
Definition senc_entry_rel (o : ropts) (s : seg) : Z :=
  8 + 16 + 8 + sumz (sizes (before Senc (rewrite_traf o s))) + 12 + (if s_senc_flags1 s then 20 else 0) + 4.
Definition payload_pos (o : ropts) (s : seg) : Z :=
  moof_pos (rewrite_top o s) + moof_size (rewrite_traf o s) + 8.
