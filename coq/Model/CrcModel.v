(* CRC-32/MPEG-2 as a bit-serial LFSR (poly 0x04C11DB7, init all ones, no reflection, no final xor):
   what crccheck.crc.Crc32Mpeg2 computes for dashlive/mpeg/section_table.py. Definitions only. *)
From Verif Require Import Base.Tactics Base.Bits.

Fixpoint xorl (a b : bits) : bits :=
  match a, b with
  | x :: a', y :: b' => xorb x y :: xorl a' b'
  | _, _ => []
  end.

Definition crc_step (poly reg : bits) (b : bool) : bits :=
  match reg with
  | [] => []
  | top :: rest => let sh := rest ++ [false] in if xorb top b then xorl sh poly else sh
  end.
Definition crc_feed (poly reg data : bits) : bits := fold_left (crc_step poly) data reg.

Definition poly32 : bits := put_uint 32 79764919.       (* 0x04C11DB7 *)
Definition crc32_bits (data : bits) : bits := crc_feed poly32 (repeat true 32) data.
Definition crc32 (data : bits) : Z :=
  match rd 32 (crc32_bits data) with Some (v, _) => v | None => 0 end.
