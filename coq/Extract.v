(* Extraction of the executable models. ExtrOcamlBasic only: bool, option, unit,
   list, prod, sumbool map to OCaml's own types; Z, positive, N, nat stay the
   extracted inductive datatypes. *)
From Coq Require Extraction ExtrOcamlBasic.
From Verif Require Import Base.Val Dispatch.
Extraction Language OCaml.
Extraction "../ocaml/model.ml" dispatch.
