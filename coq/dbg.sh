#!/bin/bash
# usage: dbg.sh File.v LINE  -> prints the goal just before LINE (1-based)
f=$1; n=$2
head -n $((n-1)) $f > /tmp/dbg_tmp.v
echo "Show. " >> /tmp/dbg_tmp.v
cd /verif/coq && timeout 120 coqc -Q . Verif /tmp/dbg_tmp.v 2>&1 | grep -v conda | tail -${3:-40}
