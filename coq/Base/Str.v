(* ASCII strings as lists of code points; decimal printing / parsing as used by
   Python's '%d', '%0Nd' and int(); span over character classes. *)
From Verif Require Import Base.Tactics Base.ZList.

Definition str := list Z.

Definition is_digit (c : Z) : bool := (48 <=? c) && (c <=? 57).
Definition all_digits (s : str) : bool := forallb is_digit s.

(* value of a digit string, most significant first: int(s) for s in [0-9]+ *)
Definition dstep (a c : Z) : Z := a * 10 + (c - 48).
Definition dval (s : str) : Z := fold_left dstep s 0.

(* '%d' % n for n >= 0 *)
Fixpoint dec_fuel (fuel : nat) (n : Z) (acc : str) : str :=
  match fuel with
  | O => (48 + n) :: acc
  | S f => if n <? 10 then (48 + n) :: acc
           else dec_fuel f (n / 10) ((48 + n mod 10) :: acc)
  end.
Definition dec (n : Z) : str := dec_fuel (Z.to_nat (Z.log2 n)) n [].

Fixpoint zeros (n : nat) : str := match n with O => [] | S k => 48 :: zeros k end.
(* '%0Wd' % n *)
Definition pad (w : nat) (n : Z) : str :=
  let d := dec n in zeros (w - length d) ++ d.

(* longest prefix satisfying p *)
Fixpoint span (p : Z -> bool) (s : str) : str * str :=
  match s with
  | [] => ([], [])
  | c :: r => if p c then let '(a, b) := span p r in (c :: a, b) else ([], s)
  end.

(* ------------------------------------------------------------------ *)
Lemma fold_dstep_acc s : forall a, fold_left dstep s a = a * 10 ^ (zlen s) + dval s.
Proof.
  unfold dval. induction s as [|c r IH]; intros a; cbn [fold_left].
  - rewrite zlen_nil. cbn. lia.
  - rewrite (IH (dstep a c)), (IH (dstep 0 c)). rewrite zlen_cons.
    rewrite Z.pow_add_r by (pose proof (zlen_nonneg r); lia).
    unfold dstep. ring.
Qed.

Lemma dec_fuel_val fuel : forall n acc, 0 <= n < 10 * 2 ^ Z.of_nat fuel ->
  fold_left dstep (dec_fuel fuel n acc) 0 = fold_left dstep acc n.
Proof.
  induction fuel as [|f IH]; intros n acc Hn; cbn [dec_fuel].
  - cbn [fold_left]. replace (dstep 0 (48 + n)) with n by (unfold dstep; lia). reflexivity.
  - destruct (n <? 10) eqn:E.
    + cbn [fold_left]. replace (dstep 0 (48 + n)) with n by (unfold dstep; lia). reflexivity.
    + rewrite IH.
      * cbn [fold_left]. replace (dstep (n / 10) (48 + n mod 10)) with n by (unfold dstep; lia).
        reflexivity.
      * rewrite Nat2Z.inj_succ, Z.pow_succ_r in Hn by lia. lia.
Qed.

Lemma log2_bound n : 0 <= n -> n < 10 * 2 ^ Z.of_nat (Z.to_nat (Z.log2 n)).
Proof.
  intros Hn. destruct (Z.eq_dec n 0) as [->|Hz]; [cbn; lia|].
  rewrite Z2Nat.id by apply Z.log2_nonneg.
  pose proof (Z.log2_spec n) as H. rewrite Z.pow_succ_r in H by apply Z.log2_nonneg. lia.
Qed.

Lemma dval_dec n : 0 <= n -> dval (dec n) = n.
Proof.
  intros Hn. unfold dval, dec. rewrite dec_fuel_val; [reflexivity|].
  split; [lia|apply log2_bound; lia].
Qed.

Lemma dec_fuel_digits fuel : forall n acc, 0 <= n < 10 * 2 ^ Z.of_nat fuel ->
  all_digits acc = true -> all_digits (dec_fuel fuel n acc) = true.
Proof.
  induction fuel as [|f IH]; intros n acc Hn Ha; cbn [dec_fuel].
  - cbn [all_digits forallb]. fold (all_digits acc). rewrite Ha.
    unfold is_digit. cbn in Hn. lia.
  - destruct (n <? 10) eqn:E.
    + cbn [all_digits forallb]. fold (all_digits acc). rewrite Ha. unfold is_digit. lia.
    + apply IH.
      * rewrite Nat2Z.inj_succ, Z.pow_succ_r in Hn by lia. lia.
      * cbn [all_digits forallb]. fold (all_digits acc). rewrite Ha. unfold is_digit. lia.
Qed.

Lemma dec_digits n : 0 <= n -> all_digits (dec n) = true.
Proof.
  intros Hn. unfold dec. apply dec_fuel_digits; [|reflexivity].
  split; [lia|apply log2_bound; lia].
Qed.

Lemma dec_fuel_nonempty fuel n acc : dec_fuel fuel n acc <> [].
Proof.
  revert n acc. induction fuel as [|f IH]; intros n acc; cbn [dec_fuel]; [discriminate|].
  destruct (n <? 10); [discriminate|apply IH].
Qed.
Lemma dec_nonempty n : dec n <> [].
Proof. apply dec_fuel_nonempty. Qed.

Lemma all_digits_app a b : all_digits (a ++ b) = all_digits a && all_digits b.
Proof. apply forallb_app. Qed.

Lemma zeros_digits n : all_digits (zeros n) = true.
Proof. induction n; cbn; auto. Qed.

Lemma dval_zeros_app n s : dval (zeros n ++ s) = dval s.
Proof.
  unfold dval. induction n as [|k IH]; cbn [zeros app fold_left]; [reflexivity|].
  unfold dstep at 2. cbn. exact IH.
Qed.

Lemma dval_pad w n : 0 <= n -> dval (pad w n) = n.
Proof. intros Hn. unfold pad. rewrite dval_zeros_app. apply dval_dec. exact Hn. Qed.

Lemma pad_digits w n : 0 <= n -> all_digits (pad w n) = true.
Proof.
  intros Hn. unfold pad. rewrite all_digits_app, zeros_digits, dec_digits by lia. reflexivity.
Qed.

Lemma pad_nonempty w n : pad w n <> [].
Proof.
  unfold pad. pose proof (dec_nonempty n). destruct (dec n); [congruence|].
  destruct (zeros (w - length (z :: s))); discriminate.
Qed.

Lemma span_all p a c r : forallb p a = true -> p c = false ->
  span p (a ++ c :: r) = (a, c :: r).
Proof.
  intros Ha Hc. induction a as [|x a' IH]; cbn [app span].
  - rewrite Hc. reflexivity.
  - cbn [forallb] in Ha. apply andb_prop in Ha. destruct Ha as [Hx Ha'].
    rewrite Hx, (IH Ha'). reflexivity.
Qed.

Lemma span_all_end p a : forallb p a = true -> span p a = (a, []).
Proof.
  intros Ha. induction a as [|x a' IH]; cbn [span]; [reflexivity|].
  cbn [forallb] in Ha. apply andb_prop in Ha. destruct Ha as [Hx Ha'].
  rewrite Hx, (IH Ha'). reflexivity.
Qed.

Lemma dval_nonneg s : all_digits s = true -> 0 <= dval s.
Proof.
  unfold dval. assert (H : forall a, 0 <= a -> all_digits s = true -> 0 <= fold_left dstep s a).
  { induction s as [|c r IH]; intros a Ha Hs; cbn [fold_left]; [exact Ha|].
    cbn [all_digits forallb] in Hs. apply andb_prop in Hs. destruct Hs as [Hc Hr].
    apply IH; [|exact Hr]. unfold dstep, is_digit in *. lia. }
  apply H. lia.
Qed.
