(* Bit strings (MSB first), unsigned fields, byte <-> bit conversion, a bit reader.
   Used by the SCTE-35 and CRC models. *)
From Verif Require Import Base.Tactics.

Definition bits := list bool.

Fixpoint put_uint (n : nat) (v : Z) : bits :=
  match n with
  | O => []
  | S k => Z.testbit v (Z.of_nat k) :: put_uint k v
  end.

Fixpoint get_uint_acc (n : nat) (bs : bits) (acc : Z) : option (Z * bits) :=
  match n with
  | O => Some (acc, bs)
  | S k => match bs with
           | [] => None
           | b :: r => get_uint_acc k r (2 * acc + (if b then 1 else 0))
           end
  end.
Definition rd (n : nat) (bs : bits) : option (Z * bits) := get_uint_acc n bs 0.

Definition b2z (b : bool) : Z := if b then 1 else 0.

Fixpoint byte_bits (l : list Z) : bits :=
  match l with [] => [] | x :: r => put_uint 8 x ++ byte_bits r end.

(* bits -> bytes, zero-padded at the end (bitstring's .bytes of a BitArray) *)
Fixpoint bits_bytes_fuel (fuel : nat) (bs : bits) : list Z :=
  match fuel with
  | O => []
  | S f => match bs with
           | [] => []
           | _ => match rd 8 (firstn 8 (bs ++ repeat false 7)) with
                  | Some (v, _) => v :: bits_bytes_fuel f (skipn 8 bs)
                  | None => []
                  end
           end
  end.
Definition bits_bytes (bs : bits) : list Z := bits_bytes_fuel (S (length bs)) bs.

Fixpoint rd_bytes (n : nat) (bs : bits) : option (list Z * bits) :=
  match n with
  | O => Some ([], bs)
  | S k => match rd 8 bs with
           | None => None
           | Some (v, r) => match rd_bytes k r with
                            | None => None
                            | Some (l, r') => Some (v :: l, r')
                            end
           end
  end.

Lemma put_uint_length n v : length (put_uint n v) = n.
Proof. induction n as [|k IH]; cbn [put_uint length]; [reflexivity|]. rewrite IH. reflexivity. Qed.

Lemma mod_pow2_step v k : 0 <= k ->
  v mod 2 ^ (k + 1) = v mod 2 ^ k + (if Z.testbit v k then 2 ^ k else 0).
Proof.
  intros Hk. rewrite Z.pow_add_r by lia. change (2 ^ 1) with 2.
  rewrite Z.rem_mul_r by lia. f_equal.
  pose proof (Z.testbit_spec' v k Hk) as Ht.
  destruct (Z.testbit v k); cbn [Z.b2z] in Ht; rewrite <- Ht; lia.
Qed.

Lemma get_put_acc n v rest acc :
  get_uint_acc n (put_uint n v ++ rest) acc = Some (acc * 2 ^ Z.of_nat n + v mod 2 ^ Z.of_nat n, rest).
Proof.
  revert acc. induction n as [|k IH]; intros acc.
  - cbn. rewrite Z.mod_1_r. f_equal. f_equal. lia.
  - cbn [put_uint app get_uint_acc]. rewrite IH. f_equal. f_equal.
    replace (Z.of_nat (S k)) with (Z.of_nat k + 1) by lia.
    rewrite mod_pow2_step by lia. rewrite Z.pow_add_r by lia. change (2 ^ 1) with 2.
    destruct (Z.testbit v (Z.of_nat k)); lia.
Qed.

(* reading back a written field *)
Theorem rd_put n v rest : 0 <= v < 2 ^ Z.of_nat n -> rd n (put_uint n v ++ rest) = Some (v, rest).
Proof.
  intros H. unfold rd. rewrite get_put_acc. rewrite Z.mod_small by lia. reflexivity.
Qed.

Lemma rd_bytes_put l rest : Forall (fun x => 0 <= x < 256) l ->
  rd_bytes (length l) (byte_bits l ++ rest) = Some (l, rest).
Proof.
  induction 1 as [|x xs Hx _ IH]; [reflexivity|].
  cbn [length rd_bytes byte_bits]. rewrite <- app_assoc.
  rewrite rd_put by (change (2 ^ Z.of_nat 8) with 256; lia). rewrite IH. reflexivity.
Qed.

Lemma byte_bits_length l : length (byte_bits l) = (8 * length l)%nat.
Proof.
  induction l as [|x xs IH]; [reflexivity|].
  cbn [byte_bits length]. rewrite app_length, put_uint_length, IH. lia.
Qed.
