(* Lists indexed by Z: the Python slice primitives the models use.
   ztake n l = l[:n] (n<=0 gives []), zdrop n l = l[n:] for n>=0 (n<=0 gives l),
   zslice a b l = l[a:b] for 0<=a. *)
From Verif Require Import Base.Tactics.

Definition zlen {A} (l : list A) : Z := Z.of_nat (length l).
Definition ztake {A} (n : Z) (l : list A) : list A := firstn (Z.to_nat n) l.
Definition zdrop {A} (n : Z) (l : list A) : list A := skipn (Z.to_nat n) l.
Definition zslice {A} (a b : Z) (l : list A) : list A := ztake (b - a) (zdrop a l).

Lemma zlen_nonneg {A} (l : list A) : 0 <= zlen l.
Proof. unfold zlen; lia. Qed.
Lemma zlen_nil {A} : zlen (@nil A) = 0.
Proof. reflexivity. Qed.
Lemma zlen_cons {A} (x : A) l : zlen (x :: l) = 1 + zlen l.
Proof. unfold zlen; cbn [length]; lia. Qed.
Lemma zlen_app {A} (l1 l2 : list A) : zlen (l1 ++ l2) = zlen l1 + zlen l2.
Proof. unfold zlen; rewrite app_length; lia. Qed.
Lemma zlen_ztake {A} n (l : list A) : zlen (ztake n l) = Z.max 0 (Z.min n (zlen l)).
Proof. unfold zlen, ztake; rewrite firstn_length; lia. Qed.
Lemma zlen_zdrop {A} n (l : list A) : zlen (zdrop n l) = Z.max 0 (zlen l - Z.max 0 n).
Proof. unfold zlen, zdrop; rewrite skipn_length; lia. Qed.
Lemma zlen_zero_nil {A} (l : list A) : zlen l = 0 -> l = [].
Proof. destruct l; [reflexivity|rewrite zlen_cons; pose proof (zlen_nonneg l); lia]. Qed.

Lemma ztake_nonpos {A} n (l : list A) : n <= 0 -> ztake n l = [].
Proof. intros H; unfold ztake; replace (Z.to_nat n) with 0%nat by lia; reflexivity. Qed.
Lemma zdrop_nonpos {A} n (l : list A) : n <= 0 -> zdrop n l = l.
Proof. intros H; unfold zdrop; replace (Z.to_nat n) with 0%nat by lia; reflexivity. Qed.
Lemma ztake_all {A} n (l : list A) : zlen l <= n -> ztake n l = l.
Proof. unfold zlen, ztake; intros H; apply firstn_all2; lia. Qed.
Lemma zdrop_all {A} n (l : list A) : zlen l <= n -> zdrop n l = [].
Proof. unfold zlen, zdrop; intros H; apply skipn_all2; lia. Qed.
Lemma ztake_zdrop_id {A} n (l : list A) : ztake n l ++ zdrop n l = l.
Proof. apply firstn_skipn. Qed.

Lemma skipn_skipn' {A} (a b : nat) (l : list A) :
  skipn a (skipn b l) = skipn (b + a) l.
Proof.
  revert l; induction b as [|b IH]; intros l; [reflexivity|].
  destruct l as [|x l]; [rewrite !skipn_nil; reflexivity|].
  cbn [skipn Nat.add]. apply IH.
Qed.
Lemma zdrop_zdrop {A} a b (l : list A) : 0 <= a -> 0 <= b ->
  zdrop a (zdrop b l) = zdrop (a + b) l.
Proof.
  intros Ha Hb; unfold zdrop; rewrite skipn_skipn'; f_equal; lia.
Qed.
Lemma ztake_ztake {A} a b (l : list A) :
  ztake a (ztake b l) = ztake (Z.min a b) l.
Proof.
  unfold ztake; rewrite firstn_firstn; f_equal; lia.
Qed.
Lemma zdrop_ztake {A} a b (l : list A) : 0 <= a ->
  zdrop a (ztake b l) = ztake (b - a) (zdrop a l).
Proof.
  intros Ha; unfold zdrop, ztake.
  rewrite skipn_firstn_comm; f_equal; lia.
Qed.
Lemma ztake_app_le {A} n (l1 l2 : list A) : n <= zlen l1 ->
  ztake n (l1 ++ l2) = ztake n l1.
Proof.
  unfold zlen, ztake; intros H; rewrite firstn_app.
  replace (Z.to_nat n - length l1)%nat with 0%nat by lia.
  cbn [firstn]; apply app_nil_r.
Qed.
Lemma ztake_app_ge {A} n (l1 l2 : list A) : zlen l1 <= n ->
  ztake n (l1 ++ l2) = l1 ++ ztake (n - zlen l1) l2.
Proof.
  unfold zlen, ztake; intros H; rewrite firstn_app.
  rewrite firstn_all2 by lia; do 2 f_equal; lia.
Qed.
Lemma zdrop_app_ge {A} n (l1 l2 : list A) : zlen l1 <= n ->
  zdrop n (l1 ++ l2) = zdrop (n - zlen l1) l2.
Proof.
  unfold zlen, zdrop; intros H; rewrite skipn_app.
  rewrite skipn_all2 by lia; cbn [app]; f_equal; lia.
Qed.
Lemma zdrop_app_le {A} n (l1 l2 : list A) : n <= zlen l1 ->
  zdrop n (l1 ++ l2) = zdrop n l1 ++ l2.
Proof.
  unfold zlen, zdrop; intros H; rewrite skipn_app.
  replace (Z.to_nat n - length l1)%nat with 0%nat by lia; reflexivity.
Qed.
Lemma firstn_add' {A} (a b : nat) (l : list A) :
  firstn (a + b) l = firstn a l ++ firstn b (skipn a l).
Proof.
  revert l; induction a as [|a IH]; intros l; [reflexivity|].
  destruct l as [|x l]; [rewrite !firstn_nil; reflexivity|].
  cbn [firstn skipn Nat.add app]. f_equal. apply IH.
Qed.
Lemma ztake_split {A} a b (l : list A) : 0 <= a -> 0 <= b ->
  ztake (a + b) l = ztake a l ++ ztake b (zdrop a l).
Proof.
  intros Ha Hb. unfold ztake, zdrop.
  replace (Z.to_nat (a + b)) with (Z.to_nat a + Z.to_nat b)%nat by lia.
  apply firstn_add'.
Qed.
