(* Universal value exchanged with the OCaml driver / the Python harness:
   an S-expression of integers.  Keeps the driver generic: all decoding of
   requests and encoding of results is Gallina and is type-checked here. *)
From Verif Require Import Base.Tactics.

Inductive val := VI (z : Z) | VL (l : list val).

Definition vint (v : val) : Z := match v with VI z => z | VL _ => 0 end.
Definition vlist (v : val) : list val := match v with VL l => l | VI _ => [] end.
Definition vints (v : val) : list Z := map vint (vlist v).
Definition of_ints (l : list Z) : val := VL (map VI l).
Definition vnth (n : nat) (v : val) : val := nth n (vlist v) (VI 0).
Definition vbool (b : bool) : val := VI (if b then 1 else 0).
Definition vopt_int (o : option Z) : val :=
  match o with Some z => VL [VI z] | None => VL [] end.
Definition as_opt_int (v : val) : option Z :=
  match v with VL (VI z :: _) => Some z | _ => None end.
(* error marker: (-1 code) *)
Definition verr (code : Z) : val := VL [VI (-1); VI code].
