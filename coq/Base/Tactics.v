(* Common header: arithmetic automation set up so that [lia] decides goals
   with boolean comparisons, [/] and [mod]. No axioms, no proofs of interest. *)
From Coq Require Export ZArith List Bool Lia ZifyBool.
Export ListNotations.
Global Open Scope Z_scope.
Ltac Zify.zify_post_hook ::= Z.to_euclidean_division_equations.

(* destruct the first boolean test found under an [if] in the goal *)
Ltac case_if :=
  match goal with
  | |- context [if ?b then _ else _] => destruct b eqn:?
  end.
Ltac case_if_in H :=
  match type of H with
  | context [if ?b then _ else _] => destruct b eqn:?
  end.
Ltac inv H := inversion H; subst; clear H.
