#!/bin/bash
# usage: dbg2.sh File.v LINE "extra tactics"  -> goal before LINE after running extra tactics
f=$1; n=$2
head -n $((n-1)) $f > /tmp/dbg_tmp.v
echo "$3 Show." >> /tmp/dbg_tmp.v
cd /verif/coq && timeout 120 coqc -Q . Verif /tmp/dbg_tmp.v 2>&1 | grep -v conda | grep -v "pending proofs" | tail -${4:-30}
