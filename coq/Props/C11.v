(* C11 - DRM key and licence data is structurally correct (the cryptographic primitives SHA-256,
   AES-ECB are external: SHA-256 enters as a Section variable with its output length, AES and the
   equality with Microsoft's published outputs are decided by the differential correspondence). *)
From Verif Require Import Base.Tactics Base.ZList Model.DrmModel Proofs.DrmProofs.

(* key ids go to little-endian GUID order exactly as RFC 4122 bytes_le; the conversion is its own inverse *)
Theorem C11_guid_rfc4122 : forall g, length g = 16%nat -> le_guid g = rfc4122_bytes_le g.
Proof. exact le_guid_is_rfc4122. Qed.
Print Assumptions C11_guid_rfc4122.
Theorem C11_guid_involutive : forall g, length g = 16%nat -> le_guid (le_guid g) = g.
Proof. exact le_guid_involutive. Qed.
Print Assumptions C11_guid_involutive.

(* content key: 16 bytes; depends only on the first 30 seed bytes and on the GUID form of the key id *)
Theorem C11_content_key_shape :
  forall sha256, (forall m, length (sha256 m) = 32%nat) ->
  forall seed kid, length (content_key sha256 seed kid) = 16%nat.
Proof. exact content_key_length. Qed.
Print Assumptions C11_content_key_shape.
Theorem C11_content_key_seed_prefix :
  forall sha256 seed1 seed2 kid, ztake 30 seed1 = ztake 30 seed2 ->
  content_key sha256 seed1 kid = content_key sha256 seed2 kid.
Proof. exact content_key_seed_prefix. Qed.
Print Assumptions C11_content_key_seed_prefix.

(* every generated PlayReady Object parses back to one record of type 1 holding the very header *)
Theorem C11_pro_roundtrip :
  forall wrm, zlen wrm < 65536 - 10 -> parse_pro (generate_pro wrm) = Some [(1, zlen wrm, wrm)].
Proof. exact parse_generate_pro. Qed.
Print Assumptions C11_pro_roundtrip.

(* base64url without padding: decoding an encoding is the identity on every byte string, and the
   text never contains + / = *)
Theorem C11_base64url :
  forall bs, Forall is_byte bs ->
  b64url_decode (b64url_encode bs) = Some bs /\
  forall c, In c (b64url_encode bs) -> c <> 43 /\ c <> 47 /\ c <> 61.
Proof. intros bs H. split; [exact (b64url_roundtrip bs H)|intros c; exact (b64url_alphabet bs c H)]. Qed.
Print Assumptions C11_base64url.

(* ClearKey licence: exactly the stored key for each requested known id (once), nothing for unknown ids *)
Theorem C11_clearkey_exact :
  forall store req kid key,
  In (kid, key) (clearkey_response store req) <-> In kid req /\ lookup store kid = Some key.
Proof. exact clearkey_exact. Qed.
Print Assumptions C11_clearkey_exact.
Theorem C11_clearkey_once : forall store req, NoDup (map fst (clearkey_response store req)).
Proof. exact clearkey_once. Qed.
Print Assumptions C11_clearkey_once.

Example C11_example :
  le_guid [1; 2; 3; 4; 5; 6; 7; 8; 9; 10; 11; 12; 13; 14; 15; 16] = [4; 3; 2; 1; 6; 5; 8; 7; 9; 10; 11; 12; 13; 14; 15; 16] /\
  b64url_encode [251; 255; 254] = [45; 95; 95; 45] /\ b64url_decode [45; 95; 95; 45] = Some [251; 255; 254] /\
  parse_pro (generate_pro [60; 0; 62; 0]) = Some [(1, 4, [60; 0; 62; 0])] /\
  clearkey_response [([1], [7]); ([2], [8])] [[2]; [3]; [2]] = [([2], [8])].
Proof. vm_compute. repeat split; reflexivity. Qed.
