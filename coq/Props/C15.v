(* C15 - Only authorised roles can change persistent state.
   Gen/RoutesTable.v is regenerated from the live application object of /repo on every run:
   one row per (URL rule, HTTP method), with the guards read from the decorator closures, a
   conservative state-changing bit and the role the documentation assigns to that handler. *)
From Verif Require Import Base.Tactics Base.ZList Model.AuthModel Proofs.AuthProofs Gen.RoutesTable Model.UserModel Proofs.UserProofs Model.UsersModel Proofs.UsersProofs.

(* no forgotten route: for EVERY row of the generated table and EVERY role, a state-changing
   method whose guards let the role through is one the role is entitled to (finite: the bound is
   the table itself; an unrecognised decorator or an unlisted handler makes this fail) *)
Theorem C15_no_forgotten_route :
  forall w, In w routes_table -> forall r,
  rw_mutates w = true -> allowed r (rw_guards w) = true -> role_ge r (rw_required w) = true.
Proof.
  assert (H : forallb row_ok routes_table = true) by (vm_compute; reflexivity).
  rewrite forallb_forall in H. intros w Hw r Hm Ha. specialize (H w Hw).
  unfold row_ok in H. rewrite forallb_forall in H.
  assert (Hr : In r all_roles) by (destruct r; cbn; auto).
  specialize (H r Hr). rewrite Hm, Ha in H. exact H.
Qed.
Print Assumptions C15_no_forgotten_route.

(* a CSRF token string is accepted at most once over ANY sequence of check calls (any cookies,
   services, tokens, any MAC function) *)
Theorem C15_csrf_once :
  forall mac calls used, NoDup (map (fun x => snd x) (run_checks mac used calls)).
Proof. exact csrf_once. Qed.
Print Assumptions C15_csrf_once.

(* acceptance means: signature = MAC(cookie ++ service ++ salt), salt = first 8 characters *)
Theorem C15_csrf_signature :
  forall mac calls used c s t, In (c, s, t) (run_checks mac used calls) ->
  skipn SALT_LEN t = mac (c ++ s ++ firstn SALT_LEN t).
Proof. exact csrf_accept_sig. Qed.
Print Assumptions C15_csrf_signature.

(* hence: a token issued for (cookie1, service1) and accepted for (cookie2, service2) was issued
   for that very cookie and service - given an injective MAC (HMAC-SHA1 is assumed collision
   free) and the service names actually used by the source, none of which is a proper suffix
   of another (checked on the generated list) *)
Theorem C15_csrf_binding :
  forall mac, (forall a b, mac a = mac b -> a = b) ->
  forall calls used c1 s1 salt c2 s2,
  length salt = SALT_LEN -> In s1 csrf_services -> In s2 csrf_services ->
  In (c2, s2, issue mac c1 s1 salt) (run_checks mac used calls) ->
  s1 = s2 /\ c1 = c2.
Proof.
  intros mac Hinj calls used c1 s1 salt c2 s2 Hl H1 H2 Hin.
  pose proof (csrf_accept_sig mac calls used c2 s2 _ Hin) as Hs.
  unfold issue in Hs. rewrite <- Hl in Hs.
  rewrite skipn_app, skipn_all, Nat.sub_diag in Hs. cbn [skipn app] in Hs.
  rewrite firstn_app, firstn_all, Nat.sub_diag in Hs. cbn [firstn] in Hs. rewrite app_nil_r in Hs.
  apply Hinj in Hs. rewrite !app_assoc in Hs. apply app_inv_tail in Hs.
  assert (Hsf : suffix_free csrf_services = true) by (vm_compute; reflexivity).
  destruct (split_unique csrf_services c1 s1 c2 s2 Hsf H1 H2 Hs) as (A & B). split; assumption.
Qed.
Print Assumptions C15_csrf_binding.

(* non-vacuity: the table contains state-changing rows behind the media group, and a replayed
   token is refused *)
Example C15_example :
  (exists w, In w routes_table /\ rw_mutates w = true /\ rw_required w = RMedia /\
             allowed Media (rw_guards w) = true /\ allowed User (rw_guards w) = false) /\
  (let mac := fun m : str => m in
   let t := issue mac [1] [2] [3; 3; 3; 3; 3; 3; 3; 3] in
   run_checks mac [] [(Some [1], [2], t); (Some [1], [2], t)] = [([1], [2], t)]).
Proof.
  split.
  - assert (H : existsb (fun w => rw_mutates w && (match rw_required w with RMedia => true | _ => false end) &&
                          allowed Media (rw_guards w) && negb (allowed User (rw_guards w))) routes_table = true)
      by (vm_compute; reflexivity).
    apply existsb_exists in H. destruct H as (w & Hw & H). exists w. split; [exact Hw|].
    destruct (rw_mutates w), (rw_required w), (allowed Media (rw_guards w)), (allowed User (rw_guards w));
      cbn in H; try discriminate; repeat split; reflexivity.
  - vm_compute. reflexivity.
Qed.

(* ---- authorisation decided inside a method body: POST /api/users/<pk> (EditUser.post), which the decorator table cannot
   see.  after u q = the row the database holds once the request has been answered *)

(* nobody but an administrator changes another account: every field of the row is as before *)
Theorem C15_edit_other_needs_admin :
  forall u q, q_admin q = false -> q_target q <> q_caller q -> after u q = u.
Proof. exact edit_other_needs_admin. Qed.
Print Assumptions C15_edit_other_needs_admin.

(* an account editing itself cannot raise its own privileges *)
Theorem C15_self_edit_no_escalation :
  forall u q, q_admin q = false ->
  u_groups (after u q) = u_groups u /\ u_name (after u q) = u_name u /\ u_must (after u q) = u_must u.
Proof. exact self_edit_no_escalation. Qed.
Print Assumptions C15_self_edit_no_escalation.

(* a password is only replaced by one that was typed twice *)
Theorem C15_password_needs_confirmation :
  forall u q, u_pw (after u q) <> u_pw u -> q_pw q = Some (q_confirm q) /\ u_pw (after u q) = q_confirm q.
Proof. exact password_needs_confirmation. Qed.
Print Assumptions C15_password_needs_confirmation.

Example C15_user_example :
  let u := {| u_name := 1; u_must := false; u_email := 2; u_pw := 3; u_groups := 1 |} in
  let q := {| q_admin := false; q_caller := 7; q_target := 7; q_name := 9; q_must := true; q_email := 5; q_pw := Some 4;
              q_confirm := 4; q_groups := 7 |} in
  after u q = {| u_name := 1; u_must := false; u_email := 5; u_pw := 4; u_groups := 1 |} /\
  after u {| q_admin := false; q_caller := 7; q_target := 8; q_name := 9; q_must := true; q_email := 5; q_pw := Some 4;
             q_confirm := 4; q_groups := 7 |} = u.
Proof. vm_compute. split; reflexivity. Qed.

(* the user table as a whole: whatever sequence of additions (PUT /api/users) and edits (POST /api/users/<pk>, by an
   administrator or by the account itself) is applied, primary keys, user names and email addresses stay unique - the
   taken-name / taken-address checks of the handlers are what keeps the database's UNIQUE constraints from ever firing *)
Theorem C15_users_unique :
  forall ops t, UInv t -> UInv (fold_left ustep ops t).
Proof. exact users_unique. Qed.
Print Assumptions C15_users_unique.

Example C15_users_example :
  let t0 := [{| a_pk := 1; a_rec := {| u_name := 1; u_must := false; u_email := 1; u_pw := 1; u_groups := 2 |} |}] in
  (* a second account with the same name is refused; with a fresh name it is added; renaming it to the taken name is refused *)
  ustep t0 (UAdd 2 1 2 5 5 2 false) = t0 /\
  length (ustep t0 (UAdd 2 2 2 5 5 2 false)) = 2%nat /\
  let t1 := ustep t0 (UAdd 2 2 2 5 5 2 false) in
  ustep t1 (UEdit {| q_admin := true; q_caller := 9; q_target := 2; q_name := 1; q_must := false; q_email := 2; q_pw := None;
                     q_confirm := 0; q_groups := 2 |}) = t1.
Proof. vm_compute. repeat split; reflexivity. Qed.
