(* C10 - Init segments carry exactly the requested protection data, nothing else changes. *)
From Verif Require Import Base.Tactics Base.ZList Model.BoxModel Proofs.BoxProofs.

(* every top-level box other than moov is passed through untouched, in the same order *)
Theorem C10_others_untouched :
  forall live psshs top,
  length (rewrite_init live psshs top) = length top /\
  map (fun b => if bytes_eqb (box_typ b) typ_moov then None else Some b) (rewrite_init live psshs top) =
  map (fun b => if bytes_eqb (box_typ b) typ_moov then None else Some b) top.
Proof. intros. split; [apply rewrite_init_length|apply rewrite_init_others]. Qed.
Print Assumptions C10_others_untouched.

(* vod: moov's children are the stored children followed by the pssh boxes, nothing else *)
Theorem C10_vod_children :
  forall psshs cs, rewrite_moov_children false psshs cs = cs ++ psshs.
Proof. exact rewrite_vod_children. Qed.
Print Assumptions C10_vod_children.

(* no pssh selected (clear track, or no selected system places data in moov) and no mehd box under moov or
   moov/mvex: the init segment is the stored one *)
Theorem C10_identity :
  forall live top,
  Forall (fun b => match b with
                   | Node t cs => bytes_eqb t typ_moov = true -> no_mehd_deep cs
                   | _ => True end) top ->
  rewrite_init live [] top = top.
Proof. exact rewrite_init_identity. Qed.
Print Assumptions C10_identity.

(* live: the mehd box goes - from moov itself and from its mvex child, where the fixtures keep it (the pinned code
   only looked under moov and left it in place: repaired in /repo) - and nothing else does: the other children keep
   their order, the pssh boxes follow *)
Theorem C10_live_mehd_removed :
  forall psshs cs, (count_typ typ_mehd (cs ++ psshs) <= 1)%nat ->
  Forall (fun x => bytes_eqb (box_typ x) typ_mehd = false) (drop_first_typ typ_mehd (cs ++ psshs)) /\
  forall ds, (count_typ typ_mehd ds <= 1)%nat ->
    Forall (fun x => bytes_eqb (box_typ x) typ_mehd = false) (drop_first_typ typ_mehd ds).
Proof. intros psshs cs H. split; [apply drop_first_removes; exact H|intros ds Hd; apply drop_first_removes; exact Hd]. Qed.
Print Assumptions C10_live_mehd_removed.

(* the result is a well-formed box stream: it parses back to the rewritten tree (sizes nest) *)
Theorem C10_wellformed :
  forall live psshs top fuel, all_wf (rewrite_init live psshs top) ->
  (weight_list (rewrite_init live psshs top) < fuel)%nat ->
  parse fuel (enc_list (rewrite_init live psshs top)) = Some (rewrite_init live psshs top).
Proof. intros. apply parse_enc; assumption. Qed.
Print Assumptions C10_wellformed.

Example C10_example :
  let mvex := Node typ_mvex [Leaf typ_mehd [2]; Leaf (fourcc 116 114 101 120) [4]] in
  let moov := Node typ_moov [Leaf (fourcc 109 118 104 100) [1]; mvex; Leaf (fourcc 116 114 97 107) [3]] in
  let pssh := Leaf typ_pssh [9; 9] in
  rewrite_init false [pssh] [Leaf (fourcc 102 116 121 112) [0]; moov] =
    [Leaf (fourcc 102 116 121 112) [0];
     Node typ_moov [Leaf (fourcc 109 118 104 100) [1]; mvex; Leaf (fourcc 116 114 97 107) [3]; pssh]] /\
  rewrite_init true [pssh] [moov] =
    [Node typ_moov [Leaf (fourcc 109 118 104 100) [1]; Node typ_mvex [Leaf (fourcc 116 114 101 120) [4]];
                    Leaf (fourcc 116 114 97 107) [3]; pssh]].
Proof. vm_compute. split; reflexivity. Qed.
