(* C17 - management histories keep the store referentially consistent.
   Model: Model/StoreModel.v (tables and cascades as the ORM declares them; one total function per
   management operation).  The invariant SInv: every media file has its stream and its blob, every blob
   is owned by exactly one file, every key link, period and adaptation set points at existing rows,
   primary keys are unique. *)
From Verif Require Import Base.Tactics Base.ZList Model.StoreModel Proofs.StoreProofs.

(* every operation, applied to any consistent store with any arguments, leaves it consistent *)
Theorem C17_invariant_step : forall s o, SInv s -> SInv (sstep s o).
Proof. exact sstep_inv. Qed.
Print Assumptions C17_invariant_step.

(* hence every finite history from the empty store - and from any consistent store - is consistent *)
Theorem C17_invariant : forall ops, SInv (srun ops).
Proof. exact srun_inv. Qed.
Print Assumptions C17_invariant.

Theorem C17_invariant_from : forall ops s, SInv s -> SInv (fold_left sstep ops s).
Proof. exact fold_inv. Qed.
Print Assumptions C17_invariant_from.

(* deleting a stream removes exactly the rows it owns: its files (with their blobs), the periods that
   play it; other streams, other streams' files, periods of other streams, keys and multi-period
   streams are untouched *)
Theorem C17_delete_stream_exact :
  forall s spk,
  (forall x, In x (streams (delete_stream s spk)) <-> In x (streams s) /\ fst x <> spk) /\
  (forall f, In f (files (delete_stream s spk)) <-> In f (files s) /\ f_stream f <> spk) /\
  (forall p, In p (periods (delete_stream s spk)) <-> In p (periods s) /\ p_stream p <> spk) /\
  keys (delete_stream s spk) = keys s /\ mpss (delete_stream s spk) = mpss s /\
  (forall b, In b (blobs (delete_stream s spk)) <->
             In b (blobs s) /\ ~ In (fst b) (map f_blob (filter (fun f => f_stream f =? spk) (files s)))).
Proof. exact delete_stream_exact. Qed.
Print Assumptions C17_delete_stream_exact.

(* the deletion as pinned upstream (no cascade to the periods that play the stream) does NOT keep the
   invariant: a three-step history after which a period points at a missing stream *)
Theorem C17_refuted_pinned :
  let s := srun [OAddStream 1 10; OAddMps 1 40; OAddPeriod 1 1 50 1] in
  invb s = true /\ invb (delete_stream_pinned s 1) = false /\
  exists p, In p (periods (delete_stream_pinned s 1)) /\ ~ In (p_stream p) (map fst (streams (delete_stream_pinned s 1))).
Proof. exact pinned_delete_breaks. Qed.
Print Assumptions C17_refuted_pinned.

Example C17_example :
  invb (srun [OAddStream 1 10; OUpload 1 1 1 20; OAddKey 1 30; OLink 1 1; OAddMps 1 40; OAddPeriod 1 1 50 1; OAddAset 1 1;
              ODelStream 1]) = true /\
  periods (srun [OAddStream 1 10; OAddMps 1 40; OAddPeriod 1 1 50 1; OAddAset 1 1; ODelStream 1]) = [] /\
  asets (srun [OAddStream 1 10; OAddMps 1 40; OAddPeriod 1 1 50 1; OAddAset 1 1; ODelStream 1]) = [] /\
  length (files (srun [OAddStream 1 10; OAddStream 2 11; OUpload 1 1 1 20; OUpload 2 2 2 20])) = 1%nat /\
  streams (srun [OAddStream 1 10; OUpload 1 1 1 20; OAddStream 2 10]) = [(2, 10)] /\
  files (srun [OAddStream 1 10; OUpload 1 1 1 20; OAddStream 2 10]) = [].
Proof. vm_compute. repeat split; reflexivity. Qed.

(* dropping a track from a Period of a multi-period stream removes exactly that adaptation set: every other table, and
   every other adaptation set - those of other Periods and other streams included - is as before *)
Theorem C17_drop_track_exact :
  forall s apk, let s' := sstep s (ODelAset apk) in
  streams s' = streams s /\ files s' = files s /\ blobs s' = blobs s /\ keys s' = keys s /\ links s' = links s /\
  mpss s' = mpss s /\ periods s' = periods s /\
  forall a, In a (asets s') <-> In a (asets s) /\ fst a <> apk.
Proof.
  intros s apk. cbn [sstep streams files blobs keys links mpss periods asets].
  do 7 (split; [reflexivity|]). intros a. rewrite filter_In. split.
  - intros [Hin Hb]. split; [exact Hin|]. apply negb_true_iff in Hb. lia.
  - intros [Hin Hne]. split; [exact Hin|]. apply negb_true_iff. lia.
Qed.
Print Assumptions C17_drop_track_exact.
