(* C13 - Byte-range requests return exactly the requested bytes. *)
From Verif Require Import Base.Tactics Base.ZList Model.RangeModel Proofs.RangeProofs.

(* Python's int(s,10) is ANY function that never returns a negative number for a
   string without '-' (the pieces of split('-') contain none). *)
Definition int_like (pyint : str -> option Z) : Prop :=
  forall s v, mem DASH s = false -> pyint s = Some v -> 0 <= v.

(* Every header string (and its absence), every resource: the segment route answers
   200+full body (no header), 400, 206 with 0<=a<=b<len, body = full[a:b+1] and
   Content-Range a-b/len, or 416 with an empty body and "bytes */len". Never a crash. *)
Theorem C13_segment_coherent :
  forall pyint, int_like pyint ->
  forall (data : list Z) (h : option str), coherent false data h (serve_segment pyint data h).
Proof. intros pyint H data h. exact (segment_coherent pyint H data h). Qed.
Print Assumptions C13_segment_coherent.

(* Same for the on-demand file route, where the header is mandatory (400 when absent)
   and the file is read at a non-negative offset (no OSError, no 5xx). *)
Theorem C13_ondemand_coherent :
  forall pyint, int_like pyint ->
  forall (file : list Z) (h : option str), coherent true file h (serve_ondemand pyint file h).
Proof. intros pyint H file h. exact (ondemand_coherent pyint H file h). Qed.
Print Assumptions C13_ondemand_coherent.

(* RFC 7233 2.1 for the three well-formed forms (sa, sb: non-empty strings without
   '-' and ',' that int() converts to a, b) *)
Theorem C13_rfc7233_first_last :
  forall pyint, int_like pyint -> forall len sa sb a b,
  well_formed sa -> well_formed sb -> pyint sa = Some a -> pyint sb = Some b ->
  get_http_range pyint len (hdr (sa ++ DASH :: sb)) =
    if (a <=? b) && (a <? len) then R206 a (Z.min b (len - 1))
    else R416 a (Z.min b (len - 1)).
Proof. intros pyint H. exact (rfc_from_to pyint H). Qed.
Print Assumptions C13_rfc7233_first_last.

Theorem C13_rfc7233_first_only :
  forall pyint, int_like pyint -> forall len sa a,
  well_formed sa -> pyint sa = Some a ->
  get_http_range pyint len (hdr (sa ++ [DASH])) =
    if a <? len then R206 a (len - 1) else R416 a (len - 1).
Proof. intros pyint H. exact (rfc_from pyint H). Qed.
Print Assumptions C13_rfc7233_first_only.

(* a suffix range longer than the resource yields the whole resource *)
Theorem C13_rfc7233_suffix :
  forall pyint, int_like pyint -> forall len sn n,
  0 <= len -> well_formed sn -> pyint sn = Some n ->
  get_http_range pyint len (hdr (DASH :: sn)) =
    if (0 <? n) && (0 <? len) then R206 (Z.max 0 (len - n)) (len - 1)
    else R416 (Z.max 0 (len - n)) (len - 1).
Proof. intros pyint H. exact (rfc_suffix pyint H). Qed.
Print Assumptions C13_rfc7233_suffix.

(* the int() used when the model is executed against the code meets int_like *)
Theorem C13_exec_int_is_int_like : int_like pyint_latin1.
Proof. exact pyint_latin1_nonneg. Qed.
Print Assumptions C13_exec_int_is_int_like.

(* non-vacuity: "bytes=-100000" on a 5-byte resource is the whole resource;
   "bytes=2-9" is clamped; "bytes=7-" is unsatisfiable *)
Example C13_example :
  let d := [10; 11; 12; 13; 14] in
  serve_segment pyint_latin1 d (hdr [45; 49; 48; 48; 48; 48; 48]) = Resp 206 d (CRrange 0 4 5) /\
  serve_segment pyint_latin1 d (hdr [50; 45; 57]) = Resp 206 [12; 13; 14] (CRrange 2 4 5) /\
  serve_segment pyint_latin1 d (hdr [55; 45]) = Resp 416 [] (CRstar 5) /\
  serve_ondemand pyint_latin1 d None = Resp 400 [] CRnone.
Proof. vm_compute. auto. Qed.
