(* C04 - ISO-BMFF parse/encode round-trips byte-exactly (framing level).
   Model/BoxModel.v: a box is a container (moov trak traf moof minf mvex mdia schi sinf stbl udta)
   with child boxes, or an opaque payload; headers use the 32-bit size form. *)
From Verif Require Import Base.Tactics Base.ZList Model.BoxModel Proofs.BoxProofs.
From Verif Require Model.FieldModel Proofs.FieldProofs.

(* encode then parse: every well-formed forest (4-byte types, container table respected, sizes
   below 2^32), any depth and length *)
Theorem C04_parse_encode :
  forall l fuel, all_wf l -> (weight_list l < fuel)%nat -> parse fuel (enc_list l) = Some l.
Proof. intros l fuel. exact (parse_enc fuel l). Qed.
Print Assumptions C04_parse_encode.

(* parse then encode reproduces the input bytes exactly: every byte string the parser accepts *)
Theorem C04_encode_parse :
  forall fuel bs l, Forall is_byte bs -> parse fuel bs = Some l -> enc_list l = bs.
Proof. exact enc_parse. Qed.
Print Assumptions C04_encode_parse.

(* field level: 32- and 64-bit big-endian integers read back what was written *)
Theorem C04_be32 : forall v r, 0 <= v < 4294967296 -> rd32 (be32 v ++ r) = Some (v, r).
Proof. exact rd32_be32. Qed.
Print Assumptions C04_be32.
Theorem C04_be64 : forall v r, 0 <= v < 18446744073709551616 -> rd64 (be64 v ++ r) = Some (v, r).
Proof. exact rd64_be64. Qed.
Print Assumptions C04_be64.

(* recorded finding (size-forms): a box whose header uses the 64-bit largesize form (size = 1)
   is not reproduced: the encoder only writes the 32-bit form.  The model's parser rejects such
   input, the library accepts it and re-encodes 8 bytes shorter. *)
Example C04_largesize_not_modelled :
  parse 5 [0; 0; 0; 1; 102; 114; 101; 101; 0; 0; 0; 0; 0; 0; 0; 16] = None.
Proof. vm_compute. reflexivity. Qed.

Example C04_example :
  let t := [Node (fourcc 109 111 111 102) [Leaf (fourcc 109 102 104 100) [0; 0; 0; 0; 0; 0; 0; 7]];
            Leaf (fourcc 109 100 97 116) [1; 2; 3]] in
  all_wf t /\ parse 10 (enc_list t) = Some t /\ zlen (enc_list t) = 35.
Proof. vm_compute. repeat split; try reflexivity; try discriminate. Qed.

(* ---- typed field codecs: for EVERY layout (the layouts of mvhd, tkhd, mdhd, mehd, tfdt, mfhd, trex, tfhd,
   trun, saio, tenc, pssh for every version / flags / count are instances, Model/FieldModel.layout_of):
   decoding what was encoded returns the values, and whatever the decoder accepts re-encodes to exactly
   the bytes it consumed *)
Theorem C04_typed_decode_encode :
  forall l vs, FieldModel.vals_ok l vs ->
  exists bs, FieldModel.enc_fields l vs = Some bs /\ forall rest, FieldModel.dec_fields l (bs ++ rest) = Some (vs, rest).
Proof. exact FieldProofs.dec_enc. Qed.
Print Assumptions C04_typed_decode_encode.

Theorem C04_typed_encode_decode :
  forall l bs vs rest, Forall FieldProofs.is_byte bs -> FieldModel.dec_fields l bs = Some (vs, rest) ->
  exists pre, FieldModel.enc_fields l vs = Some pre /\ bs = pre ++ rest /\ FieldModel.vals_ok l vs.
Proof. exact FieldProofs.enc_dec. Qed.
Print Assumptions C04_typed_encode_decode.

Example C04_typed_example :
  (* mdhd version 1: the timescale stays 32 bits wide while the times are 64 bits *)
  FieldModel.dec_fields (FieldModel.layout_of 0 1 0 0 0)
    ([1; 0; 0; 0] ++ [0;0;0;0;0;0;0;5] ++ [0;0;0;0;0;0;0;6] ++ [0;1;95;144] ++ [0;0;0;1;0;0;0;0] ++ [85;196] ++ [0;0])
  = Some ([FieldModel.VU 1; FieldModel.VU 0; FieldModel.VU 5; FieldModel.VU 6; FieldModel.VU 90000; FieldModel.VU 4294967296;
           FieldModel.VU 21956; FieldModel.VU 0], []) /\
  length (FieldModel.layout_of 8 0 769 3 0) = 10%nat.
Proof. vm_compute. split; reflexivity. Qed.

(* ---- senc / saiz: whatever the encoder writes for the samples of a senc box is, sample by sample, exactly as long as
   the auxiliary-information size saiz lists for that sample (IV, plus 2 + 6k with k subsamples), for every flags
   value, IV size and subsample count list *)
Theorem C04_senc_bytes_match_saiz_sizes :
  forall flags iv counts vs bs,
    FieldModel.enc_fields (FieldModel.l_senc_samples flags iv counts) vs = Some bs ->
    length bs = list_sum (map (FieldProofs.senc_sample_size flags iv) counts).
Proof. intros flags iv counts vs bs H. rewrite (FieldProofs.enc_fields_length _ _ _ H). exact (FieldProofs.senc_samples_len flags iv counts). Qed.
Print Assumptions C04_senc_bytes_match_saiz_sizes.

(* ---- emsg (the box C14's events travel in): the reader finds the layout from the bytes alone (the two NUL-terminated
   strings decide where the numbers and the message data start); for both box versions, every NUL-free scheme / value
   string, every field value in range and every message data, what is written is read back as the same values with
   nothing left over.  A string with a NUL inside is cut short by any reader (FieldProofs.cstr_nul_inside), which is
   why no_nul is a hypothesis and not a convenience. *)
Theorem C04_emsg_v0_roundtrip :
  forall flags s1 s2 a b c d data,
  let l := FieldModel.l_emsg 0 (S (length s1)) (S (length s2)) (length data) in
  let vs := [FieldModel.VU 0; FieldModel.VU flags; FieldModel.VB (s1 ++ [0]); FieldModel.VB (s2 ++ [0]);
             FieldModel.VU a; FieldModel.VU b; FieldModel.VU c; FieldModel.VU d; FieldModel.VB data] in
  FieldProofs.no_nul s1 -> FieldProofs.no_nul s2 -> FieldModel.vals_ok l vs ->
  exists bs, FieldModel.enc_fields l vs = Some bs /\ FieldModel.emsg_layout bs = Some l /\
             FieldModel.dec_fields l bs = Some (vs, []).
Proof. exact FieldProofs.emsg_selfdescribing_v0. Qed.
Print Assumptions C04_emsg_v0_roundtrip.

Theorem C04_emsg_v1_roundtrip :
  forall flags s1 s2 a b c d data,
  let l := FieldModel.l_emsg 1 (S (length s1)) (S (length s2)) (length data) in
  let vs := [FieldModel.VU 1; FieldModel.VU flags; FieldModel.VU a; FieldModel.VU b; FieldModel.VU c; FieldModel.VU d;
             FieldModel.VB (s1 ++ [0]); FieldModel.VB (s2 ++ [0]); FieldModel.VB data] in
  FieldProofs.no_nul s1 -> FieldProofs.no_nul s2 -> FieldModel.vals_ok l vs ->
  exists bs, FieldModel.enc_fields l vs = Some bs /\ FieldModel.emsg_layout bs = Some l /\
             FieldModel.dec_fields l bs = Some (vs, []).
Proof. exact FieldProofs.emsg_selfdescribing_v1. Qed.
Print Assumptions C04_emsg_v1_roundtrip.

Theorem C04_cstr_len_sound :
  forall bs n, FieldModel.cstr_len bs = Some n ->
  exists s rest, bs = s ++ 0 :: rest /\ FieldProofs.no_nul s /\ n = S (length s).
Proof. exact FieldProofs.cstr_len_sound. Qed.
Print Assumptions C04_cstr_len_sound.

Example C04_emsg_example :
  (* version 0, scheme "u", value "", timescale 1000, delta 2, duration 3, id 4, data [9] *)
  FieldModel.emsg_layout ([0;0;0;0] ++ [117;0] ++ [0] ++ [0;0;3;232] ++ [0;0;0;2] ++ [0;0;0;3] ++ [0;0;0;4] ++ [9])
  = Some (FieldModel.l_emsg 0 2 1 1) /\
  FieldProofs.no_nul [117] /\
  FieldModel.vals_ok (FieldModel.l_emsg 0 2 1 1)
    [FieldModel.VU 0; FieldModel.VU 0; FieldModel.VB [117; 0]; FieldModel.VB [0]; FieldModel.VU 1000; FieldModel.VU 2;
     FieldModel.VU 3; FieldModel.VU 4; FieldModel.VB [9]].
Proof. split; [vm_compute; reflexivity|]. split; [repeat constructor; discriminate|]. cbn. repeat split; lia. Qed.
