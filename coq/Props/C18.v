(* C18 - the bundled validator accepts what the server generates and flags corruptions.
   Proved here, on the validator's per-segment decision predicates (Model/ValidatorModel.v, a
   transcription of media_segment.py): no false positive on any segment that has the properties the
   server guarantees (C03 offsets, C02/C06 numbering and timing), and detection of each segment-level
   corruption of the catalogue, with the magnitudes the predicates impose (a decode-time error within
   the tolerance is NOT detected - proved as such).  The traversal, fetching and XML handling of the
   validator, and the manifest-level catalogue entries, are exercised on the real validator by the
   harness (C18 is PARTIAL, see DESIGN.md). *)
From Verif Require Import Base.Tactics Base.ZList Model.ValidatorModel Proofs.ValidatorProofs.

Theorem C18_no_false_positive : forall f, server_made f -> seg_errors f = [].
Proof. exact server_made_ok. Qed.
Print Assumptions C18_no_false_positive.

Theorem C18_detects_sequence_number :
  forall f e v, server_made f -> g_expected_seq f = Some e -> v <> g_seq f -> In ESeq (seg_errors (set_seq f v)).
Proof. exact detect_seq. Qed.
Print Assumptions C18_detects_sequence_number.

Theorem C18_detects_decode_time :
  forall f e v, server_made f -> g_expected_decode f = Some e ->
  g_tolerance f < Z.abs (v - g_decode f) -> In EDecode (seg_errors (set_decode f v)).
Proof. exact detect_decode. Qed.
Print Assumptions C18_detects_decode_time.

(* ... and only then: within the tolerance the validator is silent about the decode time *)
Theorem C18_decode_time_tolerance :
  forall f e v, server_made f -> g_expected_decode f = Some e ->
  Z.abs (v - g_decode f) <= g_tolerance f -> ~ In EDecode (seg_errors (set_decode f v)).
Proof. exact accept_decode_within. Qed.
Print Assumptions C18_decode_time_tolerance.

Theorem C18_detects_trun_offset : forall f d, server_made f -> d <> 0 -> In ETrunOffset (seg_errors (shift_trun f d)).
Proof. exact detect_trun. Qed.
Print Assumptions C18_detects_trun_offset.

Theorem C18_detects_saio_offset :
  forall f d, server_made f -> g_encrypted f = true -> d <> 0 -> In ESaioOffset (seg_errors (shift_saio f d)).
Proof. exact detect_saio. Qed.
Print Assumptions C18_detects_saio_offset.

Theorem C18_detects_missing_segment : forall f, g_status f <> 200 -> seg_errors f = [EStatus].
Proof. exact detect_status. Qed.
Print Assumptions C18_detects_missing_segment.

Theorem C18_timeline_gap : forall s1 d1 s2 d2 r, s1 + d1 <> s2 -> contiguous ((s1, d1) :: (s2, d2) :: r) = false.
Proof. exact contiguous_gap. Qed.
Print Assumptions C18_timeline_gap.

Example C18_example :
  let f := {| g_status := 200; g_has_moof := true; g_has_mdat := true; g_first_sample := 700; g_payload_start := 700;
              g_last_sample_end := 900; g_mdat_end := 900; g_encrypted := true; g_has_senc := true; g_has_saio := true;
              g_saio_entries := 1; g_saio_target := 300; g_senc_first := 300; g_trun_n := 4; g_senc_n := 4; g_seq := 7;
              g_expected_seq := Some 7; g_decode := 5760; g_expected_decode := Some 5760; g_tolerance := 10; g_duration := 960;
              g_expected_duration := Some 960; g_timescale := 240 |} in
  seg_errors f = [] /\ seg_errors (set_seq f 8) = [ESeq] /\ seg_errors (set_decode f 5770) = [] /\
  seg_errors (set_decode f 5771) = [EDecode] /\ seg_errors (shift_trun f 8) = [ETrunOffset; ETrunEnd] /\
  seg_errors (shift_saio f (-4)) = [ESaioOffset] /\
  contiguous (expand_tl [(Some 0, 960, 2); (None, 480, 0)] 0) = true /\
  contiguous (expand_tl [(Some 0, 960, 2); (Some 3000, 480, 0)] 0) = false.
Proof. vm_compute. repeat split; reflexivity. Qed.

(* ---- manifest level (Manifest.validate_self and the cross-refresh check) *)
Theorem C18_manifest_no_false_positive : forall f, server_manifest f -> manifest_errors f = [].
Proof. exact server_manifest_ok. Qed.
Print Assumptions C18_manifest_no_false_positive.

Theorem C18_detects_missing_availabilityStartTime : forall f, m_live f = true -> In MAst (manifest_errors (drop_ast f)).
Proof. exact detect_missing_ast. Qed.
Print Assumptions C18_detects_missing_availabilityStartTime.

Theorem C18_detects_missing_minBufferTime : forall f, In MMinBuf (manifest_errors (drop_minbuf f)).
Proof. exact detect_missing_minbuf. Qed.
Print Assumptions C18_detects_missing_minBufferTime.

Theorem C18_detects_changed_availabilityStartTime :
  forall f a v, m_live f = true -> m_prev_ast f = Some a -> v <> a -> In MAstChanged (manifest_errors (change_ast f v)).
Proof. exact detect_ast_change. Qed.
Print Assumptions C18_detects_changed_availabilityStartTime.

(* the tolerance the validator grants is never negative, so C18_no_false_positive applies to it *)
Theorem C18_tolerance_nonnegative :
  forall ts n d idx a, 0 <= ts -> 0 < n -> 0 < d ->
    0 <= tol_template ts n d idx a /\ 0 <= tol_timeline ts n d a.
Proof. intros ts n d idx a Ht Hn Hd. split; [apply tol_nonneg_template; assumption | apply tol_nonneg_timeline; assumption]. Qed.
Print Assumptions C18_tolerance_nonnegative.
