(* C20 - The windowed buffered reader behaves exactly like a slice of the file.
   Only statements, each closed by [exact] of a lemma from Proofs/. *)
From Verif Require Import Base.Tactics Base.ZList Model.BufReaderModel Proofs.BufReaderProofs.

(* For every file, window (offset,size) inside the file, buffer size >= 1, cache
   limit >= 1 and EVERY operation sequence, each output of the transcription of
   BufferedReader equals the output of an in-memory stream over the window
   (spec_step): read(n) returns exactly the next min(n,remaining) window bytes
   and advances by that much, read(-1) the whole remainder, seek/tell the
   position clamped to [0,size]; peek(n>=1) returns a byte string whose first
   min(n,remaining) bytes are the window's next bytes and leaves the position
   unchanged (peek(n<=0) is the AssertionError the code raises). *)
Theorem C20_refines :
  forall (file : list Z) (off bs maxb sz : Z) (ops : list op),
    1 <= bs -> 1 <= maxb -> 0 <= off -> 0 <= sz -> off + sz <= zlen file ->
    let g := {| g_offset := off; g_bs := bs; g_maxb := maxb |} in
    obs_ok file g sz 0 ops (run file g (init_state (Some sz)) ops).
Proof.
  intros file off bs maxb sz ops H1 H2 H3 H4 H5 g.
  exact (refines file g sz H1 H2 H3 H4 H5 ops).
Qed.
Print Assumptions C20_refines.

(* positions clamp to [0,size] in the specification stream *)
Theorem C20_positions_clamped :
  forall (file : list Z) (off sz p : Z) (o : op),
    0 <= off -> 0 <= sz -> off + sz <= zlen file -> 0 <= p <= sz ->
    let g := {| g_offset := off; g_bs := 1; g_maxb := 1 |} in
    0 <= fst (spec_step (window file off sz) p o) <= sz.
Proof.
  intros file off sz p o H3 H4 H5 Hp g.
  exact (spec_pos_range file g sz H3 H4 H5 p o Hp).
Qed.
Print Assumptions C20_positions_clamped.

(* Evicting cached buffers never changes the data returned: all outputs
   (peek included, byte for byte) are independent of max_buffers. *)
Theorem C20_eviction_irrelevant :
  forall (file : list Z) (off bs sz m1 m2 : Z) (ops : list op),
    1 <= bs -> 1 <= m1 -> 1 <= m2 ->
    run file {| g_offset := off; g_bs := bs; g_maxb := m1 |} (init_state (Some sz)) ops =
    run file {| g_offset := off; g_bs := bs; g_maxb := m2 |} (init_state (Some sz)) ops.
Proof.
  intros file off bs sz m1 m2 ops H1 H2 H3.
  exact (eviction_irrelevant file off bs sz m1 m2 H2 H3 ops).
Qed.
Print Assumptions C20_eviction_irrelevant.

(* Non-vacuity: a window that is not aligned to the bucket size, three buckets
   wide, with an eviction (max_buffers = 2), and outputs that are not trivial. *)
Example C20_example :
  let file := map Z.of_nat (seq 0 40) in
  let g := {| g_offset := 5; g_bs := 4; g_maxb := 2 |} in
  run file g (init_state (Some 11))
      [Read 3; Peek 2; Seek (-2) 2; Read 10; Seek 1 0; Read (-1); Tell; Read 1] =
  [OBytes [5;6;7]; OBytes [8;9;10;11;12]; OInt 9; OBytes [14;15]; OInt 1;
   OBytes [6;7;8;9;10;11;12;13;14;15]; OInt 11; OBytes []].
Proof. vm_compute. reflexivity. Qed.
