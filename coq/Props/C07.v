(* C07 - Options given to a manifest reach its media requests with the same meaning.
   Gen/OptionsTable.v is regenerated from OptionsRepository of /repo on every run. *)
From Verif Require Import Base.Tactics Base.ZList Base.Str Model.IsoTimeModel Model.OptionsModel Proofs.OptionsProofs Gen.OptionsTable.

(* formatting a value to its URL text, carrying it through the query string and parsing it at
   the media endpoint is the identity - for every legal value (unbounded: every integer, every
   URL-plain string and list of tokens, every error list with integer positions, every symbolic or date-time
   availabilityStartTime with any UTC offset, every licence URL, every PlayReady version with one fractional digit) of the ten kinds *)
Theorem C07_roundtrip :
  forall k v, legal k v = true -> through_url k v = Some v.
Proof. exact roundtrip. Qed.
Print Assumptions C07_roundtrip.

(* DRM selections: every list of (system, non-empty location set) comes back as its canonical form - itself, unless it
   names every system with every location, which is written "all" and comes back in the repository's order - and the
   canonical form lists exactly the same pairs *)
Theorem C07_drm_roundtrip :
  forall l, legal_drm l = true ->
  through_url KDrm (VDrm l) = Some (VDrm (drm_canon l)) /\ forall i, In i (drm_canon l) <-> In i l.
Proof. intros l H. split; [exact (drm_roundtrip l H)|exact (drm_canon_same l H)]. Qed.
Print Assumptions C07_drm_roundtrip.

(* licence URLs: ANY text arrives unchanged - reserved characters, '+' and '%XX' included (quote_plus on the way out,
   one decoding by the query-string layer on the way in; the second decoding that from_string used to apply was a
   defect, repaired in /repo) *)
Theorem C07_url_any_text :
  forall s, forallb is_byte s = true -> is_none_text s = false ->
  through_url KUrl (VOptStr (Some s)) = Some (VOptStr (Some s)).
Proof. intros s Hb Hn. apply roundtrip. cbn [legal]. rewrite Hb, Hn. reflexivity. Qed.
Print Assumptions C07_url_any_text.

(* every registered option has a recognised codec pair (finite: the generated table) ... *)
Theorem C07_table_known :
  forall r, In r options_table -> modelled_kind (o_kind r) = true.
Proof.
  assert (H : forallb (fun r => modelled_kind (o_kind r)) options_table = true) by (vm_compute; reflexivity).
  rewrite forallb_forall in H. exact H.
Qed.
Print Assumptions C07_table_known.

(* ... and no option is left whose kind is NOT covered by C07_roundtrip / C07_drm_roundtrip (the PlayReady version, a
   float, is covered for values with one fractional digit - the listed choices 1.0 .. 4.0 are of that form) *)
Definition unproved_cgi : list str :=
  map (map (fun c => c)) (map o_cgi (filter (fun r => negb (proved_kind (o_kind r))) options_table)).
Theorem C07_table_proved :
  forall r, In r options_table -> proved_kind (o_kind r) = true \/ In (o_cgi r) unproved_cgi.
Proof.
  intros r Hr. destruct (proved_kind (o_kind r)) eqn:E; [left; reflexivity|right].
  unfold unproved_cgi. rewrite map_map. apply in_map_iff. exists r. split; [apply map_id|].
  apply filter_In. split; [exact Hr|]. rewrite E. reflexivity.
Qed.
Print Assumptions C07_table_proved.
Example C07_unproved_count : length unproved_cgi = 0%nat.
Proof. vm_compute. reflexivity. Qed.

(* an option is written into the URLs of media type m exactly when its usage mask contains m
   and its value differs from the default *)
Theorem C07_forwarding :
  forall m r d, forwarded m r d = true <-> d = true /\ Z.land (o_usage r) m <> 0.
Proof.
  intros m r d. unfold forwarded. destruct d; cbn [andb].
  - destruct (Z.land (o_usage r) m =? 0) eqn:E; cbn [negb]; split; intros H; try discriminate.
    + destruct H as (_ & H). lia.
    + split; [reflexivity|lia].
    + reflexivity.
  - split; [discriminate|intros (H & _); discriminate].
Qed.
Print Assumptions C07_forwarding.

(* non-vacuity: depth=none, leeway=-3, a list, and a value the URL layer would damage *)
Example C07_example :
  through_url KIntOrNone (VOptInt None) = Some (VOptInt None) /\
  through_url KIntOrNone (VOptInt (Some (-3))) = Some (VOptInt (Some (-3))) /\
  through_url KList (VList [[112; 105; 110; 103]; [115; 99; 116; 101; 51; 53]]) =
    Some (VList [[112; 105; 110; 103]; [115; 99; 116; 101; 51; 53]]) /\
  legal KStrOrNone (VOptStr (Some [97; 43; 98])) = false /\
  through_url KStrOrNone (VOptStr (Some [97; 43; 98])) = Some (VOptStr (Some [97; 32; 98])).
Proof. vm_compute. repeat split; reflexivity. Qed.
