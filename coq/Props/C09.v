(* C09 - Successive manifests evolve consistently (timeline half; publishTime and
   availabilityStartTime are C08's theorems, restated here for the pair of instants). *)
From Verif Require Import Base.Tactics Base.ZList Model.IsoTimeModel Model.SegModel
  Proofs.SegProofs Proofs.SegServeProofs.
From Verif Require Model.TimingModel Proofs.TimingProofs.

(* two live manifests of one representation (same options, any two instants, any depth)
   agree on every segment they both list: same start => same duration and same source segment *)
Theorem C09_agree :
  forall r, rep_ok r -> forall fta1 tsbd1 fta2 tsbd2 t d1 m1 d2 m2,
  0 <= fta1 -> 0 <= fta2 ->
  In (t, d1, m1) (live_timeline r fta1 tsbd1) -> In (t, d2, m2) (live_timeline r fta2 tsbd2) ->
  m1 = m2 /\ d1 = d2.
Proof. exact timelines_agree. Qed.
Print Assumptions C09_agree.

(* the listed window only moves forward *)
Theorem C09_window_forward :
  forall r, rep_ok r -> forall fta1 fta2, 0 <= fta1 -> fta1 <= fta2 ->
  first_start r fta1 <= first_start r fta2.
Proof. exact window_forward. Qed.
Print Assumptions C09_window_forward.

Theorem C09_first_entry :
  forall r fta tsbd e rest, live_timeline r fta tsbd = e :: rest -> fst (fst e) = first_start r fta.
Proof. exact live_timeline_head. Qed.
Print Assumptions C09_first_entry.

(* publishTime never moves backward while availabilityStartTime is the same (C08) *)
Theorem C09_publish_monotone :
  forall now1 now2 dom1 doy1 dom2 doy2 seg_dur timescale o,
  60 * TimingModel.SEC <= now1 -> now1 <= now2 ->
  TimingProofs.calendar_ok dom1 doy1 -> TimingProofs.calendar_ok dom2 doy2 ->
  TimingProofs.start_ok now1 (TimingModel.o_start o) ->
  let L1 := TimingModel.live_params now1 dom1 doy1 seg_dur timescale o in
  let L2 := TimingModel.live_params now2 dom2 doy2 seg_dur timescale o in
  TimingModel.l_ast L1 = TimingModel.l_ast L2 -> TimingModel.l_publish L1 <= TimingModel.l_publish L2.
Proof. exact TimingProofs.monotone. Qed.
Print Assumptions C09_publish_monotone.

(* the window start (firstAvailableTime) moves forward between two instants that resolve the
   same availabilityStartTime and the same (unclamped) timeShiftBufferDepth *)
Theorem C09_fta_monotone :
  forall now1 now2 dom1 doy1 dom2 doy2 seg_dur timescale o,
  60 * TimingModel.SEC <= now1 -> now1 <= now2 ->
  TimingProofs.calendar_ok dom1 doy1 -> TimingProofs.calendar_ok dom2 doy2 ->
  TimingProofs.start_ok now1 (TimingModel.o_start o) ->
  let L1 := TimingModel.live_params now1 dom1 doy1 seg_dur timescale o in
  let L2 := TimingModel.live_params now2 dom2 doy2 seg_dur timescale o in
  TimingModel.l_ast L1 = TimingModel.l_ast L2 -> TimingModel.l_tsbd L1 = TimingModel.l_tsbd L2 ->
  TimingModel.l_fta L1 <= TimingModel.l_fta L2.
Proof.
  intros now1 now2 dom1 doy1 dom2 doy2 sd ts o Hn1 Hle Hc1 Hc2 Hs1 L1 L2 Hast Htsbd.
  assert (Hs2 : TimingProofs.start_ok now2 (TimingModel.o_start o)).
  { destruct (TimingModel.o_start o); cbn in *; auto. lia. }
  assert (Hn2 : 60 * TimingModel.SEC <= now2) by lia.
  destruct (TimingProofs.coherent now1 dom1 doy1 sd ts o Hn1 Hc1 Hs1) as (_ & _ & _ & _ & Hf1 & _).
  destruct (TimingProofs.coherent now2 dom2 doy2 sd ts o Hn2 Hc2 Hs2) as (_ & _ & _ & _ & Hf2 & _).
  destruct (TimingProofs.ast_elapsed now1 dom1 doy1 sd ts o Hn1 Hc1 Hs1) as (He1 & _).
  destruct (TimingProofs.ast_elapsed now2 dom2 doy2 sd ts o Hn2 Hc2 Hs2) as (He2 & _).
  fold L1 in Hf1, He1. fold L2 in Hf2, He2. lia.
Qed.
Print Assumptions C09_fta_monotone.

(* recorded finding (young-stream): while the stream is younger than the requested depth the
   depth is clamped to whole elapsed seconds, so firstAvailableTime = fractional part of the
   age, which goes up and down: the listed window moves BACKWARD (age 4.875 s -> 25.639689 s) *)
Theorem C09_refuted_young_stream :
  exists now1 now2 o, (now1 <= now2) /\
    (let L1 := TimingModel.live_params now1 1 1 960 240 o in
     let L2 := TimingModel.live_params now2 1 1 960 240 o in
     (TimingModel.l_ast L1 = TimingModel.l_ast L2) /\ (TimingModel.l_fta L2 < TimingModel.l_fta L1)).
Proof.
  exists (100000000 + 4875000), (100000000 + 25639689),
         {| TimingModel.o_start := TimingModel.SExplicit 100000000; TimingModel.o_depth := Some 61;
            TimingModel.o_mup := None; TimingModel.o_leeway := None |}.
  vm_compute. repeat split; try discriminate; reflexivity.
Qed.
Print Assumptions C09_refuted_young_stream.

Example C09_example :
  let r := {| r_ts := 10; r_durs := [10; 7; 13]; r_start_number := 1; r_seg_dur := 10; r_lr := 30; r_start_time := 0 |} in
  live_timeline r 4000000 3 = [(40, 7, 2); (47, 13, 3); (60, 10, 1)] /\
  live_timeline r 5500000 3 = [(60, 10, 1); (70, 7, 2); (77, 13, 3)] /\
  first_start r 4000000 = 40 /\ first_start r 5500000 = 60.
Proof. vm_compute. repeat split; reflexivity. Qed.
