(* C08 - Live timing parameters are coherent for every clock and option.
   Model: Model/TimingModel.v (DashTiming.calculate_live_params); instants and durations
   are microseconds.  The civil calendar enters through dom/doy (day of month / year of
   [now]) under calendar_ok only. *)
From Verif Require Import Base.Tactics Model.TimingModel Proofs.TimingProofs.

(* availabilityStartTime <= now; publishTime in [ast, now] on a whole second;
   0 <= timeShiftBufferDepth <= now - ast; firstAvailableTime = elapsed - depth >= 0.
   For every clock >= 1970-01-01T00:01:00Z, symbolic or explicit whole-second start <= now,
   ANY depth, mup, leeway option values, any reference segment duration and timescale. *)
Theorem C08_coherent :
  forall now dom doy seg_dur timescale o,
  60 * SEC <= now -> calendar_ok dom doy -> start_ok now (o_start o) ->
  let L := live_params now dom doy seg_dur timescale o in
  l_ast L <= now /\
  l_ast L <= l_publish L <= now /\
  l_publish L mod SEC = 0 /\
  0 <= l_tsbd L * SEC <= l_elapsed L /\
  l_fta L = l_elapsed L - l_tsbd L * SEC /\ 0 <= l_fta L.
Proof. intros. exact (coherent now dom doy seg_dur timescale o H H0 H1). Qed.
Print Assumptions C08_coherent.

Theorem C08_elapsed :
  forall now dom doy seg_dur timescale o,
  60 * SEC <= now -> calendar_ok dom doy -> start_ok now (o_start o) ->
  let L := live_params now dom doy seg_dur timescale o in
  l_elapsed L = now - l_ast L /\ 0 < l_elapsed L /\ l_ast L mod SEC = 0.
Proof. intros. exact (ast_elapsed now dom doy seg_dur timescale o H H0 H1). Qed.
Print Assumptions C08_elapsed.

(* with a minimumUpdatePeriod p: publishTime = ast + k*p, lag < p seconds (hence < p+1 s) *)
Theorem C08_quantised :
  forall now dom doy seg_dur timescale o p,
  60 * SEC <= now -> calendar_ok dom doy -> start_ok now (o_start o) ->
  let L := live_params now dom doy seg_dur timescale o in
  l_mup L = Some p ->
  1 <= p /\ (exists k, 0 <= k /\ l_publish L = l_ast L + k * p * SEC) /\
  0 <= now - l_publish L < p * SEC.
Proof. intros now dom doy sd ts o p H H0 H1. exact (quantised now dom doy sd ts o H H0 H1 p). Qed.
Print Assumptions C08_quantised.

(* never decreases as now advances - for two instants that resolve the same ast *)
Theorem C08_monotone_partial :
  forall now1 now2 dom1 doy1 dom2 doy2 seg_dur timescale o,
  60 * SEC <= now1 -> now1 <= now2 ->
  calendar_ok dom1 doy1 -> calendar_ok dom2 doy2 ->
  start_ok now1 (o_start o) ->
  let L1 := live_params now1 dom1 doy1 seg_dur timescale o in
  let L2 := live_params now2 dom2 doy2 seg_dur timescale o in
  l_ast L1 = l_ast L2 -> l_publish L1 <= l_publish L2.
Proof. exact monotone. Qed.
Print Assumptions C08_monotone_partial.

Theorem C08_symbolic_age :
  forall now dom doy seg_dur timescale o,
  60 * SEC <= now -> calendar_ok dom doy -> start_ok now (o_start o) ->
  symbolic (o_start o) = true ->
  60 * SEC <= l_elapsed (live_params now dom doy seg_dur timescale o).
Proof. intros now dom doy sd ts o H H0 H1. exact (symbolic_age now dom doy sd ts o H H0). Qed.
Print Assumptions C08_symbolic_age.

Theorem C08_same_day :
  forall now1 now2 dom doy s,
  day_start now1 = day_start now2 ->
  day_start now1 + 60 * SEC <= now1 -> day_start now2 + 60 * SEC <= now2 ->
  calendar_ok dom doy ->
  s = SEpoch \/ s = SToday \/ s = SMonth \/ s = SYear ->
  resolve_ast now1 dom doy s = resolve_ast now2 dom doy s.
Proof. exact same_day. Qed.
Print Assumptions C08_same_day.

Theorem C08_now_follows :
  forall now dom doy,
  let a := resolve_ast now dom doy SNow in 60 * SEC <= now - a < 61 * SEC.
Proof. exact now_follows. Qed.
Print Assumptions C08_now_follows.

(* ---- recorded findings: the full statement is false of the faithful model ---- *)

(* (rollover) "publishTime never decreases as now advances" fails across the roll-over of a
   symbolic start when p does not divide a day: start=today, mup=7,
   now1 = day 19000 00:00:59.9 -> publish 00:00:57 ; now2 = 00:01:00.1 -> publish 00:00:56 *)
Theorem C08_refuted_rollover :
  exists now1 now2 o,
    now1 <= now2 /\
    l_publish (live_params now2 5 5 960 240 o) < l_publish (live_params now1 5 5 960 240 o).
Proof.
  exists (19000 * DAY + 59900000), (19000 * DAY + 60100000),
         {| o_start := SToday; o_depth := None; o_mup := Some 7; o_leeway := None |}.
  vm_compute. split; [discriminate | reflexivity].
Qed.
Print Assumptions C08_refuted_rollover.

(* (fractional-start) an explicit start that is not on a whole second gives
   publishTime < availabilityStartTime: start = 100.5 s, now = start + 2.7 s, mup = 10 *)
Theorem C08_refuted_fractional_start :
  exists now o, (match o_start o with SExplicit a => a <= now | _ => False end) /\
    let L := live_params now 1 1 960 240 o in l_publish L < l_ast L.
Proof.
  exists 103200000,
         {| o_start := SExplicit 100500000; o_depth := None; o_mup := Some 10; o_leeway := None |}.
  vm_compute. split; [discriminate | reflexivity].
Qed.
Print Assumptions C08_refuted_fractional_start.

(* non-vacuity: a concrete instant meets the hypotheses and gives the expected values:
   2020-01-01T01:00:00Z (day 18262), start=2020-01-01T00:00:00Z, depth 60, bbb video reference *)
Example C08_example :
  let now := 18262 * DAY + 3600 * SEC in
  let o := {| o_start := SExplicit (18262 * DAY); o_depth := Some 60; o_mup := None; o_leeway := Some 0 |} in
  let L := live_params now 1 1 960 240 o in
  60 * SEC <= now /\ calendar_ok 1 1 /\ start_ok now (o_start o) /\
  l_elapsed L = 3600 * SEC /\ l_fta L = 3540 * SEC /\ l_mup L = Some 8 /\ l_publish L = now.
Proof. vm_compute. repeat split; try discriminate; reflexivity. Qed.
