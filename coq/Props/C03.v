(* C03 - Rewritten media segments keep their payload and point at it correctly.
   Model/FragModel.v: the segment rewrite of generate_media_segment at the level of box order,
   box sizes and the offsets that must address the payload (box contents: C04). *)
From Verif Require Import Base.Tactics Base.ZList Model.FragModel Proofs.FragProofs.

(* whatever the stored layout and the options (decode-time rewrite, tfdt insertion, sidx removal,
   any number of emsg boxes, PIFF copy): base (= moof position) + trun.data_offset is the
   position of the first mdat payload byte *)
Theorem C03_data_offset :
  forall o s, moof_pos (rewrite_top o s) + data_offset o s = payload_pos o s.
Proof. exact data_offset_payload. Qed.
Print Assumptions C03_data_offset.

(* the mdat boxes - hence the payload and its length - are never touched *)
Theorem C03_payload_untouched :
  forall o s, mdats (rewrite_top o s) = mdats (s_top s).
Proof. exact mdat_untouched. Qed.
Print Assumptions C03_payload_untouched.

(* sizes nest: the size recorded for moof is 8 + mfhd + traf header + its rewritten children *)
Theorem C03_sizes_nest :
  forall o s, moof_entry (s_top s) <> None ->
  moof_entry (rewrite_top o s) = Some (moof_size (rewrite_traf o s)).
Proof. exact moof_size_recorded. Qed.
Print Assumptions C03_sizes_nest.

(* in-band event boxes go immediately before moof; sidx is dropped *)
Theorem C03_emsg_before_moof :
  forall o s, moof_entry (s_top s) <> None ->
  moof_pos (rewrite_top o s) = moof_pos (drop_sidx (s_top s)) + sumz (o_emsg o).
Proof. exact emsg_before_moof. Qed.
Print Assumptions C03_emsg_before_moof.

(* tfdt is written as version 1 exactly when the decode time needs more than 32 bits *)
Theorem C03_tfdt_width :
  forall v, 0 <= v -> (tfdt_size v = 20 <-> 4294967296 <= v) /\ (tfdt_size v = 16 <-> v < 4294967296).
Proof. exact tfdt_width. Qed.
Print Assumptions C03_tfdt_width.

Example C03_example :
  let s := {| s_top := [(TMoof, 700); (TMdat, 5008); (TStyp, 24); (TSidx, 44)];
              s_traf := [(Tfhd, 16); (Trun, 400); (Saiz, 17); (Saio, 20); (Senc, 200)];
              s_tfdt := None; s_prefix_time := 960; s_senc_flags1 := false |} in
  let o := {| o_origin := 5000000000; o_emsg := [80; 81]; o_piff := true |} in
  rewrite_traf o s = [(Tfhd, 16); (Tfdt, 20); (Trun, 400); (Piff, 216); (Saiz, 17); (Saio, 20); (Senc, 200)] /\
  rewrite_top o s = [(TEmsg, 80); (TEmsg, 81); (TMoof, 921); (TMdat, 5008); (TStyp, 24)] /\
  data_offset o s = 929 /\ payload_pos o s = 1090 /\ senc_entry_rel o s = 737.
Proof. vm_compute. repeat split; reflexivity. Qed.
