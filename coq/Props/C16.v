(* C16 - injected errors fire exactly as asked (the logic half of the property; the open-ended
   "no request makes the service answer 5xx" half is decided by the search harness over the real
   application and is not a theorem - see DESIGN.md).

   Model: Model/ErrModel.v, a transcription of check_for_synthetic_http_error /
   check_for_synthetic_manifest_error and the per-session failure counter. *)
From Verif Require Import Base.Tactics Base.ZList Base.Str Model.IsoTimeModel Model.SegModel Model.ErrModel Proofs.ErrProofs.
From Verif Require Import Model.OptionsModel Model.OptErrModel Proofs.OptErrProofs Gen.OptionsTable.

(* a request that no (code, position) entry addresses gets no synthetic response and leaves every
   counter as it was - for media (segment number) and manifest (update count / time window) alike *)
Theorem C16_only_addressed_media :
  forall usage fc errs seg s,
  (forall e, In e errs -> snd e <> seg) -> media_check usage fc errs seg s = (None, s).
Proof.
  intros usage fc errs seg s H. unfold media_check. apply inject_miss.
  intros e He. specialize (H e He). lia.
Qed.
Print Assumptions C16_only_addressed_media.

Theorem C16_only_addressed_manifest :
  forall fc errs upd now mup s,
  (forall e, In e errs -> manifest_hit upd now mup (snd e) = false) ->
  manifest_check fc errs upd now mup s = (None, s).
Proof. intros. unfold manifest_check. apply inject_miss. assumption. Qed.
Print Assumptions C16_only_addressed_manifest.

(* every synthetic status is one the request listed, at a position the request addresses *)
Theorem C16_only_requested_codes :
  forall usage fc errs seg s c s',
  media_check usage fc errs seg s = (Some c, s') -> In (c, seg) errs.
Proof.
  intros usage fc errs seg s c s' H. unfold media_check in H. apply inject_some in H.
  destruct H as [p [Hin Hp]]. assert (p = seg) by lia. subst p. exact Hin.
Qed.
Print Assumptions C16_only_requested_codes.

Theorem C16_manifest_update_count :
  forall fc errs upd now mup s c s',
  manifest_check fc errs upd now mup s = (Some c, s') ->
  exists p, In (c, p) errs /\
    match p with
    | MNum n => upd = Some n
    | MTime tm => tm <= now <= tm + mup
    end.
Proof.
  intros fc errs upd now mup s c s' H. unfold manifest_check in H. apply inject_some in H.
  destruct H as [p [Hin Hp]]. exists p. split; [exact Hin|].
  destruct p as [n|tm]; cbn [manifest_hit] in Hp.
  - destruct upd as [u|]; [|discriminate]. f_equal. lia.
  - lia.
Qed.
Print Assumptions C16_manifest_update_count.

(* 4xx entries, and 5xx entries without a failure count, answer every addressed request *)
Theorem C16_plain_entries_always_fire :
  forall usage fc code seg post s,
  (fc = None \/ code < 500) ->
  media_check usage fc ((code, seg) :: post) seg s = (Some code, s).
Proof.
  intros usage fc code seg post s H. unfold media_check.
  apply (inject_plain (fun p => p =? seg) usage fc [] code seg post s); [intros e []| lia | exact H].
Qed.
Print Assumptions C16_plain_entries_always_fire.

(* a 5xx entry with failures=F, over ANY sequence of requests of one session: the i-th request gets the
   synthetic status iff it addresses the position and the number of earlier addressed requests is not
   F modulo F+1 - i.e. F failures, one success, F failures, ... and never for another segment *)
Theorem C16_inject_exact :
  forall usage F code pos segs i,
  0 <= F -> 500 <= code -> (i < length segs)%nat ->
  nth i (media_run usage (Some F) [(code, pos)] segs []) None =
    if (nth i segs 0 =? pos) && (count_hits pos (firstn i segs) mod (F + 1) <? F) then Some code else None.
Proof.
  intros usage F code pos segs i HF Hc Hi.
  rewrite (media_run_exact usage F code pos segs [] 0 HF (Z.le_refl 0) Hc).
  - rewrite spec_run_nth by exact Hi. reflexivity.
  - cbn [sget]. rewrite Z.mod_0_l by lia. reflexivity.
Qed.
Print Assumptions C16_inject_exact.

(* the same for manifests addressed by update count: over any sequence of refreshes of one session, the
   i-th request gets the synthetic status iff its update count is the addressed one and the number of earlier
   addressed requests is not F modulo F+1 (stated through the closed form spec_mrun) *)
Theorem C16_manifest_inject_exact :
  forall F code n upds, 0 <= F -> 500 <= code ->
  manifest_run (Some F) [(code, MNum n)] upds [] = spec_mrun F code n 0 upds.
Proof.
  intros F code n upds HF Hc. apply manifest_run_exact; try lia.
  cbn [sget]. rewrite Z.mod_0_l by lia. reflexivity.
Qed.
Print Assumptions C16_manifest_inject_exact.

(* counters are per usage: audio errors never consume video failures, etc. *)
Theorem C16_counters_independent :
  forall usage fc errs seg s k, fst k <> usage ->
  sget (snd (media_check usage fc errs seg s)) k = sget s k.
Proof. intros. unfold media_check. apply inject_frame. assumption. Qed.
Print Assumptions C16_counters_independent.

(* a wall-clock position addresses the segment whose interval contains that instant
   (segment n of a live stream covers [(n - start_number) * dur, (n - start_number + 1) * dur)) *)
Theorem C16_time_addresses_containing_segment :
  forall sn delta ts dur, 0 < dur -> 0 <= delta * ts ->
  let n := time_to_segment sn delta ts dur in
  sn <= n /\ (n - sn) * dur <= delta * ts < (n - sn + 1) * dur.
Proof. exact time_to_segment_contains. Qed.
Print Assumptions C16_time_addresses_containing_segment.

(* recorded finding (time-position-segment:aerr): with irregular segment durations (audio) the number computed from the
   nominal duration addresses a segment that does not contain the instant - here the NEIGHBOUR of the one that does *)
Theorem C16_refuted_time_position_irregular :
  exists r tm delta, rep_ok r /\
    exists m tfdt num d,
      serve r tm None (Some (time_to_segment (r_start_number r) delta (r_ts r) (r_seg_dur r))) = Some (m, tfdt, num, d) /\
      ~ (tfdt <= delta * r_ts r < tfdt + d).
Proof.
  exists {| r_ts := 2; r_durs := [4; 1; 7; 4]; r_start_number := 1; r_seg_dur := 4; r_lr := 16; r_start_time := 0 |},
         {| t_live := true; t_elapsed := 20000000; t_tsbd := 20000000; t_fta := 0; t_leeway := 16000000 |}, 3.
  split.
  - unfold rep_ok. split; [vm_compute; discriminate|]. split; [repeat constructor; vm_compute; discriminate|].
    repeat split; vm_compute; try reflexivity; discriminate.
  - exists 2, 4, 2, 1. split; [vm_compute; reflexivity|]. cbn. lia.
Qed.
Print Assumptions C16_refuted_time_position_irregular.

(* option texts: every text the strict C07 reader accepts is accepted with the same value by the
   reader for arbitrary text (Python's int grammar), and for every registered option whose codec
   accepts all texts no request value can be answered 400 *)
Theorem C16_option_reader_extends_c07 :
  forall k s v, OptionsModel.parse k s = Some v -> parse_any k s = Some v.
Proof. exact parse_parse_any. Qed.
Print Assumptions C16_option_reader_extends_c07.

Theorem C16_total_options_never_400 :
  forall r, In r options_table -> never_rejects (o_kind r) = true ->
  forall s, exists v, parse_any (o_kind r) s = Some v.
Proof. intros r _ H s. apply never_rejects_total. exact H. Qed.
Print Assumptions C16_total_options_never_400.

Example C16_example :
  media_run 1 (Some 2) [(503, 5)] [4; 5; 5; 5; 6; 5; 5; 5; 5] [] =
    [None; Some 503; Some 503; None; None; Some 503; Some 503; None; Some 503] /\
  media_run 1 None [(404, 5)] [5; 5; 4] [] = [Some 404; Some 404; None] /\
  media_run 1 (Some 0) [(503, 5)] [5; 5] [] = [None; None] /\
  fst (manifest_check (Some 1) [(503, MNum 3)] (Some 3) 0 0 []) = Some 503 /\
  fst (manifest_check (Some 1) [(503, MNum 3)] None 0 0 []) = None /\
  py_int [32; 43; 49; 95; 48; 10] = Some 10 /\ py_int [49; 95; 95; 48] = None /\ py_int [45; 32; 49] = None /\
  length (filter (fun r => never_rejects (o_kind r)) options_table) = 25%nat.
Proof. vm_compute. repeat split; reflexivity. Qed.
