(* C14 - Timed events are delivered exactly once and decode to their schedule. *)
From Verif Require Import Base.Tactics Base.ZList Base.Bits Model.CrcModel Model.EventsModel Model.Scte35Model
  Proofs.EventsProofs Proofs.CrcProofs Proofs.Scte35Proofs.

(* create_emsg_boxes for a segment covering [a, b) of the event timeline emits exactly the
   scheduled events in it: ids k with a <= start + k*interval < b (k < count when count > 0),
   in order, each once.  Every schedule with interval >= 1, every segment. *)
Theorem C14_segment_events :
  forall s, 1 <= e_interval s -> 0 <= e_count s -> e_inband s = true ->
  forall a b, a <= b -> emsg s a b = events_in s a b.
Proof. intros s Hi Hc Hin a b Hab. exact (emsg_spec s Hi Hc a b Hin Hab). Qed.
Print Assumptions C14_segment_events.

(* membership: exactly the scheduled instants of [a, b) *)
Theorem C14_events_exact :
  forall s, 1 <= e_interval s -> 0 <= e_count s -> forall a b k t,
  In (k, t) (events_in s a b) <->
  0 <= k /\ t = e_start s + k * e_interval s /\ a <= t < b /\ (e_count s = 0 \/ k < e_count s).
Proof. intros s Hi Hc. exact (events_in_spec s Hi Hc). Qed.
Print Assumptions C14_events_exact.

(* exactly once over ANY run of consecutive segments: what two adjacent segments carry is
   what their union carries, and no event is listed twice *)
Theorem C14_exactly_once :
  forall s, 1 <= e_interval s -> 0 <= e_count s -> forall a b c, a <= b -> b <= c ->
  events_in s a b ++ events_in s b c = events_in s a c /\ NoDup (events_in s a c).
Proof. intros s Hi Hc a b c Hab Hbc. split; [exact (events_tile s Hi a b c Hab Hbc)|apply events_NoDup]. Qed.
Print Assumptions C14_exactly_once.

(* consecutive segments of a representation stay consecutive in the event timescale *)
Theorem C14_boundaries_monotone :
  forall s x y rts, 0 < rts -> 0 <= e_timescale s -> x <= y -> to_ev s x rts <= to_ev s y rts.
Proof. intros s x y rts. exact (to_ev_mono s x y rts). Qed.
Print Assumptions C14_boundaries_monotone.

(* the time an emsg box carries resolves to the scheduled instant (v0: segment start + delta) *)
Theorem C14_time_field :
  forall s a pt, (if e_version s =? 0 then a + emsg_time_field s a pt else emsg_time_field s a pt) = pt.
Proof. intros s a pt. unfold emsg_time_field. destruct (e_version s =? 0); lia. Qed.
Print Assumptions C14_time_field.

(* out-of-band: the manifest lists the first count schedule points *)
Theorem C14_manifest :
  forall s, e_inband s = false -> 0 < e_count s ->
  manifest_events s = map (ev_of s) (zrange 0 (e_count s)).
Proof. exact manifest_events_spec. Qed.
Print Assumptions C14_manifest.

(* CRC-32/MPEG-2: a section followed by its own CRC checks to zero, for every bit string *)
Theorem C14_crc :
  forall data : bits, crc32 (data ++ put_uint 32 (crc32 data)) = 0.
Proof. exact crc32_check_zero. Qed.
Print Assumptions C14_crc.

(* SCTE-35: encoding then parsing is the identity, and the parsed section's CRC is valid, for
   every signal of the modelled shapes (splice_null / splice_insert / time_signal; avail,
   segmentation, time and unknown descriptors) whose field values fit their bit widths *)
Theorem C14_scte35_roundtrip :
  forall s, wf_signal s -> dec_signal (enc_signal s) = Some (Some s, true).
Proof. exact roundtrip. Qed.
Print Assumptions C14_scte35_roundtrip.

(* for EVERY schedule the service accepts (Scte35Events.check_parameters = scte35_params_ok) and every event of it -
   any index, any instant - the payload encodes, decodes with a valid CRC and carries splice_event_id = k mod 2^32,
   pts = pt*90000/timescale mod 2^33 and break_duration = duration*90000/timescale: no accepted request can make the
   section encoder fail *)
Theorem C14_payload :
  forall s pid k pt,
  scte35_params_ok s pid = true -> 0 <= k -> (0 < e_count s -> k < e_count s) ->
  exists sig, dec_signal (enc_signal (event_signal s pid k pt)) = Some (Some sig, true) /\
    match sg_cmd sig with
    | CInsert i => si_id i = emsg_id_field k /\ si_pts i = Some (scte35_pts s pt) /\
                   match si_break i with Some b => bd_dur b = scte35_break s | None => False end
    | _ => False
    end.
Proof.
  intros s pid k pt Hok Hk Hkc. exists (event_signal s pid k pt). split.
  - apply roundtrip. unfold scte35_params_ok, params_ok in Hok.
    repeat (apply andb_true_iff in Hok; destruct Hok as (Hok & ?)).
    assert (0 <= e_duration s * 90000 / e_timescale s) by (apply Z.div_pos; lia).
    apply event_signal_wf; try assumption; lia.
  - cbn. repeat split; reflexivity.
Qed.
Print Assumptions C14_payload.

(* an accepted schedule keeps the work per segment bounded: events are at least a millisecond apart, so a segment of
   D seconds (D * timescale event ticks) needs at most 1000 D + 3 turns of the loop of create_emsg_boxes; and every
   field of the emsg box fits its width (32-bit timescale, duration and event id) *)
Theorem C14_accepted_schedule_bounded :
  forall s a b D, params_ok s = true -> 0 <= D -> a <= b -> b - a <= D * e_timescale s ->
  Z.of_nat (ev_fuel s a b) <= 1000 * D + 3 /\
  0 < e_timescale s < 2 ^ 32 /\ 0 <= e_duration s < 2 ^ 32 /\ forall k, 0 <= emsg_id_field k < 2 ^ 32.
Proof.
  intros s a b D Hok HD Hab Hlen. unfold params_ok in Hok.
  repeat (apply andb_true_iff in Hok; destruct Hok as (Hok & ?)).
  split; [|split; [change (2 ^ 32) with 4294967296; lia|split; [change (2 ^ 32) with 4294967296; lia|]]].
  - unfold ev_fuel. rewrite Z2Nat.id by (assert (0 <= (b - a) / e_interval s) by (apply Z.div_pos; lia); lia).
    assert (Hq : (b - a) / e_interval s <= 1000 * D).
    { apply Z.div_le_upper_bound; [lia|]. nia. }
    lia.
  - intros k. unfold emsg_id_field. apply Z.mod_pos_bound. reflexivity.
Qed.
Print Assumptions C14_accepted_schedule_bounded.

(* (the byte string of C14_scte35_example below is what Scte35Events.get_emsg_event_payload(3, 3000)
   returns on the real code) *)
(* non-vacuity: count = 2, interval = 1000: the segment [1500, 2500) carries nothing (the two
   defects repaired in /repo emitted id 2 here), [500, 1500) carries event 1 *)
Example C14_example :
  let s := {| e_start := 0; e_interval := 1000; e_count := 2; e_timescale := 1000; e_duration := 200;
              e_version := 1; e_inband := true |} in
  emsg s 1500 2500 = [] /\ emsg s 2000 3000 = [] /\ emsg s 500 1500 = [(1, 1000)] /\
  emsg s 0 2500 = [(0, 0); (1, 1000)].
Proof. vm_compute. repeat split; reflexivity. Qed.

Example C14_scte35_example :
  let s := {| e_start := 0; e_interval := 1000; e_count := 0; e_timescale := 100; e_duration := 200;
              e_version := 1; e_inband := true |} in
  wf_signal (event_signal s 1620 3 3000) /\ scte35_params_ok s 1620 = true /\
  bits_bytes (enc_signal (event_signal s 1620 3 3000)) =
    [252; 0; 59; 0; 0; 0; 0; 0; 0; 255; 255; 240; 20; 5; 0; 0; 0; 3; 127; 239; 254; 0; 41; 50; 224; 126;
     0; 2; 191; 32; 6; 84; 0; 0; 0; 22; 2; 20; 67; 85; 69; 73; 0; 0; 0; 0; 127; 255; 0; 0; 0; 0; 0; 15; 0; 53;
     0; 0; 190; 16; 79; 0]%Z.
Proof. split; [apply event_signal_wf; cbn; lia|]. split; vm_compute; reflexivity. Qed.
