(* C19 - ISO-8601 time text is faithful to the value it encodes. *)
From Verif Require Import Base.Tactics Base.ZList Base.Str Model.IsoTimeModel Proofs.IsoTimeProofs.

(* Rendering ANY duration us >= 0 (microseconds; either outcome of the float tie) and parsing the
   text back succeeds exactly and returns a value within half a millisecond. *)
Theorem C19_duration_roundtrip :
  forall us td, 0 <= us ->
  exists us', parse_duration (fmt_duration us td) = DurVal us' true /\ Z.abs (us' - us) <= 500.
Proof. exact duration_roundtrip. Qed.
Print Assumptions C19_duration_roundtrip.

(* The minutes and seconds fields stay below 60 and the millisecond field below 1000
   (rounding carries into the next unit) ... *)
Theorem C19_duration_fields :
  forall us td, 0 <= us ->
  let '(mins, secs, ms) := dur_fields us td in
  0 <= mins < 60 /\ 0 <= secs < 60 /\ 0 <= ms < 1000.
Proof. exact duration_fields. Qed.
Print Assumptions C19_duration_fields.

(* ... and the text is "PT" [hours "H"] [minutes "M"] seconds ["." fraction] "S" built from
   exactly those fields, i.e. the xs:duration lexical form. *)
Theorem C19_duration_text :
  forall us td, 0 <= us ->
  let '(mins, secs, ms) := dur_fields us td in
  exists hpart, fmt_duration us td =
    [cP; cT] ++ hpart ++ dec secs ++ (if 0 <? ms then cDot :: frac_str ms else []) ++ [cS] /\
    (hpart = [] \/ hpart = dec mins ++ [cM] \/
     exists h, 0 < h /\ hpart = dec h ++ [cH] ++ dec mins ++ [cM]).
Proof. exact duration_text_fields. Qed.
Print Assumptions C19_duration_text.

(* Rendering any valid date-time (any microsecond, any UTC offset of whole minutes strictly
   inside +-24h, or naive = UTC) and parsing it back returns the same fields and offset. *)
Theorem C19_datetime_roundtrip :
  forall d, valid_dt d = true -> valid_off d = true ->
  parse_datetime (fmt_datetime d) = DtVal (with_utc d) true.
Proof. exact datetime_roundtrip. Qed.
Print Assumptions C19_datetime_roundtrip.

(* Tick conversions are monotone ... *)
Theorem C19_timecode_monotone :
  forall ts a b, 1 <= ts -> a <= b ->
  tc_to_us a ts <= tc_to_us b ts /\ us_to_tc a ts <= us_to_tc b ts.
Proof. intros ts a b H1 H2. split; [exact (tc_to_us_monotone ts a b H1 H2)|exact (us_to_tc_monotone ts a b H1 H2)]. Qed.
Print Assumptions C19_timecode_monotone.

(* ... and invert each other to within one tick, for timescales up to 10^6 (partial: see
   C19_refuted_fine_timescale for why the bound cannot hold above 10^6) *)
Theorem C19_timecode_roundtrip_partial :
  forall ts tc, 1 <= ts <= 1000000 -> 0 <= tc ->
  tc - 1 <= us_to_tc (tc_to_us tc ts) ts <= tc.
Proof. exact tc_roundtrip_one_tick. Qed.
Print Assumptions C19_timecode_roundtrip_partial.

(* general bounds for every timescale >= 1 *)
Theorem C19_timecode_roundtrip_general :
  forall ts tc, 1 <= ts -> 0 <= tc ->
  tc - (ts + 999999) / 1000000 <= us_to_tc (tc_to_us tc ts) ts <= tc.
Proof. exact tc_roundtrip. Qed.
Print Assumptions C19_timecode_roundtrip_general.

Theorem C19_time_roundtrip :
  forall ts us, 1 <= ts -> 0 <= us ->
  0 <= us - tc_to_us (us_to_tc us ts) ts <= (1000000 + ts - 1) / ts.
Proof. exact us_roundtrip. Qed.
Print Assumptions C19_time_roundtrip.

(* KNOWN FINDING fine-timescale: with a 10 MHz timescale tick 19 comes back as tick 10 *)
Theorem C19_refuted_fine_timescale :
  exists ts tc, 1 <= ts <= 10000000 /\ 0 <= tc /\
    ~ (tc - 1 <= us_to_tc (tc_to_us tc ts) ts <= tc).
Proof. exists 10000000, 19. rewrite fine_timescale_refuted. lia. Qed.
Print Assumptions C19_refuted_fine_timescale.

(* non-vacuity: the carry case 59.9996 s, a tie, and a date-time with offset *)
Example C19_example :
  fmt_duration 59999600 false = [80; 84; 49; 77; 48; 83] (* PT1M0S *) /\
  parse_duration (fmt_duration 3599999500 false) = DurVal 3600000000 true /\
  parse_duration (fmt_duration 3599999500 true) = DurVal 3599999000 true /\
  parse_datetime (fmt_datetime {| d_year := 2024; d_month := 2; d_day := 29; d_hour := 23;
      d_min := 59; d_sec := 59; d_us := 1; d_off := Some (-705) |}) =
    DtVal {| d_year := 2024; d_month := 2; d_day := 29; d_hour := 23;
      d_min := 59; d_sec := 59; d_us := 1; d_off := Some (-705) |} true.
Proof. vm_compute. auto. Qed.
