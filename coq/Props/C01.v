(* C01 - Every segment a live manifest advertises is retrievable (timing half).
   The URL half (manifest spells the URL, options reach the media request) is C07 and the
   HTTP-level correspondence; init segments have no timing test and are checked over HTTP. *)
From Verif Require Import Base.Tactics Base.ZList Model.IsoTimeModel Model.SegModel
  Proofs.SegProofs Proofs.SegServeProofs Proofs.SegAvailProofs.

(* every timeline entry whose end is not later than now passes the availability test of the
   media handler and is mapped to its own segment - PROVIDED the leeway covers half the
   longest segment plus one tick (the handler tests the segment START against
   firstAvailableTime - leeway, and the first listed entry starts up to half a segment
   before firstAvailableTime).  Any clock, depth, loop count, irregular durations. *)
Theorem C01_time_available_partial :
  forall r, rep_ok r -> forall fta tsbd leeway maxd t d m,
  0 <= fta -> 0 <= leeway ->
  Forall (fun x => x <= maxd) (r_durs r) ->
  (maxd / 2 + 1) * 1000000 <= leeway * r_ts r ->
  In (t, d, m) (live_timeline r fta tsbd) ->
  let elapsed := fta + tsbd * 1000000 in
  t + d <= us_to_tc elapsed (r_ts r) ->
  let tm := {| t_live := true; t_elapsed := elapsed; t_tsbd := tsbd; t_fta := fta; t_leeway := leeway |} in
  number_and_time r tm (Some t) None = Some (t / r_seg_dur r, m, t - prefix r (m - 1)).
Proof. exact time_available_partial. Qed.
Print Assumptions C01_time_available_partial.

(* recorded finding (leeway): without that bound the statement is false - the first listed
   entry of a regular 4 s stream is refused when leeway = 0 *)
Definition c01_rep : rep :=
  {| r_ts := 10; r_durs := [40; 40]; r_start_number := 1; r_seg_dur := 40; r_lr := 80; r_start_time := 0 |}.
Theorem C01_refuted_leeway :
  exists r fta tsbd t d m, rep_ok r /\ In (t, d, m) (live_timeline r fta tsbd) /\
    t + d <= us_to_tc (fta + tsbd * 1000000) (r_ts r) /\
    serve r {| t_live := true; t_elapsed := fta + tsbd * 1000000; t_tsbd := tsbd; t_fta := fta; t_leeway := 0 |}
          (Some t) None = None.
Proof.
  exists c01_rep, 1900000, 10, 0, 40, 1. split; [|split; [|split]].
  - unfold rep_ok. split; [vm_compute; discriminate|]. split; [repeat constructor; vm_compute; discriminate|].
    repeat split; vm_compute; try reflexivity; discriminate.
  - vm_compute. left. reflexivity.
  - vm_compute. discriminate.
  - vm_compute. reflexivity.
Qed.
Print Assumptions C01_refuted_leeway.

Example C01_example :
  let r := c01_rep in
  let tm := {| t_live := true; t_elapsed := 11900000; t_tsbd := 10; t_fta := 1900000; t_leeway := 3000000 |} in
  live_timeline r 1900000 10 = [(0, 40, 1); (40, 40, 2); (80, 40, 1)] /\
  serve r tm (Some 80) None = Some (1, 80, 2, 40) /\ serve r tm (Some 40) None = Some (2, 40, 1, 40).
Proof. vm_compute. repeat split; reflexivity. Qed.
