(* C06 - Static manifests describe the stored media completely and exactly. *)
From Verif Require Import Base.Tactics Base.ZList Model.IsoTimeModel Model.SegModel
  Proofs.SegProofs Proofs.SegServeProofs.

(* numbers startNumber .. startNumber+N-1 are served, each from its own segment with the
   prefix-sum decode time counted from the file's first decode time *)
Theorem C06_enumeration :
  forall r, rep_ok r -> forall N,
  r_start_number r <= N <= r_start_number r + nseg r - 1 ->
  serve r vod_tm None (Some N) =
    Some (N - r_start_number r + 1, r_start_time r + prefix r (N - r_start_number r), N,
          dur_at r (N - r_start_number r + 1)).
Proof. intros r _. exact (vod_enumeration r). Qed.
Print Assumptions C06_enumeration.

(* the next one past the end (and anything before the first) is refused *)
Theorem C06_past_end :
  forall r N, N < r_start_number r \/ r_start_number r + nseg r <= N ->
  serve r vod_tm None (Some N) = None.
Proof. exact vod_past_end. Qed.
Print Assumptions C06_past_end.

(* one gapless track: decode time of number k+1 = decode time of k + its duration;
   starts at the first decode time, total = stored media duration *)
Theorem C06_gapless_total :
  forall r, rep_ok r ->
  (forall k, 0 <= k < nseg r -> prefix r (k + 1) = prefix r k + dur_at r (k + 1)) /\
  prefix r 0 = 0 /\ prefix r (nseg r) = media_dur r.
Proof. intros r Hok. split; [exact (vod_gapless r)|exact (vod_total r)]. Qed.
Print Assumptions C06_gapless_total.

(* $Time$ of a static timeline: entry k maps to segment k+1 inside the quarter-segment window *)
Theorem C06_vod_time_partial :
  forall r, rep_ok r -> forall k,
  0 <= k < nseg r ->
  k * r_seg_dur r <= prefix r k + r_seg_dur r / 4 < (k + 1) * r_seg_dur r ->
  serve r vod_tm (Some (prefix r k)) None =
    Some (k + 1, r_start_time r + prefix r k, k + r_start_number r, dur_at r (k + 1)).
Proof. exact vod_time_partial. Qed.
Print Assumptions C06_vod_time_partial.

(* on-demand byte ranges tile the file when the indexed segment table is contiguous *)
Theorem C06_ranges_tile :
  forall segs, contiguous segs -> tiles (segment_list segs).
Proof. exact segment_list_tiles. Qed.
Print Assumptions C06_ranges_tile.
Theorem C06_ranges_last :
  forall segs, segs <> [] ->
  last (segment_list segs) (0, 0) =
    (fst (last segs (0, 0)), fst (last segs (0, 0)) + snd (last segs (0, 0)) - 1).
Proof. exact segment_list_last. Qed.
Print Assumptions C06_ranges_last.

(* recorded finding (irregular-vod-time): outside that window a listed $Time$ is served
   from the wrong segment: durations 1000 1000 1000 400 1600, entry 5 starts at 3400 and is
   answered with segment 4 *)
Definition c06_rep : rep :=
  {| r_ts := 1000; r_durs := [1000; 1000; 1000; 400; 1600]; r_start_number := 1; r_seg_dur := 1000;
     r_lr := 5000; r_start_time := 0 |}.
Theorem C06_refuted_irregular :
  exists r k, rep_ok r /\ 0 <= k < nseg r /\
    exists m tfdt num sd, serve r vod_tm (Some (prefix r k)) None = Some (m, tfdt, num, sd) /\ m <> k + 1.
Proof.
  exists c06_rep, 4. split; [|split].
  - unfold rep_ok. split; [vm_compute; discriminate|]. split; [repeat constructor; vm_compute; discriminate|].
    repeat split; vm_compute; try reflexivity; discriminate.
  - vm_compute. split; [discriminate|reflexivity].
  - exists 4, 3000, 4, 400. vm_compute. split; [reflexivity|discriminate].
Qed.
Print Assumptions C06_refuted_irregular.

(* recorded finding (vod-overshoot): a representation shorter than the timing reference gets
   one timeline entry more than it has segments; that entry is refused *)
Definition c06_short : rep :=
  {| r_ts := 10; r_durs := [10; 10]; r_start_number := 1; r_seg_dur := 10; r_lr := 25; r_start_time := 0 |}.
Theorem C06_refuted_vod_overshoot :
  exists r t d m, rep_ok r /\ In (t, d, m) (vod_timeline r) /\ serve r vod_tm (Some t) None = None.
Proof.
  exists c06_short, 20, 10, 1. split; [|split].
  - unfold rep_ok. split; [vm_compute; discriminate|]. split; [repeat constructor; vm_compute; discriminate|].
    repeat split; vm_compute; try reflexivity; discriminate.
  - vm_compute. right. right. left. reflexivity.
  - vm_compute. reflexivity.
Qed.
Print Assumptions C06_refuted_vod_overshoot.

Example C06_example :
  let r := {| r_ts := 10; r_durs := [10; 7; 13]; r_start_number := 1; r_seg_dur := 10; r_lr := 30; r_start_time := 0 |} in
  vod_timeline r = [(0, 10, 1); (10, 7, 2); (17, 13, 3)] /\
  serve r vod_tm None (Some 3) = Some (3, 17, 3, 13) /\ serve r vod_tm None (Some 4) = None /\
  segment_list [(0, 100); (100, 50); (150, 70)] = [(0, 99); (100, 149); (150, 219)].
Proof. vm_compute. repeat split; reflexivity. Qed.
