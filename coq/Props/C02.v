(* C02 - Served segments carry exactly the advertised time, number and duration.
   Model: Model/SegModel.v (Representation timing functions + the media handler's tfdt /
   mfhd bookkeeping).  rep_ok: >= 2 segments, all durations >= 1, reference duration > 0,
   and the loop-final timeline duration d_n + drift >= 1. *)
From Verif Require Import Base.Tactics Base.ZList Model.IsoTimeModel Model.SegModel
  Proofs.SegProofs Proofs.SegServeProofs.

(* $Time$: every entry (t, S@d, segment) of ANY live timeline (any first-available time, any
   depth, hence any number of loops, t unbounded) that the handler serves at all is served from
   that very segment with baseMediaDecodeTime = t exactly and the stored sample duration;
   S@d equals that duration except on the loop-final entry, which carries the drift. *)
Theorem C02_time_exact :
  forall r, rep_ok r -> forall fta tsbd t d m tm res,
  r_start_time r = 0 -> 0 <= fta -> In (t, d, m) (live_timeline r fta tsbd) ->
  t_live tm = true -> serve r tm (Some t) None = Some res ->
  res = (m, t, t / r_seg_dur r, dur_at r m) /\
  d = dur_at r m + (if m =? nseg r then drift r else 0).
Proof. exact time_exact. Qed.
Print Assumptions C02_time_exact.

(* gapless across any number of loops: t + d = next t, and segments follow the file order
   cyclically; every entry is a canonical (loop k, segment m) start *)
Theorem C02_gapless :
  forall r, rep_ok r -> forall fta tsbd, 0 <= fta ->
  chain r (live_timeline r fta tsbd) /\ Forall (canon r) (live_timeline r fta tsbd).
Proof.
  intros r Hok fta tsbd Hf. split; [apply live_timeline_chain | apply live_timeline_canon; assumption].
Qed.
Print Assumptions C02_gapless.

(* $Number$=N: sequence number N, decode time within half a segment (plus the drift) of
   (N - startNumber) * duration *)
Theorem C02_number :
  forall r, rep_ok r -> forall N tm m tfdt num sd,
  r_start_time r = 0 -> t_live tm = true ->
  serve r tm None (Some N) = Some (m, tfdt, num, sd) ->
  let tc := (N - r_start_number r) * r_seg_dur r in
  num = N /\ sd = dur_at r m /\ 1 <= m <= nseg r /\
  tc - dur_at r m / 2 <= tfdt /\
  (tfdt <= tc \/ exists m', 1 <= m' <= nseg r /\ tfdt - tc <= (dur_at r m' + 1) / 2 + Z.max 0 (drift r)).
Proof. exact number_served. Qed.
Print Assumptions C02_number.

(* alignment: source position = presentation time mod reference duration, both modes *)
Theorem C02_alignment :
  forall r, rep_ok r -> forall tm st sn m tfdt num sd,
  r_start_time r = 0 -> t_live tm = true ->
  (st <> None \/ sn <> None) -> (st = None \/ sn = None) ->
  serve r tm st sn = Some (m, tfdt, num, sd) ->
  1 <= m <= nseg r /\ tfdt mod r_lr r = prefix r (m - 1).
Proof. exact alignment. Qed.
Print Assumptions C02_alignment.

(* the termination argument of get_segment_index's while loop: right after the wrap the
   loop test is false *)
Theorem C02_wrap_stops :
  forall r, rep_ok r -> forall tc, 0 <= tc -> tc < tc / r_lr r * r_lr r + r_lr r.
Proof. exact wrap_stops. Qed.
Print Assumptions C02_wrap_stops.

(* recorded finding (loop-final-drift): "total sample duration equals S@d" is false for the
   loop-final entry whenever the representation is not exactly as long as the reference *)
Definition c02_rep : rep :=
  {| r_ts := 10; r_durs := [10; 10]; r_start_number := 1; r_seg_dur := 10; r_lr := 25; r_start_time := 0 |}.
Theorem C02_refuted_drift :
  exists r fta tsbd t d m, rep_ok r /\ In (t, d, m) (live_timeline r fta tsbd) /\ d <> dur_at r m.
Proof.
  exists c02_rep, 0, 4, 10, 15, 2. split; [|split].
  - unfold rep_ok. split; [vm_compute; discriminate|]. split; [repeat constructor; vm_compute; discriminate|].
    repeat split; vm_compute; try reflexivity; discriminate.
  - vm_compute. right. left. reflexivity.
  - vm_compute. discriminate.
Qed.
Print Assumptions C02_refuted_drift.

(* non-vacuity: a two-loop window over a 3-segment irregular representation *)
Example C02_example :
  let r := {| r_ts := 10; r_durs := [10; 7; 13]; r_start_number := 1; r_seg_dur := 10; r_lr := 30; r_start_time := 0 |} in
  live_timeline r 4000000 5 = [(40, 7, 2); (47, 13, 3); (60, 10, 1); (70, 7, 2); (77, 13, 3)] /\
  serve r {| t_live := true; t_elapsed := 9000000; t_tsbd := 5; t_fta := 4000000; t_leeway := 0 |}
        (Some 47) None = Some (3, 47, 4, 13).
Proof. vm_compute. split; reflexivity. Qed.
