(* C05 - manifests are well-formed XML whatever strings the store or the request supply.

   Proved here: the escaping argument, for EVERY output site of every manifest / patch / segment /
   DRM / event template (Gen/TemplateSites.v is regenerated from the templates and from the live
   jinja_env on every run) and for every string that can reach the site.  The structural MPD rules
   (required attributes, id uniqueness, non-empty AdaptationSets, URL template identifiers) depend on
   the Jinja control flow and the stored data: they are decided dynamically by the harness with an
   independent rule set, not by a theorem (C05 is PARTIAL, see DESIGN.md). *)
From Verif Require Import Base.Tactics Base.ZList Base.Str Model.XmlModel Proofs.XmlProofs Gen.TemplateSites.
From Verif Require Import Model.IsoTimeModel Proofs.IsoTimeProofs.

(* markupsafe.escape output can never close character data or an attribute value or open markup *)
Theorem C05_escape_safe :
  forall c s, text_like c = true -> ctx_safe c (escape s) = true.
Proof. exact escape_safe. Qed.
Print Assumptions C05_escape_safe.

(* soundness of the per-site analysis, for every site shape and every string *)
Theorem C05_site_sound :
  forall st v0 v, site_ok st = true -> astart (s_kind st) = Some v0 -> arun v0 (s_filters st) = Some v ->
  forall p, (a_special v = false -> inert p = true) ->
  ctx_safe (s_ctx st) (finish (s_auto st) (a_markup v) (a_escaped v) p) = true.
Proof. exact site_sound. Qed.
Print Assumptions C05_site_sound.

(* every output site of the current templates is accepted by the analysis, except the listed trusted
   markup sites (element names / pre-rendered attribute lists in drm/custom_attributes.xml, the SCTE-35
   XML payload of events/event_stream.xml), whose number is pinned *)
Theorem C05_sites : forallb (fun st => site_ok st || trusted_markup st) template_sites = true.
Proof. vm_compute. reflexivity. Qed.
Print Assumptions C05_sites.

Theorem C05_trusted_sites_pinned : length (filter trusted_markup template_sites) = 4%nat.
Proof. vm_compute. reflexivity. Qed.
Print Assumptions C05_trusted_sites_pinned.

(* hence: for every site of the table and every string reaching it, the emitted text is safe *)
Theorem C05_every_site_safe :
  forall st, In st template_sites -> trusted_markup st = false ->
  forall v0 v, astart (s_kind st) = Some v0 -> arun v0 (s_filters st) = Some v ->
  forall p, (a_special v = false -> inert p = true) ->
  ctx_safe (s_ctx st) (finish (s_auto st) (a_markup v) (a_escaped v) p) = true.
Proof.
  intros st Hin Ht v0 v H0 Hr p Hp.
  pose proof C05_sites as Hall. rewrite forallb_forall in Hall. specialize (Hall st Hin).
  rewrite Ht, orb_false_r in Hall. exact (site_sound st v0 v Hall H0 Hr p Hp).
Qed.
Print Assumptions C05_every_site_safe.

(* the filter as pinned upstream ('&' only) does NOT have this property: concrete witnesses *)
Theorem C05_refuted_amp_only :
  ctx_safe (CAttr 34) (amp_only [97; 34; 62; 60; 120]) = false /\ ctx_safe CText (amp_only [60; 120; 62]) = false.
Proof. exact amp_only_unsafe. Qed.
Print Assumptions C05_refuted_amp_only.

(* xs:duration attributes: the rendered text of any non-negative duration parses back (C19) *)
Theorem C05_duration_lexical :
  forall us td, 0 <= us ->
  exists us', parse_duration (fmt_duration us td) = DurVal us' true /\ Z.abs (us' - us) <= 500.
Proof. exact duration_roundtrip. Qed.
Print Assumptions C05_duration_lexical.

Example C05_example :
  escape [60; 97; 38; 34; 39; 62] = [38; 108; 116; 59; 97; 38; 97; 109; 112; 59; 38; 35; 51; 52; 59; 38; 35; 51; 57; 59; 38; 103; 116; 59] /\
  ctx_safe (CAttr 34) (escape [34; 62; 60; 120]) = true /\
  site_ok {| s_tpl := []; s_line := 1; s_ctx := CText; s_auto := false; s_kind := SAny; s_filters := [] |} = false /\
  site_ok {| s_tpl := []; s_line := 1; s_ctx := CAttr 34; s_auto := false; s_kind := SAny; s_filters := [FAmpOnly] |} = false /\
  site_ok {| s_tpl := []; s_line := 1; s_ctx := CAttr 34; s_auto := true; s_kind := SAny; s_filters := [FAmpOnly] |} = true /\
  Nat.ltb 350 (length template_sites) = true.
Proof. vm_compute. repeat split; reflexivity. Qed.
