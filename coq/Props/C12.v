(* C12 - Multi-period presentations tile the timeline and play the right media.
   Model: Model/MpsModel.v (period listing of ManifestContext, ServeMpsMedia segment index) over
   Model/SegModel.v.  Durations and starts are microseconds. *)
From Verif Require Import Base.Tactics Base.ZList Model.IsoTimeModel Model.SegModel Proofs.SegProofs
  Model.MpsModel Proofs.MpsProofs.

(* VOD: Periods are contiguous from 0 and their durations are the stored ones (so they sum to
   the total the MPD should declare) *)
Theorem C12_vod_contiguous :
  forall ds, pchain (vod_periods ds 0 0) /\ map p_dur (vod_periods ds 0 0) = ds /\
             sumz (map p_dur (vod_periods ds 0 0)) = sumz ds.
Proof. intros ds. split; [apply vod_chain|split; [apply vod_durs|apply vod_total]]. Qed.
Print Assumptions C12_vod_contiguous.

(* live: the listed Periods are contiguous, for every clock, depth and number of repetitions *)
Theorem C12_live_contiguous :
  forall ds fta elapsed, Forall (fun d => 0 <= d) ds -> pchain (live_periods ds fta elapsed).
Proof. exact live_contiguous. Qed.
Print Assumptions C12_live_contiguous.

(* live: the first listed Period contains the start of the time-shift window, every listed one
   reaches into the window and starts no later than now *)
Theorem C12_live_cover_partial :
  forall ds fta elapsed, Forall (fun d => 0 <= d) ds -> 0 < sumz ds -> 0 <= fta ->
  (forall p l, live_periods ds fta elapsed = p :: l -> p_start p <= fta) /\
  Forall (fun p => fta <= p_start p + p_dur p /\ p_start p <= elapsed) (live_periods ds fta elapsed).
Proof.
  intros ds fta elapsed H Ht Hf. split.
  - intros p l E. exact (live_first_covers ds fta elapsed p l H Ht Hf E).
  - apply live_loop_inside.
Qed.
Print Assumptions C12_live_cover_partial.

(* live: the listing reaches now (the fuel of the model loop is enough: this is the termination argument of the
   while loop, which ends because every pass over the definition advances by the total duration > 0) ... *)
Theorem C12_live_reaches_now :
  forall ds fta elapsed, Forall (fun d => 0 <= d) ds -> 0 < sumz ds -> 0 <= fta -> fta <= elapsed ->
  exists p, In p (live_periods ds fta elapsed) /\ p_start p <= elapsed < p_start p + p_dur p.
Proof. exact live_reaches_now. Qed.
Print Assumptions C12_live_reaches_now.

(* ... so, with contiguity and the first Period containing the window start, every instant of the time-shift
   window [firstAvailableTime, now] lies in a listed Period: the full cover statement *)
Theorem C12_live_cover :
  forall ds fta elapsed, Forall (fun d => 0 <= d) ds -> 0 < sumz ds -> 0 <= fta -> fta <= elapsed ->
  forall t, fta <= t <= elapsed ->
  exists q, In q (live_periods ds fta elapsed) /\ p_start q <= t < p_start q + p_dur q.
Proof. exact live_covers_window. Qed.
Print Assumptions C12_live_cover.

(* live: ids (period, repetition) are unique in the listing *)
Theorem C12_ids_unique :
  forall ds fta elapsed, NoDup (map (fun p => (p_pos p, p_loop p)) (live_periods ds fta elapsed)).
Proof. exact live_ids_unique. Qed.
Print Assumptions C12_ids_unique.

(* inside a Period: number startNumber+k delivers source segment m0+k (m0 = nearest-start
   segment of the Period's source offset), decode times counted from the start of m0 ... *)
Theorem C12_numbers :
  forall r pstart ref_ts k, 0 <= k ->
  let m0 := fst (fst (get_segment_index r (mps_start_tc r pstart ref_ts))) in
  let s0 := snd (fst (get_segment_index r (mps_start_tc r pstart ref_ts))) in
  (m0 + k <= nseg r ->
   mps_number r pstart ref_ts (r_start_number r + k) =
     Some (m0 + k, - s0, r_start_time r + prefix r (m0 + k - 1) - s0)) /\
  (nseg r < m0 + k -> mps_number r pstart ref_ts (r_start_number r + k) = None).
Proof.
  intros r pstart ref_ts k Hk m0 s0. split.
  - exact (mps_number_spec r pstart ref_ts k Hk).
  - exact (mps_number_beyond r pstart ref_ts k).
Qed.

(* ... and a number below startNumber is refused: the segments before the Period's offset belong to no Period *)
Theorem C12_numbers_below_start :
  forall r pstart ref_ts N, N < r_start_number r -> mps_number r pstart ref_ts N = None.
Proof. exact mps_number_before. Qed.
Print Assumptions C12_numbers_below_start.
Print Assumptions C12_numbers.

(* ... zero at the Period start and gapless from one number to the next *)
Theorem C12_decode_times :
  forall r, rep_ok r -> forall pstart ref_ts,
  0 <= mps_start_tc r pstart ref_ts < r_lr r ->
  let m0 := fst (fst (get_segment_index r (mps_start_tc r pstart ref_ts))) in
  let s0 := snd (fst (get_segment_index r (mps_start_tc r pstart ref_ts))) in
  1 <= m0 <= nseg r /\ (s0 = prefix r (m0 - 1) \/ (m0 = 1 /\ s0 = r_lr r)) /\
  forall k, 0 <= k -> m0 + k + 1 <= nseg r ->
    prefix r (m0 + k + 1 - 1) - s0 = (prefix r (m0 + k - 1) - s0) + dur_at r (m0 + k).
Proof.
  intros r Hok pstart ref_ts (H0 & Hlt) m0 s0.
  pose proof (mps_first_segment r Hok pstart ref_ts H0 Hlt) as F. fold m0 s0 in F.
  destruct F as (Hm & Hs). split; [exact Hm|]. split; [exact Hs|].
  exact (mps_decode_times r pstart ref_ts (conj Hm Hs)).
Qed.
Print Assumptions C12_decode_times.

(* recorded finding (period-at-end-of-source): a Period whose source offset falls in the last
   half segment of the file snaps to segment 1 of the NEXT pass: decode times start at -Lr *)
Theorem C12_refuted_wrap :
  exists r pstart ref_ts, rep_ok r /\
    exists m tfdt, mps_number r pstart ref_ts (r_start_number r) = Some (m, - r_lr r, tfdt) /\ tfdt < 0.
Proof.
  exists {| r_ts := 10; r_durs := [40; 40]; r_start_number := 1; r_seg_dur := 40; r_lr := 80; r_start_time := 0 |},
         7000000, 10.
  split.
  - unfold rep_ok. split; [vm_compute; discriminate|]. split; [repeat constructor; vm_compute; discriminate|].
    repeat split; vm_compute; try reflexivity; discriminate.
  - exists 1, (-80). vm_compute. split; reflexivity.
Qed.
Print Assumptions C12_refuted_wrap.

Example C12_example :
  live_periods [30000000; 20000000] 65000000 125000000 =
    [(0, 1, 50000000, 30000000); (1, 1, 80000000, 20000000); (0, 2, 100000000, 30000000)] /\
  vod_periods [30000000; 20000000] 0 0 = [(0, 0, 0, 30000000); (1, 0, 30000000, 20000000)].
Proof. vm_compute. split; reflexivity. Qed.
