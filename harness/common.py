"""Shared machinery of the /verif checks (see DESIGN.md section 2.1).

One check run = regenerate Gen/*.v -> build Props/Cxx.vo (+ lint, Print
Assumptions) -> build the extracted model runner -> correspondence (model vs
/repo implementation) -> evidence, or violation search + replay.
"""
import fcntl
import hashlib
import json
import os
import random
import re
import subprocess
import sys
import time

VERIF = os.path.dirname(os.path.dirname(os.path.abspath(__file__)))
REPO = '/repo'
COQ = os.path.join(VERIF, 'coq')
OCAML = os.path.join(VERIF, 'ocaml')
WORK = os.path.join(VERIF, '.work')
REPLAYS = os.path.join(VERIF, 'replays')
EVIDENCE = os.path.join(VERIF, 'evidence')
CORPUS = os.path.join(VERIF, 'corpus')
KNOWN_FILE = os.path.join(VERIF, 'KNOWN_FINDINGS.txt')
MODELRUN = os.path.join(OCAML, 'modelrun')

# stdlib axioms that may appear under Print Assumptions (named in DESIGN section 7)
ALLOWED_AXIOMS = {
    'functional_extensionality_dep', 'proof_irrelevance', 'JMeq_eq', 'classic',
    'Eqdep.Eq_rect_eq.eq_rect_eq', 'eq_rect_eq', 'propositional_extensionality',
}

LINT_RE = re.compile(
    r'\b(Admitted|admit|Axiom|Axioms|Parameter|Parameters|Conjecture|Conjectures|'
    r'Abort All|bypass_check|Admit Obligations)\b|Unset\s+Guard\s+Checking|'
    r'Unset\s+Positivity\s+Checking|Unset\s+Universe\s+Checking|type-in-type|impredicative-set')


def log(*a):
    print(*a, file=sys.stderr, flush=True)


# ----------------------------------------------------------------- s-exprs
def sexp(v):
    """nested lists of ints -> text understood by ocaml/modelrun (hex ints)"""
    if isinstance(v, bool):
        v = int(v)
    if isinstance(v, int):
        return ('-%x' % -v) if v < 0 else ('%x' % v)
    if v is None:
        return '()'
    if isinstance(v, (bytes, bytearray)):
        return '(' + ' '.join('%x' % b for b in v) + ')'
    return '(' + ' '.join(sexp(x) for x in v) + ')'


def parse_sexp(s):
    toks = s.replace('(', ' ( ').replace(')', ' ) ').split()
    stack = [[]]
    for t in toks:
        if t == '(':
            stack.append([])
        elif t == ')':
            x = stack.pop()
            stack[-1].append(x)
        else:
            stack[-1].append(int(t, 16))
    assert len(stack) == 1 and len(stack[0]) == 1, s[:200]
    return stack[0][0]


def run_model(comp, requests):
    """evaluate the extracted Coq model on a batch of requests"""
    if not requests:
        return []
    text = ''.join('%x %s\n' % (comp, sexp(r)) for r in requests)
    p = subprocess.run([MODELRUN], input=text.encode(), stdout=subprocess.PIPE,
                       stderr=subprocess.PIPE, timeout=3600)
    if p.returncode != 0:
        raise RuntimeError('modelrun failed: %s' % p.stderr.decode()[-2000:])
    lines = [l for l in p.stdout.decode().split('\n') if l]
    if len(lines) != len(requests):
        raise RuntimeError('modelrun: %d results for %d requests' % (len(lines), len(requests)))
    return [parse_sexp(l) for l in lines]


def run_model_parallel(comp, requests, jobs=8):
    if len(requests) < 2000 or jobs <= 1:
        return run_model(comp, requests)
    from concurrent.futures import ThreadPoolExecutor
    n = (len(requests) + jobs - 1) // jobs
    chunks = [requests[i:i + n] for i in range(0, len(requests), n)]
    with ThreadPoolExecutor(jobs) as ex:
        parts = list(ex.map(lambda c: run_model(comp, c), chunks))
    return [x for p in parts for x in p]


# ----------------------------------------------------------------- building
class BuildLock:
    def __enter__(self):
        os.makedirs(WORK, exist_ok=True)
        self.f = open(os.path.join(WORK, 'build.lock'), 'w')
        fcntl.flock(self.f, fcntl.LOCK_EX)
        return self

    def __exit__(self, *a):
        fcntl.flock(self.f, fcntl.LOCK_UN)
        self.f.close()


def sh(cmd, cwd=None, timeout=1800, env=None):
    p = subprocess.run(cmd, cwd=cwd, shell=isinstance(cmd, str), stdout=subprocess.PIPE,
                       stderr=subprocess.STDOUT, timeout=timeout, env=env)
    out = p.stdout.decode(errors='replace')
    out = '\n'.join(l for l in out.split('\n') if 'conda' not in l.lower() or 'WARNING' not in l)
    return p.returncode, out


def coq_files():
    out = []
    for d in ('Base', 'Model', 'Gen', 'Proofs', 'Props'):
        p = os.path.join(COQ, d)
        if os.path.isdir(p):
            for f in sorted(os.listdir(p)):
                if f.endswith('.v'):
                    out.append('%s/%s' % (d, f))
    out += ['Dispatch.v', 'Extract.v']
    return out


def ensure_makefile():
    files = coq_files()
    stamp = os.path.join(COQ, '.filelist')
    cur = '\n'.join(files)
    old = open(stamp).read() if os.path.exists(stamp) else None
    if old != cur or not os.path.exists(os.path.join(COQ, 'Makefile')):
        rc, out = sh(['coq_makefile', '-f', '_CoqProject'] + files + ['-o', 'Makefile'], cwd=COQ)
        if rc != 0:
            raise RuntimeError('coq_makefile failed: ' + out)
        open(stamp, 'w').write(cur)


def write_if_changed(path, text):
    old = open(path).read() if os.path.exists(path) else None
    if old != text:
        os.makedirs(os.path.dirname(path), exist_ok=True)
        open(path, 'w').write(text)
        return True
    return False


def lint():
    """forbidden constructs anywhere in the development"""
    hits = []
    for rel in coq_files():
        p = os.path.join(COQ, rel)
        if not os.path.exists(p):
            continue
        txt = open(p).read()
        # strip comments (non-nested is enough for our files; nested handled by loop)
        prev = None
        while prev != txt:
            prev = txt
            txt = re.sub(r'\(\*[^*(]*(?:\*(?!\))[^*(]*|\((?!\*)[^*(]*)*\*\)', ' ', txt)
        for i, line in enumerate(txt.split('\n'), 1):
            if LINT_RE.search(line):
                hits.append('%s:%d: %s' % (rel, i, line.strip()[:120]))
        # Variable/Hypothesis outside a Section
        depth = 0
        for i, line in enumerate(txt.split('\n'), 1):
            if re.match(r'\s*Section\s+\w+', line):
                depth += 1
            elif re.match(r'\s*End\s+\w+', line) and depth > 0:
                depth -= 1
            elif depth == 0 and re.match(r'\s*(Variable|Variables|Hypothesis|Hypotheses|Context)\b', line):
                hits.append('%s:%d: %s outside a Section' % (rel, i, line.strip()[:80]))
    proj = open(os.path.join(COQ, '_CoqProject')).read()
    if re.search(r'type-in-type|impredicative-set|-noinit|bypass', proj):
        hits.append('_CoqProject: forbidden flag')
    return hits


def build_prop(prop_file, jobs=8):
    """make the dependencies of Props/<prop_file>.v, then compile it afresh and
    return (ok, log, n_print_assumptions, n_closed, axioms)"""
    with BuildLock():
        ensure_makefile()
        t = 'Props/%s.vo' % prop_file
        rc, out = sh('timeout 1500 make -j%d %s Extract.vo 2>&1' % (jobs, t), cwd=COQ, timeout=1600)
        if rc != 0:
            return False, out[-6000:], 0, 0, []
        rc2, out2 = sh('timeout 900 coqc -Q . Verif -w -notation-overridden Props/%s.v 2>&1' % prop_file,
                       cwd=COQ, timeout=1000)
        if rc2 != 0:
            return False, out2[-6000:], 0, 0, []
        # model runner
        ml = os.path.join(OCAML, 'model.ml')
        if (not os.path.exists(MODELRUN)) or os.path.getmtime(ml) > os.path.getmtime(MODELRUN):
            rc3, out3 = sh([os.path.join(OCAML, 'build.sh')], cwd=OCAML)
            if rc3 != 0 or not os.path.exists(MODELRUN):
                return False, 'ocaml build failed: ' + out3[-3000:], 0, 0, []
    src = open(os.path.join(COQ, 'Props', prop_file + '.v')).read()
    n_pa = len(re.findall(r'^\s*Print Assumptions', src, re.M))
    n_closed = out2.count('Closed under the global context')
    axioms = []
    for m in re.finditer(r'Axioms:\n((?:.+\n?)+?)(?:\n|$)', out2):
        for l in m.group(1).split('\n'):
            mm = re.match(r'^(\S+)\s*:', l)
            if mm:
                axioms.append(mm.group(1))
    return True, out2, n_pa, n_closed, sorted(set(axioms))


def theorems_in(prop_file):
    src = open(os.path.join(COQ, 'Props', prop_file + '.v')).read()
    return re.findall(r'^\s*(?:Theorem|Example|Lemma)\s+(\w+)', src, re.M)


# ----------------------------------------------------------------- known findings
def load_known(prop):
    """-> (findings {key: text}, fixed [text])"""
    findings, fixed = {}, []
    if os.path.exists(KNOWN_FILE):
        for line in open(KNOWN_FILE):
            line = line.strip()
            if not line or line.startswith('#'):
                continue
            m = re.match(r'finding:\s+property=(\S+)\s+key=(\S+)\s+(.*)$', line)
            if m and m.group(1) == prop:
                findings[m.group(2)] = m.group(3)
            m = re.match(r'fixed:\s+property=(\S+)\s+(.*)$', line)
            if m and m.group(1) == prop:
                fixed.append(m.group(2))
    return findings, fixed


# ----------------------------------------------------------------- the check object
class Ctx:
    def __init__(self, prop, tier, seed):
        self.prop = prop
        self.tier = tier
        self.seed = seed
        self.rng = random.Random(seed * 1000003 + int(prop[1:]))
        self.t0 = time.time()
        self.obligations = []      # (name, ok, detail)
        self.evaluations = 0
        self.nontrivial = set()
        self.samples = []
        self.suites = {}
        self.disagreements = []    # dicts: suite, input, model, impl
        self.violations = []       # dicts: what, input, observed, expected
        self.known_hits = {}       # key -> example
        self.notes = []
        self.trusted = []
        self.assumptions = []
        self.distribution = {}
        self.workdir = os.path.join(WORK, '%s-%d' % (prop, os.getpid()))
        os.makedirs(self.workdir, exist_ok=True)

    def quick(self):
        return self.tier != 'thorough'

    def count(self, suite, n=1):
        self.evaluations += n
        self.suites[suite] = self.suites.get(suite, 0) + n

    def nontriv(self, key):
        self.nontrivial.add(key if isinstance(key, (str, int, tuple)) else repr(key))

    def dist(self, key, n=1):
        self.distribution[key] = self.distribution.get(key, 0) + n

    def sample(self, s, cap=6):
        if len(self.samples) < cap:
            self.samples.append(s)

    def oblige(self, name, ok, detail=''):
        self.obligations.append((name, bool(ok), detail))

    def disagree(self, suite, inp, model, impl):
        if len(self.disagreements) < 50:
            self.disagreements.append({'suite': suite, 'input': inp, 'model': model, 'impl': impl})
        else:
            self.disagreements_more = getattr(self, 'disagreements_more', 0) + 1

    def violation(self, what, inp, observed=None, expected=None, key=None):
        """a concrete failing input of the PROPERTY on the implementation.
        key: class of a known finding it may belong to."""
        findings, _ = load_known(self.prop)
        if key is not None and key in findings:
            if key not in self.known_hits:
                self.known_hits[key] = {'what': what, 'input': inp, 'observed': observed, 'expected': expected}
            return
        if len(self.violations) < 20:
            self.violations.append({'what': what, 'input': inp, 'observed': observed,
                                    'expected': expected, 'class': key})


def write_replay(ctx, payload):
    os.makedirs(REPLAYS, exist_ok=True)
    blob = json.dumps(payload, sort_keys=True, default=repr)
    h = hashlib.sha1(blob.encode()).hexdigest()[:10]
    path = os.path.join(REPLAYS, '%s-%s.json' % (ctx.prop, h))
    with open(path, 'w') as f:
        json.dump(payload, f, indent=1, sort_keys=True, default=repr)
    return path


def finish(ctx, module):
    """evidence + verdict. returns exit code"""
    findings, fixed = load_known(ctx.prop)
    wall = time.time() - ctx.t0
    n_ob = len(ctx.obligations)
    n_ok = sum(1 for _, ok, _ in ctx.obligations if ok)
    broken = [(n, d) for n, ok, d in ctx.obligations if not ok]
    rc = 0
    lines = []
    # known findings: print those listed in the file that were reproduced this run
    for key, text in findings.items():
        if key in ctx.known_hits:
            lines.append('KNOWN-FINDING: property=%s key=%s %s' % (ctx.prop, key, text))
        else:
            ctx.notes.append('known finding %s was not reproduced on this run (stale?)' % key)
    replay = None
    if ctx.violations:
        rc = 1
        replay = write_replay(ctx, {
            'property': ctx.prop, 'kind': 'failing-input', 'tier': ctx.tier, 'seed': ctx.seed,
            'violations': ctx.violations, 'broken_obligations': broken,
            'disagreements': ctx.disagreements[:10],
            'replay_cmd': './check %s --replay <this file>' % ctx.prop})
        lines.append('VIOLATION property=%s replay=%s' % (ctx.prop, replay))
    elif broken or ctx.disagreements:
        rc = 1
        replay = write_replay(ctx, {
            'property': ctx.prop, 'kind': 'obligation-no-longer-checks', 'tier': ctx.tier,
            'seed': ctx.seed, 'broken_obligations': broken,
            'disagreements': ctx.disagreements[:10],
            'note': 'the violation search found no input on which the property itself fails'})
        lines.append('VIOLATION property=%s replay=%s no-failing-input-found' % (ctx.prop, replay))
    ev = {
        'property_id': ctx.prop, 'tier': 'thorough' if ctx.tier == 'thorough' else 'quick',
        'seed': ctx.seed, 'level': 'proof',
        'coverage': {
            'obligations': max(n_ob, 1), 'discharged': n_ok,
            'checker_cmd': 'make -C coq Props/%s.vo && coqc Props/%s.v (Print Assumptions) ; ./check %s --tier %s'
                           % (ctx.prop, ctx.prop, ctx.prop, ctx.tier),
            'trusted_base': ctx.trusted,
            'obligation_list': [{'name': n, 'discharged': ok, 'detail': d[:300]} for n, ok, d in ctx.obligations],
            'evaluations': ctx.evaluations,
            'distinct_nontrivial': len(ctx.nontrivial),
            'rule': getattr(module, 'RULE', ''),
            'samples': ctx.samples or ['(none)'],
            'suites': ctx.suites,
            'distribution': ctx.distribution,
            'disagreements': len(ctx.disagreements) + getattr(ctx, 'disagreements_more', 0),
            'known_findings_reproduced': sorted(ctx.known_hits),
            'fixed_entries': fixed,
            'notes': ctx.notes,
        },
        'assumptions': ctx.assumptions,
        'wall_s': round(wall, 2),
        'violations': len(ctx.violations) + (1 if (rc and not ctx.violations) else 0),
    }
    os.makedirs(EVIDENCE, exist_ok=True)
    with open(os.path.join(EVIDENCE, ctx.prop + '.json'), 'w') as f:
        json.dump(ev, f, indent=1, default=repr)
    for l in lines:
        print(l)
    print('%s tier=%s seed=%d obligations=%d/%d evaluations=%d nontrivial=%d disagreements=%d violations=%d wall=%.1fs'
          % (ctx.prop, ctx.tier, ctx.seed, n_ok, n_ob, ctx.evaluations, len(ctx.nontrivial),
             len(ctx.disagreements), len(ctx.violations), wall))
    for n, d in broken:
        print('  broken obligation: %s %s' % (n, d[:500]))
    try:
        import shutil
        shutil.rmtree(ctx.workdir, ignore_errors=True)
    except Exception:
        pass
    return rc


def proof_step(ctx, prop_file=None, gen=None):
    """steps 1-3 of DESIGN 2.1"""
    prop_file = prop_file or ctx.prop
    if gen:
        with BuildLock():
            for g in gen:
                g(ctx)
    ok, out, n_pa, n_closed, axioms = build_prop(prop_file)
    thms = theorems_in(prop_file) if os.path.exists(os.path.join(COQ, 'Props', prop_file + '.v')) else []
    if not ok:
        ctx.oblige('coq-build:Props/%s.v' % prop_file, False, out[-1500:])
        for t in thms:
            ctx.oblige('theorem:' + t, False, 'not checked: build failed')
        return False
    ctx.oblige('coq-build:Props/%s.v' % prop_file, True)
    for t in thms:
        ctx.oblige('theorem:' + t, True)
    bad_ax = [a for a in axioms if a.split('.')[-1] not in ALLOWED_AXIOMS and a not in ALLOWED_AXIOMS]
    ctx.oblige('print-assumptions', not bad_ax and (n_closed + (1 if axioms else 0) >= 1 or n_pa == 0),
               'closed=%d of %d; axioms=%s' % (n_closed, n_pa, axioms))
    hits = lint()
    ctx.oblige('lint:no-admit-no-axiom', not hits, '; '.join(hits[:5]))
    ctx.trusted += [
        'Coq 8.16.1 kernel + coqc; vm_compute for finite tables and witnesses; no native_compute',
        'Print Assumptions on every theorem of Props/%s.v: %d of %d closed under the global context; axioms: %s'
        % (prop_file, n_closed, n_pa, axioms or 'none'),
        'extraction: ExtrOcamlBasic only (bool, option, unit, list, prod, sumbool -> OCaml types); OCaml 4.13.1; ocaml/modelrun.ml generic s-expression driver',
        'correspondence harness (harness/*.py): generators, canonicalisers, /venv/bin/python running /repo working tree',
    ]
    return True


def main_for(module):
    """entry point used by ./check"""
    import argparse
    ap = argparse.ArgumentParser()
    ap.add_argument('prop')
    ap.add_argument('--tier', default=os.environ.get('VERIF_TIER', 'quick'))
    ap.add_argument('--seed', type=int, default=int(os.environ.get('VERIF_SEED', '1') or 1))
    ap.add_argument('--replay', default=None)
    a = ap.parse_args()
    ctx = Ctx(a.prop, a.tier, a.seed)
    if a.replay:
        return module.replay(ctx, json.load(open(a.replay)))
    try:
        module.run(ctx)
    except Exception as e:  # harness failure = broken obligation, never silent
        import traceback
        ctx.oblige('harness', False, traceback.format_exc()[-1500:])
    return finish(ctx, module)


def shrink_list(items, failing, max_rounds=200):
    """delta-debugging style minimisation of a list w.r.t. predicate failing(list)"""
    items = list(items)
    n = 2
    rounds = 0
    while len(items) >= 2 and rounds < max_rounds:
        rounds += 1
        chunk = max(1, len(items) // n)
        reduced = False
        for i in range(0, len(items), chunk):
            cand = items[:i] + items[i + chunk:]
            if cand and failing(cand):
                items = cand
                n = max(n - 1, 2)
                reduced = True
                break
        if not reduced:
            if chunk == 1:
                break
            n = min(len(items), n * 2)
    return items
