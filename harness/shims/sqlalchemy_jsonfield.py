"""Stand-in for the uninstalled third-party package sqlalchemy-jsonfield (harness only,
never on the path of /repo's own tests): a JSON column stored as text."""
import json
import sqlalchemy.types as types


class JSONField(types.TypeDecorator):
    impl = types.Text
    cache_ok = True

    def __init__(self, enforce_string=False, enforce_unicode=False, json=json, json_type=None, **kw):
        super().__init__()

    def process_bind_param(self, value, dialect):
        if value is None:
            return None
        return json.dumps(value)

    def process_result_value(self, value, dialect):
        if value is None:
            return None
        return json.loads(value)
