"""Stand-in for netifaces (harness only): no interfaces."""
AF_INET = 2


def interfaces():
    return []


def ifaddresses(name):
    return {}
