"""Minimal stand-in for Flask-Login (harness only).  Stores the user id in the Flask
session under '_user_id' and resolves it through the application's own user_loader.
All role logic under test (decorators.py, User.has_permission) is the repository's."""
import flask
from werkzeug.local import LocalProxy


class UserMixin:
    is_active = True
    is_authenticated = True
    is_anonymous = False

    def get_id(self):
        return str(self.id)


class AnonymousUserMixin:
    is_active = False
    is_authenticated = False
    is_anonymous = True

    def get_id(self):
        return None


def _load_user():
    lm = flask.current_app.extensions['login_manager_shim']
    if 'login_user_shim' not in flask.g:
        uid = flask.session.get('_user_id')
        user = None
        if uid is not None and lm._user_callback is not None:
            user = lm._user_callback(uid)
        if user is None:
            user = lm.anonymous_user()
        flask.g.login_user_shim = user
    return flask.g.login_user_shim


current_user = LocalProxy(_load_user)


class LoginManager:
    def __init__(self, app=None):
        self.anonymous_user = AnonymousUserMixin
        self._user_callback = None
        if app is not None:
            self.init_app(app)

    def init_app(self, app):
        app.extensions['login_manager_shim'] = self
        app.login_manager = self
        app.context_processor(lambda: dict(current_user=_load_user()))

    def user_loader(self, fn):
        self._user_callback = fn
        return fn


def login_user(user, remember=False, duration=None, force=False, fresh=True):
    flask.session['_user_id'] = user.get_id()
    flask.g.login_user_shim = user
    return True


def logout_user():
    flask.session.pop('_user_id', None)
    flask.g.pop('login_user_shim', None)
    return True


def login_required(fn):
    return fn
