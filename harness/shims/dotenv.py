"""Stand-in for python-dotenv (harness only)."""


def load_dotenv(*a, **kw):
    return False
