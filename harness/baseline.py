#!/venv/bin/python
"""Run the repository's pinned baseline suite (guard OFF - the source never reads
DASHLIVE_VERIF) and compare the set of passing tests with BASELINE.json."""
import json, os, subprocess, sys, tempfile, xml.etree.ElementTree as ET

def main():
    base = json.load(open('/root/.vp/BASELINE.json'))
    want = set(base['stable_pass'])
    work = os.path.join(os.path.dirname(os.path.dirname(os.path.abspath(__file__))), '.work')
    os.makedirs(work, exist_ok=True)
    fd, xml = tempfile.mkstemp(suffix='.xml', dir=work)
    os.close(fd)
    env = dict(os.environ)
    env.pop('DASHLIVE_VERIF', None)
    cmd = ['/venv/bin/python', '-m', 'pytest', '-ra', '-q', '-p', 'no:cacheprovider',
           '--timeout=900', '--continue-on-collection-errors', '--junitxml=' + xml]
    subprocess.run(cmd, cwd='/repo', env=env, stdout=subprocess.DEVNULL, stderr=subprocess.DEVNULL)
    passed = set()
    for tc in ET.parse(xml).getroot().iter('testcase'):
        if any(ch.tag in ('failure', 'error', 'skipped') for ch in tc):
            continue
        passed.add('%s::%s' % (tc.get('classname'), tc.get('name')))
    os.unlink(xml)
    missing = sorted(want - passed)
    print('baseline: %d stable tests expected, %d passed, %d missing' % (len(want), len(passed & want), len(missing)))
    for m in missing:
        print('  MISSING', m)
    return 1 if missing else 0

if __name__ == '__main__':
    sys.exit(main())
