"""setup_cmd: regenerate Gen/*.v, build everything once."""
import os
import sys
from . import common


def main():
    try:
        from . import translators
        translators.generate_all()
    except ImportError:
        pass
    with common.BuildLock():
        common.ensure_makefile()
        rc, out = common.sh('timeout 3000 make -j16 2>&1', cwd=common.COQ, timeout=3100)
        print(out[-3000:])
        if rc != 0:
            print('setup: coq build FAILED')
            return 1
        rc, out = common.sh([os.path.join(common.OCAML, 'build.sh')], cwd=common.OCAML)
        if rc != 0 or not os.path.exists(common.MODELRUN):
            print('setup: ocaml build FAILED', out[-2000:])
            return 1
    print('setup: ok')
    return 0


if __name__ == '__main__':
    sys.exit(main())
