"""The real dash-live Flask application on in-memory SQLite with the fixture streams,
driven through app.test_client() under a controlled clock (DESIGN 1, 3.2).

Nothing here touches /repo: fixture media are symlinked (read-only use) or copied into
the per-run work directory; four uninstalled third-party modules are replaced by the
stand-ins in harness/shims (on PYTHONPATH only for the harness).
"""
import binascii
import datetime
import logging
import os
import shutil
from unittest import mock

FIXTURES = '/repo/tests/fixtures'

_real_datetime = datetime.datetime


class Clock:
    """patches datetime.datetime.now()/utcnow() (the same trick as upstream's MockTime)"""

    def __init__(self, now):
        self.now = now

        class _Meta(type):
            def __instancecheck__(cls, obj):
                return isinstance(obj, _real_datetime)

        clock = self

        class _Base(_real_datetime):
            @classmethod
            def now(cls, tz=None):
                n = clock.now
                if tz is None:
                    return n.replace(tzinfo=None)
                return n.astimezone(tz) if n.tzinfo is not None else n.replace(tzinfo=tz)

            @classmethod
            def utcnow(cls):
                return clock.now.replace(tzinfo=None)

        self.cls = _Meta('datetime', (_Base,), {})
        self.patch = mock.patch.object(datetime, 'datetime', self.cls)

    def set(self, now):
        self.now = now

    def __enter__(self):
        self.patch.start()
        return self

    def __exit__(self, *a):
        self.patch.stop()
        return False


def utc(y, mo, d, h=0, mi=0, s=0, us=0):
    from dashlive.utils.timezone import UTC
    return _real_datetime(y, mo, d, h, mi, s, us, tzinfo=UTC())


USERS = {
    'admin': ('admin', 'admin@dashlive.unit.test', 'suuuperSecret!'),
    'user': ('user', 'user@dashlive.unit.test', 'pa55word'),
    'media': ('media', 'media@dashlive.unit.test', 'm3d!a'),
}


class AppEnv:
    def __init__(self, workdir, streams=('bbb',), copy_media=False, with_text=True, quiet=True):
        from passlib.hash import pbkdf2_sha256
        from dashlive.server.app import create_app
        from dashlive.server import models
        self.models = models
        self.workdir = workdir
        self.instance = os.path.join(workdir, 'instance')
        self.blob_folder = os.path.join(workdir, 'blobs')
        self.upload_folder = os.path.join(workdir, 'uploads')
        for d in (self.instance, self.blob_folder, self.upload_folder):
            os.makedirs(d, exist_ok=True)
        config = {
            'BLOB_FOLDER': self.blob_folder,
            'DASH': {
                'ALLOWED_DOMAINS': '*',
                'CSRF_SECRET': 'test.csrf.secret',
                'DEFAULT_ADMIN_USERNAME': 'admin',
                'DEFAULT_ADMIN_PASSWORD': 'suuuperSecret!',
            },
            'UPLOAD_FOLDER': self.upload_folder,
            'SECRET_KEY': 'cookie.secret',
            'SQLALCHEMY_DATABASE_URI': 'sqlite:///:memory:',
            'TESTING': True,
            'LOG_LEVEL': 'critical',
            'PREFERRED_URL_SCHEME': 'http',
            'PROPAGATE_EXCEPTIONS': False,
        }
        self.app = create_app(config=config, instance_path=self.instance,
                              create_default_user=False, wss=False)
        if quiet:
            logging.disable(logging.CRITICAL)
        with self.app.app_context():
            for name, (uname, email, pw) in USERS.items():
                mask = {'admin': models.Group.ADMIN,
                        'user': models.Group.USER,
                        'media': models.Group.USER + models.Group.MEDIA}[name]
                u = models.User(username=uname, email=email, password=pbkdf2_sha256.hash(pw),
                                groups_mask=int(mask), must_change=False)
                models.db.session.add(u)
            models.User.get_guest_user()
            for name in ['application', 'video', 'audio', 'text', 'image']:
                if models.ContentType.get(name=name) is None:
                    models.db.session.add(models.ContentType(name=name))
            models.db.session.commit()
        for s in streams:
            self.add_fixture_stream(s, copy_media=copy_media, with_text=with_text)

    def add_fixture_stream(self, name, copy_media=False, with_text=True, title=None, only=None, directory=None, timing=True):
        """only: restrict to these file stems; directory: name of the stream (default: the fixture name); timing=False: no timing reference"""
        from dashlive.drm.playready import PlayReady
        from dashlive.mpeg import mp4
        from dashlive.mpeg.dash.representation import Representation
        from dashlive.utils.date_time import from_isodatetime
        models = self.models
        src_dir = os.path.join(FIXTURES, name)
        directory = directory or name
        dst_dir = os.path.join(self.blob_folder, directory)
        if not os.path.exists(dst_dir):
            if copy_media:
                os.makedirs(dst_dir)
                for f in os.listdir(src_dir):
                    if f.endswith('.mp4'):
                        shutil.copy(os.path.join(src_dir, f), dst_dir)
            else:
                os.symlink(src_dir, dst_dir)
        titles = {'bbb': 'Big Buck Bunny', 'tears': 'Tears of Steel'}
        with self.app.app_context():
            stream = models.Stream(
                title=title or titles.get(name, name), directory=directory,
                marlin_la_url='ms3://localhost/marlin/%s' % name,
                playready_la_url=PlayReady.TEST_LA_URL)
            files = sorted(f[:-4] for f in os.listdir(src_dir)
                           if f.endswith('.mp4') and f.startswith(name + '_')
                           and (with_text or '_t' not in f) and (only is None or f[:-4] in only))
            mfs = []
            for stem in files:
                path = os.path.join(src_dir, stem + '.mp4')
                with open(path, 'rb', buffering=16384) as src:
                    atoms = mp4.Mp4Atom.load(src)
                rep = Representation.load(stem + '.mp4', atoms)
                ct = 'video' if '_v' in stem else 'audio' if '_a' in stem else 'text'
                blob = models.Blob(filename=stem + '.mp4',
                                   created=from_isodatetime('2022-09-01T12:23:00Z'),
                                   size=os.path.getsize(path), sha1_hash=path,
                                   content_type=ct, auto_delete=False)
                mf = models.MediaFile(name=stem, stream=stream, bitrate=rep.bitrate,
                                      content_type=rep.content_type,
                                      codec_fourcc=rep.codecs.split('.')[0],
                                      track_id=rep.track_id, encrypted=rep.encrypted, blob=blob)
                mf.set_representation(rep)
                mfs.append(mf)
                if timing and stream.timing_reference is None and '_v' in stem:
                    stream.timing_reference = mf.as_stream_timing_reference()
            models.db.session.add(stream)
            for mf in mfs:
                models.db.session.add(mf.blob)
                models.db.session.add(mf)
            models.db.session.commit()
            kids = set()
            for mf in models.MediaFile.all():
                r = mf.representation
                if r is None or not r.encrypted:
                    continue
                for kid in r.kids:
                    if kid.raw in kids:
                        continue
                    if models.Key.get(hkid=kid.hex) is None:
                        key = binascii.b2a_hex(PlayReady.generate_content_key(kid.raw))
                        models.db.session.add(models.Key(hkid=kid.hex, hkey=key, computed=True))
                    kids.add(kid.raw)
            models.db.session.commit()

    def add_custom_stream(self, directory, files, title=None, timing=True):
        """a stream built from copies of fixture files under new names.  files: {stem: source path}"""
        from dashlive.mpeg import mp4
        from dashlive.mpeg.dash.representation import Representation
        from dashlive.utils.date_time import from_isodatetime
        models = self.models
        dst_dir = os.path.join(self.blob_folder, directory)
        os.makedirs(dst_dir, exist_ok=True)
        with self.app.app_context():
            stream = models.Stream(title=title or directory, directory=directory)
            models.db.session.add(stream)
            for stem, src_path in sorted(files.items()):
                path = os.path.join(dst_dir, stem + '.mp4')
                shutil.copy(src_path, path)
                with open(path, 'rb', buffering=16384) as src:
                    atoms = mp4.Mp4Atom.load(src)
                rep = Representation.load(stem + '.mp4', atoms)
                blob = models.Blob(filename=stem + '.mp4', created=from_isodatetime('2022-09-01T12:23:00Z'),
                                   size=os.path.getsize(path), sha1_hash=path, content_type=rep.content_type, auto_delete=False)
                mf = models.MediaFile(name=stem, stream=stream, bitrate=rep.bitrate, content_type=rep.content_type,
                                      codec_fourcc=rep.codecs.split('.')[0], track_id=rep.track_id, encrypted=rep.encrypted, blob=blob)
                mf.set_representation(rep)
                if timing and stream.timing_reference is None and rep.content_type == 'video':
                    stream.timing_reference = mf.as_stream_timing_reference()
                models.db.session.add(blob)
                models.db.session.add(mf)
            models.db.session.commit()

    def add_raw_stream(self, directory, files):
        """a stream whose media files are arbitrary byte strings (no representation):
        enough for the range-only on-demand route"""
        from dashlive.utils.date_time import from_isodatetime
        models = self.models
        d = os.path.join(self.blob_folder, directory)
        os.makedirs(d, exist_ok=True)
        with self.app.app_context():
            stream = models.Stream(title=directory, directory=directory)
            models.db.session.add(stream)
            for name, content in files.items():
                with open(os.path.join(d, name + '.mp4'), 'wb') as f:
                    f.write(content)
                blob = models.Blob(filename=name + '.mp4',
                                   created=from_isodatetime('2022-09-01T12:23:00Z'),
                                   size=len(content), sha1_hash=name, content_type='video',
                                   auto_delete=False)
                mf = models.MediaFile(name=name, stream=stream, bitrate=1, content_type='video',
                                      codec_fourcc='avc1', track_id=1, encrypted=False, blob=blob)
                models.db.session.add(blob)
                models.db.session.add(mf)
            models.db.session.commit()

    def add_mps(self, name, periods, title=None):
        """periods: list of dict(pid, stream, start_s, duration_s, tracks=[(track_id, content_type, role)])"""
        import datetime as _dt
        from dashlive.mpeg.dash.content_role import ContentRole
        models = self.models
        with self.app.app_context():
            mps = models.MultiPeriodStream(name=name, title=title or name)
            models.db.session.add(mps)
            pks = []
            for idx, p in enumerate(periods, start=1):
                stream = models.Stream.get(directory=p['stream'])
                prd = models.Period(pid=p['pid'], parent=mps, ordering=idx, stream=stream,
                                    start=_dt.timedelta(seconds=p['start_s']),
                                    duration=_dt.timedelta(seconds=p['duration_s']))
                models.db.session.add(prd)
                for (tid, ctype, role) in p.get('tracks', [(1, 'video', 'MAIN'), (2, 'audio', 'MAIN')]):
                    ct = models.ContentType.get(name=ctype)
                    adp = models.AdaptationSet(period=prd, track_id=tid, role=ContentRole[role], content_type=ct)
                    models.db.session.add(adp)
            models.db.session.commit()
            return [prd.pk for prd in mps.periods]

    def client(self, role=None):
        c = self.app.test_client()
        if role and role != 'anonymous':
            with c.session_transaction() as sess:
                sess['_user_id'] = USERS[role][0]
        return c

    def close(self):
        logging.disable(logging.NOTSET)
