"""HTTP-level suite of the segment-timing core: the real Flask app on the bbb fixture stream,
controlled clock, $Number$ / $Time$ requests; served tfdt / mfhd / trun durations are read with
harness/boxwalk.py and compared with Model/SegModel.serve and with the property oracles."""
import datetime

from . import boxwalk, segcore as sc

START = '2020-01-01T00:00:00Z'
T0 = datetime.datetime(2020, 1, 1, tzinfo=datetime.timezone.utc)
EXT = {'video': 'm4v', 'audio': 'm4a', 'text': 'mp4'}


def rep_of(env, name):
    """-> (rep dict for the model, content_type) from the indexed media file"""
    with env.app.app_context():
        mf = env.models.MediaFile.get(name=name)
        r = mf.representation
        ref = mf.stream.timing_reference
        durs = [s.duration for s in r.segments[1:]]
        rep = {'ts': r.timescale, 'durs': durs, 'seg_dur': r.segment_duration, 'start_number': r.start_number,
               'rts': ref.timescale, 'ref_dur': ref.media_duration, 'ref_nseg': ref.num_media_segments,
               'ref_seg_dur': ref.segment_duration, 'kind': 'fixture:' + name,
               'start_time': getattr(r, 'start_time', 0) or 0}
        return rep, mf.content_type


def summarize(resp, default_duration):
    if resp.status_code != 200:
        return []
    s = boxwalk.segment_summary(resp.data, default_duration)
    return s


def suite(ctx, prop):
    from .appenv import AppEnv, Clock
    import logging
    env = AppEnv(ctx.workdir, streams=('bbb',))
    logging.disable(logging.CRITICAL)
    ctx.trusted.append('harness/shims (sqlalchemy_jsonfield, dotenv, netifaces, flask_login stand-ins) used to import and run the real Flask app; clock patched from outside')
    c = env.client()
    rng = ctx.rng
    names = ['bbb_v7', 'bbb_a1', 'bbb_t1'] if ctx.quick() else ['bbb_v6', 'bbb_v7', 'bbb_a1', 'bbb_a2', 'bbb_t1']
    ok = True
    n_req = 0
    for name in names:
        rep, ctype = rep_of(env, name)
        ext = EXT[ctype]
        init = c.get('/dash/vod/bbb/%s/init.%s' % (name, ext))
        if prop in ('C01', 'C06') and init.status_code != 200:
            ctx.violation('init segment of %s answers %d' % (name, init.status_code), {'url': 'init', 'name': name})
        dd = boxwalk.trex_default_duration(boxwalk.Root(init.data)) if init.status_code == 200 else None
        lr = sc.rep_lr(rep)
        n = len(rep['durs'])
        # ---- vod by number: every segment, one before, one past the end
        if prop in ('C02', 'C06'):
            nums = list(range(rep['start_number'] - 1, rep['start_number'] + n + 1))
            if ctx.quick():
                nums = nums[:4] + rng.sample(nums[4:-3], min(12, max(0, len(nums) - 7))) + nums[-3:]
            reqs = [sc.model_serve(rep, [0, 0, 0, 0, 0], None, k) for k in nums]
            mo = sc.run_model(reqs)
            acc = None
            for k, m in zip(sorted(nums), [mo[nums.index(k)] for k in sorted(nums)]):
                r = c.get('/dash/vod/bbb/%s/%d.%s' % (name, k, ext))
                n_req += 1
                ctx.count('http:vod-number')
                s = summarize(r, dd)
                got = [s['tfdt'], s['seq'], s['duration']] if s else []
                want = [m[1] + rep['start_time'], m[2], m[3]] if m else []
                if r.status_code >= 500:
                    ctx.violation('vod %s number %d answers %d' % (name, k, r.status_code), {'url': r.request.path})
                if got != want:
                    ok = False
                    ctx.disagree('http:vod-number', {'name': name, 'number': k}, want, got)
                inside = rep['start_number'] <= k < rep['start_number'] + n
                if prop == 'C06':
                    if inside and r.status_code != 200:
                        ctx.violation('enumerated number %d of %s answers %d' % (k, name, r.status_code), {'name': name, 'number': k})
                    if not inside and r.status_code != 404:
                        ctx.violation('number %d outside the media of %s answers %d (expected 404)' % (k, name, r.status_code),
                                      {'name': name, 'number': k})
                    if inside and s:
                        exp = rep['start_time'] + sc.prefix(rep, k - rep['start_number'])
                        if s['tfdt'] != exp or s['duration'] != rep['durs'][k - rep['start_number']]:
                            ctx.violation('number %d of %s: tfdt %d duration %d, stored track has %d / %d'
                                          % (k, name, s['tfdt'], s['duration'], exp, rep['durs'][k - rep['start_number']]),
                                          {'name': name, 'number': k})
        # ---- live: clock grid
        if prop in ('C02', 'C01', 'C09'):
            grid = []
            for loops in ([0, 1, 37] if ctx.quick() else [0, 1, 2, 37, 1000, 10**5]):
                for _ in range(2 if ctx.quick() else 6):
                    i = rng.randrange(n)
                    tick = loops * lr + sc.prefix(rep, i) + rng.choice([0, 1, -1, rep['durs'][i] // 2])
                    us = max(61 * 10**6, tick * 10**6 // rep['ts'] + rng.choice([0, 1, 500000]))
                    grid.append(us)
            for us in grid:
                depth = rng.choice([20, 60])
                leeway = rng.choice([0, 16, 60])
                tm = {'elapsed': us, 'depth': depth, 'leeway': leeway, 'live': True}
                r_impl, timing = build_fixture_impl(env, name, tm)
                tv = sc.timing_vals(timing)
                tl = sc.impl_timeline(r_impl)
                fl = list(r_impl.calculate_first_and_last_segment_number())
                qs = sc.queries_for(rng, rep, tl, fl, True)
                if ctx.quick():
                    qs = qs[:6] + qs[-4:]
                mo = sc.run_model([sc.model_serve(rep, tv, t, k) for (t, k) in qs])
                now = T0 + datetime.timedelta(microseconds=us)
                q = '?start=%s&depth=%d&leeway=%d' % (START, depth, leeway)
                with Clock(now):
                    for (t, k), m in zip(qs, mo):
                        if t is not None:
                            url = '/dash/live/bbb/%s/time/%d.%s%s' % (name, t, ext, q)
                        else:
                            if k < 0:
                                continue
                            url = '/dash/live/bbb/%s/%d.%s%s' % (name, k, ext, q)
                        r = c.get(url)
                        n_req += 1
                        ctx.count('http:live')
                        s = summarize(r, dd)
                        got = [s['tfdt'], s['seq'], s['duration']] if s else []
                        want = [m[1] + rep['start_time'], m[2], m[3]] if m else []
                        if r.status_code >= 500:
                            ctx.violation('%s answers %d' % (url, r.status_code), {'url': url, 'elapsed_us': us})
                        if got != want:
                            ok = False
                            ctx.disagree('http:live', {'url': url, 'elapsed_us': us}, want, got)
                        ctx.nontriv((name, us, t, k))
    ctx.oblige('correspondence:HTTP(LiveMedia routes on bbb)-vs-SegModel.serve', ok, '%d requests' % n_req)
    env.close()


def build_fixture_impl(env, name, tm):
    """the stored Representation of a fixture file with a DashTiming for the given clock"""
    from dashlive.mpeg.dash.timing import DashTiming
    from dashlive.server.options.repository import OptionsRepository
    from dashlive.utils.timezone import UTC
    import copy
    with env.app.app_context():
        mf = env.models.MediaFile.get(name=name)
        rep = copy.copy(mf.representation)
        ref = mf.stream.timing_reference
        defaults = OptionsRepository.get_default_options()
        args = {'start': START, 'depth': str(tm['depth']), 'leeway': str(tm['leeway'])}
        options = OptionsRepository.convert_cgi_options(args, defaults)
        options.add_field('mode', 'live')
        now = (T0 + datetime.timedelta(microseconds=tm['elapsed'])).astimezone(UTC())
        timing = DashTiming(now, ref, options)
        rep.set_dash_timing(timing)
        return rep, timing
