"""Writes /verif/MANIFEST.json from the table below (kept valid at all times)."""
import json
import os
import sys

VERIF = os.path.dirname(os.path.dirname(os.path.abspath(__file__)))

TB = ('Trusted: Coq 8.16.1 kernel/coqc (vm_compute, no native_compute); Print Assumptions = closed under the '
      'global context unless stated; extraction via ExtrOcamlBasic + ocaml/modelrun.ml; the Python correspondence '
      'harness and its generators; ')

CHECKS = {
    'C20': dict(
        text='Theorems C20_refines / C20_eviction_irrelevant / C20_positions_clamped (Coq, unbounded: every file, '
             'window, buffer size, cache limit and EVERY operation sequence, by induction over the op list with a '
             'cache invariant) about a line-by-line Gallina transcription of BufferedReader; the transcription is '
             'tied to /repo by a differential run (extracted model vs the real class, exact outputs) on every check.',
        note=TB + 'underlying reader behaves like io.BytesIO; Buffer timestamps modelled as insertion order '
             '(victim choice proved unobservable); window size explicit (size=None is compared model-vs-code only); '
             'data=b"" constructor (buffersize 0) not covered by the theorem, only by correspondence.',
        technique='Coq proof (refinement to an in-memory slice, induction over op sequences) + differential '
                  'correspondence of the extracted model against BufferedReader',
        design='C20'),
}

CHECKS['C13'] = dict(
    text='Theorems C13_segment_coherent / C13_ondemand_coherent (every header string, every resource length, any int() '
         'conversion that is non-negative on dash-free strings: the response is 200-full / 400 / 206 with 0<=a<=b<len, '
         'body = full[a:b+1] and Content-Range a-b/len / 416 with empty body and bytes */len; never a crash) and '
         'C13_rfc7233_{first_last,first_only,suffix} (exact RFC 7233 slice for the three well-formed forms) about a '
         'transcription of get_http_range and its two call sites; tied to /repo by differential runs at function level '
         '(grid + malformed strings) and over HTTP on a generated-segment route and the on-demand file route.',
    note=TB + 'Python int(), str.lower()/strip() and Flask header delivery are library behaviour (int() is a parameter of '
         'the theorems; the executable instance used in the correspondence is proved to satisfy the hypothesis); '
         'harness/shims stand-ins are used to import the handlers.',
    technique='Coq proof (case analysis over the parser, all strings) + differential correspondence (function level and HTTP) '
              '+ independent RFC 7233 oracle for the violation search',
    design='C13')

CHECKS['C19'] = dict(
    text='Theorems (all unbounded): C19_duration_roundtrip (every duration us>=0, either tie outcome: parse(render) within '
         '500 us, exact parse), C19_duration_fields/_text (minutes, seconds < 60, ms < 1000; text is PT[hH][mM]s[.f]S), '
         'C19_datetime_roundtrip (every valid field tuple, microsecond and offset), C19_timecode_monotone, '
         'C19_timecode_roundtrip_partial (one tick, timescale <= 10^6), _general and C19_time_roundtrip (all timescales); '
         'C19_refuted_fine_timescale is the recorded finding. Models transcribe toIsoDuration, the two regular-expression '
         'parsers of from_isodatetime, to_iso_datetime and the tick helpers; tied to /repo by differential runs on '
         'formatted values, grammar-generated and mutated texts.',
    note=TB + 'float arithmetic modelled as exact rationals + rounding (relational at the .xxx5 ms ties); regex/datetime '
         'library semantics transcribed; fraction digits beyond 6 and UTC offsets beyond +-24h are outside the model.',
    technique='Coq proof (decimal print/parse round trips, Euclidean-division arithmetic) + differential correspondence',
    design='C19')

CHECKS['C08'] = dict(
    text='Theorems (unbounded: every clock >= 1970-01-01T00:01Z, every start/depth/mup/leeway option value, any reference): '
         'C08_coherent (ast <= now, ast <= publishTime <= now on a whole second, 0 <= depth <= now-ast, firstAvailableTime = '
         'now-ast-depth >= 0), C08_quantised (publishTime = ast + k*p, lag < p s), C08_monotone_partial (publishTime never '
         'decreases between instants resolving the same ast), C08_symbolic_age, C08_same_day, C08_now_follows; '
         'C08_refuted_rollover and C08_refuted_fractional_start are the two recorded findings. Model transcribes '
         'DashTiming.calculate_live_params; tied to /repo by differential runs of DashTiming (options through the real option parser).',
    note=TB + 'day-of-month/day-of-year of now are model inputs (any values within 1..31 / 1..366); float arithmetic of '
         'total_seconds()/round() modelled as exact rationals; option parsing (from_isodatetime, int) is exercised by the '
         'correspondence, proved only in C19.',
    technique='Coq proof (Euclidean-division arithmetic over microsecond integers, lia/nia) + differential correspondence of the '
              'extracted model against DashTiming + property oracle on instant pairs',
    design='C08')

SEG_NOTE = (TB + 'float rounding in timescale_to_timedelta / scale_timedelta / total_seconds modelled as exact rationals (cases where the '
            'implementation equals the model at now +-2 us are counted, not diffed); Jinja printing of the timeline and Flask routing '
            'are exercised at HTTP level only; harness/shims stand-ins are used to import the handlers; timing inputs (elapsed, depth, '
            'firstAvailableTime, leeway) are taken from the real DashTiming (C08).')

CHECKS['C02'] = dict(
    text='Theorems (unbounded: every representation with >= 2 segments, irregular durations, any timescale/reference, any clock, '
         'depth and loop count): C02_time_exact (a served $Time$=t of any live timeline entry comes from that very segment with '
         'baseMediaDecodeTime = t and the stored sample duration; S@d = that duration + drift on the loop-final entry), C02_gapless '
         '(t+d = next t across loops; every entry is a canonical (loop, segment) start), C02_number (sequence number N, decode time '
         'within half a segment + drift of (N-startNumber)*duration), C02_alignment (tfdt mod reference duration = source position, '
         'both modes), C02_wrap_stops (termination argument of the index loop); C02_refuted_drift is the recorded finding. Tied to '
         '/repo by differential runs of Representation/DashTiming/LiveMedia index functions and over HTTP on the bbb fixtures.',
    note=SEG_NOTE + ' Exact-time theorems assume the file starts at decode time 0 and d_n + drift >= 1.',
    technique='Coq proof (induction over the segment walk and the timeline loop, prefix-sum arithmetic) + differential correspondence '
              '(function level and HTTP) + property oracle',
    design='C02')

CHECKS['C09'] = dict(
    text='Theorems (unbounded): C09_agree (two live timelines of one representation, any two instants and depths, agree on every '
         'segment start they both list: same duration, same source segment), C09_window_forward (the first listed start is monotone '
         'in the clock), C09_first_entry, C09_publish_monotone (publishTime never decreases for equal availabilityStartTime; from C08). '
         'The patch clause (patch applied to the T1 document = manifest at T2, originalPublishTime, mpdId) is decided over HTTP on the '
         'real ServePatch handler with the harness applying the replace operations - it is the same timeline function at T2, so the '
         'timeline theorems carry over; no separate Coq model of the Jinja patch template.',
    note=SEG_NOTE + ' Patch application uses lxml and the three selector forms the patch template emits.',
    technique='Coq proof (uniqueness of the canonical (loop, segment) decomposition; monotonicity of the segment walk) + differential '
              'correspondence + HTTP patch application',
    design='C02-C09')

CHECKS['C01'] = dict(
    text='Theorem C01_time_available_partial (unbounded: any representation, clock, depth, loop count): every live timeline entry whose '
         'end is not later than now passes the handler\'s availability test and is mapped to its own segment, provided '
         'leeway*timescale >= (max_d/2+1)*10^6; C01_refuted_leeway shows the bound is needed (recorded finding). The first/last number '
         'window and the $Number$ half are decided by correspondence + oracle (findings leeway / number-window), the URL half and the '
         'init segments over HTTP: every URL a fetched manifest spells out is requested at the manifest\'s instant.',
    note=SEG_NOTE + ' PARTIAL: the theorem covers the availability test of $Time$ addressing; number-window refusals are found by search, not excluded by proof.',
    technique='Coq proof (tick/microsecond rounding arithmetic over the timeline invariant) + differential correspondence + exhaustive '
              'per-manifest fetch of advertised URLs',
    design='C02-C09')

CHECKS['C06'] = dict(
    text='Theorems (unbounded): C06_enumeration (numbers startNumber..startNumber+n-1 are served from their own segment with prefix-sum '
         'decode times), C06_past_end (anything else is refused), C06_gapless_total (decode times chain, start at the first decode '
         'time, total = media duration), C06_vod_time_partial ($Time$ of static timeline entry k maps to segment k+1 inside the '
         'quarter-segment window), C06_ranges_tile / C06_ranges_last (SegmentList ranges of a contiguous segment table tile the file); '
         'C06_refuted_irregular and C06_refuted_vod_overshoot are recorded findings. Declared duration and the indexer\'s segment table '
         'are checked on the fixture files and over HTTP (vod/odvod manifests, every enumerated segment fetched).',
    note=SEG_NOTE + ' Representation.load (the indexer) is executed, not modelled: contiguity of its table is a premise checked per file.',
    technique='Coq proof (prefix sums, list induction) + differential correspondence + HTTP enumeration + independent box walker',
    design='C02-C09')

CHECKS['C14'] = dict(
    text='Theorems (unbounded): C14_segment_events (create_emsg_boxes for a segment [a,b) emits exactly the scheduled events '
         'start+k*interval in it, k < count, in order, for every schedule with interval >= 1), C14_events_exact, C14_exactly_once '
         '(over any run of consecutive segments the boxes are the schedule restricted to the run, no duplicates), C14_time_field, '
         'C14_manifest (out-of-band listing = first count points), C14_crc (every section followed by its CRC-32/MPEG-2 checks to 0), '
         'C14_scte35_roundtrip (parse(encode(s)) = s with a valid CRC for every modelled signal whose fields fit their bit widths). '
         'Models transcribe repeating_event_base.py, the SCTE-35 encoders/parsers and a bit-serial CRC; tied to /repo by differential '
         'runs of PingPongEvents/Scte35Events, BinarySignal.encode/parse and crccheck.',
    note=TB + 'bitstring and crccheck are libraries compared against, not proved about; SCTE-35 shapes outside the model '
         '(splice_schedule, component lists, DTMF/audio descriptors, encrypted packets) are not covered; the tiling premise '
         '(consecutive segments) comes from C02_gapless inside a loop.',
    technique='Coq proof (loop invariant over the event loop, range concatenation, LFSR self-feeding argument, bit-field read/write '
              'round trip) + differential correspondence',
    design='C14')

CHECKS['C12'] = dict(
    text='Theorems (unbounded: any period list, clock, depth, repetition count): C12_vod_contiguous (Periods contiguous from 0 with '
         'the stored durations), C12_live_contiguous, C12_live_cover_partial (the first listed Period contains the start of the '
         'time-shift window; every listed one reaches into it and starts no later than now), C12_live_reaches_now + C12_live_cover (the '
         'model loop never runs out of fuel before it passes now - the termination argument of the while loop - so every instant of '
         '[firstAvailableTime, now] lies in a listed Period), C12_ids_unique ((period, repetition) '
         'never repeats), C12_numbers (number startNumber+k delivers source segment m0+k, m0 = nearest-start segment of the Period\'s '
         'source offset; beyond the source: refused), C12_decode_times (zero at the Period start, gapless); C12_refuted_wrap is a '
         'recorded finding. Tied to /repo over HTTP: real /mps manifests and segments of generated multi-period definitions '
         'against the models, payloads compared with the stored segments by an independent box walker; every $Time$ URL of the '
         'static timeline=1 manifest is compared with the number route the model decides (two more recorded findings: the '
         'timeline is that of the whole source, not of the Period).',
    note=TB + 'multi-period definitions are inserted through the SQLAlchemy models; Jinja rendering of Period elements and Flask routing '
         'are exercised, not modelled; float total_seconds() modelled as exact rationals.',
    technique='Coq proof (induction over the period loop with a contiguity/ordering invariant; segment-walk lemmas of C02) + HTTP '
              'differential correspondence + property oracle',
    design='C12')

CHECKS['C15'] = dict(
    text='Theorems: C15_no_forgotten_route (for EVERY row of coq/Gen/RoutesTable.v - regenerated from the live application object on '
         'every run: URL rule x HTTP method, guards read from the decorator closures - and EVERY role, a state-changing method whose '
         'guards admit the role is one the role is entitled to; finite, by vm_compute over the generated table, fail-closed on '
         'unknown decorators/handlers), C15_csrf_once (a token string is accepted at most once over any sequence of checks, any MAC), '
         'C15_csrf_signature and C15_csrf_binding (an accepted token was issued for that cookie and that service, given an injective '
         'MAC and the suffix-free list of service names extracted from the source). Tied to /repo by the translator itself, by an '
         'HTTP sweep of every route x method x lesser role with harvested tokens (state fingerprint before/after, which also '
         'validates the state-changing bit) and by differential CSRF sequences on the real CsrfProtection. The rule decided inside '
         'a method body, EditUser.post, has its own model (Model/UserModel.v): C15_edit_other_needs_admin, '
         'C15_self_edit_no_escalation, C15_password_needs_confirmation, tied by the row the database holds after each of a '
         'series of POST /api/users/<pk> requests (administrator / ordinary caller x own / other / unknown account); '
         'C15_users_unique (Model/UsersModel.v: under any sequence of additions and edits the primary keys, user names and email '
         'addresses of the user table stay unique), tied by whole-table comparison after every request of colliding add / edit histories.',
    note=TB + 'PARTIAL: other authorisation decided inside method bodies (none known besides EditUser.post) would be outside the table '
         'theorem and decided by the HTTP sweep only; flask-login is replaced by a shim (session user id), flask-jwt-extended is the real library; '
         'HMAC-SHA1 injectivity is assumed; the role required per handler class is a hand table from docs/users.md.',
    technique='Coq proof (finite table by vm_compute regenerated from source; induction over check sequences; list-suffix argument) + '
              'exhaustive HTTP sweep with state fingerprints + differential CSRF sequences',
    design='C15')

CHECKS['C07'] = dict(
    text='Theorems: C07_roundtrip (for every legal value of the ten codec kinds Bool / IntOrNone / IntDefault / StrOrNone / Str / '
         'List / Float / Url / Errors / Ast - every integer, None, every URL-plain string and token list, every licence URL whatever its '
         'characters (C07_url_any_text: quote_plus out, one query decoding in), every error list with integer positions, every '
         'symbolic or date-time availabilityStartTime with any UTC offset (through the C19 date-time round trip): value -> URL '
         'text -> query decoding -> from_string is the identity), C07_drm_roundtrip (every DRM selection - any list of systems '
         'with non-empty location sets - comes back as its canonical form, which lists the same pairs: "all" is re-expanded in the '
         'repository order), C07_table_known (every row of coq/Gen/OptionsTable.v, regenerated from OptionsRepository on every '
         'run with kinds decided by codec-function identity, has a recognised codec pair), C07_table_proved (every registered option '
         'is of a proved kind; the PlayReady version, a float, for values with one fractional digit - its listed choices), C07_forwarding (forwarded to media type m iff the usage mask '
         'has m and the value differs from the default). Tied to /repo by differential runs of the real from_string/to_string/'
         'generate_cgi_parameters/dict_to_cgi_params/werkzeug decoding against the model for all ten kinds, a round-trip oracle '
         'for ALL options and random option subsets, and over HTTP: the query strings of a real manifest\'s media URLs re-parsed '
         'by the server\'s own parser; error positions given as wall-clock times must address the right segment of each track.',
    note=TB + 'PlayReady versions with more than one fractional digit (not among the listed choices) are decided by the differential round trip only; error positions that are date-times '
         'are outside the model (oracle); werkzeug decoding is modelled (+ and %XX); free strings of the Str / List kinds are '
         'restricted to URL-plain characters (the URL layer does no escaping for them).',
    technique='Coq proof (decimal print/parse, comma / equals / hyphen split and join, percent-encoding through query decoding, '
              'finite item domain of DRM selections by vm_compute lifted with forallb_forall; generated table by vm_compute) + '
              'differential correspondence + round-trip oracle + HTTP',
    design='C07')

CHECKS['C10'] = dict(
    text='Theorems (unbounded: any box forest): C10_others_untouched (every top-level box other than moov is passed through in order), '
         'C10_vod_children (moov children = stored children ++ pssh boxes), C10_identity (no pssh and no mehd under moov or moov/mvex: the stored '
         'init segment), C10_wellformed (the result parses back to the rewritten tree: sizes nest) about a transcription of '
         'generate_init_segment over the box framing model. Tied to /repo over HTTP: every init response (5 representations x mode x '
         'DRM selections x single/multi-period routes) equals the model output byte for byte; an independent walker decides which '
         'pssh boxes must be present (SystemIDs by selection and locations, KID inside) and that nothing else differs.',
    note=TB + 'the pssh payloads themselves are not modelled here (C11); C10_live_mehd_removed: in live mode the mehd box goes from moov and '
         'from moov/mvex (the pinned code only looked under moov: repaired); harness/shims used for the app.',
    technique='Coq proof (list/tree reasoning over the framing model) + byte-for-byte HTTP correspondence + independent box walker oracle',
    design='C04-C03-C10')

CHECKS['C04'] = dict(
    text='Theorems (unbounded: any depth, length and payloads): C04_parse_encode (parse (enc forest) = forest for every well-formed box '
         'forest over the container table with 32-bit sizes), C04_encode_parse (every byte string the parser accepts re-encodes to '
         'exactly those bytes), C04_be32 / C04_be64, and for the typed field codecs C04_typed_decode_encode / C04_typed_encode_decode: for '
         'EVERY field layout (the layouts of mvhd, tkhd, mdhd, mehd, tfdt, mfhd, trex, tfhd, trun, saio, saiz, sidx, tenc, pssh, btrt, pasp, '
         'frma, schm, senc for every version, flags word and count are instances of Model/FieldModel.layout_of / l_senc) decoding an '
         'encoding returns the values and whatever the decoder accepts re-encodes to exactly the bytes consumed; '
         'C04_senc_bytes_match_saiz_sizes (per sample the senc bytes are as long as the size saiz lists). Tied to /repo by differential runs of Mp4Atom.load/encode (eager and '
         'lazy) against the framing model on fixture boxes and generated forests, and of the parsed fields of every typed box (fixtures '
         '+ boxes written from the specification by an independent encoder: both versions, all flag combinations, ids with leading '
         'zeros) against the layout model. Oracle on the real library: byte-exact round trip in both modes, identical field values '
         'eager vs lazy, JSON form and back, sizes nest - in memory and on the wire - after edit scripts (independent walker).',
    note=TB + 'PARTIAL: box classes outside the layout list (the fixed part of sample entries, avcC / hvcC, esds descriptors, emsg / hdlr strings) are '
         'decided by the oracle on fixture and synthetic boxes only; timestamps are compared as raw integers by the model and as '
         'datetimes by the library; 64-bit / to-end size forms are outside the model (known finding size-forms).',
    technique='Coq proof (induction over the parser fuel with a weight measure; big-endian field codec lemmas, induction over layouts) + '
              'differential correspondence + specification-encoder oracle',
    design='C04-C03-C10')

CHECKS['C03'] = dict(
    text='Theorems (unbounded: any stored layout, any option vector, any number of emsg boxes): C03_data_offset (base + '
         'trun.data_offset = position of the first mdat payload byte), C03_payload_untouched (the mdat boxes are never touched), '
         'C03_sizes_nest (the size recorded for moof is that of its rewritten content), C03_emsg_before_moof (event boxes immediately '
         'before moof, sidx dropped), C03_tfdt_width (tfdt version 1 exactly above 32 bits) about a transcription of the segment '
         'rewrite of generate_media_segment at the level of box order, sizes and offsets. Tied to /repo over HTTP: served segments '
         '(clear / encrypted x vod / live x $Number$ / $Time$ x DRM x PIFF x events x bugs) against the model\'s predicted layout, '
         'decode time, data offset and senc entry position; an independent walker decides the property itself on the response bytes '
         '(sizes nest, payload identical, offsets address it, sample sizes sum, saio -> first senc entry, senc = trun count).',
    note=TB + 'box contents (emsg payload, PIFF copy, sample tables) are not modelled here (C04, C14); harness/shims used for the app.',
    technique='Coq proof (arithmetic over box layouts, list induction) + HTTP differential correspondence + independent box walker oracle',
    design='C04-C03-C10')

CHECKS['C11'] = dict(
    text='Theorems (unbounded over all 16-byte key ids, all seeds, all header bytes, all stores and requests): C11_guid_rfc4122 / '
         'C11_guid_involutive (the PlayReady GUID is the RFC 4122 little-endian byte swap and its own inverse), C11_content_key_shape / '
         'C11_content_key_seed_prefix (the derived key is 16 bytes, a function of the first 30 seed bytes only; SHA-256 is a section '
         'parameter), C11_pro_roundtrip (parse_pro (generate_pro h) = one type-1 record carrying exactly h), C11_base64url (decode '
         '(encode b) = b with an alphabet free of + / =), C11_clearkey_exact / C11_clearkey_once (the ClearKey response holds exactly the '
         'stored keys for the known requested ids, each once). Tied to /repo by differential runs of PlayReady.hex_to_le_guid / '
         'generate_content_key (XOR fold) / generate_pro / parse_pro and POST /clearkey against the extracted model. Oracles from the '
         'specifications decide the rest on the real code: uuid.bytes_le, hashlib key-seed algorithm, own PRO parser + WRMHEADER XML '
         '(key ids, LA_URL, AES-ECB checksums), manifest ContentProtection elements vs DRM selection and init-segment pssh.',
    note=TB + 'SHA-256, AES and Jinja rendering of the WRMHEADER are executed, not modelled; Marlin has no key data to check.',
    technique='Coq proof (byte-list arithmetic, base64 sextet lemmas, list induction over the key store) + differential correspondence + '
              'specification oracles (RFC 4122, key-seed algorithm, PRO layout, RFC 4648)',
    design='C11')

CHECKS['C16'] = dict(
    text='Theorems (unbounded over request sequences, error lists, counter states and option texts): C16_inject_exact (one 5xx entry '
         'with failures=F over ANY request sequence of a session: the i-th request gets the synthetic status iff it addresses the '
         'position and the number of earlier addressed requests is not F modulo F+1), C16_only_addressed_media / _manifest (a request '
         'no entry addresses gets no synthetic answer and changes no counter), C16_only_requested_codes, C16_manifest_update_count, '
         'C16_plain_entries_always_fire, C16_counters_independent, C16_time_addresses_containing_segment, '
         'C16_option_reader_extends_c07, C16_total_options_never_400 (over the generated option table). Tied to /repo by whole-session '
         'differential runs over HTTP against the extracted state machine (media and manifest requests interleaved), by '
         'calculate_injected_error_segments vs time_to_segment, and by DashOption.from_string vs parse_any on hostile text. '
         'The open-ended half of the property (no request answers 5xx, raises an unreported exception type or runs without bound) is '
         'NOT a theorem: it is searched over every GET route x option name x hostile values, streams with missing pieces, corrupted '
         'MP4 input to the parser and to upload / index.',
    note=TB + 'PARTIAL by nature: the absence of 5xx over an open-ended input space cannot be stated over a finite model of the handlers; '
         'that half is a search which reports what it reaches (every real 5xx, hang or unreported exception type is a violation unless '
         'its call site is a listed known finding).',
    technique='Coq proof (state-machine invariant by induction over the request sequence, modular counting) + generated option table + '
              'whole-session HTTP differential correspondence; search harness (fuzzing, not proof) for the no-5xx half',
    design='C16')

CHECKS['C05'] = dict(
    text='Theorems: C05_escape_safe (markupsafe.escape output can never close character data / an attribute value or open markup, for '
         'every string), C05_site_sound (soundness of the per-site analysis for every site shape and every string), C05_sites (EVERY '
         'output site of the manifest / patch / segment / DRM / event templates - a table regenerated from the templates and the live '
         'jinja_env on each run - is accepted by the analysis, except 4 pinned trusted-markup sites), C05_every_site_safe (their '
         'combination), C05_refuted_amp_only (the pinned upstream filter is not enough: witnesses), C05_duration_lexical. Tied to /repo '
         'by the translator and by differential runs of markupsafe.escape / the xmlSafe filter against the model. An lxml + ISO/IEC '
         '23009-1 rule-set oracle decides the rest on real responses: 9 templates + patch x modes x single / multi-period x hostile '
         'strings in title, period ids, licence URLs, query values, Host: well-formed, no canary element / attribute, required '
         'attributes, lexical validity, unique ids, no empty AdaptationSet, URL template identifiers.',
    note=TB + 'PARTIAL: the structural MPD rules depend on Jinja control flow and stored data and are decided dynamically, not proved. '
         'Head expressions classified inert and the 4 trusted markup sites are a reviewed list in the translator.',
    technique='Coq proof (escaping lemmas by induction over strings; abstract interpretation of filter chains proved sound; finite table '
              'by vm_compute) + translator (Jinja lexer, live jinja_env) + differential correspondence + lxml / rule-set oracle',
    design='C05')

CHECKS['C17'] = dict(
    text='Theorems (over EVERY finite history of management operations, by induction): C17_invariant_step / C17_invariant (foreign keys '
         'resolve - media file -> stream and blob, blob owned by exactly one file, key link -> file and key, period -> multi-period '
         'stream and stream, adaptation set -> period - and primary keys stay unique, after every operation), C17_delete_stream_exact '
         '(deleting a stream removes exactly its files, their blobs and links, the periods that play it and their adaptation sets, and '
         'nothing else), C17_refuted_pinned (the pinned upstream deletion leaves dangling periods: witness). Tied to /repo by random '
         'management histories through the real endpoints as an authorised user with the rows read through SQLAlchemy after EVERY '
         'request and compared with the model state; an independent oracle checks the consistency rules on the rows, that every listed '
         'stream / multi-period manifest answers 200 or a clean 4xx, and that uploaded + indexed files are served back byte-exactly.',
    note=TB + 'PARTIAL: the model is a reading of the ORM cascade declarations (SQLAlchemy / SQLite are not verified); blob files on disk '
         'and the contents of rows (titles, timing references, options) are outside the model.',
    technique='Coq proof (invariant preserved by each operation of a relational store model; induction over histories) + HTTP history '
              'correspondence (state compared after every step) + independent consistency oracle',
    design='C17')

CHECKS['C18'] = dict(
    text='Theorems (over all segment facts): C18_no_false_positive (a segment with the properties the server guarantees - C03 offsets, '
         'C02/C06 numbering and timing - produces no validator error), C18_detects_sequence_number, C18_detects_decode_time (beyond the '
         'tolerance) with C18_decode_time_tolerance (within it the validator is provably silent), C18_detects_trun_offset, '
         'C18_detects_saio_offset, C18_detects_missing_segment, C18_timeline_gap, C18_tolerance_nonnegative, the manifest-level '
         'C18_manifest_no_false_positive / C18_detects_missing_availabilityStartTime / _minBufferTime / changed AST, about a '
         'transcription of the per-segment decision predicates of media_segment.py, the tolerance rule of representation.py and the '
         'manifest rule set. Tied to /repo by running the REAL DashValidator through an in-process client that rewrites '
         'one response: for every validated segment (pristine and corrupted) the facts are extracted from the bytes it received by the '
         'independent walker and the model error list is compared with the errors the validator recorded for that segment. Oracle: '
         'pristine sessions (templates x modes x DRM x options, with refreshes) report nothing and terminate; every catalogue entry '
         '(segment, init segment and manifest level) yields an error located at the corrupted element.',
    note=TB + 'PARTIAL: the validator\'s traversal, asyncio pool and XML loading are executed, not modelled (the per-segment predicates, the manifest-level rule set and the tolerance rule are); '
         '"wrong decode time" is claimed beyond the validator\'s tolerance only.',
    technique='Coq proof (case analysis of the decision predicates, linear arithmetic) + differential correspondence against the real '
              'validator on rewritten responses + detection oracle over the corruption catalogue',
    design='C18')

NOT_YET = {
}


def build():
    checks = []
    for pid in sorted(CHECKS):
        c = CHECKS[pid]
        checks.append({
            'property_id': pid,
            'quick_cmd': './check %s --tier quick' % pid,
            'thorough_cmd': './check %s --tier thorough' % pid,
            'evidence_file': 'evidence/%s.json' % pid,
            'replay_cmd_template': './check %s --replay {path}' % pid,
            'engine': 'coq-proof+correspondence',
            'level_claimed': {'category': 'proof', 'text': c['text'], 'design_ref': 'DESIGN.md section 5, ' + c['design']},
            'level_note': c['note'],
            'technique': c['technique'],
        })
    na = []
    import json as _j
    ids = [_j.loads(l)['id'] for l in open(os.path.join(VERIF, 'properties.jsonl'))]
    for pid in ids:
        if pid not in CHECKS:
            na.append({'property_id': pid,
                       'reason': NOT_YET.get(pid, 'not claimed yet: Coq model and correspondence for this property are still being built (see DESIGN.md section 5); no other technique is substituted')})
    return {
        'version': 1,
        'setup_cmd': './setup.sh',
        'hooks': {
            'guard': 'DASHLIVE_VERIF',
            'enable': 'no hook is needed: checks import /repo read-only (PYTHONPATH=/repo plus harness/shims for four uninstalled third-party modules) and patch the clock from outside; DASHLIVE_VERIF=1 is exported by ./check but the source never reads it',
            'baseline_off_cmd': 'harness/baseline.py',
            'source_commits': [],
            'add_only': True,
        },
        'engines': [{
            'name': 'coq-proof+correspondence', 'path': 'check',
            'serves_properties': sorted(CHECKS),
            'kind_free_text': 'Coq 8.16.1 theorems about hand-written Gallina models (coq/), tied to /repo on every run by differential correspondence of the extracted models (ocaml/modelrun) and by translators regenerating coq/Gen/*.v from the source',
        }],
        'checks': checks,
        'not_applicable': na,
        'notes': 'fix: commits in /repo and known findings are listed in KNOWN_FINDINGS.txt; see DESIGN.md.',
    }


if __name__ == '__main__':
    m = build()
    with open(os.path.join(VERIF, 'MANIFEST.json'), 'w') as f:
        json.dump(m, f, indent=1)
    print('MANIFEST.json: %d checks, %d not claimed' % (len(m['checks']), len(m['not_applicable'])))
