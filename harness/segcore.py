"""Shared correspondence machinery of the segment-timing core (C02, C09, C01, C06):
synthetic representations + real DashTiming/Representation from /repo versus
Model/SegModel.v (component 2 of ocaml/modelrun)."""
import datetime

from . import common

US = datetime.timedelta(microseconds=1)
T0 = datetime.datetime(2000, 1, 1, tzinfo=datetime.timezone.utc)
MAX_ENTRIES = 200000


def gen_rep(rng, irregular=None):
    """a synthetic representation + timing reference. -> dict"""
    ts = rng.choice([1, 10, 240, 1000, 44100, 48000, 90000, 10**7])
    n = rng.choice([2, 2, 3, 4, 5, 7, 12, rng.randint(2, 12)])
    secs = rng.choice([0.2, 0.5, 1, 2, 4, 6, 10])
    base = max(1, int(ts * secs))
    kind = irregular if irregular is not None else rng.choice(['regular', 'regular', 'alt', 'short-last', 'random', 'random'])
    if kind == 'regular':
        durs = [base] * n
    elif kind == 'alt':
        hi = base + max(1, base // 173)
        durs = [hi if i % 3 == 0 else base for i in range(n)]
    elif kind == 'short-last':
        durs = [base] * (n - 1) + [max(1, base * rng.randint(1, 9) // 10)]
    else:
        durs = [max(1, rng.randint(max(1, base // 3), base * 2)) for _ in range(n)]
    D = sum(durs)
    r = rng.random()
    if r < 0.35:
        rts, ref_dur = ts, D                 # reference = the representation itself
    else:
        rts = rng.choice([ts, 240, 1000, 90000, 44100, 10**7])
        dsel = rng.random()
        if dsel < 0.3:
            dr = 0
        elif dsel < 0.85:
            dr = rng.choice([1, -1, rng.randint(-(durs[-1] - 1), max(1, base // 2)), rng.randint(0, max(1, base // 50))])
        else:
            dr = rng.randint(0, base * 2)
        target = max(1, D + dr)
        # ref_dur such that ref_dur*ts//rts == target where possible
        ref_dur = -(-target * rts // ts)
    lr = ref_dur * ts // rts
    if lr <= 0:
        ref_dur = rts
        lr = ref_dur * ts // rts
        if lr <= 0:
            rts, ref_dur, lr = ts, D, D
    seg_dur = rng.choice([None, None, None, base, durs[0]])
    start_number = rng.choice([1, 1, 1, 0, 7])
    ref_nseg = rng.choice([n, n, rng.randint(2, 12)])
    ref_seg_dur = max(1, ref_dur // ref_nseg)
    return {'ts': ts, 'durs': durs, 'seg_dur': seg_dur, 'start_number': start_number,
            'rts': rts, 'ref_dur': ref_dur, 'ref_nseg': ref_nseg, 'ref_seg_dur': ref_seg_dur, 'kind': kind}


def rep_lr(rep):
    return rep['ref_dur'] * rep['ts'] // rep['rts']


def rep_seg_dur(rep):
    if rep['seg_dur'] is not None:
        return rep['seg_dur']
    return sum(rep['durs']) // len(rep['durs'])


def eff_durs(rep):
    d = list(rep['durs'])
    d[-1] += rep_lr(rep) - sum(rep['durs'])
    return d


def gen_timing(rng, rep, live=True):
    """elapsed (us), depth, leeway, mup; the phase of elapsed is chosen around segment
    boundaries of the representation, loop boundaries and the drift gap"""
    ts = rep['ts']
    lr = rep_lr(rep)
    D = sum(rep['durs'])
    loops = rng.choice([0, 0, 1, 2, 3, 17, 1000, rng.randint(0, 10**4), rng.randint(0, 10**7)])
    r = rng.random()
    starts = [0]
    for d in rep['durs']:
        starts.append(starts[-1] + d)
    if r < 0.45:
        tick = loops * lr + rng.choice(starts) + rng.choice([0, 0, 1, -1, 2])
    elif r < 0.6:
        i = rng.randrange(len(rep['durs']))
        tick = loops * lr + starts[i] + rep['durs'][i] // 2 + rng.choice([0, 1, -1])
    elif r < 0.7:
        tick = loops * lr + D + rng.randint(0, max(0, lr - D)) if lr > D else loops * lr + lr - 1
    else:
        tick = loops * lr + rng.randint(0, max(1, lr))
    tick = max(tick, 0)
    us = tick * 10**6 // ts + rng.choice([0, 0, 1, -1, 2, 999999, 500000])
    depth = rng.choice([1, 2, 5, 10, 30, 60, 61, 120, 600])
    # the window start phase matters as well: shift elapsed so that fta sits on a boundary
    if rng.random() < 0.5:
        us += depth * 10**6
    us = min(max(us, 1), 300 * 366 * 86400 * 10**6)
    # keep the number of timeline entries manageable for the unary fuel of the extracted model
    me = max(1, min(eff_durs(rep)))
    while depth * ts // me > MAX_ENTRIES and depth > 1:
        depth = max(1, depth // 10)
    leeway = rng.choice([0, 0, 16, 16, 60, 1, 3600])
    return {'elapsed': us, 'depth': depth, 'leeway': leeway, 'live': live}


def build_impl(rep, tm):
    """-> (Representation, DashTiming) from /repo"""
    from dashlive.mpeg.dash.reference import StreamTimingReference
    from dashlive.mpeg.dash.representation import Representation
    from dashlive.mpeg.dash.segment import Segment
    from dashlive.mpeg.dash.timing import DashTiming
    from dashlive.server.options.repository import OptionsRepository
    from dashlive.utils.timezone import UTC
    ref = StreamTimingReference(media_name='ref', media_duration=rep['ref_dur'],
                                num_media_segments=rep['ref_nseg'], segment_duration=rep['ref_seg_dur'],
                                timescale=rep['rts'])
    defaults = OptionsRepository.get_default_options()
    args = {'start': '2000-01-01T00:00:00Z', 'depth': str(tm['depth']), 'leeway': str(tm['leeway'])}
    options = OptionsRepository.convert_cgi_options(args, defaults)
    options.add_field('mode', 'live' if tm['live'] else 'vod')
    now = (T0 + datetime.timedelta(microseconds=tm['elapsed'])).astimezone(UTC())
    timing = DashTiming(now, ref, options)
    segs = [Segment(pos=0, size=100, duration=0)]
    pos = 100
    for d in rep['durs']:
        segs.append(Segment(pos=pos, size=50, duration=d))
        pos += 50
    kw = {}
    if rep['seg_dur'] is not None:
        kw['segment_duration'] = rep['seg_dur']
    r = Representation(content_type='video', segments=segs, timescale=rep['ts'],
                       start_number=rep['start_number'], **kw)
    r.set_dash_timing(timing)
    return r, timing


def timing_vals(timing):
    """the C08 outputs the segment model takes as inputs"""
    if timing.mode != 'live':
        return [0, 0, 0, 0, 0]
    return [1, timing.elapsedTime // US, timing.timeShiftBufferDepth, timing.firstAvailableTime // US,
            timing.leeway // US]


def model_rep(rep):
    return [rep['ts'], rep['durs'], rep['start_number'], rep_seg_dur(rep), rep_lr(rep), 0]


def expand(nodes, n):
    """SegmentTimeline S nodes -> one (t, d, mod_segment) per segment, as a DASH client reads them"""
    out = []
    t = None
    for s in nodes:
        if s.start is not None:
            t = s.start
        m = s.mod_segment
        for _ in range(s.count):
            out.append([t, s.duration, m])
            t += s.duration
            m = m + 1 if m < n else 1
    return out


def impl_timeline(r):
    try:
        return expand(r.generateSegmentTimeline(), r.num_media_segments)
    except Exception as e:  # noqa
        return ['CRASH', type(e).__name__]


def impl_number_and_time(r, t, n):
    try:
        x = r.calculate_segment_number_and_time(t, n)
        return [x.segment_num, x.mod_segment, x.origin_time]
    except ValueError:
        return []
    except Exception as e:  # noqa
        return ['CRASH', type(e).__name__]


_LM = []


def impl_media_index(r, timing, t, n):
    """LiveMedia.calculate_media_segment_index + the handler's assert on mod_segment"""
    if not _LM:
        from dashlive.server.requesthandler.media_requests import LiveMedia
        _LM.append(LiveMedia)
    try:
        m, origin, num = _LM[0].calculate_media_segment_index(None, timing.mode, r, timing, n, t)
    except ValueError:
        return []
    except Exception as e:  # noqa
        return ['CRASH', type(e).__name__]
    if not (0 <= m <= r.num_media_segments):
        return ['CRASH', 'AssertionError']
    return [m, origin, num]


def serve_from_index(rep, idx):
    """what generate_media_segment puts into the boxes, given the index triple"""
    if not idx or idx[0] == 'CRASH':
        return idx
    m, origin, num = idx
    pre = sum(rep['durs'][:max(m - 1, 0)])
    d = rep['durs'][m - 1] if 1 <= m <= len(rep['durs']) else 0
    return [m, pre + origin, num, d]


def opt(v):
    return [] if v is None else [v]


def model_serve(rep, tv, t, n):
    return [4, model_rep(rep), tv, opt(t), opt(n)]


def run_model(reqs):
    return common.run_model_parallel(2, reqs)


def float_boundary(rep, tm, probe):
    """True when the implementation's answer equals the model's at now +-1/2 us: the
    disagreement is a float rounding of total_seconds()/timedelta(seconds=float), which
    the model replaces by exact rationals (DESIGN section 4)."""
    for d in (-2, -1, 1, 2):
        tm2 = dict(tm, elapsed=tm['elapsed'] + d)
        if tm2['elapsed'] <= 0:
            continue
        if probe(tm2):
            return True
    return False


# --------------------------------------------------------------------------- shared suites
def queries_for(rng, rep, tl, fl, live):
    """($Time$, $Number$) requests derived from what a manifest would advertise"""
    qs = []
    if tl and tl[0] != 'CRASH':
        pick = list(tl[:3]) + list(tl[-3:])
        if len(tl) > 6:
            pick.append(tl[rng.randrange(len(tl))])
        for e in pick:
            qs.append((e[0], None))
        e = tl[rng.randrange(len(tl))]
        qs.append((e[0] + rng.choice([1, -1, e[1] // 2, e[1] - 1]), None))
    a, b = fl
    for nn in {a - 1, a, a + 1, b - 1, b, b + 1, rng.randint(min(a, b), max(a, b))}:
        qs.append((None, nn))
    return [(t, n) for (t, n) in qs if t is None or t >= 0]


def evaluate(ctx, n_cases, live_ratio=0.8, suite='synthetic'):
    """runs implementation and model on n_cases synthetic (representation, timing) pairs.
    -> list of records; registers disagreements in ctx"""
    import logging
    logging.disable(logging.CRITICAL)
    rng = ctx.rng
    recs = []
    reqs = []
    for _ in range(n_cases):
        rep = gen_rep(rng)
        live = rng.random() < live_ratio
        tm = gen_timing(rng, rep, live)
        degenerate = min(eff_durs(rep)) <= 0
        r, timing = build_impl(rep, tm)
        tv = timing_vals(timing)
        tl = impl_timeline(r)
        fl = list(r.calculate_first_and_last_segment_number())
        qs = queries_for(rng, rep, tl, fl, live)
        served = [serve_from_index(rep, impl_media_index(r, timing, t, n)) for (t, n) in qs]
        rec = {'rep': rep, 'tm': tm, 'tv': tv, 'timeline': tl, 'first_last': fl, 'queries': qs,
               'served': served, 'degenerate': degenerate, 'live': live}
        rec['req0'] = len(reqs)
        reqs.append([1, model_rep(rep), tv[3], tv[2]] if live else [2, model_rep(rep)])
        reqs.append([3, model_rep(rep), tv[1], tv[2]])
        for (t, n) in qs:
            reqs.append(model_serve(rep, tv, t, n))
        recs.append(rec)
    mo = run_model(reqs)
    ok = True
    nfloat = 0
    for rec in recs:
        i = rec['req0']
        rec['m_timeline'] = mo[i]
        rec['m_first_last'] = mo[i + 1]
        rec['m_served'] = mo[i + 2:i + 2 + len(rec['queries'])]
        ctx.count('corr:' + suite)
        ctx.dist('n=%d' % len(rep_key(rec['rep'])[1]))
        ctx.dist('kind:' + rec['rep']['kind'])
        ctx.dist('live' if rec['live'] else 'vod')
        if rec['degenerate']:
            ctx.dist('degenerate(d_n+drift<=0, not diffed)')
            continue
        bad = []
        if rec['timeline'] != rec['m_timeline']:
            bad.append(('timeline', rec['timeline'][:6], rec['m_timeline'][:6]))
        if rec['live'] and rec['first_last'] != rec['m_first_last']:
            bad.append(('first_last', rec['first_last'], rec['m_first_last']))
        for q, a, b in zip(rec['queries'], rec['served'], rec['m_served']):
            if a != b:
                bad.append(('serve', q, a, b))
        if bad:
            # float rounding of the clock-derived quantities? re-ask the model 1-2 us around
            def probe(tm2, rec=rec):
                r2, timing2 = build_impl(rec['rep'], tm2)
                tv2 = timing_vals(timing2)
                rq = [[1, model_rep(rec['rep']), tv2[3], tv2[2]] if rec['live'] else [2, model_rep(rec['rep'])],
                      [3, model_rep(rec['rep']), tv2[1], tv2[2]]]
                rq += [model_serve(rec['rep'], tv2, t, n) for (t, n) in rec['queries']]
                m2 = run_model(rq)
                return (m2[0] == rec['timeline'] and (not rec['live'] or m2[1] == rec['first_last'])
                        and m2[2:] == rec['served'])
            def componentwise(rec=rec):
                # every clock-derived comparison of the implementation rounds on its own: each component of its answer must
                # be the model's answer at SOME instant within +-2 us (not necessarily the same one for all components)
                alts = []
                for dlt in (0, -2, -1, 1, 2):
                    tm2 = dict(rec['tm'], elapsed=rec['tm']['elapsed'] + dlt)
                    if tm2['elapsed'] <= 0:
                        continue
                    r2, timing2 = build_impl(rec['rep'], tm2)
                    tv2 = timing_vals(timing2)
                    rq = [[1, model_rep(rec['rep']), tv2[3], tv2[2]], [3, model_rep(rec['rep']), tv2[1], tv2[2]]]
                    rq += [model_serve(rec['rep'], tv2, t, n) for (t, n) in rec['queries']]
                    alts.append(run_model(rq))
                if not any(a[0] == rec['timeline'] for a in alts) or not any(a[1] == rec['first_last'] for a in alts):
                    return False
                return all(any(a[2 + i] == sv for a in alts) for i, sv in enumerate(rec['served']))
            if rec['live'] and (float_boundary(rec['rep'], rec['tm'], probe) or componentwise()):
                nfloat += 1
                ctx.dist('float-boundary (model agrees at now+-2us)')
                continue
            ok = False
            ctx.disagree(suite, {'rep': rec['rep'], 'tm': rec['tm']}, [b[-1] for b in bad][:3], [list(b[:-1]) for b in bad][:3])
        if len(rec['timeline']) > 2:
            ctx.nontriv(rep_key(rec['rep']) + (rec['tm']['elapsed'], rec['tm']['depth']))
    ctx.oblige('correspondence:Representation+LiveMedia-vs-SegModel', ok,
               '%d disagreements, %d float-boundary cases skipped' % (len(ctx.disagreements), nfloat))
    return recs


def rep_key(rep):
    return (rep['ts'], tuple(rep['durs']), rep['start_number'], rep['seg_dur'], rep['rts'], rep['ref_dur'])


def prefix(rep, k):
    return sum(rep['durs'][:k])


def drift(rep):
    return rep_lr(rep) - sum(rep['durs'])
