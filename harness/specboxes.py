"""Synthetic typed boxes written from the ISO/IEC 14496-12 / 23001-7 layouts by an encoder that
shares no code with dashlive.mpeg.mp4: both versions of every versioned header, every flag
combination of tfhd/trun, key ids and system ids with leading zero digits.  Each entry is
(name, bytes, expected) where expected maps library field names to the values written."""
import struct

EPOCH_1904_TO_2020 = 3660595200      # seconds from 1904-01-01 to 2020-01-01


def box(typ, payload):
    return struct.pack('>I4s', 8 + len(payload), typ) + payload


def full(typ, version, flags, payload):
    return box(typ, bytes([version]) + flags.to_bytes(3, 'big') + payload)


def u(n, v):
    return int(v).to_bytes(n, 'big')


MATRIX = [0x10000, 0, 0, 0, 0x10000, 0, 0, 0, 0x40000000]


def big(rng, version):
    """a duration / time legal for the version, often needing the full width"""
    if version == 1:
        return rng.choice([0, 1, 2**32 - 1, 2**32, 2**32 + 12345, rng.randrange(2**33, 2**48)])
    return rng.choice([0, 1, 2**31, 2**32 - 1, rng.randrange(2**32)])


def gen(rng, n):
    out = []
    for i in range(n):
        for version in (0, 1):
            w = 8 if version else 4
            ct = EPOCH_1904_TO_2020 + rng.randrange(10**8)
            mt = ct + rng.randrange(10**6)
            ts = rng.choice([1, 90000, 48000, 10**7, 2**32 - 1])
            dur = big(rng, version)
            lang = ''.join(rng.choice('abcdefghijklmnopqrstuvwxyz') for _ in range(3))
            code = ((ord(lang[0]) - 0x60) << 10) | ((ord(lang[1]) - 0x60) << 5) | (ord(lang[2]) - 0x60)
            out.append(('mdhd-v%d' % version,
                        box(b'mdia', full(b'mdhd', version, 0, u(w, ct) + u(w, mt) + u(4, ts) + u(w, dur) + u(2, code) + u(2, 0)) +
                            full(b'hdlr', 0, 0, u(4, 0) + b'vide' + bytes(12) + b'v\0')),
                        ('mdia.mdhd', {'version': version, 'timescale': ts, 'duration': dur, 'language': lang})))
            nt = rng.randrange(1, 2**32)
            out.append(('mvhd-v%d' % version,
                        full(b'mvhd', version, 0, u(w, ct) + u(w, mt) + u(4, ts) + u(w, dur) + u(4, 0x10000) + u(2, 0x100) + bytes(10) +
                             b''.join(u(4, m) for m in MATRIX) + bytes(24) + u(4, nt)),
                        ('mvhd', {'version': version, 'timescale': ts, 'duration': dur, 'next_track_id': nt, 'matrix': MATRIX})))
            tid = rng.randrange(1, 2**32)
            flags = rng.randrange(16)
            layer, ag = rng.randrange(2**16), rng.randrange(2**16)
            wd, ht = rng.randrange(1, 4096), rng.randrange(1, 4096)
            out.append(('tkhd-v%d' % version,
                        full(b'tkhd', version, flags, u(w, ct) + u(w, mt) + u(4, tid) + bytes(4) + u(w, dur) + bytes(8) + u(2, layer) + u(2, ag) +
                             u(2, 0x100) + bytes(2) + b''.join(u(4, m) for m in MATRIX) + u(4, wd << 16) + u(4, ht << 16)),
                        ('tkhd', {'version': version, 'track_id': tid, 'duration': dur, 'layer': layer, 'alternate_group': ag,
                                  'is_enabled': bool(flags & 1), 'in_movie': bool(flags & 2), 'in_preview': bool(flags & 4),
                                  'width': wd, 'height': ht})))
            out.append(('mehd-v%d' % version, full(b'mehd', version, 0, u(w, dur)),
                        ('mehd', {'version': version, 'fragment_duration': dur})))
            out.append(('tfdt-v%d' % version, full(b'tfdt', version, 0, u(w, dur)),
                        ('tfdt', {'version': version, 'base_media_decode_time': dur})))
            # sidx: reference_ID, timescale, earliest_presentation_time, first_offset, reserved, count, refs
            refs = [(rng.randrange(2), rng.randrange(2**31), rng.randrange(2**32), rng.randrange(2), rng.randrange(8), rng.randrange(2**28))
                    for _ in range(rng.randint(0, 3))]
            body = u(4, tid) + u(4, ts) + u(w, dur) + u(w, big(rng, version)) + u(2, 0) + u(2, len(refs))
            for rt, rs, sd, sap, st, sdt in refs:
                body += u(4, (rt << 31) | rs) + u(4, sd) + u(4, (sap << 31) | (st << 28) | sdt)
            out.append(('sidx-v%d' % version, full(b'sidx', version, 0, body),
                        ('sidx', {'version': version, 'reference_id': tid, 'timescale': ts, 'earliest_presentation_time': dur})))
        # key ids / system ids whose hex form starts with zero digits; the letters 'x' never appear but '0' does
        zeros = rng.choice([1, 2, 3, 4])
        kid = bytes(zeros // 2) + bytes([rng.randrange(1, 16) if zeros % 2 else rng.randrange(16, 256)]) + \
            bytes(rng.randrange(256) for _ in range(15 - zeros // 2))
        kid = kid[:16]
        iv = rng.choice([8, 16])
        out.append(('tenc-zero-kid', full(b'tenc', 0, 0, u(2, 0) + u(1, 1) + u(1, iv) + kid),
                    ('tenc', {'iv_size': iv, '#default_kid': kid.hex()})))
        sysid = bytes([0, rng.randrange(16)]) + bytes(rng.randrange(256) for _ in range(14))
        data = bytes(rng.randrange(256) for _ in range(rng.randint(0, 12)))
        out.append(('pssh-v0-zero-sysid', full(b'pssh', 0, 0, sysid + u(4, len(data)) + data),
                    ('pssh', {'version': 0, '#system_id': sysid.hex(), '#data': data.hex()})))
        kids = [kid, bytes(16), bytes([0] * 15 + [1])][:rng.randint(1, 3)]
        out.append(('pssh-v1-zero-kids', full(b'pssh', 1, 0, sysid + u(4, len(kids)) + b''.join(kids) + u(4, len(data)) + data),
                    ('pssh', {'version': 1, '#system_id': sysid.hex(), '#key_ids': [k.hex() for k in kids]})))
        out.append(('pssh-v1-no-kids', full(b'pssh', 1, 0, sysid + u(4, 0) + u(4, len(data)) + data),
                    ('pssh', {'version': 1, '#system_id': sysid.hex(), '#key_ids': []})))
        # an unrecognised uuid box (24-byte header) followed by further boxes, top level; the bytes after it must stay theirs
        usertype = bytes(rng.randrange(256) for _ in range(16))
        payload = bytes(rng.randrange(256) for _ in range(rng.randint(0, 40)))
        tail = box(b'free', bytes(rng.randrange(256) for _ in range(rng.randint(16, 48)))) + box(b'skip', b'')
        out.append(('uuid-unknown-then-boxes', box(b'uuid', usertype + payload) + tail, ('children', {})))
        # moof(mfhd, traf(tfhd, trun)): every optional-field combination of tfhd and every per-sample combination of trun
        tf_flags = rng.choice([0, 1, 2, 8, 0x10, 0x20, 0x3b, 0x20000, 0x20038, 0x2002a])
        body = u(4, rng.randrange(1, 2**32))
        exp_tfhd = {'track_id': int.from_bytes(body, 'big')}
        for bit, nme, width in ((1, 'base_data_offset', 8), (2, 'sample_description_index', 4), (8, 'default_sample_duration', 4),
                                (0x10, 'default_sample_size', 4), (0x20, 'default_sample_flags', 4)):
            if tf_flags & bit:
                # (the default sample size decides how many payload bytes the mdat gets: keep it small)
                v = 0 if bit == 1 else rng.randrange(1, 64) if bit == 0x10 else rng.randrange(2 ** (8 * width))
                body += u(width, v)
                exp_tfhd[nme] = v
        tfhd = full(b'tfhd', 0, tf_flags, body)
        tr_flags = rng.choice([1, 5, 0x101, 0x201, 0x301, 0x401, 0x801, 0xf01, 0xb05, 0xa01, 0x305])   # 0x4 and 0x400 exclude each other (14496-12 8.8.8)
        cnt = rng.randint(1, 4)
        sizes = [rng.randrange(1, 40) for _ in range(cnt)]
        mfhd = full(b'mfhd', 0, 0, u(4, rng.randrange(2**32)))
        trun_len = 12 + 4 + 4 + (4 if tr_flags & 4 else 0) + cnt * 4 * bin(tr_flags & 0xf00).count('1')
        moof_len = 8 + len(mfhd) + 8 + len(tfhd) + trun_len
        body = u(4, cnt) + u(4, moof_len + 8)
        exp_trun = {'sample_count': cnt, 'data_offset': moof_len + 8}
        if tr_flags & 4:
            v = rng.randrange(2**32)
            body += u(4, v)
            exp_trun['first_sample_flags'] = v
        for k in range(cnt):
            for bit in (0x100, 0x200, 0x400, 0x800):
                if tr_flags & bit:
                    body += u(4, sizes[k] if bit == 0x200 else rng.randrange(2**31))
        trun = full(b'trun', 0, tr_flags, body)
        assert len(trun) == trun_len
        moof = box(b'moof', mfhd + box(b'traf', tfhd + trun))
        total = sum(sizes) if tr_flags & 0x200 else cnt * exp_tfhd.get('default_sample_size', 0)
        seg = moof + box(b'mdat', bytes(rng.randrange(256) for _ in range(total)))
        out.append(('tfhd-flags-%x' % tf_flags, seg, ('moof.traf.tfhd', exp_tfhd)))
        out.append(('trun-flags-%x' % tr_flags, seg, ('moof.traf.trun', exp_trun)))
        seq = rng.randrange(2**32)
        out.append(('mfhd', full(b'mfhd', 0, 0, u(4, seq)), ('mfhd', {'sequence_number': seq})))
        tx = [rng.randrange(2**32) for _ in range(5)]
        out.append(('trex', full(b'trex', 0, 0, b''.join(u(4, v) for v in tx)),
                    ('trex', {'track_id': tx[0], 'default_sample_description_index': tx[1], 'default_sample_duration': tx[2],
                              'default_sample_size': tx[3], 'default_sample_flags': tx[4]})))
        # emsg v0 and v1
        scheme, value = b'urn:example:%d\0' % rng.randrange(100), b'v%d\0' % rng.randrange(100)
        ts, dl, ed, eid = rng.randrange(1, 2**32), rng.randrange(2**32), rng.randrange(2**32), rng.randrange(2**32)
        md = bytes(rng.randrange(256) for _ in range(rng.randint(0, 9)))
        out.append(('emsg-v0', full(b'emsg', 0, 0, scheme + value + u(4, ts) + u(4, dl) + u(4, ed) + u(4, eid) + md),
                    ('emsg', {'version': 0, 'timescale': ts, 'presentation_time_delta': dl, 'event_duration': ed, 'event_id': eid,
                              'scheme_id_uri': scheme[:-1].decode(), 'value': value[:-1].decode()})))
        pt = rng.choice([0, 2**32, rng.randrange(2**60)])
        out.append(('emsg-v1', full(b'emsg', 1, 0, u(4, ts) + u(8, pt) + u(4, ed) + u(4, eid) + scheme + value + md),
                    ('emsg', {'version': 1, 'timescale': ts, 'presentation_time': pt, 'event_duration': ed, 'event_id': eid,
                              'scheme_id_uri': scheme[:-1].decode(), 'value': value[:-1].decode()})))
    return out
