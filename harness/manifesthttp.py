"""Manifest-level HTTP helpers: fetch an MPD from the real app, read it as a DASH client would
(own reading of ISO/IEC 23009-1: BaseURL resolution, SegmentTemplate substitution,
SegmentTimeline expansion, 5.3.9.5.3 availability windows), fetch what it advertises."""
import datetime
import re
from urllib.parse import urljoin, urlsplit

from lxml import etree

NS = {'d': 'urn:mpeg:dash:schema:mpd:2011'}
DUR_RE = re.compile(r'^P(?:(\d+)D)?(?:T(?:(\d+)H)?(?:(\d+)M)?(?:(\d+(?:\.\d+)?)S)?)?$')
EPOCH = datetime.datetime(1970, 1, 1, tzinfo=datetime.timezone.utc)


def parse_duration_us(s):
    m = DUR_RE.match(s or '')
    if not m or s in ('P', 'PT'):
        raise ValueError('not an xs:duration: %r' % s)
    d, h, mi, sec = m.groups()
    us = (int(d or 0) * 86400 + int(h or 0) * 3600 + int(mi or 0) * 60) * 10**6
    if sec:
        whole, _, frac = sec.partition('.')
        us += int(whole) * 10**6 + int((frac + '000000')[:6])
    return us


def parse_datetime(s):
    m = re.match(r'^(\d{4})-(\d\d)-(\d\d)T(\d\d):(\d\d):(\d\d)(\.\d+)?(Z|[+-]\d\d:\d\d)?$', s or '')
    if not m:
        raise ValueError('not an xs:dateTime: %r' % s)
    y, mo, d, h, mi, sec, frac, tz = m.groups()
    us = int((frac or '.0')[1:7].ljust(6, '0'))
    off = 0
    if tz and tz != 'Z':
        off = (int(tz[1:3]) * 60 + int(tz[4:6])) * (1 if tz[0] == '+' else -1)
    dt = datetime.datetime(int(y), int(mo), int(d), int(h), int(mi), int(sec), us,
                           tzinfo=datetime.timezone(datetime.timedelta(minutes=off)))
    return dt


def us_since_epoch(dt):
    return (dt - EPOCH) // datetime.timedelta(microseconds=1)


class Mpd:
    def __init__(self, text, url):
        self.url = url
        self.root = etree.fromstring(text if isinstance(text, bytes) else text.encode())
        self.type = self.root.get('type', 'static')

    def periods(self):
        return self.root.findall('d:Period', NS)

    def base(self, *elems):
        b = self.url
        for e in elems:
            for bu in e.findall('d:BaseURL', NS):
                b = urljoin(b, (bu.text or '').strip())
                break
        return b

    def representations(self):
        """-> list of dict(period, adp, rep, template(dict), base, timeline(list of (t,d)) or None)"""
        out = []
        for p in self.periods():
            for a in p.findall('d:AdaptationSet', NS):
                for r in a.findall('d:Representation', NS):
                    st = r.find('d:SegmentTemplate', NS)
                    if st is None:
                        st = a.find('d:SegmentTemplate', NS)
                    if st is None:
                        st = p.find('d:SegmentTemplate', NS)
                    base = self.base(self.root, p, a, r)
                    tl = None
                    if st is not None:
                        stl = st.find('d:SegmentTimeline', NS)
                        if stl is not None:
                            tl = []
                            t = 0
                            for s in stl.findall('d:S', NS):
                                if s.get('t') is not None:
                                    t = int(s.get('t'))
                                d = int(s.get('d'))
                                for _ in range(int(s.get('r', '0')) + 1):
                                    tl.append((t, d))
                                    t += d
                    out.append({'period': p, 'adp': a, 'rep': r, 'template': st, 'base': base, 'timeline': tl})
        return out


def subst(template, rep_id, number=None, time=None, bandwidth=None):
    def rep(m):
        name, fmt = m.group(1), m.group(2)
        if name == '':
            return '$'
        val = {'RepresentationID': rep_id, 'Number': number, 'Time': time, 'Bandwidth': bandwidth}.get(name)
        if val is None:
            raise ValueError('template identifier $%s$ has no value' % name)
        if fmt and name != 'RepresentationID':
            return ('%' + fmt[1:]) % int(val)
        return str(val)
    return re.sub(r'\$(\w*)(%0\d+d)?\$', rep, template)


def local_path(url):
    sp = urlsplit(url)
    return sp.path + ('?' + sp.query if sp.query else '')


def advertised_urls(mpd, now_us):
    """media segments addressable at now (ended timeline entries; numbers inside their
    5.3.9.5.3 window) + init segments.  -> list of (kind, url, info)"""
    out = []
    ast = None
    tsbd_us = None
    if mpd.type == 'dynamic':
        ast = us_since_epoch(parse_datetime(mpd.root.get('availabilityStartTime')))
        tsbd = mpd.root.get('timeShiftBufferDepth')
        tsbd_us = parse_duration_us(tsbd) if tsbd else None
    for r in mpd.representations():
        st = r['template']
        if st is None:
            continue
        rid = r['rep'].get('id')
        bw = r['rep'].get('bandwidth')
        ts = int(st.get('timescale', '1'))
        pstart = parse_duration_us(r['period'].get('start', 'PT0S')) if r['period'].get('start') else 0
        if st.get('initialization'):
            out.append(('init', urljoin(r['base'], subst(st.get('initialization'), rid, bandwidth=bw)), {'rep': rid}))
        media = st.get('media')
        if media is None:
            continue
        if r['timeline'] is not None:
            for (t, d) in r['timeline']:
                if mpd.type == 'dynamic':
                    end_us = ast + pstart + (t + d) * 10**6 // ts
                    if (t + d) * 10**6 > (now_us - ast - pstart) * ts:
                        continue
                out.append(('time', urljoin(r['base'], subst(media, rid, time=t, number=None if '$Number$' not in media else 0, bandwidth=bw)),
                            {'rep': rid, 't': t, 'd': d, 'timescale': ts}))
        elif st.get('duration'):
            d = int(st.get('duration'))
            sn = int(st.get('startNumber', '1'))
            if mpd.type == 'dynamic':
                now_rel = (now_us - ast - pstart) * ts       # ticks * 10^6
                k = max(0, (now_rel - (tsbd_us or 0) * ts) // (d * 10**6) - 3)
                while (k + 1) * d * 10**6 <= now_rel:
                    hi = (k + 2) * d * 10**6 + (tsbd_us or 0) * ts
                    if tsbd_us is None or now_rel <= hi:
                        out.append(('number', urljoin(r['base'], subst(media, rid, number=sn + k, bandwidth=bw)),
                                    {'rep': rid, 'n': sn + k, 'd': d, 'timescale': ts}))
                    k += 1
    return out


TEMPLATES_LIVE = ['hand_made.mpd', 'manifest_a.mpd', 'manifest_e.mpd', 'manifest_h.mpd', 'manifest_i.mpd',
                  'manifest_ef.mpd']


def advertised_suite(ctx):
    """C01 over HTTP: live manifests of the bbb stream at a grid of instants; every advertised
    URL is fetched at the same instant, exactly as printed"""
    from .appenv import AppEnv, Clock
    from . import seghttp, segcore as sc
    import logging
    env = AppEnv(ctx.workdir + '/adv', streams=('bbb',))
    logging.disable(logging.CRITICAL)
    c = env.client()
    rng = ctx.rng
    T0 = datetime.datetime(2024, 1, 1, tzinfo=datetime.timezone.utc)
    tmpls = TEMPLATES_LIVE if not ctx.quick() else ['hand_made.mpd', 'manifest_e.mpd', 'manifest_a.mpd']
    n_req = 0
    for tmpl in tmpls:
        for trial in range(2 if ctx.quick() else 8):
            leeway = rng.choice([None, 0, 60])
            depth = rng.choice([None, 20, 60])
            timeline = rng.choice([0, 1])
            secs = rng.choice([61, 100, 3600, 86400 * 3 + 7, rng.randint(61, 10**7)])
            now = T0 + datetime.timedelta(seconds=secs, microseconds=rng.choice([0, 1, 500000, 999999]))
            q = ['start=2024-01-01T00:00:00Z', 'timeline=%d' % timeline]
            if leeway is not None:
                q.append('leeway=%d' % leeway)
            if depth is not None:
                q.append('depth=%d' % depth)
            # every template is fetched at least once with a DRM selection (clear-only tracks listed beside encrypted ones
            # get the same query string) and once without
            if trial % 2 == 1:
                q.append(rng.choice(['drm=all', 'drm=clearkey', 'drm=playready-moov', 'drm=marlin,clearkey-cenc']))
            url = '/dash/live/bbb/%s?%s' % (tmpl, '&'.join(q))
            with Clock(now):
                r = c.get(url)
                ctx.count('http:manifest')
                if r.status_code != 200:
                    ctx.dist('manifest-status:%d' % r.status_code)
                    continue
                try:
                    mpd = Mpd(r.data, 'http://localhost' + url)
                except etree.XMLSyntaxError as e:
                    ctx.violation('manifest is not well-formed: %s' % e, {'url': url})
                    continue
                adv = advertised_urls(mpd, us_since_epoch(now))
                if ctx.quick() and len(adv) > 40:
                    # every init segment, and the two oldest and two newest segments of EVERY representation
                    keep = [a for a in adv if a[0] == 'init']
                    by_rep = {}
                    for a in adv:
                        if a[0] != 'init':
                            by_rep.setdefault(a[2]['rep'], []).append(a)
                    for lst in by_rep.values():
                        keep += lst[:2] + (lst[-2:] if len(lst) > 4 else lst[2:])
                    adv = keep
                for kind, u, info in adv:
                    rr = c.get(local_path(u))
                    n_req += 1
                    ctx.count('http:advertised-' + kind)
                    if rr.status_code == 200:
                        ctx.nontriv((tmpl, secs, u))
                        continue
                    cls = None
                    if kind != 'init' and rr.status_code == 404:
                        lw = 16 if leeway is None else leeway
                        dsec = info['d'] / info['timescale']
                        need = (dsec / 2 + 0.01) if kind == 'time' else 2 * dsec + 1
                        cls = 'leeway' if lw < need else ('number-window' if kind == 'time' else None)
                    ctx.violation('advertised %s segment %s answers %d at the instant of the manifest' % (kind, local_path(u), rr.status_code),
                                  {'manifest': url, 'now': now.isoformat(), 'url': local_path(u)}, key=cls)
    # ---- a stream with STORED defaults (Stream.defaults, as the stream-edit page saves them): the manifest applies them and
    # leaves options equal to the default out of the media URLs, so the segment routes must apply the same stored defaults.
    # Number addressing, leeway 60 (no known class applies), the oldest / middle / newest segments of every representation
    with env.app.app_context():
        st = env.models.Stream.get(directory='bbb')
        st.defaults = {'timeShiftBufferDepth': 2400}
        env.models.db.session.commit()
    for tmpl in (['hand_made.mpd'] if ctx.quick() else ['hand_made.mpd', 'manifest_e.mpd']):
        secs = rng.choice([3600, 86400 + 11, rng.randint(3000, 10**6)])
        now = T0 + datetime.timedelta(seconds=secs, microseconds=rng.choice([0, 500000]))
        url = '/dash/live/bbb/%s?start=2024-01-01T00:00:00Z&leeway=60' % tmpl
        with Clock(now):
            r = c.get(url)
            ctx.count('http:manifest-stored-defaults')
            if r.status_code != 200:
                ctx.violation('manifest of a stream with stored defaults answers %d' % r.status_code, {'url': url})
                continue
            mpd = Mpd(r.data, 'http://localhost' + url)
            tsbd = mpd.root.get('timeShiftBufferDepth')
            if tsbd is None or parse_duration_us(tsbd) != 2400 * 10**6:
                ctx.dist('stored-defaults:depth-%s' % tsbd)
            by_rep = {}
            for a in advertised_urls(mpd, us_since_epoch(now)):
                if a[0] != 'init':
                    by_rep.setdefault(a[2]['rep'], []).append(a)
            for lst in by_rep.values():
                picks = lst if not ctx.quick() else [lst[i] for i in sorted({1, 2, len(lst) // 4, len(lst) // 2, len(lst) - 1} & set(range(len(lst))))]
                for kind, u, info in picks:
                    rr = c.get(local_path(u))
                    n_req += 1
                    ctx.count('http:advertised-stored-defaults')
                    if rr.status_code == 200:
                        ctx.nontriv((tmpl, secs, u))
                    else:
                        ctx.violation('stream with stored defaults %r: advertised %s segment %s answers %d at the instant of the manifest' % (
                            {'timeShiftBufferDepth': 2400}, kind, local_path(u), rr.status_code),
                            {'manifest': url, 'now': now.isoformat(), 'url': local_path(u), 'stored_defaults': {'timeShiftBufferDepth': 2400}})
    ctx.oblige('http:advertised-urls-fetched', True, '%d advertised URLs fetched' % n_req)
    env.close()
