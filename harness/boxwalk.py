"""Independent ISO-BMFF walker (ISO/IEC 14496-12 box layouts), sharing no code with
dashlive.mpeg.mp4.  Used by oracles and HTTP-level suites."""
import struct

CONTAINERS = {b'moov', b'trak', b'mdia', b'minf', b'stbl', b'mvex', b'moof', b'traf', b'edts', b'dinf',
              b'sinf', b'schi', b'udta', b'mfra'}


class Box:
    __slots__ = ('type', 'start', 'hdr', 'size', 'payload_start', 'children', 'raw', 'usertype')

    def __repr__(self):
        return '<%s @%d +%d>' % (self.type.decode('latin-1'), self.start, self.size)

    def find(self, path):
        """first descendant along a path of fourccs, e.g. find('traf/tfdt')"""
        cur = self
        for p in path.split('/'):
            nxt = None
            for c in cur.children:
                if c.type == p.encode():
                    nxt = c
                    break
            if nxt is None:
                return None
            cur = nxt
        return cur

    def all(self, typ):
        return [c for c in self.children if c.type == typ.encode()]

    @property
    def payload(self):
        return self.raw[self.payload_start - self.start:]


def parse(data, start=0, end=None, base=0, depth=0):
    """-> list of Box; raises ValueError on a malformed size"""
    out = []
    end = len(data) if end is None else end
    pos = start
    while pos < end:
        if end - pos < 8:
            raise ValueError('truncated box header at %d' % (base + pos))
        size, typ = struct.unpack('>I4s', data[pos:pos + 8])
        hdr = 8
        if size == 1:
            if end - pos < 16:
                raise ValueError('truncated largesize at %d' % (base + pos))
            size = struct.unpack('>Q', data[pos + 8:pos + 16])[0]
            hdr = 16
        elif size == 0:
            size = end - pos
        usertype = None
        if typ == b'uuid':
            usertype = data[pos + hdr:pos + hdr + 16]
            hdr += 16
        if size < hdr or pos + size > end:
            raise ValueError('box %r at %d has size %d beyond its parent (%d left)' % (typ, base + pos, size, end - pos))
        b = Box()
        b.type, b.start, b.hdr, b.size, b.usertype = typ, base + pos, hdr, size, usertype
        b.payload_start = base + pos + hdr
        b.raw = data[pos:pos + size]
        b.children = []
        if typ in CONTAINERS and depth < 12:
            b.children = parse(data, pos + hdr, pos + size, base, depth + 1)
        out.append(b)
        pos += size
    return out


class Root:
    def __init__(self, data):
        self.children = parse(data)
        self.type = b'root'

    find = Box.find
    all = Box.all


def fullbox(b):
    p = b.payload
    return p[0], int.from_bytes(p[1:4], 'big'), p[4:]


def mfhd_seq(moof):
    b = moof.find('mfhd')
    _, _, body = fullbox(b)
    return struct.unpack('>I', body[:4])[0]


def tfhd_fields(traf):
    b = traf.find('tfhd')
    v, flags, body = fullbox(b)
    pos = 4
    out = {'flags': flags, 'track_id': struct.unpack('>I', body[:4])[0], 'base_data_offset': None,
           'default_sample_duration': None, 'default_sample_size': None}
    if flags & 0x1:
        out['base_data_offset'] = struct.unpack('>Q', body[pos:pos + 8])[0]
        pos += 8
    if flags & 0x2:
        pos += 4
    if flags & 0x8:
        out['default_sample_duration'] = struct.unpack('>I', body[pos:pos + 4])[0]
        pos += 4
    if flags & 0x10:
        out['default_sample_size'] = struct.unpack('>I', body[pos:pos + 4])[0]
        pos += 4
    out['default_base_is_moof'] = bool(flags & 0x020000)
    return out


def tfdt_time(traf):
    b = traf.find('tfdt')
    if b is None:
        return None
    v, _, body = fullbox(b)
    return struct.unpack('>Q', body[:8])[0] if v == 1 else struct.unpack('>I', body[:4])[0]


def trun_fields(traf):
    b = traf.find('trun')
    v, flags, body = fullbox(b)
    count = struct.unpack('>I', body[:4])[0]
    pos = 4
    data_offset = None
    if flags & 0x1:
        data_offset = struct.unpack('>i', body[pos:pos + 4])[0]
        pos += 4
    if flags & 0x4:
        pos += 4
    samples = []
    for _ in range(count):
        s = {}
        if flags & 0x100:
            s['duration'] = struct.unpack('>I', body[pos:pos + 4])[0]
            pos += 4
        if flags & 0x200:
            s['size'] = struct.unpack('>I', body[pos:pos + 4])[0]
            pos += 4
        if flags & 0x400:
            pos += 4
        if flags & 0x800:
            pos += 4
        samples.append(s)
    return {'flags': flags, 'count': count, 'data_offset': data_offset, 'samples': samples,
            'trailing': len(body) - pos, 'box': b}


def trex_default_duration(init_root):
    t = init_root.find('moov/mvex/trex')
    if t is None:
        return None
    _, _, body = fullbox(t)
    return struct.unpack('>I', body[8:12])[0]


def segment_summary(data, default_duration=None):
    """-> dict(seq, tfdt, duration, nsamples) of the first moof of a media segment"""
    root = Root(data)
    moof = root.find('moof')
    traf = moof.find('traf')
    th = tfhd_fields(traf)
    tr = trun_fields(traf)
    dd = th['default_sample_duration'] if th['default_sample_duration'] is not None else default_duration
    dur = 0
    for s in tr['samples']:
        dur += s['duration'] if 'duration' in s else (dd or 0)
    return {'seq': mfhd_seq(moof), 'tfdt': tfdt_time(traf), 'duration': dur, 'nsamples': tr['count'],
            'root': root, 'tfhd': th, 'trun': tr}


def saio_offsets(traf):
    b = traf.find('saio')
    if b is None:
        return None
    v, flags, body = fullbox(b)
    pos = 0
    if flags & 1:
        pos += 8
    n = struct.unpack('>I', body[pos:pos + 4])[0]
    pos += 4
    out = []
    for _ in range(n):
        if v == 0:
            out.append(struct.unpack('>I', body[pos:pos + 4])[0])
            pos += 4
        else:
            out.append(struct.unpack('>Q', body[pos:pos + 8])[0])
            pos += 8
    return out


PIFF_UUID = bytes.fromhex('a2394f525a9b4f14a2446c427c648df4')


def senc_info(traf):
    """-> dict(box, count, first_entry_pos (absolute), flags) for the senc box (not the PIFF copy)"""
    b = traf.find('senc')
    if b is None:
        return None
    v, flags, body = fullbox(b)
    pos = 0
    if flags & 1:
        pos += 20
    count = struct.unpack('>I', body[pos:pos + 4])[0]
    return {'box': b, 'count': count, 'flags': flags, 'first_entry_pos': b.payload_start + 4 + pos + 4}


def sample_sizes(traf):
    th = tfhd_fields(traf)
    tr = trun_fields(traf)
    return [s.get('size', th['default_sample_size'] or 0) for s in tr['samples']]
