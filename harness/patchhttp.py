"""C09 over HTTP: manifest at T1, manifest + patch at T2, patch applied by the harness."""
import copy
import datetime
import re

from lxml import etree

from .manifesthttp import Mpd, NS, local_path, parse_datetime, us_since_epoch

PNS = {'p': 'urn:mpeg:dash:schema:mpd-patch:2020'}


def apply_patch(mpd_root, patch_root):
    """RFC 5261-style operations as used by templates/patches/hand_made.xml: <replace sel=...>
    with an attribute selector (/MPD/@x) or an element selector with [n] / [@id='..'] steps"""
    doc = copy.deepcopy(mpd_root)
    for op in patch_root:
        if not isinstance(op.tag, str):
            continue
        name = etree.QName(op).localname
        sel = op.get('sel')
        if name != 'replace':
            raise ValueError('unsupported patch operation %s' % name)
        m = re.match(r'^/MPD/@(\w+)$', sel)
        if m:
            doc.set(m.group(1), (op.text or '').strip())
            continue
        steps = sel.strip('/').split('/')
        assert steps[0] == 'MPD', sel
        cur = [doc]
        for st in steps[1:]:
            mm = re.match(r"^(\w+)(?:\[(\d+)\]|\[@(\w+)='([^']*)'\])?$", st)
            if not mm:
                raise ValueError('selector step %r not understood' % st)
            tag, idx, an, av = mm.groups()
            nxt = []
            for c in cur:
                kids = [k for k in c if isinstance(k.tag, str) and etree.QName(k).localname == tag]
                if idx:
                    kids = kids[int(idx) - 1:int(idx)]
                if an:
                    kids = [k for k in kids if k.get(an) == av]
                nxt += kids
            cur = nxt
        if len(cur) != 1:
            raise ValueError('selector %r matches %d nodes' % (sel, len(cur)))
        target = cur[0]
        new = [k for k in op if isinstance(k.tag, str)]
        if len(new) != 1:
            raise ValueError('replace %r carries %d elements' % (sel, len(new)))
        repl = copy.deepcopy(new[0])
        # the patch document uses the patch namespace for its content; the MPD one is intended
        for e in repl.iter():
            if isinstance(e.tag, str):
                e.tag = '{%s}%s' % (NS['d'], etree.QName(e).localname)
        repl.tail = target.tail
        target.getparent().replace(target, repl)
    return doc


def timelines(root):
    out = {}
    for p in root.findall('d:Period', NS):
        for a in p.findall('d:AdaptationSet', NS):
            st = a.find('d:SegmentTemplate', NS)
            stl = st.find('d:SegmentTimeline', NS) if st is not None else None
            if stl is None:
                continue
            ent = []
            t = 0
            for s in stl.findall('d:S', NS):
                if s.get('t') is not None:
                    t = int(s.get('t'))
                d = int(s.get('d'))
                for _ in range(int(s.get('r', '0')) + 1):
                    ent.append((t, d))
                    t += d
            out[(p.get('id'), a.get('id'))] = ent
    return out


def suite(ctx):
    from .appenv import AppEnv, Clock
    import logging
    env = AppEnv(ctx.workdir + '/patch', streams=('bbb',))
    logging.disable(logging.CRITICAL)
    c = env.client()
    rng = ctx.rng
    T0 = datetime.datetime(2024, 1, 1, tzinfo=datetime.timezone.utc)
    n = 0
    ok = True
    deltas = [0.004, 1, 7.5, 8, 9, 20, 39.9, 40, 41, 61, 600, 86400 - 30]
    trials = 8 if ctx.quick() else 60
    for trial in range(trials):
        depth = rng.choice([20, 60])
        mup = rng.choice([None, 4, 7])
        secs = rng.choice([100, 3600, 86400 - 20, 86400 * 3 + 7, rng.randint(61, 10**6)])
        t1 = T0 + datetime.timedelta(seconds=secs, microseconds=rng.choice([0, 250000, 999999]))
        delta = rng.choice(deltas)
        t2 = t1 + datetime.timedelta(seconds=delta)
        start = rng.choice(['2024-01-01T00:00:00Z', '2024-01-01T00:00:00Z', '2024-01-01T00:00:00.500Z',
                            '2023-12-31T19:00:00.250000-05:00', '2024-01-01T01:30:00%2B01:30'])
        q = 'start=%s&timeline=1&patch=1&depth=%d' % (start, depth)
        if mup is not None:
            q += '&mup=%d' % mup
        url = '/dash/live/bbb/hand_made.mpd?' + q
        with Clock(t1):
            r1 = c.get(url)
        with Clock(t2):
            r2 = c.get(url)
        ctx.count('http:patch-pairs')
        if r1.status_code != 200 or r2.status_code != 200:
            ctx.violation('manifest answers %d / %d' % (r1.status_code, r2.status_code), {'url': url})
            continue
        m1, m2 = Mpd(r1.data, 'http://localhost' + url), Mpd(r2.data, 'http://localhost' + url)
        inp = {'url': url, 't1': t1.isoformat(), 't2': t2.isoformat()}
        # successive full manifests
        p1, p2 = parse_datetime(m1.root.get('publishTime')), parse_datetime(m2.root.get('publishTime'))
        a1, a2 = m1.root.get('availabilityStartTime'), m2.root.get('availabilityStartTime')
        if p2 < p1 or parse_datetime(a2) < parse_datetime(a1):
            ctx.violation('publishTime/availabilityStartTime moved backward between T1 and T2', inp, [str(p1), str(p2)])
        tl1, tl2 = timelines(m1.root), timelines(m2.root)
        for k in tl1:
            if k not in tl2:
                continue
            d1 = dict(tl1[k])
            for (t, d) in tl2[k]:
                if t in d1 and d1[t] != d:
                    ctx.violation('AdaptationSet %r: segment at %d listed with d=%d at T1 and d=%d at T2' % (k, t, d1[t], d), inp)
            if tl1[k] and tl2[k] and tl2[k][0][0] < tl1[k][0][0]:
                ctx.violation('AdaptationSet %r: the listed window moved backward' % (k,), inp)
        # patch
        pl = m1.root.find('d:PatchLocation', NS)
        if pl is None:
            ctx.violation('patch=1 but the manifest has no PatchLocation', inp)
            continue
        with Clock(t2):
            rp = c.get(local_path('http://localhost' + pl.text.strip()) if pl.text.strip().startswith('/') else local_path(pl.text.strip()))
        n += 1
        if rp.status_code != 200:
            ctx.violation('PatchLocation answers %d' % rp.status_code, dict(inp, patch=pl.text.strip()))
            continue
        try:
            patch = etree.fromstring(rp.data)
        except etree.XMLSyntaxError as e:
            ctx.violation('patch is not well-formed: %s' % e, dict(inp, patch=pl.text.strip()))
            continue
        if patch.get('mpdId') != m1.root.get('id'):
            ctx.violation('patch mpdId %r != MPD id %r' % (patch.get('mpdId'), m1.root.get('id')), inp)
        if parse_datetime(patch.get('originalPublishTime')) != p1:
            ctx.violation('patch originalPublishTime %s != T1 publishTime %s' % (patch.get('originalPublishTime'), m1.root.get('publishTime')), inp)
        try:
            patched = apply_patch(m1.root, patch)
        except ValueError as e:
            ctx.violation('patch cannot be applied to the T1 document: %s' % e, inp)
            continue
        same = True
        if patched.get('publishTime') != m2.root.get('publishTime'):
            same = False
            ctx.violation('patched publishTime %s != full manifest %s' % (patched.get('publishTime'), m2.root.get('publishTime')), inp)
        pl_p, pl_2 = patched.find('d:PatchLocation', NS), m2.root.find('d:PatchLocation', NS)
        if (pl_p.text or '').strip() != (pl_2.text or '').strip() or pl_p.get('ttl') != pl_2.get('ttl'):
            same = False
            ctx.violation('patched PatchLocation %r != full manifest %r' % (pl_p.text, pl_2.text), inp)
        if timelines(patched) != tl2:
            same = False
            ctx.violation('patched SegmentTimelines differ from the full manifest at T2', inp)
        if same:
            ctx.nontriv((url, secs, delta))
    ctx.oblige('http:patch-applies-to-T2-manifest', ok, '%d patches fetched and applied' % n)
    env.close()
