import importlib
import sys
from . import common

def main():
    if len(sys.argv) < 2:
        print('usage: check <Cxx> [--tier quick|thorough] [--seed N] [--replay f]')
        return 2
    prop = sys.argv[1]
    mod = importlib.import_module('harness.props.%s' % prop.lower())
    return common.main_for(mod)

if __name__ == '__main__':
    sys.exit(main())
