"""coq/Gen/RoutesTable.v from the live application object of /repo: for every URL rule and every
HTTP method its view class defines, the guards in force (class-level `decorators` plus the
decorators wrapped around the method), read from the decorator closures themselves."""
import inspect
import os
import re

from .. import common

NEUTRAL = {'uses_stream', 'uses_media_file', 'uses_keypair', 'modifies_user_model', 'uses_manifest',
           'uses_multi_period_stream', 'uses_user', 'spa_handler'}
METHODS = ['get', 'head', 'post', 'put', 'delete', 'patch']

# required role per handler class for its state-changing methods (docs/users.md: media group for
# streams, media files, keys and multi-period streams; admin for other users; the user
# themself for their own account).  A state-changing row whose class is not listed is emitted
# as RUnknown: the theorem then fails.
REQUIRED = {
    'streams.AddStream': 'Media', 'streams.EditStream': 'Media', 'streams.DeleteStream': 'Media',
    'streams.EditStreamDefaults': 'Media',
    'media_management.UploadHandler': 'Media', 'media_management.MediaInfo': 'Media',
    'media_management.EditMedia': 'Media', 'media_management.DeleteMedia': 'Media',
    'media_management.IndexMediaFile': 'Media', 'media_management.ValidateMediaChanges': 'Media',
    'keypairs.KeyHandler': 'Media', 'keypairs.DeleteKeyHandler': 'Media',
    'multi_period_streams.AddStream': 'Media', 'multi_period_streams.EditStream': 'Media',
    'multi_period_streams.ValidateStream': 'Anon',     # validates a payload, stores nothing
    'user_management.ListUsers': 'Admin',
    # EditUser.post: 'self or admin' is decided inside the method (checked over HTTP); delete is admin only
    'user_management.EditUser.POST': 'User', 'user_management.EditUser.DELETE': 'Admin',
    'user_management.EditSelf.POST': 'User', 'user_management.EditSelf.DELETE': 'Admin',
    # state confined to the caller's own session / tokens, or none at all
    'user_management.LoginPage': 'Anon', 'user_management.LogoutPage': 'Anon',
    'user_management.RefreshAccessToken': 'Anon', 'user_management.RefreshCsrfTokens': 'Anon',
    'clearkey.ClearkeyHandler': 'Anon', 'media_management.InspectMediaFile': 'Anon',   # parses an upload, stores nothing
 'htmlpage.MainPage': 'Anon', 'htmlpage.ES5MainPage': 'Anon',
}

MUT_RE = re.compile(r'session\.(add|delete|commit|merge)\b|\.delete_file\(|\.add_file\(|set_password\(|'
                    r'parse_media_file\(|modify_media_file\(|\.save\(|os\.remove|shutil\.|\.unlink\(|'
                    r'delete_model\(|logout_user\(|login_user\(')


def perm_name(p):
    if p is None:
        return 'PNone'
    n = getattr(p, 'name', None)
    return {'MEDIA': 'PMedia', 'ADMIN': 'PAdmin', 'USER': 'PUser'}.get(n, 'PUnknown')


def closure_vars(fn):
    out = {}
    code = getattr(fn, '__code__', None)
    if code is None or fn.__closure__ is None:
        return out
    for name, cell in zip(code.co_freevars, fn.__closure__):
        try:
            out[name] = cell.cell_contents
        except ValueError:
            pass
    return out


def guard_of(qualname, cv):
    head = qualname.split('.<locals>')[0]
    if head == 'login_required':
        return 'GLogin %s %s' % ('true' if cv.get('admin') else 'false', perm_name(cv.get('permission')))
    if head == 'jwt_login_required':
        return 'GJwtLogin %s %s' % ('true' if cv.get('admin') else 'false', perm_name(cv.get('permission')))
    if head == 'jwt_required':
        return 'GJwt %s' % ('true' if cv.get('optional') else 'false')
    if head == 'csrf_token_required':
        return 'GCsrf %s' % ('true' if cv.get('optional') else 'false')
    if head in NEUTRAL:
        return 'GNeutral'
    return 'GUnknown'


def class_guards(cls):
    out = []
    for dec in getattr(cls, 'decorators', []) or []:
        out.append(guard_of(getattr(dec, '__qualname__', '?'), closure_vars(dec)))
    return out


def method_guards(fn):
    out = []
    seen = 0
    while hasattr(fn, '__wrapped__') and seen < 20:
        code = getattr(fn, '__code__', None)
        out.append(guard_of(getattr(code, 'co_qualname', '?'), closure_vars(fn)))
        fn = fn.__wrapped__
        seen += 1
    return out, fn


def mutates(cls, method, inner):
    if method in ('post', 'put', 'delete', 'patch'):
        return True
    try:
        src = inspect.getsource(inner)
    except (OSError, TypeError):
        return True
    if MUT_RE.search(src):
        return True
    # helpers of the same class called through self.
    for name in set(re.findall(r'self\.(\w+)\(', src)):
        helper = getattr(cls, name, None)
        if helper is None or not callable(helper):
            continue
        try:
            if MUT_RE.search(inspect.getsource(helper)):
                return True
        except (OSError, TypeError):
            pass
    return False


def collect(app):
    rows = []
    for rule in sorted(app.url_map.iter_rules(), key=lambda r: (r.endpoint, r.rule)):
        view = app.view_functions.get(rule.endpoint)
        cls = getattr(view, 'view_class', None)
        if cls is None:
            if rule.endpoint == 'static':
                continue
            # plain function view: state-changing unless its source shows otherwise
            try:
                fmut = bool(MUT_RE.search(inspect.getsource(view)))
            except (OSError, TypeError):
                fmut = True
            rows.append((rule.endpoint, rule.rule, 'GET', 'function.' + getattr(view, '__name__', '?'), [], fmut,
                         'RUnknown' if fmut else 'RAnon'))
            continue
        cname = '%s.%s' % (cls.__module__.split('.')[-1], cls.__name__)
        cg = class_guards(cls)
        for m in METHODS:
            fn = getattr(cls, m, None)
            if fn is None:
                continue
            if m == 'head' and 'head' not in cls.__dict__ and not any('head' in k.__dict__ for k in cls.__mro__[:-1]):
                continue
            mg, inner = method_guards(fn)
            mut = mutates(cls, m, inner)
            req = REQUIRED.get('%s.%s' % (cname, m.upper()), REQUIRED.get(cname, 'RUnknown')) if mut else 'Anon'
            rows.append((rule.endpoint, rule.rule, m.upper(), cname, cg + mg, mut, req if req == 'RUnknown' else 'R' + req))
    return rows


def coq_string(s):
    return '"' + s.replace('"', '""') + '"'


def csrf_services():
    """every service name the source uses with the CSRF machinery"""
    names = set()
    root = os.path.join(common.REPO, 'dashlive')
    pat = re.compile(r"""(?:csrf_token_required\(\s*(?:service\s*=\s*)?|check_csrf\(\s*|generate_csrf_token\(\s*|generate_token\(\s*|CSRF_TOKEN_NAME\s*=\s*)['\"]([A-Za-z0-9_.-]+)['\"]""")
    for dp, dn, fn in os.walk(root):
        for f in fn:
            if f.endswith('.py'):
                names.update(pat.findall(open(os.path.join(dp, f), encoding='utf-8').read()))
    return sorted(names)


def render(rows):
    lines = ['(* GENERATED by harness/translators/routes_table.py from the application object of /repo.',
             '   One row per (URL rule, HTTP method the view class implements). Do not edit. *)',
             'From Verif Require Import Base.Tactics Model.AuthModel.',
             'From Coq Require Import String.',
             'Open Scope string_scope.',
             '',
             'Definition routes_table : list row := [']
    body = []
    for (ep, rule, m, cname, guards, mut, req) in rows:
        body.append('  {| rw_endpoint := %s; rw_method := %s; rw_class := %s; rw_guards := [%s]; rw_mutates := %s; rw_required := %s |}'
                    % (coq_string(ep), coq_string(m), coq_string(cname), '; '.join(guards), 'true' if mut else 'false', req))
    lines.append(';\n'.join(body))
    lines.append('].')
    lines.append('')
    lines.append('(* service names used with csrf_token_required / check_csrf / generate_csrf_token / CSRF_TOKEN_NAME *)')
    lines.append('Definition csrf_services : list (list Z) := [%s].' % '; '.join(
        '[%s]' % '; '.join(str(ord(ch)) for ch in n) for n in csrf_services()))
    return '\n'.join(lines) + '\n'


def generate(app=None):
    own = None
    if app is None:
        import tempfile
        from ..appenv import AppEnv
        own = tempfile.mkdtemp(prefix='routes-', dir=common.WORK)
        env = AppEnv(own, streams=())
        app = env.app
    rows = collect(app)
    text = render(rows)
    changed = common.write_if_changed(os.path.join(common.COQ, 'Gen', 'RoutesTable.v'), text)
    if own:
        import shutil
        shutil.rmtree(own, ignore_errors=True)
    return rows, changed
