"""coq/Gen/TemplateSites.v from the XML templates of /repo (templates/manifests/*.mpd, patches, segment,
drm, events): every output site {{ expr | f1 | f2 }} with
  - its lexical XML context (character data, attribute value with its quote, inside a tag), decided by a
    small scanner over the literal text the Jinja lexer reports around it,
  - whether Jinja autoescapes that template file (asked of the live application's jinja_env),
  - its filter chain, mapped to what the filter does to XML-special characters,
  - the source kind of the head expression.
Fail-closed: a filter or head expression that is not recognised becomes FUnknown / SUnknown and the
theorem C05_sites has no case for it."""
import os
import re

from .. import common

DIRS = ('manifests', 'patches', 'segment', 'drm', 'events')

# filters -> effect on XML-special characters
FILTERS = {
    'xmlSafe': 'FEscape',            # decided below by probing the real filter (complete escape or '&' only)
    'safe': 'FSafe',
    'e': 'FEscape', 'escape': 'FEscape',
    # outputs drawn from an alphabet without & < > " ' whatever the input
    'isoDuration': 'FInert', 'toIsoDuration': 'FInert', 'isoDateTime': 'FInert', 'toIsoDateTime': 'FInert',
    'base64': 'FInert', 'uuid': 'FInert', 'frameRateFraction': 'FInert', 'trueFalse': 'FInert', 'toHtmlString': 'FUnknown',
    'length': 'FInert', 'int': 'FInert',
    # pass the characters of their input through (plus inert ones)
    'default': 'FPass', 'join': 'FPass', 'lower': 'FPass', 'upper': 'FPass', 'sortedAttributes': 'FPass', 'replace': 'FPass',
}

# head expressions whose values never contain an XML-special character: numbers, enumerations fixed by the
# code (mime types, scheme URIs, profile URNs), fourcc-derived codec strings, loop counters.  Everything
# not listed is KAny (may contain anything: stored titles, names, ids, request URLs and query values).
INERT_HEADS = [
    r'rep\.(bitrate|width|height|sampleRate|numChannels|startWithSAP|start_number|segment_duration|timescale|scanType|sar|frameRate)$',
    r'adp\.(timescale|start_number|segment_duration|presentationTimeOffset|startWithSAP|maxWidth|maxHeight|maxFrameRate|par|numChannels|segmentAlignment)$',
    r'adp\.contentComponent\.id$',
    r'(stream|segList|audio|mpd\.video)\.(timescale|presentationTimeOffset|duration|minBitrate|maxBitrate|minWidth|maxWidth|minHeight|maxHeight)$',
    r'segList\.init\.(start|end)$', r'seg\.(start|end|duration|repeat|count-1)$', r'loop\.index$', r'mpd\.patch\.ttl$',
    r'event\.(presentationTime|duration|id)$',
    r'mpd\.(mediaDuration|timeShiftBufferDepth|availabilityStartTime|publishTime|minimumUpdatePeriod|suggestedPresentationDelay|'
    r'maxSegmentDuration|minBufferTime|now)$', r'period\.(start|duration)$', r'original_publish_time$',
]
INERT_RE = [re.compile(p) for p in INERT_HEADS]


def split_filters(expr):
    """'a.b(c|d)|f1|f2(x)' -> ('a.b(c|d)', ['f1', 'f2'])   (| inside parentheses or quotes does not split)"""
    parts, cur, depth, quote = [], '', 0, None
    for ch in expr:
        if quote:
            cur += ch
            if ch == quote:
                quote = None
            continue
        if ch in '"\'':
            quote = ch
            cur += ch
        elif ch in '([':
            depth += 1
            cur += ch
        elif ch in ')]':
            depth -= 1
            cur += ch
        elif ch == '|' and depth == 0:
            parts.append(cur)
            cur = ''
        else:
            cur += ch
    parts.append(cur)
    head = parts[0]
    names = [re.match(r'\s*([A-Za-z_][A-Za-z_0-9]*)', p).group(1) if re.match(r'\s*([A-Za-z_][A-Za-z_0-9]*)', p) else '?' for p in parts[1:]]
    return head.strip(), names


def probe_xmlsafe(app):
    """what the real xmlSafe filter does: 'FEscape' if it neutralises & < > " ' and marks the result safe, 'FAmpOnly' if it only
    rewrites '&' (the pinned upstream behaviour), FUnknown otherwise"""
    import markupsafe
    f = app.jinja_env.filters.get('xmlSafe')
    if f is None:
        return 'FUnknown'
    out = f('a&b<c>d"e\'f')
    if isinstance(out, markupsafe.Markup) and not any(ch in str(out).replace('&amp;', '').replace('&lt;', '').replace('&gt;', '')
                                                      .replace('&#34;', '').replace('&#39;', '').replace('&quot;', '') for ch in '&<>"\''):
        return 'FEscape'
    if str(out) == 'a&amp;b<c>d"e\'f' and not isinstance(out, markupsafe.Markup):
        return 'FAmpOnly'
    return 'FUnknown'


def sites(app):
    env = app.jinja_env
    root = app.template_folder
    xml_safe = probe_xmlsafe(app)
    out = []
    for d in DIRS:
        for f in sorted(os.listdir(os.path.join(root, d))):
            rel = '%s/%s' % (d, f)
            src = open(os.path.join(root, rel)).read()
            auto = bool(env.autoescape(rel)) if callable(env.autoescape) else bool(env.autoescape)
            toks = list(env.lex(src))
            state, quote = 'text', None
            i = 0
            while i < len(toks):
                ln, tt, val = toks[i]
                if tt == 'data':
                    for ch in val:
                        if state == 'text':
                            if ch == '<':
                                state = 'tag'
                        elif state == 'tag':
                            if ch == '>':
                                state = 'text'
                            elif ch in '"\'':
                                state, quote = 'attr', ch
                        elif state == 'attr':
                            if ch == quote:
                                state = 'tag'
                elif tt == 'variable_begin':
                    j = i + 1
                    expr = ''
                    while toks[j][1] != 'variable_end':
                        expr += toks[j][2]
                        j += 1
                    expr = re.sub(r'\s+', '', expr)
                    head, names = split_filters(expr)
                    filts = []
                    for n in names:
                        k = FILTERS.get(n, 'FUnknown')
                        if n == 'xmlSafe':
                            k = xml_safe
                        filts.append(k)
                    kind = 'SInert' if any(r.match(head) for r in INERT_RE) else 'SAny'
                    ctx = {'text': 'CText', 'tag': 'CTag'}.get(state) or ('CAttr %d' % ord(quote))
                    out.append({'tpl': rel, 'line': ln, 'ctx': ctx, 'auto': auto, 'kind': kind, 'filters': filts, 'expr': expr})
                    i = j
                i += 1
    return out


def codes(s):
    return '[%s]' % '; '.join(str(ord(c)) for c in s)


def generate(app=None):
    if app is None:
        from ..appenv import AppEnv
        env = AppEnv(os.path.join(common.WORK, 'tplsites'), streams=())
        app = env.app
    rows = sites(app)
    lines = ['(* GENERATED by harness/translators/template_sites.py from the templates of /repo and the live jinja_env. Do not edit. *)',
             'From Verif Require Import Base.Tactics Model.XmlModel.', '',
             'Definition template_sites : list site := [']
    lines.append(';\n'.join('  {| s_tpl := %s; s_line := %d; s_ctx := %s; s_auto := %s; s_kind := %s; s_filters := [%s] |}  (* %s *)'
                            % (codes(r['tpl']), r['line'], r['ctx'], 'true' if r['auto'] else 'false', r['kind'], '; '.join(r['filters']),
                               r['expr'].replace('*)', '* )').replace('"', "''")) for r in rows))
    lines.append('].')
    text = '\n'.join(lines) + '\n'
    changed = common.write_if_changed(os.path.join(common.COQ, 'Gen', 'TemplateSites.v'), text)
    return rows, changed
