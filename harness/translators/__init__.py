"""Translators: regenerate coq/Gen/*.v from the current /repo tree (DESIGN 3.1). Fail-closed:
anything not recognised becomes an Unknown constructor for which the theorems have no case."""


def generate_all():
    from . import routes_table, options_table, template_sites
    routes_table.generate()
    options_table.generate()
    template_sites.generate()
