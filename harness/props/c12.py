"""C12 - multi-period presentations tile the timeline and play the right media.
Theorems: coq/Props/C12.v.  Correspondence (HTTP, real app): Period listing of /mps/<mode>/<name>/*.mpd
vs Model/MpsModel.vod_periods / live_periods; /mps/.../<n>.m4v vs Model/MpsModel.mps_number.
Oracle: the property text on the fetched documents and segments (own MPD reader, own box walker)."""
import datetime
import re

from .. import common, segcore as sc, boxwalk, seghttp

RULE = ('multi-period definitions over the bbb (40 s) and tears (64 s) fixture streams: 1..3 periods, source offsets and '
        'durations on and off segment boundaries (incl. offsets in the last half segment and durations reaching past the '
        'end of the source), video+audio or video only; vod manifest + live manifests at clocks from 61 s to 10^7 s after '
        'availabilityStartTime with depth 20..300; every segment number each Period duration admits plus one past it. '
        'Non-trivial: a listing with >= 2 periods or a served segment; distinct by (definition, clock) / URL')

T0 = datetime.datetime(2024, 1, 1, tzinfo=datetime.timezone.utc)
STREAM_LEN = {'bbb': 40, 'tears': 64}
VIDEO = {'bbb': 'bbb_v7', 'tears': 'tears_v1'}
AUDIO = {'bbb': 'bbb_a1', 'tears': 'tears_a1'}


def gen_def(rng, idx):
    n = rng.choice([1, 2, 2, 3])
    periods = []
    for i in range(n):
        stream = rng.choice(['bbb', 'tears'])
        L = STREAM_LEN[stream]
        r = rng.random()
        if r < 0.4:
            start = 4 * rng.randint(0, L // 4 - 2)
        elif r < 0.7:
            start = rng.randint(0, L - 5)
        elif r < 0.85:
            start = L - rng.choice([1, 2, 3])          # last segment / last half segment
        else:
            start = rng.choice([0, 2, 6])
        if rng.random() < 0.35:
            start = min(L - 1, start + rng.choice([0.25, 0.5, 0.75, 2.5, 2.75]))     # fractional offsets
        r = rng.random()
        if r < 0.6:
            dur = 4 * rng.randint(1, max(1, int(L - start) // 4))
        elif r < 0.85:
            dur = rng.randint(1, max(1, int(L - start)))
        else:
            dur = int(L - start) + rng.choice([1, 4, 9])    # reaches past the end of the source
        tracks = [(1, 'video', 'MAIN'), (2, 'audio', 'MAIN')] if rng.random() < 0.7 else [(1, 'video', 'MAIN')]
        periods.append(dict(pid='p%d' % i if rng.random() < 0.8 else 'p_%d' % i, stream=stream, start_s=start,
                            duration_s=max(1, dur), tracks=tracks))
    return {'name': 'mps%d' % idx, 'periods': periods}


def read_periods(xml):
    from ..manifesthttp import Mpd, parse_duration_us
    mpd = Mpd(xml, 'http://localhost/')
    out = []
    for p in mpd.periods():
        st = p.get('start')
        du = p.get('duration')
        out.append({'id': p.get('id'), 'start': parse_duration_us(st) if st else None,
                    'duration': parse_duration_us(du) if du else None, 'elem': p})
    return mpd, out


def live_timing(env, ds_us, now, depth):
    """elapsed / firstAvailableTime as create_all_live_periods computes them (real DashTiming)"""
    from dashlive.mpeg.dash.reference import StreamTimingReference
    from dashlive.mpeg.dash.timing import DashTiming
    from dashlive.server.options.repository import OptionsRepository
    from dashlive.utils.timezone import UTC
    total_ms = sum(ds_us) // 1000
    ref = StreamTimingReference(media_name='x', media_duration=int(total_ms), num_media_segments=100,
                                segment_duration=1000, timescale=1000)
    defaults = OptionsRepository.get_default_options()
    options = OptionsRepository.convert_cgi_options({'start': '2024-01-01T00:00:00Z', 'depth': str(depth)}, defaults)
    options.add_field('mode', 'live')
    t = DashTiming(now.astimezone(UTC()), ref, options)
    us = datetime.timedelta(microseconds=1)
    return t.firstAvailableTime // us, t.elapsedTime // us


def run(ctx):
    import logging
    common.proof_step(ctx)
    ctx.trusted += ['harness/shims used to import and run the real Flask app; clock patched from outside; multi-period definitions '
                    'are inserted through the SQLAlchemy models (the management API is exercised by C17)',
                    'float arithmetic of total_seconds() modelled as exact rationals']
    ctx.assumptions += ['period durations >= 0, total duration > 0', 'rep_ok for the representations played',
                        'C12_decode_times assumes the source offset lies inside the first pass over the file (finding period-at-end-of-source otherwise)']
    from ..appenv import AppEnv, Clock
    from .. import seghttp
    from ..manifesthttp import parse_duration_us, NS
    env = AppEnv(ctx.workdir, streams=('bbb', 'tears'))
    logging.disable(logging.CRITICAL)
    c = env.client()
    rng = ctx.rng
    ndefs = 15 if ctx.quick() else 80
    ok_list = ok_num = True
    reps = {}
    for s in ('bbb', 'tears'):
        for name in (VIDEO[s], AUDIO[s]):
            reps[name] = seghttp.rep_of(env, name)
    src_payload = {}
    for di in range(ndefs):
        d = gen_def(rng, di)
        pks = env.add_mps(d['name'], d['periods'])
        ds_us = [p['duration_s'] * 10**6 for p in d['periods']]
        ids = [p['pid'] for p in d['periods']]
        # ------------------------------------------------ vod listing
        r = c.get('/mps/vod/%s/hand_made.mpd' % d['name'])
        ctx.count('http:mps-vod-manifest')
        if r.status_code != 200:
            ctx.violation('vod manifest of %r answers %d' % (d, r.status_code), {'def': d})
            continue
        mpd, listed = read_periods(r.data)
        m = common.run_model(12, [[0, ds_us]])[0]
        got = [[ids.index(p['id']) if p['id'] in ids else -1, 0, p['start'], p['duration']] for p in listed]
        if got != m:
            ok_list = False
            ctx.disagree('mps-vod-listing', {'def': d}, m, got)
        check_contiguous(ctx, listed, {'def': d, 'mode': 'vod'})
        mpdur = mpd.root.get('mediaPresentationDuration')
        if mpdur is not None and abs(parse_duration_us(mpdur) - sum(ds_us)) > 1000:
            ctx.violation('vod: Period durations sum to %d us but mediaPresentationDuration is %s' % (sum(ds_us), mpdur),
                          {'def': d}, key='mps-vod-duration')
        if len(listed) >= 2:
            ctx.nontriv(('vod', d['name']))
        # the init segment of every listed Representation, through the URL the manifest itself spells out (query string included)
        try:
            from ..manifesthttp import advertised_urls, local_path
            for kind_, url_, info_ in advertised_urls(mpd, 0):
                if kind_ != 'init':
                    continue
                ri = c.get(local_path(url_))
                ctx.count('http:mps-advertised-init')
                if ri.status_code != 200:
                    ctx.violation('vod manifest of %s: the init segment it advertises, %s, answers %d' % (d['name'], local_path(url_), ri.status_code),
                                  {'def': d, 'url': local_path(url_)})
                    break
        except Exception as e:  # noqa
            ctx.dist('advertised-init:harness-%s' % type(e).__name__)
        # ------------------------------------------------ live listings
        for _ in range(2 if ctx.quick() else 6):
            depth = rng.choice([20, 60, 300])
            secs = rng.choice([61, 100, sum(ds_us) // 10**6 * rng.randint(1, 50) + rng.randint(0, 3), rng.randint(61, 10**7)])
            now = T0 + datetime.timedelta(seconds=secs, microseconds=rng.choice([0, 1, 500000]))
            with Clock(now):
                r = c.get('/mps/live/%s/hand_made.mpd?start=2024-01-01T00:00:00Z&depth=%d' % (d['name'], depth))
            ctx.count('http:mps-live-manifest')
            inp = {'def': d, 'now': now.isoformat(), 'depth': depth}
            if r.status_code != 200:
                ctx.violation('live manifest answers %d' % r.status_code, inp)
                continue
            mpd, listed = read_periods(r.data)
            fta, elapsed = live_timing(env, ds_us, now, depth)
            m = common.run_model(12, [[1, ds_us, fta, elapsed]])[0]
            got = []
            for p in listed:
                mm = re.match(r'^(.*)_(\d+)$', p['id'] or '')
                got.append([ids.index(mm.group(1)) if mm and mm.group(1) in ids else -1, int(mm.group(2)) if mm else -1,
                            p['start'], p['duration']])
            if got != m:
                ok_list = False
                ctx.disagree('mps-live-listing', inp, m, got)
            check_contiguous(ctx, listed, inp)
            if len(set(p['id'] for p in listed)) != len(listed):
                ctx.violation('live: Period ids repeat: %r' % [p['id'] for p in listed], inp)
            if listed:
                if listed[0]['start'] > fta:
                    ctx.violation('live: first Period starts at %d us, after the start of the time-shift window %d' % (listed[0]['start'], fta), inp)
                last = listed[-1]
                if last['start'] + (last['duration'] or 0) < elapsed - 10**6 and last['duration'] is not None:
                    ctx.violation('live: last Period ends at %d us, before now (%d us)' % (last['start'] + last['duration'], elapsed), inp)
            else:
                ctx.violation('live: no Period listed', inp)
            if len(listed) >= 2:
                ctx.nontriv(('live', d['name'], secs, depth))
        init_dd, pstart = {}, {}
        # ------------------------------------------------ media inside each period (vod)
        for p, ppk in zip(d['periods'], pks):
            for name in [VIDEO[p['stream']]] + ([AUDIO[p['stream']]] if len(p['tracks']) > 1 else []):
                rep, ctype = reps[name]
                ext = seghttp.EXT[ctype]
                if name not in src_payload:
                    src_payload[name] = source_payloads(name, p['stream'])
                with env.app.app_context():
                    ref_ts = env.models.Stream.get(directory=p['stream']).timing_reference.timescale
                sd = sc.rep_seg_dur(rep)
                admits = -(-p['duration_s'] * rep['ts'] // sd)          # ceil(duration / segment duration)
                nums = list(range(rep['start_number'], rep['start_number'] + admits + 1))
                if ctx.quick() and len(nums) > 6:
                    nums = nums[:3] + nums[-3:]
                nums = [rep['start_number'] - 1] + nums     # the number before the first one belongs to no Period: 404
                mo = common.run_model(12, [[2, sc.model_rep(rep), int(round(p['start_s'] * 10**6)), ref_ts, k] for k in nums])
                ri = c.get('/mps/vod/%s/%d/%s/init.%s' % (d['name'], ppk, name, ext))
                if ri.status_code != 200:
                    ctx.violation('init segment of %s in period %s answers %d' % (name, p['pid'], ri.status_code), {'def': d})
                dd = boxwalk.trex_default_duration(boxwalk.Root(ri.data)) if ri.status_code == 200 else None
                init_dd['/mps/vod/%s/%d/%s' % (d['name'], ppk, name)] = dd
                pstart['/mps/vod/%s/%d/%s' % (d['name'], ppk, name)] = p['start_s']
                prev_end = None
                for k, m in zip(nums, mo):
                    url = '/mps/vod/%s/%d/%s/%d.%s' % (d['name'], ppk, name, k, ext)
                    rr = c.get(url)
                    ctx.count('http:mps-segment')
                    inp = {'def': d, 'url': url}
                    if rr.status_code >= 500:
                        wrap = m and m[2] < 0
                        ctx.violation('%s answers %d' % (url, rr.status_code), inp, key='period-at-end-of-source' if wrap else None)
                        continue
                    s = seghttp.summarize(rr, dd)
                    got = [s['tfdt'], s['seq']] if s else []
                    want = [m[2] + rep['start_time'], k] if m else []
                    if got != want:
                        ok_num = False
                        ctx.disagree('mps-number', inp, want, got)
                    if not s:
                        if m:
                            ctx.violation('%s answers %d, the source has that segment' % (url, rr.status_code), inp)
                        elif rr.status_code != 404:
                            ctx.violation('%s %s answers %d (expected 404)' % (url, 'before the first number of the Period' if k < rep['start_number']
                                                                             else 'beyond the end of the source', rr.status_code), inp)
                        continue
                    # oracle: n-th source segment from the nearest-start one, payload identical,
                    # decode times from zero at the Period start, gapless
                    src_idx = nearest_segment(rep, p['start_s']) + (k - rep['start_number'])
                    mdat = [b for b in s['root'].children if b.type == b'mdat']
                    if src_idx > len(rep['durs']):
                        ctx.violation('%s is served although the source has only %d segments' % (url, len(rep['durs'])), inp)
                        continue
                    if not mdat or mdat[0].payload != src_payload[name][src_idx - 1]:
                        ctx.violation('%s: mdat payload differs from source segment %d' % (url, src_idx), inp)
                    if k == rep['start_number'] and s['tfdt'] != 0:
                        cls = 'period-at-end-of-source' if (m and m[2] != s['tfdt']) is False and offset_in_last_half(rep, p['start_s']) else None
                        ctx.violation('%s: first segment of the Period has decode time %d, expected 0' % (url, s['tfdt']), inp, key=cls)
                    if prev_end is not None and prev_end[0] == k - 1 and s['tfdt'] != prev_end[1]:
                        ctx.violation('%s: decode time %d, previous number ended at %d' % (url, s['tfdt'], prev_end[1]), inp)
                    prev_end = (k, s['tfdt'] + s['duration'])
                    ctx.nontriv(url)
        time_addressing(ctx, c, d, reps, init_dd, 6 if ctx.quick() else 40, pstart=pstart)
    ctx.oblige('correspondence:HTTP(mps manifests)-vs-MpsModel.vod_periods/live_periods', ok_list)
    ctx.oblige('correspondence:HTTP(mps segments)-vs-MpsModel.mps_number', ok_num)
    witness(ctx, env, c, reps)
    env.close()


def time_addressing(ctx, c, d, reps, init_dd, limit, report_overrun=True, pstart=None):
    """the static manifest with SegmentTimeline addressing: every $Time$ URL it spells out is fetched and must carry the
    advertised t and d; the k-th entry of a Representation must be the very segment the number route serves as
    start_number + k - 1 (same payload, same decode time), which the model decides (MpsModel.mps_number)"""
    from ..manifesthttp import advertised_urls, local_path, Mpd
    r = c.get('/mps/vod/%s/hand_made.mpd?timeline=1' % d['name'])
    ctx.count('http:mps-vod-timeline-manifest')
    if r.status_code != 200:
        ctx.violation('vod timeline manifest of %s answers %d' % (d['name'], r.status_code), {'def': d})
        return
    mpd = Mpd(r.data, 'http://localhost/')
    per_rep = {}
    for kind, url, info in advertised_urls(mpd, 0):
        if kind == 'time':
            per_rep.setdefault(local_path(url).rsplit('/time/', 1)[0], []).append((local_path(url), info))
    for base, entries in sorted(per_rep.items()):
        name = base.rsplit('/', 1)[-1]
        if name not in reps:
            continue
        rep, ctype = reps[name]
        # does the Period's source offset fall in the SECOND half of a source segment?  Then the number route starts from the
        # next segment (nearest start) while the time route looks up the segment CONTAINING offset + t: one segment earlier
        off, acc, second_half = (pstart or {}).get(base, 0) * rep['ts'], 0, False
        for dur in rep['durs']:
            if acc <= off < acc + dur:
                second_half = 2 * (off - acc) >= dur
                break
            acc += dur
        idx = list(range(len(entries)))
        if len(idx) > limit:
            idx = idx[:limit // 2] + idx[-(limit - limit // 2):]
        for k in idx:
            url, info = entries[k]
            ext = url.rsplit('.', 1)[-1].split('?')[0]
            rn = c.get('%s/%d.%s' % (base, rep['start_number'] + k, ext))
            rr = c.get(url)
            ctx.count('http:mps-time-segment')
            inp = {'def': d, 'url': url, 'entry': k + 1}
            if rn.status_code >= 500:
                continue                     # the number loop above reports it (period-at-end-of-source)
            if rn.status_code != 200 and not report_overrun:
                continue
            if rn.status_code != 200:
                # the Period plays the source from an offset, the timeline lists the whole source: the entries past
                # (source segments - offset) name media no route serves
                ctx.violation('%s (timeline entry %d of %d, t=%d) is advertised but the source ends before it: the time route answers %d, '
                              'the number route %d' % (url, k + 1, len(entries), info['t'], rr.status_code, rn.status_code),
                              inp, key='mps-time-at-media-end-500' if rr.status_code >= 500 and k == len(rep['durs']) else
                              'mps-vod-timeline-overrun' if rr.status_code in (200, 404) else None)
                continue
            if rr.status_code != 200:
                ctx.violation('%s (timeline entry %d of %d, t=%d d=%d) answers %d, number %d of the Period answers 200' % (
                    url, k + 1, len(entries), info['t'], info['d'], rr.status_code, rep['start_number'] + k), inp)
                continue
            s = seghttp.summarize(rr, init_dd.get(base))
            sn = seghttp.summarize(rn, init_dd.get(base))
            if not s or not sn:
                ctx.violation('%s: not a media segment' % url, inp)
                continue
            if sn['tfdt'] != info['t']:
                # the timeline is that of the source from its first segment, the Period plays it from its offset: the k-th
                # entry's t is not the decode time the k-th segment of the Period has (same root as the overrun)
                ctx.violation('%s: entry %d is advertised at t=%d but the %d-th segment of the Period has decode time %d' % (
                    url, k + 1, info['t'], k + 1, sn['tfdt']), inp, key='mps-vod-timeline-not-period-relative')
                continue
            if s['tfdt'] != info['t']:
                ctx.violation('%s: advertised t=%d, served decode time %d' % (url, info['t'], s['tfdt']), inp)
                continue
            m1 = [b.payload for b in s['root'].children if b.type == b'mdat']
            m2 = [b.payload for b in sn['root'].children if b.type == b'mdat']
            if m1 != m2 or (sn['tfdt'], sn['seq']) != (s['tfdt'], s['seq']):
                ctx.violation('%s and number %d of the same Period differ (decode time %s / %s, sequence %s / %s, payload %s)' % (
                    url, rep['start_number'] + k, s['tfdt'], sn['tfdt'], s['seq'], sn['seq'], 'same' if m1 == m2 else 'differs'), inp,
                    key='mps-time-route-containing-vs-nearest' if second_half and s['seq'] == sn['seq'] - 1 and s['tfdt'] == sn['tfdt'] else None)
                continue
            ctx.nontriv(url)


def time_route_suite(ctx, ndefs, limit):
    """C02 on the multi-period route: $Time$=t must carry decode time t and be the segment the number route serves
    (entries past the end of the source are C12's business and are not reported here)"""
    import logging
    from ..appenv import AppEnv
    env = AppEnv(ctx.workdir + '/mpstime', streams=('bbb', 'tears'))
    logging.disable(logging.CRITICAL)
    c = env.client()
    reps = {}
    for s in ('bbb', 'tears'):
        for name in (VIDEO[s], AUDIO[s]):
            reps[name] = seghttp.rep_of(env, name)
    for di in range(ndefs):
        d = gen_def(ctx.rng, 900 + di)
        pks = env.add_mps(d['name'], d['periods'])
        init_dd, pstart = {}, {}
        for p, ppk in zip(d['periods'], pks):
            for name in [VIDEO[p['stream']]] + ([AUDIO[p['stream']]] if len(p['tracks']) > 1 else []):
                ri = c.get('/mps/vod/%s/%d/%s/init.%s' % (d['name'], ppk, name, seghttp.EXT[reps[name][1]]))
                if ri.status_code == 200:
                    init_dd['/mps/vod/%s/%d/%s' % (d['name'], ppk, name)] = boxwalk.trex_default_duration(boxwalk.Root(ri.data))
                pstart['/mps/vod/%s/%d/%s' % (d['name'], ppk, name)] = p['start_s']
        time_addressing(ctx, c, d, reps, init_dd, limit, report_overrun=False, pstart=pstart)
    env.close()

def check_contiguous(ctx, listed, inp):
    for a, b in zip(listed, listed[1:]):
        if a['duration'] is None or a['start'] is None or b['start'] is None:
            ctx.violation('Period %r lacks start/duration' % a['id'], inp)
        elif a['start'] + a['duration'] != b['start']:
            ctx.violation('Periods are not contiguous: %r starts %d + %d, next %r starts %d'
                          % (a['id'], a['start'], a['duration'], b['id'], b['start']), inp)


def source_payloads(name, stream):
    data = open('/repo/tests/fixtures/%s/%s.mp4' % (stream, name), 'rb').read()
    return [b.payload for b in boxwalk.parse(data) if b.type == b'mdat']


def nearest_segment(rep, start_s):
    """1-based index of the segment whose start is nearest the offset (first with start + d/2 >= offset)"""
    tc = int(round(start_s * 10**6)) * rep['ts'] // 10**6
    pos = 0
    for i, d in enumerate(rep['durs']):
        if pos + d // 2 >= tc:
            return i + 1
        pos += d
    return len(rep['durs']) + 1


def offset_in_last_half(rep, start_s):
    return nearest_segment(rep, start_s) > len(rep['durs'])


def witness(ctx, env, c, reps):
    """theorem C12_refuted_wrap on the real code: a period starting 1 s before the end of bbb"""
    pks = env.add_mps('wrapw', [dict(pid='w', stream='bbb', start_s=39, duration_s=1, tracks=[(1, 'video', 'MAIN')])])
    rep, _ = reps['bbb_v7']
    url = '/mps/vod/wrapw/%d/bbb_v7/1.m4v' % pks[0]
    r = c.get(url)
    m = common.run_model(12, [[2, sc.model_rep(rep), 39 * 10**6, 240, 1]])[0]
    if r.status_code != 200 or (m and m[2] < 0):
        s = seghttp.summarize(r, None)
        if r.status_code >= 500 or (s and s['tfdt'] != 0):
            ctx.violation('%s (period offset in the last half segment of the source) answers %d%s; the model gives decode time %r'
                          % (url, r.status_code, '' if not s else ' with decode time %d' % s['tfdt'], m[2] if m else None),
                          {'url': url}, key='period-at-end-of-source')


def replay(ctx, payload):
    print('replay: C12 inputs are multi-period definitions + URLs; re-run ./check C12 with the same seed:', payload.get('seed'))
    for v in payload.get('violations', []):
        print(' -', v['what'])
    return 1 if payload.get('violations') else 0
