"""C20 - windowed buffered reader == slice of the file.

Theorems: coq/Props/C20.v (C20_refines, C20_positions_clamped, C20_eviction_irrelevant).
Correspondence: dashlive.utils.buffered_reader.BufferedReader vs Model/BufReaderModel.v
on the same (file, geometry, op sequence); every output compared exactly.
Search oracle: an in-memory slice with clamped position, written from the property text.
"""
import io
import json
import os

from .. import common

RULE = ('op sequences (read/seek/tell/peek, length<=40 quick) over random files<=300 bytes, '
        'buffersize 1..17, max_buffers 1..5, windows not aligned to the bucket size; '
        'streams: explicit-size (the quantifier), data-constructor, lazy-size (size=None, model only), '
        'malformed (peek(<=0), read(n<-1), unknown whence). A case is non-trivial when it returned '
        'at least one non-empty byte string AND touched >= 2 buckets; distinct by (geometry, ops) hash')

READ, SEEK, TELL, PEEK = 0, 1, 2, 3


def gen_case(rng, stream, maxops):
    flen = rng.choice([0, 1, 2, 5, 16, 17, 33, 64, 100, 255, 300]) if rng.random() < 0.5 else rng.randint(0, 300)
    file = bytes(rng.randrange(256) for _ in range(flen))
    bs = rng.choice([1, 2, 3, 4, 5, 7, 8, 11, 16, 17])
    maxb = rng.choice([1, 2, 2, 3, 5])
    off = rng.randint(0, flen)
    if stream == 'data':
        off, size, mode = 0, flen, 1
    elif stream == 'lazy':
        size, mode = None, 0
        if rng.random() < 0.1:
            off = flen + rng.randint(0, 3)
    else:
        size, mode = rng.randint(0, flen - off), 0
        if rng.random() < 0.3:
            size = flen - off
    span = (size if size is not None else max(0, flen - off)) + 3
    ops = []
    for _ in range(rng.randint(1, maxops)):
        r = rng.random()
        if r < 0.45:
            n = rng.choice([-1, 0, 1, 2, 3, bs - 1, bs, bs + 1, 2 * bs + 1, span, rng.randint(0, span)])
            if stream == 'malformed' and rng.random() < 0.3:
                n = -rng.randint(2, 9)
            if stream == 'lazy' and n == 0:
                n = 1       # read(0) with unknown size asserts inside peek: covered in malformed
            ops.append([READ, n, 0])
        elif r < 0.75:
            wh = rng.choice([0, 0, 1, 2])
            if stream == 'malformed' and rng.random() < 0.2:
                wh = rng.choice([3, 7, -1])
            o = rng.randint(-span, span)
            ops.append([SEEK, o, wh])
        elif r < 0.85:
            ops.append([TELL, 0, 0])
        else:
            n = rng.choice([1, 2, bs, bs + 1, 3 * bs, span, rng.randint(1, span)])
            if stream == 'malformed' and rng.random() < 0.3:
                n = rng.choice([0, -1, -7])
            ops.append([PEEK, n, 0])
    return {'file': file, 'off': off, 'bs': bs, 'maxb': maxb, 'size': size, 'mode': mode, 'ops': ops,
            'stream': stream}


def canon(x):
    if isinstance(x, (bytes, bytearray, memoryview)):
        return [0, list(bytes(x))]
    if isinstance(x, bool):
        return ['BOOL']
    if isinstance(x, int):
        return [1, x]
    if isinstance(x, str):
        return ['STR', x]
    return ['OTHER', repr(x)]


def run_impl(case):
    from dashlive.utils.buffered_reader import BufferedReader
    if case['mode'] == 1:
        br = BufferedReader(None, data=case['file'])
    else:
        br = BufferedReader(io.BytesIO(case['file']), buffersize=case['bs'], offset=case['off'],
                            size=case['size'], max_buffers=case['maxb'])
    outs = []
    for t, a, b in case['ops']:
        try:
            if t == READ:
                outs.append(canon(br.read(a)))
            elif t == SEEK:
                outs.append(canon(br.seek(a, b)))
            elif t == TELL:
                outs.append(canon(br.tell()))
            else:
                outs.append(canon(br.peek(a)))
        except AssertionError:
            outs.append([2])
        except Exception as e:  # noqa
            outs.append(['CRASH', type(e).__name__])
            break
    return outs


def model_req(case):
    return [list(case['file']), case['off'], case['bs'], case['maxb'],
            [] if case['size'] is None else [case['size']], case['mode'], case['ops']]


def oracle(case, outs):
    """the property itself, on an in-memory slice. Returns None or a description."""
    if case['size'] is None and case['mode'] != 1:
        return None          # outside the quantifier (explicit size)
    win = case['file'][case['off']:case['off'] + case['size']]
    size = len(win)
    pos = 0
    for i, (op, out) in enumerate(zip(case['ops'], outs)):
        t, a, b = op
        if out and out[0] == 'CRASH':
            return 'op %d %r raised %s' % (i, op, out[1])
        if t == READ:
            if a < -1:
                return None  # unspecified by the property
            exp = win[pos:] if a == -1 else win[pos:pos + a]
            if out != [0, list(exp)]:
                return 'op %d read(%d) at %d returned %r, window slice is %r' % (i, a, pos, out, list(exp))
            pos += len(exp)
        elif t == SEEK:
            if b not in (0, 1, 2):
                return None
            q = a if b == 0 else pos + a if b == 1 else size + a
            q = min(max(q, 0), size)
            if out != [1, q]:
                return 'op %d seek(%d,%d) returned %r, expected %d' % (i, a, b, out, q)
            pos = q
        elif t == TELL:
            if out != [1, pos]:
                return 'op %d tell returned %r, expected %d' % (i, out, pos)
        else:
            if a <= 0:
                return None
            k = min(a, size - pos)
            if out[0] != 0 or out[1][:k] != list(win[pos:pos + k]) or len(out[1]) < k:
                return 'op %d peek(%d) at %d returned %r, expected prefix %r' % (i, a, pos, out, list(win[pos:pos + k]))
    return None


def nontrivial(case, outs):
    nonempty = any(o[0] == 0 and o[1] for o in outs)
    buckets = set()
    pos_seen = [o[1] for o in outs if o[0] == 1]
    for p in pos_seen:
        buckets.add(p // max(case['bs'], 1))
    return nonempty and (len(buckets) >= 2 or any(o[0] == 0 and len(o[1]) > case['bs'] for o in outs))


def case_json(case):
    c = dict(case)
    c['file'] = list(case['file'])
    return c


def case_from_json(c):
    c = dict(c)
    c['file'] = bytes(c['file'])
    return c


def load_corpus():
    d = os.path.join(common.CORPUS, 'C20')
    out = []
    if os.path.isdir(d):
        for f in sorted(os.listdir(d)):
            if f.endswith('.json'):
                out.append(case_from_json(json.load(open(os.path.join(d, f)))))
    return out


def run(ctx):
    common.proof_step(ctx)
    ctx.trusted.append('Buffer timestamps (time.time()) modelled as insertion order; C20_eviction_irrelevant shows the choice of victim is unobservable')
    ctx.assumptions += ['underlying reader behaves like io.BytesIO (seek/tell/read)',
                        'explicit window size with offset+size <= len(file) (the property quantifier); size=None is compared model-vs-code only']
    n = 3000 if ctx.quick() else 60000
    maxops = 40 if ctx.quick() else 120
    cases = load_corpus()
    ncorpus = len(cases)
    streams = ['explicit'] * 6 + ['data', 'lazy', 'lazy', 'malformed']
    for i in range(n):
        cases.append(gen_case(ctx.rng, streams[i % len(streams)], maxops))
    impl = [run_impl(c) for c in cases]
    model = common.run_model_parallel(20, [model_req(c) for c in cases])
    ok_corr = True
    for idx, (c, io_, mo) in enumerate(zip(cases, impl, model)):
        suite = 'corpus' if idx < ncorpus else c['stream']
        ctx.count('corr:' + suite)
        ctx.dist('ops', len(c['ops']))
        mo_c = [[x[0], x[1]] if x[0] in (0, 1) else [2] for x in mo][:len(io_)]
        if any(o[0] == 'CRASH' for o in io_):
            ctx.dist('crash:' + [o for o in io_ if o[0] == 'CRASH'][0][1])
        if io_ != mo_c:
            ok_corr = False
            ctx.disagree(suite, case_json(c), mo_c, io_)
        why = oracle(c, io_)
        if why:
            # minimise
            def failing(ops, c=c):
                cc = dict(c, ops=ops)
                return oracle(cc, run_impl(cc)) is not None
            small = common.shrink_list(c['ops'], failing)
            cc = dict(c, ops=small)
            ctx.violation(oracle(cc, run_impl(cc)) or why, case_json(cc))
        if nontrivial(c, io_):
            ctx.nontriv(hash((c['file'], c['off'], c['bs'], c['maxb'], c['size'], repr(c['ops']))))
        if idx in (ncorpus, ncorpus + 7, ncorpus + 8):
            ctx.sample({'geometry': [c['off'], c['size'], c['bs'], c['maxb'], len(c['file'])],
                        'ops': c['ops'][:8], 'impl_outputs': io_[:4]})
    ctx.oblige('correspondence:BufferedReader-vs-BufReaderModel', ok_corr,
               '%d disagreements' % len(ctx.disagreements))
    # eviction irrelevance on the implementation itself (same ops, two cache limits)
    ev_ok = True
    for c in cases[ncorpus:ncorpus + (300 if ctx.quick() else 5000)]:
        if c['mode'] == 1 or c['size'] is None:
            continue
        a = run_impl(dict(c, maxb=2))
        b = run_impl(dict(c, maxb=50))
        ctx.count('eviction-pairs')
        if a != b:
            ev_ok = False
            ctx.violation('outputs depend on max_buffers', case_json(c), a, b)
    ctx.oblige('impl:eviction-unobservable', ev_ok)


def replay(ctx, payload):
    bad = 0
    for v in payload.get('violations', []):
        c = case_from_json(v['input'])
        outs = run_impl(c)
        why = oracle(c, outs)
        print('replay:', why or 'property holds on this input now')
        bad += 1 if why else 0
    for d in payload.get('disagreements', []):
        c = case_from_json(d['input'])
        print('impl :', run_impl(c))
        print('model:', common.run_model(20, [model_req(c)])[0])
    return 1 if bad else 0
