"""C07 - options given to a manifest reach its media requests with the same meaning.
Theorems: coq/Props/C07.v over coq/Gen/OptionsTable.v (regenerated from OptionsRepository on every
run).  Correspondence: every registered option's real from_string / to_string, the real
generate_cgi_parameters + dict_to_cgi_params and werkzeug's query decoding vs Model/OptionsModel.v
(kinds proved in Coq); differential round trip on the real codecs for the other kinds; HTTP: options
of a manifest request re-read from the initialization/media URLs the manifest prints."""
import datetime
import random
import re

from .. import common

RULE = ('every DashOption of the registry (discovered at run time) x legal values: enumerated choices exhaustively; integers '
        '{none, 0, 1, -1, 7, 10^9, random}; free strings and list tokens over the URL-plain alphabet; licence URLs with reserved '
        'characters; ISO starts with Z / +hh:mm / -hh:mm offsets and fractions; DRM selections over every subset of systems x '
        'locations; error lists with numbers and times; random subsets of 1..6 options per request x usage in {manifest, video, '
        'audio, text}. Non-trivial: a non-default value that is forwarded; distinct by (option, text)')

USAGES = [('manifest', None), ('video', 2), ('audio', 4), ('text', 8)]
PLAIN = 'abcdefghijklmnopqrstuvwxyzABCDEFGHIJKLMNOPQRSTUVWXYZ0123456789-_.~!*()$:/@;|'


def request_args(qs):
    """what Flask hands the media handler: request.args for that query string"""
    from werkzeug.test import EnvironBuilder
    from werkzeug.wrappers import Request
    env = EnvironBuilder(path='/x', query_string=qs[1:] if qs.startswith('?') else qs).get_environ()
    return Request(env).args.to_dict()


def get(opts, o):
    return opts[o.prefix][o.full_name] if o.prefix else opts[o.full_name]


def texts_for(rng, row):
    """CGI texts a manifest request may carry for this option"""
    o, kind = row['opt'], row['kind'].split()[0]
    out = []
    for ch in (o.cgi_choices or ()):
        v = ch[1] if isinstance(ch, tuple) else ch
        out.append('none' if v is None else str(v))
    if kind == 'KBool':
        out += ['0', '1', 'true', 'on', 'False']
    elif kind in ('KIntOrNone', 'KIntDefault'):
        out += ['none', '', '0', '1', '-1', '7', '1000000000', str(rng.randint(-10**6, 10**12))]
    elif kind in ('KStrOrNone', 'KStr'):
        out += [''.join(rng.choice(PLAIN) for _ in range(rng.randint(1, 12))), 'none', 'NONE', 'x']
    elif kind == 'KList':
        toks = [''.join(rng.choice(PLAIN.replace(',', '')) for _ in range(rng.randint(1, 6))) for _ in range(rng.randint(1, 4))]
        out += [','.join(toks), 'none', toks[0], toks[0] + ',none,' + toks[-1]]
    elif kind == 'KFloatOrNone':
        out += ['1.0', '2.0', '3.0', '4.0', 'none', '2', '2.5']
    elif kind == 'KUrl':
        out += ['https://lic.example/a', 'https://lic.example/ck?a=1&b=2', 'https://l.example/a b', 'https://l.example/{kid}?x=%7Bcfg%7D',
                'https://l.example/a+b', 'https://l.example/100%25', 'none',
                # texts that are still escaped after the query-string layer has decoded them once (the documented '<escaped-url>'
                # form): the value then holds a literal '+' or '%41'
                'https%3A%2F%2Fl.example%2Fa%2Bb', 'https%3A%2F%2Fl.example%2Fx%2541', 'https%3A%2F%2Fl.example%2Fq%3Fa%3D1%26b%3D2']
    elif kind == 'KAst':
        out += ['today', 'now', 'year', 'month', 'epoch', '2024-01-01T00:00:00Z', '2024-01-01T01:30:00+01:30',
                '2023-12-31T19:00:00-05:00', '2024-01-01T00:00:00.250Z', '2023-12-31T20:30:00-03:30', '2024-01-01T05:45:00+05:45',
                '2023-12-31T23:30:00-00:30']
        for _ in range(3):
            off = rng.randint(-14 * 60, 14 * 60)
            local = datetime.datetime(2024, 1, 1, 12, 0, 0) + datetime.timedelta(minutes=off)
            out.append('%s%s%02d:%02d' % (local.strftime('%Y-%m-%dT%H:%M:%S'), '+' if off >= 0 else '-', abs(off) // 60, abs(off) % 60))
    elif kind == 'KDrm':
        systems, locs = ['playready', 'clearkey', 'marlin'], ['pro', 'cenc', 'moov']
        out += ['all', 'none']
        for _ in range(6):
            sel = []
            for sname in rng.sample(systems, rng.randint(1, 3)):
                ls = rng.sample(locs, rng.randint(0, 3))
                sel.append(sname + ('-' + '-'.join(ls) if ls else ''))
            out.append(','.join(sel))
    elif kind == 'KErrors':
        out += ['404=2', '503=1,404=3', '500=12:00:30Z', '404=%d' % rng.randint(0, 10**6), 'none']
    return list(dict.fromkeys(out))


KCODE = {'KBool': 0, 'KIntOrNone': 1, 'KIntDefault': 2, 'KStrOrNone': 3, 'KStr': 4, 'KList': 5, 'KUrl': 6, 'KErrors': 7, 'KAst': 8, 'KDrm': 9, 'KFloatOrNone': 10}


def model_kind(row):
    k = row['kind'].split()[0]
    d = 0
    if k == 'KIntDefault':
        d = int(re.search(r'\((-?\d+)\)', row['kind']).group(1))
    return [KCODE[k], d]


def model_value(row, v):
    k = row['kind'].split()[0]
    if k == 'KBool':
        return [0, 1 if v else 0]
    if k == 'KIntOrNone':
        return [1, [] if v is None else [v]]
    if k == 'KIntDefault':
        return [2, v]
    if k == 'KStrOrNone':
        return [3, [] if v is None else [[ord(c) for c in v]]]
    if k == 'KStr':
        return [4, [ord(c) for c in v]]
    if k == 'KFloatOrNone':  # tenths (values with more than one fractional digit are outside the model)
        if v is None:
            return [1, []]
        t = v * 10
        if t != int(t) or t < 0:
            return None
        return [1, [int(t)]]
    if k == 'KUrl':          # the model works on the UTF-8 bytes of the URL
        return [3, [] if v is None else [list(v.encode('utf-8'))]]
    if k == 'KErrors':       # integer positions only (a date-time position is outside the model)
        if any(not isinstance(pos, int) or isinstance(pos, bool) for _, pos in v):
            return None
        return [6, [[int(code), int(pos)] for code, pos in v]]
    if k == 'KAst':
        if isinstance(v, str):
            return [7, [ord(c) for c in v]]
        if v is None:
            return None
        off = v.utcoffset()
        if off is None:
            offv = []
        else:
            secs = off.total_seconds()
            if secs != int(secs) or int(secs) % 60:
                return None
            offv = [int(secs) // 60]
        return [8, [v.year, v.month, v.day, v.hour, v.minute, v.second, v.microsecond, offv]]
    if k == 'KDrm':
        names = ['clearkey', 'marlin', 'playready']
        out = []
        for name, locs in v:
            ls = {getattr(x, 'value', x) for x in locs}
            out.append([names.index(name), int('cenc' in ls), int('moov' in ls), int('pro' in ls)])
        return [9, out]
    return [5, [[ord(c) for c in x] for x in v]]


def same_value(row, a, b):
    """equality of option values; a DRM selection is a mapping system -> locations ('all' re-expands in the repository's own order)"""
    if a == b:
        return True
    if row['kind'] == 'KDrm' and isinstance(a, list) and isinstance(b, list):
        try:
            return dict(a) == dict(b) and len(a) == len(b)
        except (TypeError, ValueError):
            return False
    return False


def codec_suite(ctx):
    from dashlive.server.options.repository import OptionsRepository as R
    from dashlive.utils.objects import dict_to_cgi_params
    rng = ctx.rng
    defaults = R.get_default_options()
    rows = ctx._options_rows
    fmt_reqs, fmt_meta, parse_reqs, parse_meta = [], [], [], []
    for row in rows:
        o = row['opt']
        if o.cgi_name == 'mode':
            continue            # travels in the URL path (/dash/<mode>/...), excluded from query strings on purpose
        for t in texts_for(rng, row):
            try:
                opts = R.convert_cgi_options({o.cgi_name: t}, defaults)
            except ValueError:
                ctx.dist('manifest-rejects')
                continue
            except Exception as e:  # noqa
                ctx.violation('option %s=%r: the parser raised %s (not ValueError)' % (o.cgi_name, t, type(e).__name__),
                              {'option': o.cgi_name, 'text': t})
                continue
            v = get(opts, o)
            dflt = get(defaults, o)
            for uname, ubit in USAGES:
                params = opts.generate_cgi_parameters(use=ubit, exclude={'encrypted', 'mode'})
                applies = ubit is None or bool(int(o.usage) & ubit)
                present = o.cgi_name in params
                ctx.count('impl:roundtrip')
                inp = {'option': o.cgi_name, 'text': t, 'use': uname}
                if applies and v != dflt and not present:
                    ctx.violation('option %s=%r (value %r) is not forwarded to %s URLs' % (o.cgi_name, t, v, uname), inp)
                if not applies and present:
                    ctx.violation('option %s is forwarded to %s URLs although its usage excludes them' % (o.cgi_name, uname), inp)
                if not present:
                    continue
                qs = dict_to_cgi_params(params)
                try:
                    back = R.convert_cgi_options(request_args(qs), defaults)
                    v2 = get(back, o)
                    err = None
                except Exception as e:  # noqa
                    v2, err = None, '%s: %s' % (type(e).__name__, str(e)[:80])
                same = not err and same_value(row, v2, v)
                if err or not same:
                    ctx.violation('option %s=%r: the manifest holds %r, the %s URL carries %s, the media endpoint obtains %r%s'
                                  % (o.cgi_name, t, v, uname, qs, v2, ' (' + err + ')' if err else ''), inp,
                                  key=known_class(row, v))
                else:
                    ctx.nontriv((o.cgi_name, t))
                # model correspondence for the proved kinds
                if row['kind'].split()[0] in KCODE and uname == 'manifest':
                    text = str(params[o.cgi_name])
                    try:
                        mv, mv2 = model_value(row, v), (model_value(row, v2) if not err else None)
                    except Exception:  # noqa
                        mv = mv2 = None
                    if mv is None or (mv2 is None and not err):
                        ctx.dist('model:value-outside-the-model:%s' % row['kind'].split()[0])
                    else:
                        ctx.dist('model:kind:%s' % row['kind'].split()[0])
                        fmt_reqs.append([0, model_kind(row), mv])
                        fmt_meta.append((inp, [[ord(c) for c in text]]))
                        parse_reqs.append([1, model_kind(row), [ord(c) for c in text]])
                        parse_meta.append((inp, [mv2] if not err else []))
    ok = True
    for reqs, meta, what in ((fmt_reqs, fmt_meta, 'to_string'), (parse_reqs, parse_meta, 'from_string(request.args)')):
        res = common.run_model_parallel(7, reqs)
        for (inp, want), m in zip(meta, res):
            ctx.count('corr:' + what)
            if m != want:
                ok = False
                ctx.disagree(what, inp, m, want)
    ctx.oblige('correspondence:DashOption-codecs+werkzeug-vs-OptionsModel', ok)


def known_class(row, v):
    if row['kind'].split()[0] == 'KUrl' and isinstance(v, str) and ('+' in v or '%' in v):
        return 'url-double-decoding'
    return None


def subset_suite(ctx):
    """several options on one request: what each usage's URL carries parses back to the same values"""
    from dashlive.server.options.repository import OptionsRepository as R
    from dashlive.utils.objects import dict_to_cgi_params
    rng = ctx.rng
    defaults = R.get_default_options()
    rows = ctx._options_rows
    for _ in range(150 if ctx.quick() else 4000):
        pick = rng.sample(rows, rng.randint(1, 6))
        args = {}
        for row in pick:
            ts = texts_for(rng, row)
            args[row['opt'].cgi_name] = rng.choice(ts)
        try:
            opts = R.convert_cgi_options(args, defaults)
        except ValueError:
            continue
        except Exception as e:  # noqa
            ctx.violation('options %r: the parser raised %s' % (args, type(e).__name__), {'args': args})
            continue
        for uname, ubit in USAGES:
            params = opts.generate_cgi_parameters(use=ubit, exclude={'encrypted', 'mode'})
            qs = dict_to_cgi_params(params)
            ctx.count('impl:subsets')
            try:
                back = R.convert_cgi_options(request_args(qs), defaults)
            except Exception as e:  # noqa
                cls = 'url-double-decoding' if any(known_class(r, get(opts, r['opt'])) for r in pick) else None
                ctx.violation('options %r: the %s URL %s is rejected by the media endpoint (%s)' % (args, uname, qs, type(e).__name__),
                              {'args': args, 'use': uname}, key=cls)
                continue
            for row in pick:
                o = row['opt']
                if o.cgi_name in params and not same_value(row, get(back, o), get(opts, o)):
                    ctx.violation('options %r: %s differs after the %s URL: %r -> %r' % (args, o.cgi_name, uname, get(opts, o), get(back, o)),
                                  {'args': args, 'use': uname}, key=known_class(row, get(opts, o)))


def http_suite(ctx):
    """a real manifest: the query strings of its initialization/media URLs re-parsed by the server's
    own option parser give the values the manifest request had (restricted to the media type)"""
    from ..appenv import AppEnv, Clock, utc
    from ..manifesthttp import Mpd
    from dashlive.server.options.repository import OptionsRepository as R
    from dashlive.server.options.types import OptionUsage
    import logging
    env = AppEnv(ctx.workdir, streams=('bbb',))
    logging.disable(logging.CRITICAL)
    c = env.client()
    rng = ctx.rng
    defaults = R.get_default_options()
    with env.app.app_context():
        stream_defaults = None
    cases = [
        'depth=30&leeway=60', 'start=2024-01-01T01:30:00%2B01:30&depth=40', 'leeway=none&depth=none', 'drm=playready-moov,clearkey',
        'drm=all&playready__version=2.0&playready__piff=0', 'events=ping&ping__count=5&ping__interval=250&ping__inband=0',
        'events=ping,scte35&scte35__program_id=77', 'bugs=saio&timeline=1', 'terr=404=2&failures=1', 'verr=404=5&aerr=503=3',
        'playready__la_url=https%3A%2F%2Flic.example%2Fpr%3Fa%3D1%26b%3D2&drm=playready',
        'start=epoch&mup=4&abr=0', 'vcorrupt=1,2&frames=3', 'clearkey__la_url=https%3A%2F%2Fl.example%2Fck&drm=clearkey',
    ]
    if not ctx.quick():
        cases += ['depth=%d&leeway=%d&start=%s' % (rng.randint(1, 500), rng.randint(0, 90), rng.choice(['today', 'year', 'month']))
                  for _ in range(30)]
    usage_of = {'video': OptionUsage.VIDEO, 'audio': OptionUsage.AUDIO, 'text': OptionUsage.TEXT}
    with Clock(utc(2024, 3, 5, 12, 0, 7)):
        for q in cases:
            url = '/dash/live/bbb/hand_made.mpd?' + q
            r = c.get(url)
            ctx.count('http:manifest')
            if r.status_code != 200:
                ctx.dist('manifest-status:%d' % r.status_code)
                if r.status_code >= 500:
                    ctx.violation('manifest %s answers %d' % (url, r.status_code), {'url': url})
                continue
            want = R.convert_cgi_options(request_args('?' + q), defaults)
            mpd = Mpd(r.data, 'http://localhost' + url)
            for rep in mpd.representations():
                st = rep['template']
                ctype = rep['adp'].get('contentType')
                if st is None or ctype not in usage_of:
                    continue
                for attr in ('initialization', 'media'):
                    t = st.get(attr) or ''
                    if '?' not in t:
                        qs = ''
                    else:
                        qs = t[t.index('?'):]
                    ctx.count('http:media-url-query')
                    try:
                        got = R.convert_cgi_options(request_args(qs), defaults)
                    except Exception as e:  # noqa
                        ctx.violation('%s: the %s %s URL query %r is rejected by the option parser (%s)' % (url, ctype, attr, qs, type(e).__name__),
                                      {'url': url})
                        continue
                    for row in ctx._options_rows:
                        o = row['opt']
                        if not (int(o.usage) & int(usage_of[ctype])):
                            continue
                        if o.cgi_name in ('verr', 'aerr', 'vcorrupt', 'start', 'depth', 'mode'):
                            continue      # rewritten on purpose for media URLs (resolved start/depth, segment numbers)
                        a, b = get(want, o), get(got, o)
                        if a != b:
                            ctx.violation('%s: option %s is %r at the manifest but %r in the %s %s URL' % (url, o.cgi_name, a, b, ctype, attr),
                                          {'url': url, 'option': o.cgi_name})
            ctx.nontriv(url)
        # error positions given as a wall-clock time are rewritten into segment numbers for the media URLs: the number written into
        # the URLs of a track must address, IN THAT TRACK'S OWN NUMBERING, the segment holding the instant (video: exactly; audio:
        # the segment or its neighbour - the known finding C16 time-position-segment:aerr); hours after the start the audio and
        # video numberings are many segments apart
        from .. import boxwalk
        import datetime as _dt
        now = utc(2024, 3, 5, 12, 0, 7)
        for optname, track, ext, ctype_want, slack in (('verr', 'bbb_v7', 'm4v', 'video', 0), ('aerr', 'bbb_a1', 'm4a', 'audio', 1)):
            for back in (20, 35, 50):
                tm = now - _dt.timedelta(seconds=back)
                url = '/dash/live/bbb/hand_made.mpd?start=today&depth=60&%s=503=%s' % (optname, tm.strftime('%Y-%m-%dT%H:%M:%SZ'))
                r = c.get(url)
                ctx.count('http:manifest-time-position')
                if r.status_code != 200:
                    ctx.dist('manifest-status:%d' % r.status_code)
                    continue
                mpd = Mpd(r.data, 'http://localhost' + url)
                inp = {'url': url, 'now': now.isoformat()}
                for rep in mpd.representations():
                    st = rep['template']
                    if st is None or rep['adp'].get('contentType') != ctype_want or rep['rep'].get('id') != track:
                        continue
                    m_ = re.search(optname + r'=503(?:%3D|=)(\d+)(?![\d:-])', st.get('media') or '')
                    if not m_:
                        ctx.violation('%s: the %s URLs of %s do not carry the error position' % (url, ctype_want, track), inp)
                        continue
                    k = int(m_.group(1))
                    rr = c.get('/dash/live/bbb/%s/%d.%s?start=today&depth=60' % (track, k, ext))
                    if rr.status_code != 200:
                        ctx.violation('%s: %s=503=<%d s ago> is rewritten to segment %d of %s, which is not available (%d)'
                                      % (url, optname, back, k, track, rr.status_code), inp)
                        continue
                    sm = boxwalk.segment_summary(rr.data)
                    with env.app.app_context():
                        ts = env.models.MediaFile.get(name=track).representation.timescale
                    inst = (12 * 3600 + 7 - back) * ts
                    lo, hi = sm['tfdt'] - slack * sm['duration'], sm['tfdt'] + (1 + slack) * sm['duration']
                    if not lo <= inst < hi:
                        ctx.violation('%s: the instant %d s ago (%d ticks) is rewritten to segment %d of %s, which spans %d..%d: %.1f segments away'
                                      % (url, back, inst, k, track, sm['tfdt'], sm['tfdt'] + sm['duration'],
                                         (inst - sm['tfdt']) / max(1, sm['duration'])), inp)
                    else:
                        ctx.nontriv((url, track))
    env.close()


def gen_options(ctx):
    from ..translators import options_table
    rows, changed = options_table.generate()
    ctx._options_rows = rows
    ctx.notes.append('Gen/OptionsTable.v: %d options (%s)' % (len(rows), 'rewritten' if changed else 'unchanged'))


def run(ctx):
    import logging
    logging.disable(logging.CRITICAL)
    common.proof_step(ctx, gen=[gen_options])
    ctx.trusted += ['translator harness/translators/options_table.py (kind of each option decided by the identity of its codec functions)',
                    'werkzeug query-string decoding modelled as: + -> space, %XX -> byte (compared on every case)',
                    'Python int()/str() on decimal texts as in Base/Str.v']
    ctx.assumptions += ['legal values: URL-plain characters for free strings and list tokens (no & # + %); ten options (error lists, '
                        'licence URLs, DRM selection, PlayReady version, availabilityStartTime) are covered by the differential round trip only']
    codec_suite(ctx)
    subset_suite(ctx)
    http_suite(ctx)


def replay(ctx, payload):
    from dashlive.server.options.repository import OptionsRepository as R
    from dashlive.utils.objects import dict_to_cgi_params
    defaults = R.get_default_options()
    bad = 0
    for v in payload.get('violations', []):
        inp = v['input']
        if 'option' in inp and 'text' in inp:
            opts = R.convert_cgi_options({inp['option']: inp['text']}, defaults)
            ub = dict(USAGES).get(inp.get('use', 'manifest'))
            qs = dict_to_cgi_params(opts.generate_cgi_parameters(use=ub, exclude={'encrypted', 'mode'}))
            try:
                back = R.convert_cgi_options(request_args(qs), defaults)
                print('replay:', inp, '->', qs, '->', {k: v for k, v in back.toJSON().items() if k == inp['option']} or 'parsed')
            except Exception as e:  # noqa
                print('replay:', inp, '->', qs, '-> rejected:', type(e).__name__)
            bad += 1
        else:
            print('replay: input', inp)
            bad += 1
    return 1 if bad else 0
