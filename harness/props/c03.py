"""C03 - rewritten media segments keep their payload and point at it correctly.
Theorems: coq/Props/C03.v.  Correspondence (HTTP): served media segments of the real app for
clear / encrypted fixture representations x option vectors, against Model/FragModel.v (box order,
box sizes, decode time, data offset, senc entry position).  Oracle (independent walker): box sizes
nest, mdat payload identical to the stored one, base + trun.data_offset addresses the first payload
byte, sample sizes sum to the payload, saio addresses the first senc entry, senc and trun agree."""
import datetime

from .. import common, boxwalk, seghttp, segcore as sc

RULE = ('representations bbb_v7, bbb_a1, bbb_t1 (clear), bbb_v7_enc, bbb_a1_enc (encrypted, 8-byte IV) x mode {vod, live at clocks '
        'giving decode times below and above 2^32} x addressing {$Number$, $Time$} x drm {playready, clearkey, all, with cenc/pro/moov '
        'locations} x playready version / piff x events {off, ping, scte35, both, several per segment} x bugs {none, saio}. '
        'Non-trivial: a 200 response with a rewritten moof; distinct by URL + clock')

T0 = datetime.datetime(2024, 1, 1, tzinfo=datetime.timezone.utc)
TOP = {b'styp': 0, b'sidx': 1, b'emsg': 2, b'moof': 3, b'mdat': 4}
TAG = {b'tfhd': 0, b'tfdt': 1, b'trun': 2, b'saiz': 3, b'saio': 4, b'senc': 5}


def layout(root):
    top = [[TOP.get(b.type, 5), b.size] for b in root.children]
    traf = root.find('moof/traf')
    kids = []
    for k in traf.children:
        if k.type == b'uuid' and k.usertype == boxwalk.PIFF_UUID:
            kids.append([6, k.size])
        else:
            kids.append([TAG.get(k.type, 7), k.size])
    return top, kids


def stored_segment(env, name, mod):
    with env.app.app_context():
        mf = env.models.MediaFile.get(name=name)
        rep = mf.representation
        seg = rep.segments[mod]
        prefix = sum(s.duration for s in rep.segments[1:mod])
        data = open('/repo/tests/fixtures/bbb/%s.mp4' % name, 'rb').read()[seg.pos:seg.pos + seg.size]
    return data, prefix


def oracle(ctx, url, inp, out_root, src_root, saio_bug):
    """the property on the response bytes; returns False on violation"""
    ok = True
    moof, traf = out_root.find('moof'), out_root.find('moof/traf')
    mdats = [b for b in out_root.children if b.type == b'mdat']
    src_mdats = [b for b in src_root.children if b.type == b'mdat']
    if not mdats or [m.payload for m in mdats] != [m.payload for m in src_mdats]:
        ctx.violation('%s: the mdat payload differs from the stored segment' % url, inp)
        return False
    if any(b.type == b'sidx' for b in out_root.children):
        ctx.violation('%s: the response still carries a sidx box' % url, inp)
        ok = False
    th = boxwalk.tfhd_fields(traf)
    tr = boxwalk.trun_fields(traf)
    base = th['base_data_offset'] if th['base_data_offset'] is not None else moof.start
    first = base + (tr['data_offset'] or 0)
    if first != mdats[0].payload_start:
        ctx.violation('%s: base %d + trun.data_offset %r = %d, the mdat payload starts at %d'
                      % (url, base, tr['data_offset'], first, mdats[0].payload_start), inp)
        ok = False
    sizes = boxwalk.sample_sizes(traf)
    if sum(sizes) != len(mdats[0].payload):
        ctx.violation('%s: sample sizes sum to %d, the payload has %d bytes' % (url, sum(sizes), len(mdats[0].payload)), inp)
        ok = False
    if tr['trailing'] != 0:
        ctx.violation('%s: trun has %d trailing bytes' % (url, tr['trailing']), inp)
        ok = False
    se = boxwalk.senc_info(traf)
    if se is not None:
        if se['count'] != tr['count']:
            ctx.violation('%s: senc lists %d samples, trun %d' % (url, se['count'], tr['count']), inp)
            ok = False
        so = boxwalk.saio_offsets(traf)
        if so is not None and len(so) == 1 and base + so[0] != se['first_entry_pos']:
            if not saio_bug:
                ctx.violation('%s: base %d + saio offset %d = %d, the first senc entry is at %d'
                              % (url, base, so[0], base + so[0], se['first_entry_pos']), inp)
                ok = False
    emsg_after = False
    seen_moof = False
    for b in out_root.children:
        if b.type == b'moof':
            seen_moof = True
        elif b.type == b'emsg' and seen_moof:
            emsg_after = True
    if emsg_after:
        ctx.violation('%s: an emsg box follows the moof box' % url, inp)
        ok = False
    return ok


def run(ctx):
    import logging
    common.proof_step(ctx)
    ctx.trusted += ['harness/shims used to run the real Flask app; clock patched from outside',
                    'box contents (emsg payloads, PIFF copy, pssh) are not modelled: only order, sizes and offsets']
    ctx.assumptions += ['the stored segment is moof + mdat (+ styp/sidx of the next segment), trun addresses the first payload byte']
    from ..appenv import AppEnv, Clock
    env = AppEnv(ctx.workdir, streams=('bbb',))
    logging.disable(logging.CRITICAL)
    c = env.client()
    rng = ctx.rng
    names = ['bbb_v7', 'bbb_v7_enc', 'bbb_a1_enc', 'bbb_a1', 'bbb_t1']
    reps = {n: seghttp.rep_of(env, n) for n in names}
    reqs, meta = [], []
    ntr = 150 if ctx.quick() else 1500
    for trial in range(ntr):
        name = names[trial % len(names)]
        rep, ctype = reps[name]
        ext = seghttp.EXT[ctype]
        enc = name.endswith('_enc')
        mode = rng.choice(['vod', 'live', 'live'])
        q = []
        piff = False
        saio_bug = False
        if enc:
            sel = rng.choice(['playready', 'clearkey', 'all', 'playready-cenc', 'playready-pro-moov', 'playready,clearkey-moov', 'marlin'])
            q.append('drm=' + sel)
            if 'playready' in sel or sel == 'all':
                ver = rng.choice([None, '1.0', '2.0', '3.0', '4.0'])
                pf = rng.choice([None, '0', '1'])
                if ver:
                    q.append('playready__version=' + ver)
                if pf:
                    q.append('playready__piff=' + pf)
                piff = (ver == '1.0') or (pf != '0')          # PlayReady.update_traf_if_required: version 1.0 or piff (default on)
            if rng.random() < 0.3:
                q.append('bugs=saio')
                saio_bug = True
        events = []
        if ctype == 'video' and rng.random() < 0.75:
            # one or two in-band event streams, in both orders, with schedules from several events per segment to one event
            # every other segment (so that some segments carry events of one stream only)
            ev = rng.choice(['ping', 'scte35', 'ping,scte35', 'scte35,ping', 'ping,scte35'])
            q.append('events=' + ev)
            for e in ev.split(','):
                if rng.random() < 0.7:
                    q.append('%s__interval=%d' % (e, rng.choice([100, 150, 1000, 3000, 5000, 7000, 9000])))
        n = len(rep['durs'])
        if mode == 'vod':
            k = rng.randint(rep['start_number'], rep['start_number'] + n - 1)
            mod = k - rep['start_number'] + 1
            origin = 0
            url = '/dash/vod/bbb/%s/%d.%s' % (name, k, ext)
            now = T0 + datetime.timedelta(seconds=100)
        else:
            # live: pick a clock, ask the real index functions which segment is current
            secs = rng.choice([100, 3600, 86400 * 30, 86400 * 300, 86400 * 3000])
            us = secs * 10**6 + rng.randint(0, 10**6)
            tm = {'elapsed': us, 'depth': 60, 'leeway': 60, 'live': True}
            r_impl, timing = seghttp.build_fixture_impl(env, name, tm)
            tl = sc.impl_timeline(r_impl)
            fl = list(r_impl.calculate_first_and_last_segment_number())
            q += ['start=2020-01-01T00:00:00Z', 'depth=60', 'leeway=60']
            now = seghttp.T0 + datetime.timedelta(microseconds=us)
            if rng.random() < 0.5 and tl and tl[0] != 'CRASH':
                e = tl[len(tl) // 2]
                idx = sc.impl_media_index(r_impl, timing, e[0], None)
                url = '/dash/live/bbb/%s/time/%d.%s' % (name, e[0], ext)
            else:
                k = max(fl[0], fl[1] - 2)
                idx = sc.impl_media_index(r_impl, timing, None, k)
                url = '/dash/live/bbb/%s/%d.%s' % (name, k, ext)
            if not idx or idx[0] == 'CRASH':
                continue
            mod, origin = idx[0], idx[1]
        if q:
            url += '?' + '&'.join(q)
        with Clock(now):
            r = c.get(url)
        ctx.count('http:segment-' + mode)
        inp = {'url': url, 'now': now.isoformat()}
        if r.status_code != 200:
            ctx.dist('status:%d' % r.status_code)
            if r.status_code >= 500:
                ctx.violation('%s answers %d' % (url, r.status_code), inp)
            continue
        data, prefix = stored_segment(env, name, mod)
        try:
            out_root = boxwalk.Root(r.data)
        except ValueError as e:
            ctx.violation('%s: box sizes do not nest: %s' % (url, e), inp)
            continue
        src_root = boxwalk.Root(data)
        if not oracle(ctx, url, inp, out_root, src_root, saio_bug):
            continue
        ctx.nontriv((url, now.isoformat()))
        # ---------- model: predicted layout from the stored layout + options
        s_top, s_traf = layout(src_root)
        o_top, o_traf = layout(out_root)
        src_traf = src_root.find('moof/traf')
        tf = boxwalk.tfdt_time(src_traf)
        se = boxwalk.senc_info(src_traf)
        emsg_sizes = [b.size for b in out_root.children if b.type == b'emsg']      # contents judged by C14
        reqs.append([s_top, s_traf, [] if tf is None else [tf], prefix, 1 if (se and se['flags'] & 1) else 0, origin,
                     emsg_sizes, 1 if (piff and enc and se is not None) else 0])
        out_traf = out_root.find('moof/traf')
        tr = boxwalk.trun_fields(out_traf)
        se2 = boxwalk.senc_info(out_traf)
        moof = out_root.find('moof')
        got = [o_top, o_traf, boxwalk.tfdt_time(out_traf), tr['data_offset'],
               (se2['first_entry_pos'] - moof.start) if se2 else None,
               [b for b in out_root.children if b.type == b'mdat'][0].payload_start]
        meta.append((inp, got))
    res = common.run_model_parallel(3, reqs)
    ok = True
    for (inp, got), m in zip(meta, res):
        ctx.count('corr:layout')
        want = [m[0], m[1], m[2], m[3], m[4] if got[4] is not None else None, m[5]]
        if got != want:
            ok = False
            ctx.disagree('layout', inp, want, got)
    ctx.oblige('correspondence:HTTP(media segments)-vs-FragModel', ok)
    env.close()


def replay(ctx, payload):
    for v in payload.get('violations', []):
        print('replay:', v['what'])
    print('re-run ./check C03 with the same seed to reproduce (inputs are URLs on the fixture stream at a patched clock)')
    return 1 if payload.get('violations') else 0
