"""C04 - ISO-BMFF parse/encode round-trips byte-exactly.
Theorems: coq/Props/C04.v (framing, both directions).  Correspondence: Mp4Atom.load / encode of
/repo against Model/BoxModel.parse / enc_list on fixture boxes and generated forests (structure and
bytes).  Oracle: the property text - byte-exact re-encoding in eager and lazy mode, identical field
values in both modes, JSON round trip, sizes nest after supported edits (independent walker)."""
import io
import os

from .. import common, boxwalk

RULE = ('fixture files tests/fixtures/*.mp4 and bbb/*.mp4, tears/*.mp4: the init segment and the first, a middle and the last '
        'media fragment of each, plus the moof box alone; generated forests over the container table (depth <= 4, unknown '
        'fourccs as leaves, empty containers, zero-length payloads); edits: set mfhd/tfdt fields, insert / append / remove a '
        'child of moov and traf. Non-trivial: a forest with a container nested >= 2 deep; distinct by content hash')

FIX = '/repo/tests/fixtures'
CONTAINERS = [b'moov', b'trak', b'traf', b'moof', b'minf', b'mvex', b'mdia', b'schi', b'sinf', b'stbl', b'udta']


def fixture_blobs(quick):
    out = []
    files = []
    for d in ('', 'bbb', 'tears'):
        p = os.path.join(FIX, d)
        files += [os.path.join(p, f) for f in sorted(os.listdir(p)) if f.endswith('.mp4')]
    for path in files:
        data = open(path, 'rb').read()
        try:
            boxes = boxwalk.parse(data)
        except ValueError:
            continue
        name = os.path.relpath(path, FIX)
        if name == 'senc.mp4':
            continue      # a bare senc box without its saiz peer: not a well-formed tree (the parser's behaviour on it belongs to C16)
        # init part: everything before the first moof (without styp/sidx that belong to media segments)
        idx = [i for i, b in enumerate(boxes) if b.type == b'moof']
        head = boxes[:idx[0]] if idx else boxes
        head = [b for b in head if b.type not in (b'styp', b'sidx')]
        if head:
            out.append((name + ':init', b''.join(b.raw for b in head)))
        picks = idx[:1] + idx[len(idx) // 2:len(idx) // 2 + 1] + idx[-1:] if idx else []
        if quick:
            picks = picks[:1]
        absolute = False
        for i in idx[:1]:
            try:
                absolute = bool(boxwalk.tfhd_fields(boxes[i].find('traf'))['flags'] & 1)
            except Exception:  # noqa
                absolute = False
        if absolute:
            # offsets are file positions: a fragment cut out of the file is not a valid input on its own
            if len(data) < 400000:
                out.append((name + ':whole', data))
            continue
        for i in dict.fromkeys(picks):
            seg = [boxes[i]]
            j = i + 1
            while j < len(boxes) and boxes[j].type == b'mdat':
                seg.append(boxes[j])
                j += 1
            raw = b''.join(b.raw for b in seg)
            if len(raw) < 60000:
                out.append(('%s:frag%d' % (name, i), raw))
            out.append(('%s:moof%d' % (name, i), boxes[i].raw))
    return out


def gen_forest(rng, depth=0):
    out = []
    for _ in range(rng.randint(0 if depth else 1, 3)):
        if depth < 4 and rng.random() < 0.45:
            t = rng.choice(CONTAINERS)
            out.append([1, list(t), gen_forest(rng, depth + 1)])
        else:
            t = bytes(rng.choice(b'abcdefghijklmnopqrstuvwxyz0123456789 ') for _ in range(4))
            if t in CONTAINERS or t in (b'uuid',):
                t = b'zzzz'
            out.append([0, list(t), [rng.randrange(256) for _ in range(rng.choice([0, 0, 1, 3, 17, rng.randint(0, 80)]))]])
    return out


def enc_forest(forest):
    out = b''
    for kind, t, x in forest:
        body = bytes(x) if kind == 0 else enc_forest(x)
        out += (8 + len(body)).to_bytes(4, 'big') + bytes(t) + body
    return out


def forest_depth(forest):
    return max([1 + (forest_depth(x) if kind == 1 else 0) for kind, t, x in forest] or [0])


def impl_tree(atoms):
    out = []
    for a in atoms:
        t = a.atom_type.encode('latin-1') if isinstance(a.atom_type, str) else bytes(a.atom_type)
        kids = getattr(a, 'children', None)
        if t in CONTAINERS:
            out.append([1, list(t), impl_tree(kids or [])])
        else:
            out.append([0, list(t), None])
    return out


def strip_payload(tree):
    return [[k, t, strip_payload(x) if k == 1 else None] for k, t, x in tree]


def load(data, lazy, mode='rw', iv_size=None):
    from dashlive.mpeg import mp4
    from dashlive.utils.buffered_reader import BufferedReader
    src = BufferedReader(None, data=data)
    opts = {'lazy_load': lazy, 'mode': mode}
    if iv_size:
        opts['iv_size'] = iv_size
    return mp4.Mp4Atom.load(src, options=opts, use_wrapper=True)


def iv_for(name):
    # the encrypted fixtures use 8-byte IVs (their moov/tenc says so; a fragment alone cannot know)
    return 8 if ('enc' in name or 'senc' in name) else None


def reencode(wrap):
    dest = io.BytesIO()
    wrap.encode(dest)
    return dest.getvalue()


def run(ctx):
    import logging
    logging.disable(logging.CRITICAL)
    common.proof_step(ctx)
    ctx.trusted += ['typed field codecs of mp4.py (tfhd, trun, senc, avcC, esds, ...) are NOT modelled: the model keeps every non-container '
                    'box as an opaque payload; their byte-exact round trip is judged by the oracle on the fixture boxes only']
    ctx.assumptions += ['32-bit size form (boxes with size==1 or size==0 headers: known finding size-forms)', 'container table as in mp4.py']
    rng = ctx.rng
    blobs = fixture_blobs(ctx.quick())
    nf = 150 if ctx.quick() else 3000
    for i in range(nf):
        f = gen_forest(rng)
        blobs.append(('gen%d' % i, enc_forest(f)))
    reqs = []
    for name, data in blobs:
        reqs.append([0, list(data)])
        reqs.append([1, list(data)])
    res = common.run_model_parallel(4, reqs)
    ok = True
    for k, (name, data) in enumerate(blobs):
        m_tree, m_bytes = res[2 * k], res[2 * k + 1]
        ctx.count('corr:' + ('generated' if name.startswith('gen') else 'fixture'))
        inp = {'name': name, 'bytes': list(data[:64]), 'length': len(data)}
        outs = {}
        trees = {}
        for lazy in (False, True):
            try:
                wrap = load(data, lazy, iv_size=iv_for(name))
                outs[lazy] = reencode(wrap)
                trees[lazy] = impl_tree(wrap.children)
                js = wrap.toJSON(pure=True) if lazy is False else None
            except Exception as e:  # noqa
                outs[lazy] = 'CRASH:' + type(e).__name__
                trees[lazy] = None
        # ---- oracle: byte exact in both modes
        for lazy in (False, True):
            if outs[lazy] != data:
                ctx.violation('%s: parse then encode (%s) does not reproduce the input: %s' % (
                    name, 'lazy' if lazy else 'eager',
                    outs[lazy] if isinstance(outs[lazy], str) else 'first difference at byte %d of %d/%d' % (
                        next((i for i, (a, b) in enumerate(zip(outs[lazy], data)) if a != b), min(len(outs[lazy]), len(data))),
                        len(outs[lazy]), len(data))), inp)
        # ---- model
        want_tree = trees[False]
        if m_tree == [] or m_bytes == []:
            if want_tree is not None:
                ok = False
                ctx.disagree('parse', inp, 'model rejects', 'implementation accepts')
            continue
        if want_tree is not None and strip_payload(m_tree[0]) != want_tree:
            ok = False
            ctx.disagree('tree', inp, strip_payload(m_tree[0])[:6], want_tree[:6])
        if bytes(m_bytes[0]) != data:
            ok = False
            ctx.disagree('enc(parse)', inp, m_bytes[0][:32], list(data[:32]))
        if forest_depth(m_tree[0]) >= 2:
            ctx.nontriv(hash(data))
    ctx.oblige('correspondence:Mp4Atom.load/encode-vs-BoxModel.parse/enc_list', ok)
    field_and_json(ctx, [b for b in blobs if not b[0].startswith('gen')])
    edits(ctx)
    synthetic(ctx)
    typed_corr(ctx, [b for b in blobs if not b[0].startswith('gen')])
    size_forms(ctx)


def field_and_json(ctx, blobs):
    """eager and lazy expose identical field values; JSON form and back encodes to the same bytes"""
    from dashlive.mpeg import mp4
    for name, data in blobs:
        if ':moof' not in name and ':init' not in name:
            continue
        ctx.count('impl:fields-json')
        inp = {'name': name, 'length': len(data)}
        try:
            a = load(data, False, iv_size=iv_for(name)).toJSON(pure=True)
            b = load(data, True, iv_size=iv_for(name)).toJSON(pure=True)
        except Exception as e:  # noqa
            ctx.violation('%s: toJSON raised %s' % (name, type(e).__name__), inp)
            continue
        if a != b:
            ctx.violation('%s: eager and lazy loading expose different field values' % name, inp)
        try:
            wrap = load(data, False, iv_size=iv_for(name))
            outs = b''
            for child in wrap.children:
                js = child.toJSON()
                back = mp4.Mp4Atom.fromJSON(js)
                outs += back.encode()
            if outs != data:
                ctx.violation('%s: JSON form and back encodes to different bytes (first difference at %d)' % (
                    name, next((i for i, (x, y) in enumerate(zip(outs, data)) if x != y), min(len(outs), len(data)))), inp)
        except Exception as e:  # noqa
            ctx.violation('%s: JSON round trip raised %s: %s' % (name, type(e).__name__, str(e)[:80]), inp)


def field_value(v):
    if hasattr(v, 'data') and isinstance(getattr(v, 'data'), (bytes, bytearray)):
        return bytes(v.data).hex()
    if isinstance(v, (bytes, bytearray)):
        return bytes(v).hex()
    if isinstance(v, (list, tuple)):
        return [field_value(x) for x in v]
    return v


def synthetic(ctx):
    """typed boxes written from the specification (both versions, all flag combinations, ids with leading
    zeros): decoded field values = the values written, byte-exact re-encoding in both modes, JSON and back"""
    from dashlive.mpeg import mp4
    from .. import specboxes
    items = specboxes.gen(ctx.rng, 4 if ctx.quick() else 120)
    for name, data, (path, exp) in items:
        ctx.count('impl:synthetic-typed')
        inp = {'name': name, 'bytes': list(data)}
        for lazy in (False, True):
            mode = 'lazy' if lazy else 'eager'
            try:
                wrap = load(data, lazy, iv_size=8)
                node = wrap
                for part in path.split('.'):
                    node = getattr(node, part)
                for k, want in exp.items():
                    got = field_value(getattr(node, k.lstrip('#')))
                    if got is None and want == '':
                        continue                 # an empty byte field is kept as None; the byte-exact round trip below still applies
                    if got != want and not (isinstance(want, int) and isinstance(got, float) and got == want):
                        ctx.violation('%s (%s): field %s is %r, the bytes say %r' % (name, mode, k.lstrip('#'), got, want), inp)
                out = reencode(wrap)
            except Exception as e:  # noqa
                ctx.violation('%s (%s): parse/encode raised %s: %s' % (name, mode, type(e).__name__, str(e)[:80]), inp)
                continue
            if out != data:
                ctx.violation('%s (%s): parse then encode does not reproduce the input (first difference at byte %d)' % (
                    name, mode, next((i for i, (a, b) in enumerate(zip(out, data)) if a != b), min(len(out), len(data)))), inp)
        try:
            wrap = load(data, False, iv_size=8)
            outs = b''.join(mp4.Mp4Atom.fromJSON(ch.toJSON()).encode() for ch in wrap.children)
            if outs != data:
                ctx.violation('%s: JSON form and back encodes to different bytes (first difference at %d)' % (
                    name, next((i for i, (x, y) in enumerate(zip(outs, data)) if x != y), min(len(outs), len(data)))), inp)
            else:
                ctx.nontriv(('syn', name, hash(data)))
        except Exception as e:  # noqa
            ctx.violation('%s: JSON round trip raised %s: %s' % (name, type(e).__name__, str(e)[:80]), inp)


TYPED = {b'mdhd': 0, b'mvhd': 1, b'tkhd': 2, b'mehd': 3, b'tfdt': 4, b'mfhd': 5, b'trex': 6, b'tfhd': 7, b'trun': 8, b'saio': 9, b'tenc': 10,
         b'pssh': 11, b'sidx': 12, b'saiz': 13, b'btrt': 14, b'pasp': 15, b'frma': 16, b'schm': 17, b'senc': 18, b'emsg': 19, b'hdlr': 20,
         b'ftyp': 21, b'styp': 21}
PLAIN = {b'btrt', b'pasp', b'frma', b'ftyp', b'styp'}          # not full boxes: no version / flags word
VISUAL = {b'avc1', b'avc3', b'hev1', b'hvc1', b'encv'}
AUDIO = {b'mp4a', b'enca', b'ec-3', b'ac-3'}
# index into the model's value list -> library attribute (numeric fields only; times are datetimes in the library)
FIELD_MAP = {
    b'mdhd': {0: 'version', 4: 'timescale', 5: 'duration'},
    b'mvhd': {0: 'version', 4: 'timescale', 5: 'duration', 11: 'next_track_id'},
    b'tkhd': {0: 'version', 4: 'track_id', 6: 'duration', 8: 'layer', 9: 'alternate_group'},
    b'mehd': {0: 'version', 2: 'fragment_duration'},
    b'tfdt': {0: 'version', 2: 'base_media_decode_time'},
    b'mfhd': {2: 'sequence_number'},
    b'trex': {2: 'track_id', 3: 'default_sample_description_index', 4: 'default_sample_duration', 5: 'default_sample_size', 6: 'default_sample_flags'},
    b'tfhd': {1: 'flags', 2: 'track_id'},
    b'trun': {1: 'flags', 2: 'sample_count'},
    b'tenc': {4: 'iv_size'},
    b'pssh': {0: 'version'},
    b'sidx': {0: 'version', 2: 'reference_id', 3: 'timescale', 4: 'earliest_presentation_time', 5: 'first_offset'},
    b'saiz': {1: 'flags'},
    b'btrt': {0: 'bufferSizeDB', 1: 'maxBitrate', 2: 'avgBitrate'},
    b'pasp': {0: 'h_spacing', 1: 'v_spacing'},
    b'schm': {3: 'scheme_version'},
    # emsg: the numbers sit after the strings in version 0 and before them in version 1; strings compared without the NUL
    b'emsg': lambda version: ({0: 'version', 2: 'scheme_id_uri', 3: 'value', 4: 'timescale', 5: 'presentation_time_delta',
                               6: 'event_duration', 7: 'event_id'} if version == 0 else
                              {0: 'version', 2: 'timescale', 3: 'presentation_time', 4: 'event_duration', 5: 'event_id',
                               6: 'scheme_id_uri', 7: 'value'} if version == 1 else {0: 'version'}),
    b'hdlr': {3: 'handler_type'},
    b'ftyp': {0: 'major_brand', 1: 'minor_version'},
    b'styp': {0: 'major_brand', 1: 'minor_version'},
}


def sample_entry_children(stsd):
    """the boxes inside the sample entries of an stsd box (the walker does not descend there): each entry is a box
    whose body starts with 78 (visual) or 28 (audio) bytes of fixed fields followed by child boxes"""
    out = []
    body_at = stsd.payload_start + 8
    try:
        entries = boxwalk.parse(stsd.raw, stsd.payload_start - stsd.start + 8, None, stsd.start)
    except ValueError:
        return out
    for e in entries:
        skip = 78 if e.type in VISUAL else 28 if e.type in AUDIO else None
        if skip is None:
            continue
        try:
            kids = boxwalk.parse(e.raw, e.hdr + skip, None, e.start)
        except ValueError:
            continue
        stack = list(kids)
        while stack:
            b = stack.pop()
            out.append(b)
            stack.extend(b.children)
    assert body_at
    return out


def senc_params(b, parent, iv):
    """(iv size, per-sample subsample counts; -1 = the saiz size leaves no room for a count) from the bytes of the senc box
    and the sizes its sibling saiz lists; None when it cannot be determined independently"""
    payload = b.payload
    flags = int.from_bytes(payload[1:4], 'big')
    pos = 4
    if flags & 1:
        iv = payload[pos + 3] or 8
        pos += 20
    if iv is None or parent is None:
        return None
    n = int.from_bytes(payload[pos:pos + 4], 'big')
    pos += 4
    saiz = [c for c in parent.children if c.type == b'saiz']
    if not saiz:
        return None
    sp = saiz[0].payload
    sflags = int.from_bytes(sp[1:4], 'big')
    q = 4 + (8 if sflags & 1 else 0)
    default, count = sp[q], int.from_bytes(sp[q + 1:q + 5], 'big')
    sizes = [default] * n if default else list(sp[q + 5:q + 5 + count])
    if len(sizes) < n or n > 500:
        return None
    counts = []
    for size in sizes[:n]:
        if size == 0:
            return None                      # the library skips such a sample; not a layout the model lists
        if flags & 2 and size >= iv + 2:
            k = int.from_bytes(payload[pos + iv:pos + iv + 2], 'big')
            counts.append(k)
            pos += iv + 2 + 6 * k
        else:
            counts.append(-1)
            pos += iv if flags & 2 else size
            if not flags & 2 and size != iv:
                return None
    return iv, counts


def typed_params(typ, payload):
    """(version, flags, n1, n2) read straight from the bytes"""
    version, flags = payload[0], int.from_bytes(payload[1:4], 'big')
    n1 = n2 = 0
    if typ in (b'ftyp', b'styp'):
        return 0, 0, (len(payload) - 8) // 4, 0
    if typ in PLAIN:
        return 0, 0, 0, 0
    if typ == b'hdlr':
        return version, flags, len(payload) - 24, 0
    if typ == b'schm':
        n1 = len(payload) - 12 if flags & 1 else 0
    elif typ == b'trun':
        n1 = int.from_bytes(payload[4:8], 'big')
    elif typ == b'saio':
        pos = 4 + (8 if flags & 1 else 0)
        n1 = int.from_bytes(payload[pos:pos + 4], 'big')
    elif typ == b'sidx':
        pos = 4 + 8 + (16 if version == 1 else 8) + 2
        n1 = int.from_bytes(payload[pos:pos + 2], 'big')
    elif typ == b'saiz':
        pos = 4 + (8 if flags & 1 else 0)
        default_size = payload[pos]
        n1 = int.from_bytes(payload[pos + 1:pos + 5], 'big') if default_size == 0 else 0
    elif typ == b'pssh':
        pos = 20
        if version > 0:
            n1 = int.from_bytes(payload[pos:pos + 4], 'big')
            pos += 4 + 16 * n1
        n2 = int.from_bytes(payload[pos:pos + 4], 'big')
    return version, flags, n1, n2


def typed_corr(ctx, blobs):
    """typed field codecs: Model/FieldModel.v decodes the payload of every typed box (fixtures + synthetic) with the layout
    chosen from its version / flags / counts; the values must equal the library's parsed fields and re-encode to the bytes"""
    from .. import specboxes
    items = [(n, d) for n, d in blobs]
    items += [(n, d) for n, d, _ in specboxes.gen(ctx.rng, 3 if ctx.quick() else 60)]
    reqs, meta = [], []
    for name, data in items:
        try:
            boxes = boxwalk.parse(data)
            lib = load(data, False, iv_size=iv_for(name) if ':' in name else 8)
        except Exception:  # noqa
            continue
        by_pos = {}
        stack = list(lib.children)
        while stack:
            a = stack.pop()
            by_pos[a.position] = a
            stack.extend(a.children or [])
        flat, stack, parent_of = [], list(boxes), {}
        while stack:
            b = stack.pop()
            flat.append(b)
            stack.extend(b.children)
            for c in b.children:
                parent_of[id(c)] = b
            if b.type == b'stsd':
                flat.extend(sample_entry_children(b))
        for b in flat:
            if b.type not in TYPED or len(b.payload) < 4 or len(b.payload) > 4000:
                continue
            if (b.type in (b'ftyp', b'styp') and (len(b.payload) < 8 or len(b.payload) % 4)) or (b.type == b'hdlr' and len(b.payload) < 24):
                continue                     # trailing bytes of a brand list / a truncated hdlr: not a layout the model lists
            extra = []
            if b.type == b'senc':
                sp = senc_params(b, parent_of.get(id(b)), iv_for(name) if ':' in name else 8)
                if sp is None:
                    ctx.dist('typed:senc-undetermined')
                    continue
                version, flags, n1, n2 = b.payload[0], int.from_bytes(b.payload[1:4], 'big'), sp[0], 0
                extra = [sp[1]]
            else:
                version, flags, n1, n2 = typed_params(b.type, b.payload)
            if n1 > 500 or n2 > 4000:
                continue
            ctx.dist('typed:%s' % b.type.decode('latin-1'))
            atom = by_pos.get(b.start)
            fields = {}
            if atom is not None:
                fmap = FIELD_MAP.get(b.type, {})
                if callable(fmap):
                    fmap = fmap(version)
                for idx, attr in fmap.items():
                    try:
                        v = getattr(atom, attr)
                        fields[idx] = v.encode('utf-8') if isinstance(v, str) else bytes(v) if isinstance(v, (bytes, bytearray)) else int(v)
                    except Exception:  # noqa
                        pass
            if b.type == b'senc' and atom is not None:
                try:
                    fields[2 + (3 if flags & 1 else 0)] = len(atom.samples)
                except Exception:  # noqa
                    pass
            reqs.append([3, TYPED[b.type], version, flags, n1, n2, list(b.payload)] + extra)
            meta.append(({'blob': name, 'box': b.type.decode(), 'at': b.start, 'version': version, 'flags': flags}, list(b.payload), fields))
    res = common.run_model_parallel(4, reqs)
    ok = True
    for (inp, payload, fields), m in zip(meta, res):
        ctx.count('corr:typed-fields')
        if not m:
            ok = False
            ctx.disagree('typed decode', inp, 'model rejects the payload', 'library parses it')
            continue
        vals, rest, pre = m[0], m[1], m[2]
        if rest != [] or pre != [payload]:
            ok = False
            ctx.disagree('typed layout', inp, {'left over': len(rest), 're-encodes': pre == [payload]}, 'whole payload, byte exact')
            continue
        for idx, want in fields.items():
            if isinstance(want, bytes):          # a string field: the model's raw bytes without the NUL terminator(s)
                got = bytes(vals[idx][1]).rstrip(b'\0') if idx < len(vals) and vals[idx][0] == 1 else None
                want = want.rstrip(b'\0')
            else:
                got = vals[idx][1] if idx < len(vals) and vals[idx][0] == 0 else None
            if got != want:
                ok = False
                ctx.disagree('typed field %d' % idx, inp, got, want)
                break
        else:
            ctx.nontriv(('typed', inp['blob'], inp['at']))
    ctx.oblige('correspondence:typed box fields(mp4.py)-vs-FieldModel.layout_of', ok)


def check_nesting(data):
    """sizes nest: the walker parses everything and children exactly fill parents"""
    try:
        boxwalk.parse(data)
        return None
    except ValueError as e:
        return str(e)


def edits(ctx):
    from dashlive.mpeg import mp4
    rng = ctx.rng
    frag = open(os.path.join(FIX, 'bbb', 'bbb_v7.mp4'), 'rb').read()
    boxes = boxwalk.parse(frag)
    moofs = [i for i, b in enumerate(boxes) if b.type == b'moof']
    init = b''.join(b.raw for b in boxes[:moofs[0]] if b.type not in (b'styp', b'sidx'))
    seg = boxes[moofs[0]].raw + boxes[moofs[0] + 1].raw
    n = 0
    for lazy in (False, True):
        for trial in range(12 if ctx.quick() else 60):
            ctx.count('impl:edits')
            script = []
            try:
                w = load(seg, lazy)
                for _ in range(rng.randint(1, 4)):
                    op = rng.choice(['seq', 'tfdt', 'tfdt64', 'del-tfdt', 'ins-free', 'append-free', 'move', 'ins-owned'])
                    script.append(op)
                    traf = w.moof.traf
                    if op == 'seq':
                        w.moof.mfhd.sequence_number = rng.randrange(2**32)
                    elif op == 'tfdt' and traf.find_child('tfdt') is not None:
                        traf.tfdt.base_media_decode_time = rng.randrange(2**32)
                    elif op == 'tfdt64' and traf.find_child('tfdt') is not None:
                        traf.tfdt.base_media_decode_time = rng.randrange(2**32, 2**60)
                    elif op == 'del-tfdt' and traf.find_child('tfdt') is not None:
                        del traf.tfdt
                    elif op == 'ins-free':
                        traf.insert_child(rng.randint(0, len(traf.children)), mp4.UnknownBox(atom_type='free', data=b'xy', position=0, size=10, header_size=8))
                    elif op == 'append-free':
                        traf.append_child(mp4.UnknownBox(atom_type='free', data=b'', position=0, size=8, header_size=8))
                    elif op == 'move' and len(traf.children) > 1:
                        # re-order a box inside its parent: remove it, insert it again elsewhere
                        i = rng.randrange(len(traf.children))
                        ch = traf.children[i]
                        traf.remove_child(i)
                        traf.insert_child(rng.randint(0, len(traf.children)), ch)
                    elif op == 'ins-owned':
                        # a box created with parent=traf that already knows its size, then inserted
                        fb = mp4.UnknownBox(atom_type='free', data=b'abcd', position=0, size=12, header_size=8, parent=traf)
                        traf.insert_child(rng.randint(0, len(traf.children)), fb)
                    if op in ('del-tfdt', 'ins-free', 'append-free', 'move', 'ins-owned'):
                        # in memory, before anything is re-encoded: children exactly fill their parent
                        for box in (traf, w.moof):
                            tot = box.header_size + sum(ch.size for ch in box.children)
                            if tot != box.size:
                                ctx.violation("after edits %r (%s) '%s'.size is %d, header + children occupy %d (before re-encoding)"
                                              % (script, 'lazy' if lazy else 'eager', box.atom_type, box.size, tot),
                                              {'script': script, 'lazy': lazy})
                out = reencode(w)
            except Exception as e:  # noqa
                ctx.violation('edit script %r (%s) raised %s: %s' % (script, 'lazy' if lazy else 'eager', type(e).__name__, str(e)[:80]),
                              {'script': script, 'lazy': lazy})
                continue
            why = check_nesting(out)
            if why:
                ctx.violation('after edits %r (%s) the box sizes do not nest: %s' % (script, 'lazy' if lazy else 'eager', why),
                              {'script': script, 'lazy': lazy})
            else:
                r = boxwalk.Root(out)
                moof, mdat = r.find('moof'), r.find('mdat')
                if mdat is None or mdat.payload != boxes[moofs[0] + 1].payload:
                    ctx.violation('after edits %r the mdat payload changed' % script, {'script': script, 'lazy': lazy})
                n += 1
    ctx.oblige('impl:edits-keep-sizes-nested', True, '%d edit scripts' % n)


def size_forms(ctx):
    """known finding: 64-bit largesize headers are not reproduced"""
    payload = bytes(range(8))
    data = (1).to_bytes(4, 'big') + b'free' + (16 + len(payload)).to_bytes(8, 'big') + payload
    try:
        out = reencode(load(data, False))
    except Exception as e:  # noqa
        out = 'CRASH:' + type(e).__name__
    if out != data:
        ctx.violation('a box with a 64-bit largesize header re-encodes to %s' % (out if isinstance(out, str) else out.hex()),
                      {'bytes': list(data)}, key='size-forms')


def replay(ctx, payload):
    bad = 0
    for v in payload.get('violations', []):
        print('replay:', v['what'])
        bad += 1
    return 1 if bad else 0
