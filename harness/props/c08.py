"""C08 - live timing parameters are coherent for every clock and option.

Theorems: coq/Props/C08.v.  Correspondence: dashlive.mpeg.dash.timing.DashTiming (options
built through OptionsRepository.convert_cgi_options) vs Model/TimingModel.live_params on the
same (now, start, depth, mup, leeway, reference).  Search oracle: the property text itself.
"""
import datetime
import json
import os

from .. import common

RULE = ('clock instants concentrated on the first 61 s of days / months / years / leap days and random '
        'instants 1970..2200 with microseconds; start in {epoch,today,month,year,now, explicit whole-second '
        'ISO instant with a UTC offset, explicit fractional (known finding)}; depth in {absent,-5,0,1,30,60,3600,10^6}; '
        'mup in {absent,-1,0,1,4,7,30,86400}; reference (segment_duration,timescale) incl. sub-quarter-second '
        'segments. A case is non-trivial when a back-off branch, the depth clamp, or a quantised publishTime '
        '!= floor(now) was exercised; distinct by input tuple')

KINDS = ['epoch', 'today', 'month', 'year', 'now']
EPOCH = datetime.datetime(1970, 1, 1, tzinfo=datetime.timezone.utc)
US = datetime.timedelta(microseconds=1)


def to_us(dt):
    return (dt - EPOCH) // US


def from_us(us):
    return EPOCH + datetime.timedelta(microseconds=us)


def gen_now(rng):
    r = rng.random()
    year = rng.choice([1970, 1971, 1999, 2000, 2020, 2024, 2026, 2100, 2199]) if r < 0.7 else rng.randint(1970, 2200)
    month = rng.choice([1, 1, 2, 3, 12, rng.randint(1, 12)])
    if rng.random() < 0.15 and year % 4 == 0 and (year % 100 != 0 or year % 400 == 0):
        month, day = 2, 29
    else:
        day = rng.choice([1, 1, 2, 28, rng.randint(1, 28)])
    base = datetime.datetime(year, month, day, tzinfo=datetime.timezone.utc)
    r = rng.random()
    if r < 0.45:
        sec = rng.choice([0, 1, 58, 59, 60, 61, rng.randint(0, 61)])
    elif r < 0.6:
        sec = 86400 - rng.choice([1, 2, 60, 61])
    else:
        sec = rng.randint(0, 86399)
    us = rng.choice([0, 0, 1, 100000, 499999, 500000, 900000, 999999, rng.randint(0, 999999)])
    now = base + datetime.timedelta(seconds=sec, microseconds=us)
    if to_us(now) < 60 * 10**6:
        now += datetime.timedelta(seconds=60)
    return now


def gen_case(rng, stream):
    now = gen_now(rng)
    kind = rng.choice([0, 1, 2, 3, 4, 5, 5, 5])
    start = None
    off = None
    if stream == 'fractional':
        kind = 5
    if kind == 5:
        r = rng.random()
        if r < 0.15:
            back = 0
        elif r < 0.5:
            back = rng.randint(0, 120)
        elif r < 0.8:
            back = rng.randint(0, 86400 * 3)
        else:
            back = rng.randint(0, 86400 * 365 * 30)
        st = now.replace(microsecond=0) - datetime.timedelta(seconds=back)
        if st < EPOCH:
            st = EPOCH
        if stream == 'fractional':
            st = st - datetime.timedelta(microseconds=rng.choice([1, 500000, 999999, rng.randint(1, 999999)]))
        off = rng.choice([None, 0, 60, 90, -705, 840, -720, rng.randint(-1439, 1439)])
        start = to_us(st)
    depth = rng.choice([None, None, -5, 0, 1, 30, 60, 61, 3600, 10**6, rng.randint(1, 200)])
    mup = rng.choice([None, None, -1, 0, 1, 4, 7, 30, 86400, rng.randint(1, 100)])
    leeway = rng.choice([None, 0, 16, 60])
    seg_dur, ts = rng.choice([(960, 240), (177152, 44100), (48, 240), (1, 1000), (30, 240), (90000, 90000),
                              (10, 1), (3 * 240 // 4, 240), (rng.randint(1, 10**6), rng.choice([1, 240, 1000, 44100, 90000, 10**7]))])
    return {'now': to_us(now), 'kind': kind, 'start': start, 'off': off, 'depth': depth, 'mup': mup,
            'leeway': leeway, 'seg_dur': seg_dur, 'ts': ts, 'stream': stream}


def start_text(c):
    if c['kind'] < 5:
        return KINDS[c['kind']]
    dt = from_us(c['start'])
    if c['off'] is None:
        s = dt.strftime('%Y-%m-%dT%H:%M:%S')
        if dt.microsecond:
            s += '.%06d' % dt.microsecond
        return s + 'Z'
    tz = datetime.timezone(datetime.timedelta(minutes=c['off']))
    loc = dt.astimezone(tz)
    s = loc.strftime('%Y-%m-%dT%H:%M:%S')
    if loc.microsecond:
        s += '.%06d' % loc.microsecond
    o = abs(c['off'])
    return s + ('+' if c['off'] >= 0 else '-') + '%02d:%02d' % (o // 60, o % 60)


def run_impl(c):
    from dashlive.mpeg.dash.reference import StreamTimingReference
    from dashlive.mpeg.dash.timing import DashTiming
    from dashlive.server.options.repository import OptionsRepository
    from dashlive.utils.timezone import UTC
    ref = StreamTimingReference(media_name='x', media_duration=c['seg_dur'] * 10, num_media_segments=10,
                                segment_duration=c['seg_dur'], timescale=c['ts'])
    args = {'start': start_text(c)}
    for k in ('depth', 'mup', 'leeway'):
        if c[k] is not None:
            args[k] = str(c[k])
    try:
        defaults = OptionsRepository.get_default_options()
        options = OptionsRepository.convert_cgi_options(args, defaults)
        options.add_field('mode', 'live')
    except ValueError as e:
        return ['E400', str(e)[:60]]
    now = from_us(c['now']).astimezone(UTC())
    try:
        t = DashTiming(now, ref, options)
    except Exception as e:  # noqa
        return ['CRASH', type(e).__name__]
    us = 10**6
    return [to_us(t.availabilityStartTime), t.elapsedTime // US, t.timeShiftBufferDepth,
            t.firstAvailableTime // US, [] if t.minimumUpdatePeriod is None else [t.minimumUpdatePeriod],
            to_us(t.publishTime), t.leeway // US]


_DEF = []


def defaults():
    """option values the implementation uses when the query string names none (read from /repo)"""
    if not _DEF:
        from dashlive.server.options.repository import OptionsRepository
        _DEF.append(OptionsRepository.get_default_options())
    return _DEF[0]


def model_req(c):
    now = from_us(c['now'])
    dom = now.day
    doy = now.timetuple().tm_yday
    opt = lambda v: [] if v is None else [v]   # noqa
    d = defaults()
    depth = c['depth'] if c['depth'] is not None else d.timeShiftBufferDepth
    mup = c['mup'] if c['mup'] is not None else d.minimumUpdatePeriod
    leeway = c['leeway'] if c['leeway'] is not None else d.leeway
    return [c['now'], dom, doy, c['seg_dur'], c['ts'], c['kind'], c['start'] or 0,
            opt(depth), opt(mup), opt(leeway)]


def oracle(c, out):
    """the property, from its text, on the implementation's output. -> (why, class) or None"""
    if out[0] == 'CRASH':
        return ('DashTiming raised %s' % out[1], None)
    if out[0] == 'E400':
        return None
    ast, elapsed, tsbd, fta, mup, pub, _ = out
    now = c['now']
    frac = c['kind'] == 5 and c['start'] % 10**6 != 0
    cls = 'fractional-start' if frac else None
    if not ast <= now:
        return ('availabilityStartTime > now', cls)
    if pub % 10**6 != 0:
        return ('publishTime not on a whole second', None)
    if not (ast <= pub <= now):
        return ('publishTime %d outside [ast %d, now %d]' % (pub, ast, now), cls)
    if not (0 <= tsbd * 10**6 <= now - ast):
        return ('timeShiftBufferDepth %d outside [0, now-ast]' % tsbd, cls)
    if fta != now - ast - tsbd * 10**6 or fta < 0:
        return ('firstAvailableTime %d != now-ast-depth' % fta, cls)
    if mup:
        p = mup[0]
        if p <= 0 or (pub - ast) % (p * 10**6) != 0:
            return ('publishTime is not ast + k*p (p=%r)' % p, cls)
        if not (now - pub < (p + 1) * 10**6):
            return ('publishTime lags now by >= p+1 s', cls)
    if c['kind'] < 5 and now - ast < 60 * 10**6:
        return ('symbolic start gives a stream younger than one minute', cls)
    if c['kind'] == 4 and not (60 * 10**6 <= now - ast < 61 * 10**6):
        return ('start=now does not follow the clock at 60 s', cls)
    return None


def nontrivial(c, out):
    if out[0] in ('CRASH', 'E400'):
        return False
    ast, elapsed, tsbd, fta, mup, pub, _ = out
    floor_now = c['now'] - c['now'] % 10**6
    return pub != floor_now or (c['depth'] or 60) != tsbd or c['kind'] in (1, 2, 3)


def pair_checks(ctx, cases, outs, n_pairs):
    """monotonicity and same-day constancy on the implementation: second instant derived
    from the first (same options)"""
    rng = ctx.rng
    ok = True
    for i in range(min(n_pairs, len(cases))):
        c, o1 = cases[i], outs[i]
        if o1[0] in ('CRASH', 'E400') or c['stream'] == 'fractional':
            continue
        delta = rng.choice([1, 999, 10**5, 10**6, 7 * 10**6, 59 * 10**6, 61 * 10**6, 3600 * 10**6, 86400 * 10**6,
                            rng.randint(1, 2 * 86400 * 10**6)])
        c2 = dict(c, now=c['now'] + delta)
        o2 = run_impl(c2)
        ctx.count('impl:pairs')
        if o2[0] in ('CRASH', 'E400'):
            continue
        if o2[5] < o1[5]:
            cls = 'rollover' if (c['kind'] in (1, 2, 3, 4) and o1[0] != o2[0]) else None
            ctx.violation('publishTime decreases as now advances', {'first': c, 'second': c2}, [o1[5], o2[5]], None, key=cls)
            if cls is None:
                ok = False
        if o2[0] < o1[0]:
            ctx.violation('availabilityStartTime moves backward', {'first': c, 'second': c2}, [o1[0], o2[0]])
            ok = False
        d1, d2 = c['now'] // (86400 * 10**6), c2['now'] // (86400 * 10**6)
        if d1 == d2 and c['kind'] in (0, 1, 2, 3) and c['now'] % (86400 * 10**6) >= 60 * 10**6:
            ctx.count('impl:same-day')
            if o1[0] != o2[0]:
                ctx.violation('symbolic start resolves to two instants within one UTC day', {'first': c, 'second': c2},
                              [o1[0], o2[0]])
                ok = False
    return ok


WITNESSES = [
    # theorem C08_refuted_rollover
    ('rollover', {'now': 19000 * 86400 * 10**6 + 59900000, 'kind': 1, 'start': None, 'off': None, 'depth': None,
                  'mup': 7, 'leeway': None, 'seg_dur': 960, 'ts': 240, 'stream': 'witness'}, 200000),
    # theorem C08_refuted_fractional_start
    ('fractional-start', {'now': 103200000, 'kind': 5, 'start': 100500000, 'off': None, 'depth': None,
                          'mup': 10, 'leeway': None, 'seg_dur': 960, 'ts': 240, 'stream': 'fractional'}, None),
]


def check_witnesses(ctx):
    for key, c, delta in WITNESSES:
        o1 = run_impl(c)
        m1 = common.run_model(8, [model_req(c)])[0]
        if o1 != m1:
            ctx.disagree('witness', c, m1, o1)
        if delta:
            c2 = dict(c, now=c['now'] + delta)
            o2 = run_impl(c2)
            if o2[5] < o1[5]:
                ctx.violation('publishTime decreases as now advances (%d -> %d)' % (o1[5], o2[5]),
                              {'first': c, 'second': c2}, [o1[5], o2[5]], None, key=key)
        else:
            w = oracle(c, o1)
            if w:
                ctx.violation(w[0], c, o1, None, key=key)


def load_corpus():
    d = os.path.join(common.CORPUS, 'C08')
    out = []
    if os.path.isdir(d):
        for f in sorted(os.listdir(d)):
            if f.endswith('.json'):
                out.append(json.load(open(os.path.join(d, f))))
    return out


def run(ctx):
    common.proof_step(ctx)
    ctx.trusted += ['calendar: day-of-month / day-of-year of now are inputs of the model (Python datetime supplies them); '
                    'theorems hold for any values with 1<=dom<=31, 1<=doy<=366',
                    'float arithmetic of total_seconds()/round() modelled as exact rationals (exact below 2^33 s)']
    ctx.assumptions += ['now >= 1970-01-01T00:01:00Z', 'explicit start <= now and on a whole second (fractional starts: known finding)',
                        'monotonicity proved for instants resolving the same availabilityStartTime (roll-over: known finding)']
    n = 6000 if ctx.quick() else 200000
    cases = load_corpus()
    ncorpus = len(cases)
    streams = ['main'] * 9 + ['fractional']
    for i in range(n):
        cases.append(gen_case(ctx.rng, streams[i % len(streams)]))
    impl = [run_impl(c) for c in cases]
    model = common.run_model_parallel(8, [model_req(c) for c in cases])
    ok = True
    for idx, (c, io_, mo) in enumerate(zip(cases, impl, model)):
        suite = 'corpus' if idx < ncorpus else c['stream']
        ctx.count('corr:' + suite)
        ctx.dist('start:' + (KINDS[c['kind']] if c['kind'] < 5 else 'explicit'))
        if io_[0] in ('CRASH', 'E400'):
            ctx.dist('impl:' + io_[0])
            if io_[0] == 'E400':
                continue
        if io_ != mo:
            ok = False
            ctx.disagree(suite, c, mo, io_)
        w = oracle(c, io_)
        if w:
            ctx.violation(w[0], c, io_, None, key=w[1])
        if nontrivial(c, io_):
            ctx.nontriv((c['now'], c['kind'], c['start'], c['depth'], c['mup'], c['seg_dur'], c['ts']))
        if idx in (ncorpus, ncorpus + 3, ncorpus + 5):
            ctx.sample({'case': c, 'start_text': start_text(c), 'impl': io_})
    ctx.oblige('correspondence:DashTiming-vs-TimingModel.live_params', ok, '%d disagreements' % len(ctx.disagreements))
    pok = pair_checks(ctx, cases[ncorpus:], impl[ncorpus:], 1500 if ctx.quick() else 40000)
    ctx.oblige('impl:monotone-and-same-day', pok)
    check_witnesses(ctx)


def replay(ctx, payload):
    bad = 0
    for v in payload.get('violations', []):
        inp = v['input']
        if 'first' in inp:
            o1, o2 = run_impl(inp['first']), run_impl(inp['second'])
            print('replay pair: publish', o1[5], '->', o2[5], ' ast', o1[0], '->', o2[0])
            if o2[5] < o1[5] or o2[0] < o1[0]:
                bad += 1
        else:
            o = run_impl(inp)
            w = oracle(inp, o)
            print('replay:', w[0] if w else 'property holds on this input now', o)
            bad += 1 if w else 0
    for d in payload.get('disagreements', []):
        print('impl :', run_impl(d['input']))
        print('model:', common.run_model(8, [model_req(d['input'])])[0])
    return 1 if bad else 0
