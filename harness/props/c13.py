"""C13 - byte ranges.

Theorems: coq/Props/C13.v.  Correspondence: RequestHandlerBase.get_http_range (pure, inside a
Flask request context) and the two HTTP routes that honour ranges, against Model/RangeModel.v.
Oracle: RFC 7233 arithmetic written independently (regex + integer comparisons).
"""
import re

from .. import common

RULE = ('Range header values: exhaustive grid lengths {0,1,2,7,100} x forms first-last/first-/-suffix x '
        'integers around 0,len-1,len,len+1,2len,1e12; plus grammar-aware malformed strings (other units, '
        'commas, extra dashes, spaces, signs, underscores, latin-1 whitespace/digits, huge numbers); HTTP: '
        'the same against a generated segment route and the on-demand file route. Non-trivial: the '
        'response is 206 or 416 (a range decision was taken); distinct by (length, header)')


def headers_grid(n):
    vals = sorted(set(v for v in [0, 1, 2, n - 2, n - 1, n, n + 1, n + 2, 2 * n, 10 ** 12] if v >= 0))
    out = []
    for a in vals:
        out.append('bytes=%d-' % a)
        out.append('bytes=-%d' % a)
        for b in vals:
            out.append('bytes=%d-%d' % (a, b))
    return out


def malformed(rng, n):
    base = rng.choice(['bytes=%d-%d' % (rng.randint(0, n + 2), rng.randint(0, n + 2)),
                       'bytes=-%d' % rng.randint(0, n + 3), 'bytes=%d-' % rng.randint(0, n + 2)])
    muts = [
        lambda s: s.replace('bytes', rng.choice(['items', 'byte', 'BYTES', 'Bytes', ' bytes', 'bytes '])),
        lambda s: s + ',' + '5-6',
        lambda s: s.replace('-', '--', 1),
        lambda s: s.replace('-', ' - '),
        lambda s: s.replace('=', '=+', 1),
        lambda s: s.replace('=', '= ', 1),
        lambda s: s + rng.choice([' ', '\t', '\xa0', '\x85', 'x', '_', '-', '0_0', '\xb2']),
        lambda s: s.replace('=', '=' + rng.choice(['\xa0', '\x1f', '_', '0x', '1_', '00', '\xb9']), 1),
        lambda s: 'bytes=' + '9' * rng.choice([20, 200, 4000]) + '-',
        lambda s: 'bytes=-' + '9' * rng.choice([20, 300]),
        lambda s: s[:rng.randint(0, len(s))],
        lambda s: '',
        lambda s: 'bytes=',
        lambda s: 'bytes=-',
        lambda s: s.upper() + '  ',
        lambda s: s.replace('-', '−'.encode('utf8').decode('latin-1'), 1),
        lambda s: s.replace('=', '=1_0', 1),
    ]
    s = rng.choice(muts)(base)
    if rng.random() < 0.2:
        s = rng.choice(muts)(s)
    return s


def norm_codes(h):
    return [ord(c) for c in h.lower().strip()]


STRICT = re.compile(r'^bytes=(\d*)-(\d*)$', re.I)


def oracle(h, mandatory, full_len, status, cr, body, full=None):
    """RFC 7233 2.1/4.4 + the property text. returns None or a description.
    body is bytes or (start,len) indices when full is None."""
    n = full_len
    if status is None or status >= 500:
        return 'status %r (5xx or unhandled exception)' % status

    def body_is(a, b):     # inclusive
        if full is not None:
            return body == full[a:b + 1]
        return body == (a, b - a + 1) or (b < a and body[1] == 0)

    def agree():
        if status == 206:
            m = re.match(r'^bytes (\d+)-(\d+)/(\d+)$', cr or '')
            if not m:
                return '206 with Content-Range %r' % cr
            a, b, t = map(int, m.groups())
            if not (0 <= a <= b < n and t == n):
                return '206 Content-Range %r does not name a slice of %d bytes' % (cr, n)
            if not body_is(a, b):
                return '206 body is not the slice %d-%d' % (a, b)
            return None
        if status == 416:
            if cr != 'bytes */%d' % n:
                return '416 with Content-Range %r' % cr
            if (full is not None and body != b'') or (full is None and body[1] != 0):
                return '416 with a non-empty body'
            return None
        return None
    if h is None:
        if mandatory:
            return None if status == 400 else 'absent header on a range-only resource -> %d' % status
        if status != 200 or not body_is(0, n - 1):
            return 'absent header -> %d / body differs from the full representation' % status
        return None
    m = STRICT.match(h.strip(' \t'))
    if m and (m.group(1) or m.group(2)) and h.isascii():
        f, l = m.groups()
        if f == '':
            k = int(l)
            if k == 0 or n == 0:
                exp = (416,)
            else:
                exp = (206, max(0, n - k), n - 1)
        else:
            a = int(f)
            b = int(l) if l else None
            if b is not None and b < a:
                # syntactically invalid byte-range-spec: refused or ignored
                if status in (400, 416) or (status == 200 and not mandatory and body_is(0, n - 1)):
                    return agree()
                return 'first > last gave %d' % status
            if a >= n:
                exp = (416,)
            else:
                exp = (206, a, n - 1 if b is None else min(b, n - 1))
        if exp[0] == 416:
            if status != 416:
                return 'unsatisfiable range %r on %d bytes -> %d' % (h, n, status)
            return agree()
        if status != 206:
            return 'satisfiable range %r on %d bytes -> %d' % (h, n, status)
        if cr != 'bytes %d-%d/%d' % (exp[1], exp[2], n):
            return 'range %r on %d bytes: Content-Range %r, expected %d-%d' % (h, n, cr, exp[1], exp[2])
        return agree()
    # not a single RFC 7233 byte range
    if status == 400:
        return None
    if status in (206, 416):
        return agree()
    if status == 200 and not mandatory and body_is(0, n - 1):
        return None
    return 'malformed header %r -> status %d' % (h, status)


def pure_impl(app, n, h):
    from dashlive.server.requesthandler.base import RequestHandlerBase
    hd = {} if h is None else {'Range': h}
    with app.test_request_context(headers=hd):
        try:
            start, end, status, headers = RequestHandlerBase.get_http_range(object(), n)
        except ValueError:
            return [1], None, None
        except Exception as e:   # noqa
            return ['CRASH', type(e).__name__], None, None
    if start is None:
        return [0], status, headers.get('Content-Range')
    return [2 if status == 206 else 3 if status == 416 else status, start, end], status, headers.get('Content-Range')


def run(ctx):
    import flask
    common.proof_step(ctx)
    ctx.assumptions += ["Python int(s,10) is modelled by the Coq parameter pyint; theorems hold for any pyint that is non-negative on strings without '-'",
                        'str.lower()/strip() are library calls applied before the model sees the header']
    ctx.trusted.append('werkzeug test client / request context delivers header values as latin-1 text')
    app = flask.Flask('c13')
    rng = ctx.rng
    cases = []
    for n in [0, 1, 2, 7, 100]:
        for h in headers_grid(n):
            cases.append((n, h, 'grid'))
        cases.append((n, None, 'grid'))
    nm = 4000 if ctx.quick() else 100000
    for _ in range(nm):
        n = rng.choice([0, 1, 2, 7, 100, rng.randint(0, 5000)])
        cases.append((n, malformed(rng, n), 'malformed'))
    reqs, impl = [], []
    for n, h, suite in cases:
        reqs.append([0, n, [] if h is None else [norm_codes(h)]])
        impl.append(pure_impl(app, n, h))
    model = common.run_model_parallel(13, reqs)
    ok = True
    for (n, h, suite), (io_, status, cr), mo in zip(cases, impl, model):
        ctx.count('pure:' + suite)
        ctx.dist('pure-outcome:%s' % io_[0])
        if io_ != mo:
            ok = False
            ctx.disagree('pure:' + suite, {'len': n, 'header': h}, mo, io_)
        # Content-Range text agrees with the structured result
        if io_[0] == 2 and cr != 'bytes %d-%d/%d' % (io_[1], io_[2], n):
            ctx.violation('Content-Range text %r does not name %d-%d/%d' % (cr, io_[1], io_[2], n), {'len': n, 'header': h})
        if io_[0] == 3 and cr != 'bytes */%d' % n:
            ctx.violation('416 Content-Range text %r' % cr, {'len': n, 'header': h})
        if io_[0] == 'CRASH':
            ctx.violation('get_http_range raised %s' % io_[1], {'len': n, 'header': h})
        # property oracle on the decision (body = slice by construction of the callers, checked over HTTP)
        if io_[0] in (2, 3):
            st = 206 if io_[0] == 2 else 416
            body = (io_[1], io_[2] - io_[1] + 1) if io_[0] == 2 else (0, 0)
            why = oracle(h, False, n, st, cr, body)
            if why:
                ctx.violation(why, {'len': n, 'header': h, 'level': 'pure'})
            ctx.nontriv((n, h))
    ctx.oblige('correspondence:get_http_range-vs-RangeModel', ok)
    ctx.sample({'len': 100, 'header': 'bytes=-100000', 'impl': list(pure_impl(app, 100, 'bytes=-100000'))})
    ctx.sample({'len': 7, 'header': 'bytes=5-3', 'impl': list(pure_impl(app, 7, 'bytes=5-3'))})
    http_suite(ctx)


def http_suite(ctx):
    from ..appenv import AppEnv, Clock, utc
    env = AppEnv(ctx.workdir, streams=('bbb',))
    ctx.trusted.append('harness/shims (sqlalchemy_jsonfield, dotenv, netifaces, flask_login stand-ins) used to import and run the real Flask app')
    c = env.client()
    rng = ctx.rng
    tiny = {'tiny_v1': bytes(rng.randrange(256) for _ in range(1000)), 'tiny_v2': b'', 'tiny_v3': b'x'}
    env.add_raw_stream('tiny', tiny)
    # (url, range mandatory, compare with the model) - the ~1 MB fixture file is checked by the
    # oracle only (the model would have to materialise a 10^6-element list per request)
    urls = [('/dash/vod/bbb/bbb_a1/3.m4a', False, True),
            ('/dash/odvod/tiny/tiny_v1.mp4', True, True), ('/dash/odvod/tiny/tiny_v2.mp4', True, True),
            ('/dash/odvod/tiny/tiny_v3.m4v', True, True), ('/dash/odvod/bbb/bbb_a1.mp4', True, False),
            # a segment whose body is rewritten after encoding (video corruption seeks back into the buffer): the slice
            # and the total length must be those of the representation a plain GET of the same URL returns
            ('/dash/vod/bbb/bbb_v7/2.m4v?vcorrupt=2', False, False)]
    if not ctx.quick():
        urls += [('/dash/vod/bbb/bbb_v6_enc/3.m4v?drm=all', False, True), ('/dash/vod/bbb/bbb_v7/1.m4v', False, True),
                 ('/dash/odvod/bbb/bbb_v7.mp4', True, False)]
    ok = True
    with Clock(utc(2024, 3, 5, 12, 0, 7, 123456)):
        for url, mandatory, use_model in urls:
            if mandatory and '/tiny/' in url:
                full = tiny[url.split('/')[-1].split('.')[0]]
            elif mandatory:
                import os
                full = open(os.path.join('/repo/tests/fixtures/bbb', url.split('/')[-1]), 'rb').read()
            else:
                r = c.get(url)
                assert r.status_code == 200, (url, r.status_code)
                full = r.data
            n = len(full)
            hs = [None] + headers_grid(n)
            hs += [malformed(rng, n) for _ in range(60 if ctx.quick() else 600)]
            if ctx.quick():
                hs = hs[:1] + rng.sample(hs[1:], min(110, len(hs) - 1))
            reqs, outs = [], []
            for h in hs:
                try:
                    hv = None if h is None else h.encode('latin-1').decode('latin-1')
                    r = c.get(url, headers={} if h is None else {'Range': hv})
                    status, cr, body = r.status_code, r.headers.get('Content-Range'), r.data
                except Exception as e:   # noqa
                    status, cr, body = None, type(e).__name__, b''
                outs.append((status, cr, body))
                reqs.append([2 if mandatory else 1, n, [] if h is None else [norm_codes(h)]])
            model = common.run_model_parallel(13, reqs, jobs=4) if use_model else [None] * len(reqs)
            for h, (status, cr, body), mo in zip(hs, outs, model):
                ctx.count('http:' + url.split('?')[0])
                ctx.dist('http-status:%s' % status)
                why = oracle(h, mandatory, n, status, cr, body, full)
                if why:
                    ctx.violation(why, {'url': url, 'header': h, 'length': n})
                # model comparison
                if mo is None:
                    if status in (206, 416):
                        ctx.nontriv((url, h))
                    continue
                if mo == [-1]:
                    exp = (None, None, b'')
                else:
                    st, (hd, ln, isrun), mcr = mo
                    ebody = full[hd:hd + ln] if ln else b''
                    ecr = None if mcr == [] else ('bytes %d-%d/%d' % tuple(mcr) if len(mcr) == 3 else 'bytes */%d' % mcr[0])
                    exp = (st, ecr, ebody)
                    assert isrun == 1
                got = (status, cr, body)
                if exp[0] == 400:
                    same = status == 400
                else:
                    same = got == exp
                if not same:
                    ok = False
                    ctx.disagree('http', {'url': url, 'header': h}, [exp[0], exp[1], len(exp[2])], [status, cr, len(body)])
                if status in (206, 416):
                    ctx.nontriv((url, h))
    env.close()
    ctx.oblige('correspondence:HTTP-range-routes-vs-RangeModel', ok)


def replay(ctx, payload):
    import flask
    app = flask.Flask('c13')
    bad = 0
    for v in payload.get('violations', []):
        i = v['input']
        if 'len' in i:
            io_, status, cr = pure_impl(app, i['len'], i['header'])
            print('replay pure', i, '->', io_, status, cr)
            if io_[0] in (2, 3):
                why = oracle(i['header'], False, i['len'], status, cr,
                             (io_[1], io_[2] - io_[1] + 1) if io_[0] == 2 else (0, 0))
                print('  ', why or 'holds now')
                bad += 1 if why else 0
        else:
            print('replay over HTTP: GET %s with Range: %r' % (i['url'], i['header']))
    return 1 if bad else 0
