"""C17 - management histories keep the store consistent and the service up.
Theorems: coq/Props/C17.v (referential invariant preserved by every operation, hence over every history;
stream deletion removes exactly the rows it owns).  Correspondence: random histories of management
requests (create / replace / delete streams, upload / index / delete media files, add / delete keys,
create / extend / delete multi-period streams) through the real endpoints as an authorised user; after
EVERY step the rows are read through SQLAlchemy and compared with the state of Model/StoreModel.v.
Oracle (independent of the model): foreign keys resolve, names unique, every listed stream / mps
manifest answers 200 or a clean 4xx, an uploaded and indexed file is served back byte-exactly."""
import io
import os

from .. import common

RULE = ('histories of 8..25 (quick) / 40..120 (thorough) management requests drawn from: add stream (new and EXISTING directory), delete '
        'stream (existing, non-existing, one a period plays), upload (new name, same name in the same / another stream), index, set '
        'timing reference, delete media (existing / non-existing), add key (new / duplicate kid), delete key, add multi-period stream '
        '(valid periods, unknown stream, duplicate name), add period to it, delete it; state compared after every step. Non-trivial: a '
        'history with >= 1 deletion that cascades and >= 1 rejected request; distinct by operation sequence')

FIX = '/repo/tests/fixtures/bbb/'
SOURCES = {'v': 'bbb_v7.mp4', 'a': 'bbb_a1.mp4', 'e': 'bbb_a1_enc.mp4'}


class Names:
    """interns strings as small integers for the model"""

    def __init__(self):
        self.m = {}

    def __call__(self, s):
        return self.m.setdefault(s, len(self.m) + 1)


def db_state(env, nm):
    """the eight tables as the model prints them (sorted), read through SQLAlchemy"""
    m = env.models
    with env.app.app_context():
        streams = sorted([s.pk, nm('d:' + s.directory)] for s in m.Stream.all())
        files = sorted([f.pk, nm('f:' + f.name), f.stream_pk, f.blob_pk] for f in m.MediaFile.all())
        blobs = sorted([b.pk, nm('f:' + os.path.splitext(b.filename)[0])] for b in m.Blob.all())
        keys = sorted([k.pk, nm('k:' + k.hkid)] for k in m.Key.all())
        from dashlive.server.models.mediafile_keys import mediafile_keys
        links = sorted([r[0], r[1]] for r in m.db.session.execute(m.db.select(mediafile_keys.c.media_pk, mediafile_keys.c.key_pk)))
        mpss = sorted([x.pk, nm('m:' + x.name)] for x in m.MultiPeriodStream.all())
        periods = sorted([p.pk, p.parent_pk, nm('p:' + p.pid), p.stream_pk] for p in m.db.session.execute(m.db.select(m.Period)).scalars())
        asets = sorted([a.pk, a.period_pk] for a in m.db.session.execute(m.db.select(m.AdaptationSet)).scalars())
        m.db.session.rollback()
    return [streams, files, blobs, keys, links, mpss, periods, asets]


def oracle(ctx, st, step_desc, inp):
    """referential consistency and uniqueness, straight from the property text"""
    streams, files, blobs, keys, links, mpss, periods, asets = st
    spk = {s[0] for s in streams}
    bpk = {b[0] for b in blobs}
    fpk = {f[0] for f in files}
    kpk = {k[0] for k in keys}
    mpk = {x[0] for x in mpss}
    ppk = {p[0] for p in periods}
    probs = []
    for f in files:
        if f[2] not in spk:
            probs.append('media file %d belongs to stream %d, which does not exist' % (f[0], f[2]))
        if f[3] not in bpk:
            probs.append('media file %d has no blob row (%d)' % (f[0], f[3]))
    owned = [f[3] for f in files]
    for b in blobs:
        if b[0] not in owned:
            probs.append('blob %d belongs to no media file' % b[0])
    if len(owned) != len(set(owned)):
        probs.append('two media files share one blob')
    for l in links:
        if l[0] not in fpk or l[1] not in kpk:
            probs.append('key link %r points at a missing row' % (l,))
    for p in periods:
        if p[1] not in mpk:
            probs.append('period %d belongs to multi-period stream %d, which does not exist' % (p[0], p[1]))
        if p[3] not in spk:
            probs.append('period %d plays stream %r, which does not exist' % (p[0], p[3]))
    for a in asets:
        if a[1] not in ppk:
            probs.append('adaptation set %d belongs to period %d, which does not exist' % (a[0], a[1]))
    for tbl, name in ((streams, 'stream directories'), (files, 'media file names'), (keys, 'key ids'), (mpss, 'multi-period stream names')):
        vals = [r[1] for r in tbl]
        if len(vals) != len(set(vals)):
            probs.append('%s are not unique' % name)
    for p in probs[:3]:
        ctx.violation('after %s: %s' % (step_desc, p), inp, key=None)
    return not probs


class Driver:
    def __init__(self, ctx, env):
        from .c15 import Actor
        self.ctx, self.env = ctx, env
        self.actor = Actor(env, 'media')
        self.c = self.actor.c
        self.nm = Names()
        self.ops = []            # model ops so far
        self.log = []            # human-readable history
        self.uploaded = {}       # name -> bytes of the last upload
        self.rejected = 0
        self.cascades = 0

    def tok(self, service, url='/streams'):
        t = self.actor.harvest(url + ('&' if '?' in url else '?') + 'ajax=1')
        if service not in t:
            t.update(self.actor.harvest(url))
        return t.get(service) or t.get('html') or t.get('json')

    def state(self):
        return db_state(self.env, self.nm)

    def _stream_of(self, mfid):
        for f in self.state()[1]:
            if f[0] == mfid:
                return f[2]
        return 0

    # every method performs one management request and appends the model operation(s) it stands for
    def add_stream(self, directory, title):
        before = self.state()
        r = self.c.put('/streams/add', json={'title': title, 'directory': directory, 'csrf_token': self.tok('streams', '/streams/add')}, headers=self.actor.headers())
        after = self.state()
        js = r.get_json(silent=True) or {}
        self.log.append('PUT /streams/add directory=%s -> %d' % (directory, r.status_code))
        if r.status_code == 200 and js.get('id') is not None and any(s[0] == js['id'] for s in after[0]):
            if any(s[1] == self.nm('d:' + directory) for s in before[0]):
                self.cascades += 1
            self.ops.append([0, js['id'], self.nm('d:' + directory), 0, 0])
        else:
            self.rejected += 1
        return r

    def delete_stream(self, spk):
        before = self.state()
        r = self.c.delete('/stream/%d' % spk, headers=self.actor.headers())
        after = self.state()
        self.log.append('DELETE /stream/%d -> %d' % (spk, r.status_code))
        if any(s[0] == spk for s in before[0]) and not any(s[0] == spk for s in after[0]):
            if any(f[2] == spk for f in before[1]) or any(p[3] == spk for p in before[6]):
                self.cascades += 1
            self.ops.append([1, spk, 0, 0, 0])
        else:
            self.rejected += 1
        return r

    def upload(self, spk, name, kind):
        data = open(FIX + SOURCES[kind], 'rb').read()
        before = self.state()
        r = self.c.post('/media/%d/blob' % spk, headers=self.actor.headers(), content_type='multipart/form-data',
                        data={'csrf_token': self.tok('upload', '/stream/%d' % spk) or '', 'ajax': '1', 'file': (io.BytesIO(data), name + '.mp4')})
        after = self.state()
        js = r.get_json(silent=True) or {}
        new = [f for f in after[1] if f[0] == js.get('pk')] if r.status_code == 200 and not js.get('error') else []
        self.log.append('POST /media/%d/blob file=%s.mp4 -> %d' % (spk, name, r.status_code))
        if new:
            if any(f[1] == self.nm('f:' + name) for f in before[1]):
                self.cascades += 1
            self.ops.append([2, new[0][0], new[0][3], spk, self.nm('f:' + name)])
            self.uploaded[name] = (spk, data)
        else:
            self.rejected += 1
        return r

    def index(self, mfid):
        before = self.state()
        r = self.c.get('/media/index/%d?index=1&csrf_token=%s' % (mfid, self.tok('files', '/stream/%d' % self._stream_of(mfid)) or ''), headers=self.actor.headers())
        after = self.state()
        self.log.append('GET /media/index/%d -> %d' % (mfid, r.status_code))
        for k in after[3]:
            if k not in before[3]:
                self.ops.append([4, k[0], k[1], 0, 0])
        for l in after[4]:
            if l not in before[4]:
                self.ops.append([6, l[0], l[1], 0, 0])
        if r.status_code != 200:
            self.rejected += 1
        return r

    def set_timing_ref(self, spk, directory, title, name):
        r = self.c.post('/stream/%d' % spk, headers=self.actor.headers(ajax=False),
                        data={'csrf_token': self.tok('streams', '/stream/%d' % spk) or '', 'title': title, 'directory': directory, 'timing_ref': name,
                              'marlin_la_url': '', 'playready_la_url': ''})
        self.log.append('POST /stream/%d timing_ref=%s -> %d' % (spk, name, r.status_code))
        return r

    def rename(self, spk, new_dir, title, timing_ref):
        before = self.state()
        r = self.c.post('/stream/%d' % spk, headers=self.actor.headers(ajax=False),
                        data={'csrf_token': self.tok('streams', '/stream/%d' % spk) or '', 'title': title, 'directory': new_dir,
                              'timing_ref': timing_ref or '', 'marlin_la_url': '', 'playready_la_url': ''})
        after = self.state()
        self.log.append('POST /stream/%d directory=%s -> %d' % (spk, new_dir, r.status_code))
        if r.status_code < 400:
            self.ops.append([12, spk, self.nm('d:' + new_dir), 0, 0])
        if after[0] == before[0]:
            self.rejected += 1
        return r

    def edit_track(self, spk, mfid, track_id):
        r = self.c.post('/stream/%d/%d/edit' % (spk, mfid), headers=self.actor.headers(ajax=False),
                        data={'track_id': str(track_id), 'lang': 'und', 'csrf_token': self.tok('files', '/stream/%d' % spk) or ''})
        self.log.append('POST /stream/%d/%d/edit track_id=%d -> %d' % (spk, mfid, track_id, r.status_code))
        return r

    def delete_media(self, spk, mfid):
        before = self.state()
        r = self.c.delete('/stream/%d/%d?csrf_token=%s' % (spk, mfid, self.tok('files', '/stream/%d' % spk) or ''), headers=self.actor.headers())
        after = self.state()
        self.log.append('DELETE /stream/%d/%d -> %d' % (spk, mfid, r.status_code))
        if any(f[0] == mfid for f in before[1]) and not any(f[0] == mfid for f in after[1]):
            self.ops.append([3, mfid, 0, 0, 0])
        else:
            self.rejected += 1
        return r

    def add_key(self, hkid, hkey):
        before = self.state()
        r = self.c.post('/key', headers=self.actor.headers(), data={'csrf_token': self.tok('keys', '/key') or self.tok('kids') or '', 'new_key': '1', 'hkid': hkid, 'hkey': hkey,
                                                                  'ajax': '1'})
        after = self.state()
        new = [k for k in after[3] if k not in before[3]]
        self.log.append('POST /key hkid=%s -> %d' % (hkid, r.status_code))
        if new:
            self.ops.append([4, new[0][0], new[0][1], 0, 0])
        else:
            self.rejected += 1
        return r

    def delete_key(self, kpk):
        before = self.state()
        r = self.c.delete('/key/%d/delete?ajax=1&csrf_token=%s' % (kpk, self.tok('keys', '/key/%d/delete' % kpk) or self.tok('kids') or ''), headers=self.actor.headers())
        after = self.state()
        self.log.append('DELETE /key/%d/delete -> %d' % (kpk, r.status_code))
        if any(k[0] == kpk for k in before[3]) and not any(k[0] == kpk for k in after[3]):
            if any(l[1] == kpk for l in before[4]):
                self.cascades += 1
            self.ops.append([5, kpk, 0, 0, 0])
        else:
            self.rejected += 1
        return r

    def _mps_tok(self):
        self.actor.refresh_tokens()
        return self.actor.csrf.get('streams') or self.tok('streams')

    def add_mps(self, name, periods):
        """periods: [(pid, stream pk, tracks)]"""
        before = self.state()
        body = {'name': name, 'title': 'mps ' + name, 'options': None, 'pk': None, 'csrf_token': self._mps_tok(),
                'periods': [{'pid': pid, 'pk': None, 'ordering': i + 1, 'stream': spk, 'start': 'PT0S', 'duration': 'PT8S',
                             'tracks': [{'track_id': t, 'role': 'main', 'encrypted': False, 'lang': None, 'pk': None, 'enabled': True} for t in tracks]}
                            for i, (pid, spk, tracks) in enumerate(periods)]}
        r = self.c.put('/api/multi-period-streams/.add', json=body, headers=self.actor.headers())
        after = self.state()
        self.log.append('PUT /api/multi-period-streams/.add name=%s periods=%r -> %d' % (name, [(p[0], p[1]) for p in periods], r.status_code))
        self._absorb_mps(before, after)
        if after[5] == before[5]:
            self.rejected += 1
        return r

    def add_period(self, name, mpk, pid, spk, tracks, existing):
        before = self.state()
        plist = [{'pid': p['pid'], 'pk': p['pk'], 'ordering': i + 1, 'stream': p['stream'], 'start': 'PT0S', 'duration': 'PT8S', 'tracks': p['tracks']}
                 for i, p in enumerate(existing)]
        plist.append({'pid': pid, 'pk': None, 'ordering': len(plist) + 1, 'stream': spk, 'start': 'PT0S', 'duration': 'PT8S',
                      'tracks': [{'track_id': t, 'role': 'main', 'encrypted': False, 'lang': None, 'pk': None, 'enabled': True} for t in tracks]})
        body = {'name': name, 'title': 'mps ' + name, 'options': None, 'pk': mpk, 'csrf_token': self._mps_tok(), 'periods': plist}
        r = self.c.post('/api/multi-period-streams/%s' % name, json=body, headers=self.actor.headers())
        after = self.state()
        self.log.append('POST /api/multi-period-streams/%s add period %s (stream %s) -> %d' % (name, pid, spk, r.status_code))
        self._absorb_mps(before, after)
        if after[6] == before[6]:
            self.rejected += 1
        return r

    def drop_track(self, name, mpk, existing, ppk, apk):
        """edit a multi-period stream: the same Periods, one adaptation set (primary key apk, of Period ppk) left out"""
        before = self.state()
        plist = [{'pid': p['pid'], 'pk': p['pk'], 'ordering': i + 1, 'stream': p['stream'], 'start': 'PT0S', 'duration': 'PT8S',
                  'tracks': [t for t in p['tracks'] if not (p['pk'] == ppk and t['pk'] == apk)]}
                 for i, p in enumerate(existing)]
        body = {'name': name, 'title': 'mps ' + name, 'options': None, 'pk': mpk, 'csrf_token': self._mps_tok(), 'periods': plist}
        r = self.c.post('/api/multi-period-streams/%s' % name, json=body, headers=self.actor.headers())
        after = self.state()
        self.log.append('POST /api/multi-period-streams/%s drop adaptation set %s of period %s -> %d' % (name, apk, ppk, r.status_code))
        js = r.get_json(silent=True) or {}
        if r.status_code == 200 and js.get('success'):
            self.ops.append([13, apk, 0, 0, 0])
            self.cascades += 1
        else:
            self.rejected += 1
        self._absorb_mps(before, after)
        return r

    def _absorb_mps(self, before, after):
        for x in after[5]:
            if x not in before[5]:
                self.ops.append([7, x[0], x[1], 0, 0])
        for p in after[6]:
            if p not in before[6]:
                self.ops.append([9, p[0], p[1], p[2], p[3]])
        for a in after[7]:
            if a not in before[7]:
                self.ops.append([11, a[0], a[1], 0, 0])

    def delete_mps(self, name, mpk):
        before = self.state()
        r = self.c.delete('/api/multi-period-streams/%s?ajax=1&csrf_token=%s' % (name, self._mps_tok() or ''), headers=self.actor.headers())
        after = self.state()
        self.log.append('DELETE /api/multi-period-streams/%s -> %d' % (name, r.status_code))
        if any(x[0] == mpk for x in before[5]) and not any(x[0] == mpk for x in after[5]):
            if any(p[1] == mpk for p in before[6]):
                self.cascades += 1
            self.ops.append([8, mpk, 0, 0, 0])
        else:
            self.rejected += 1
        return r


def history(ctx, env, hidx, length):
    """one random history; returns (driver, trace of db states after each request, per-request op counts)"""
    rng = ctx.rng
    d = Driver(ctx, env)
    dirs = ['alpha', 'beta', 'gamma']
    fnames = ['clip_v', 'clip_a', 'clip_e', 'other_v']
    kids = ['%032x' % (i + 1) for i in range(3)]
    mnames = ['mp_one', 'mp_two']
    trace, marks = [], []
    script = []
    if rng.random() < 0.8:
        # a playable stream early on, so that periods can be created: stream, video file, index, timing reference
        script = ['add_stream', 'upload_v', 'index', 'timing']
        if rng.random() < 0.6:
            script += ['upload_e', 'index_last']
    for step in range(length):
        st = d.state()
        streams, files, blobs, keys, links, mpss, periods, asets = st
        with env.app.app_context():
            playable = [x.pk for x in env.models.Stream.all() if x.timing_reference is not None]
        choice = script.pop(0) if script else rng.choice(['add_mps', 'add_period', 'delete_stream', 'rename', 'rename', 'delete_key', 'add_stream', 'add_stream', 'upload', 'upload', 'upload', 'index', 'timing', 'delete_stream', 'delete_media',
                             'add_key', 'delete_key', 'add_mps', 'add_period', 'delete_mps', 'drop_track', 'add_period', 'drop_track'])
        n_before = len(d.ops)
        try:
            if choice == 'add_stream':
                name = rng.choice(dirs)
                r = d.add_stream(name, 'Stream ' + name)
            elif choice == 'delete_stream':
                spk = rng.choice([s[0] for s in streams] + [99]) if streams else 99
                r = d.delete_stream(spk)
            elif choice == 'upload_v' and streams:
                r = d.upload(streams[-1][0], 'clip_v', 'v')
            elif choice == 'upload_e' and streams:
                r = d.upload(streams[-1][0], 'clip_e', 'e')
            elif choice == 'index_last' and files:
                r = d.index(max(f[0] for f in files))
            elif choice == 'upload' and streams:
                spk = rng.choice(streams)[0]
                name = rng.choice(fnames)
                r = d.upload(spk, name, name[-1])
            elif choice == 'index' and files:
                r = d.index(rng.choice(files)[0])
            elif choice == 'timing' and files:
                f = rng.choice(files)
                with env.app.app_context():
                    mf = env.models.MediaFile.get(pk=f[0])
                    s = mf.stream
                    args = (s.pk, s.directory, s.title, mf.name)
                r = d.set_timing_ref(*args)
            elif choice == 'rename' and streams:
                x = rng.choice(streams)
                with env.app.app_context():
                    st_ = env.models.Stream.get(pk=x[0])
                    tr = st_.timing_reference
                    args = (st_.pk, rng.choice(dirs + ['delta']), st_.title, tr.media_name if tr is not None else '')
                r = d.rename(*args)
            elif choice == 'delete_media':
                if files and rng.random() < 0.85:
                    f = rng.choice(files)
                    r = d.delete_media(f[2], f[0])
                elif streams:
                    r = d.delete_media(streams[0][0], 9999)
                else:
                    continue
            elif choice == 'add_key':
                r = d.add_key(rng.choice(kids), '%032x' % rng.getrandbits(128))
            elif choice == 'delete_key' and keys:
                r = d.delete_key(rng.choice(keys)[0])
            elif choice == 'add_mps':
                spks = (playable * 4 or []) + [s[0] for s in streams] + [77]
                periods_in = [('p%d' % (i + 1), rng.choice(spks), [1, 2][:rng.randint(1, 2)]) for i in range(rng.randint(0, 2))]
                r = d.add_mps(rng.choice(mnames), periods_in)
            elif choice == 'add_period' and mpss and streams:
                x = rng.choice(mpss)
                with env.app.app_context():
                    mps = env.models.MultiPeriodStream.get(pk=x[0])
                    name = mps.name
                    existing = [{'pid': p.pid, 'pk': p.pk, 'stream': p.stream_pk,
                                 'tracks': [{'track_id': a.track_id, 'role': a.role.name.lower(), 'encrypted': a.encrypted, 'lang': a.lang, 'pk': a.pk, 'enabled': True}
                                            for a in p.adaptation_sets]} for p in mps.periods]
                r = d.add_period(name, x[0], 'q%d' % rng.randint(1, 3), rng.choice(playable * 4 + [s[0] for s in streams] + [77]), [1], existing)
            elif choice == 'delete_mps' and mpss:
                x = rng.choice(mpss)
                with env.app.app_context():
                    name = env.models.MultiPeriodStream.get(pk=x[0]).name
                r = d.delete_mps(name, x[0])
            elif choice == 'drop_track' and mpss:
                x = rng.choice(mpss)
                with env.app.app_context():
                    mps = env.models.MultiPeriodStream.get(pk=x[0])
                    name = mps.name
                    existing = [{'pid': p.pid, 'pk': p.pk, 'stream': p.stream_pk,
                                 'tracks': [{'track_id': a.track_id, 'role': a.role.name.lower(), 'encrypted': a.encrypted, 'lang': a.lang, 'pk': a.pk, 'enabled': True}
                                            for a in p.adaptation_sets]} for p in mps.periods]
                cands = [(p['pk'], t['pk']) for p in existing for t in p['tracks']]
                if not cands:
                    continue
                ppk, apk = rng.choice(cands)
                r = d.drop_track(name, x[0], existing, ppk, apk)
            else:
                continue
        except Exception as e:  # noqa   (the test client re-raises nothing; this is a harness error)
            raise
        ctx.count('http:management')
        ctx.dist('op:%s:%s' % (choice, 'changed' if len(d.ops) > n_before else 'unchanged'))
        if r.status_code >= 500:
            ctx.violation('history %d, step %d: %s' % (hidx, step + 1, d.log[-1]), {'history': list(d.log)}, key=None)
        trace.append(d.state())
        marks.append(len(d.ops))
        oracle(ctx, trace[-1], 'history %d step %d (%s)' % (hidx, step + 1, d.log[-1]), {'history': list(d.log)})
    return d, trace, marks


def serve_check(ctx, env, d, hidx):
    """every stream / mps still listed serves its manifests or fails cleanly; uploaded + indexed files come back byte-exactly"""
    from ..appenv import Clock, utc
    c = env.client()
    with env.app.app_context():
        streams = [(s.pk, s.directory) for s in env.models.Stream.all()]
        mpss = [x.name for x in env.models.MultiPeriodStream.all()]
        # streams with encrypted, indexed media whose key row has been deleted (known finding key-deleted-in-use)
        have = {k.hkid.lower() for k in env.models.Key.all()}
        keyless = set()
        for f in env.models.MediaFile.all():
            rep = f.representation
            if rep is not None and rep.encrypted and any(k.hex.lower() not in have for k in (rep.kids or [])):
                keyless.add(f.stream.directory)
        keyless_mps = {x.name for x in env.models.MultiPeriodStream.all() if any(p.stream is not None and p.stream.directory in keyless for p in x.periods)}
        files = [(f.name, f.stream.directory, f.representation is not None, f.content_type) for f in env.models.MediaFile.all()]
    with Clock(utc(2024, 3, 5, 12, 0, 7)):
        for _, directory in streams:
            for mode in ('vod', 'live'):
                r = c.get('/dash/%s/%s/hand_made.mpd' % (mode, directory))
                ctx.count('http:serve-after-history')
                if r.status_code >= 500:
                    ctx.violation('history %s: /dash/%s/%s/hand_made.mpd answers %d' % (hidx, mode, directory, r.status_code), {'history': list(d.log)},
                                  key='key-deleted-in-use' if directory in keyless else None)
        for name in mpss:
            for mode in ('vod', 'live'):
                r = c.get('/mps/%s/%s/hand_made.mpd' % (mode, name))
                ctx.count('http:serve-after-history')
                if r.status_code >= 500:
                    ctx.violation('history %s: /mps/%s/%s/hand_made.mpd answers %d' % (hidx, mode, name, r.status_code), {'history': list(d.log)},
                                  key='key-deleted-in-use' if name in keyless_mps else None)
        for name, directory, indexed, ctype in files:
            if name in d.uploaded and indexed:
                r = c.get('/dash/odvod/%s/%s.mp4' % (directory, name))
                ctx.count('http:read-back')
                if r.status_code == 200 and r.data != d.uploaded[name][1]:
                    ctx.violation('history %s: %s/%s.mp4 is served back with different bytes' % (hidx, directory, name), {'history': list(d.log)})
                elif r.status_code >= 500:
                    ctx.violation('history %s: /dash/odvod/%s/%s.mp4 answers %d' % (hidx, directory, name, r.status_code), {'history': list(d.log)})


def scenarios(ctx, workdir):
    """scripted multi-step histories that random generation reaches rarely (oracle only: consistency, no 5xx, read-back)"""
    import logging
    from ..appenv import AppEnv
    # S1: a file of another stream uses the track id of the video of the stream a period plays
    env = AppEnv(os.path.join(workdir, 'scenario1'), streams=(), copy_media=True)
    logging.disable(logging.CRITICAL)
    d = Driver(ctx, env)
    r = d.add_stream('radio', 'Radio')
    radio = (r.get_json(silent=True) or {}).get('id')
    r = d.upload(radio, 'clip_a', 'a')
    mfa = (r.get_json(silent=True) or {}).get('pk')
    d.index(mfa)
    d.edit_track(radio, mfa, 1)
    d.index(mfa)
    d.set_timing_ref(radio, 'radio', 'Radio', 'clip_a')
    r = d.add_stream('alpha', 'Alpha')
    alpha = (r.get_json(silent=True) or {}).get('id')
    for name, kind in (('clip_v', 'v'), ('other_a', 'a')):
        r = d.upload(alpha, name, kind)
        d.index((r.get_json(silent=True) or {}).get('pk'))
    d.set_timing_ref(alpha, 'alpha', 'Alpha', 'clip_v')
    d.add_mps('mp_one', [('p1', alpha, [1, 2])])
    ctx.count('http:scenario')
    oracle(ctx, d.state(), 'scenario 1 (%s)' % d.log[-1], {'history': list(d.log)})
    serve_check(ctx, env, d, 'scenario-1')
    ctx.nontriv(('scenario', 1))
    env.close()
    # S2: the same file name uploaded into two streams, then again into the first (media-file names are unique across streams:
    # the newer upload replaces the older row); every step answers below 500 and leaves a consistent store
    env = AppEnv(os.path.join(workdir, 'scenario2'), streams=(), copy_media=True)
    logging.disable(logging.CRITICAL)
    d = Driver(ctx, env)
    ids = []
    for dname in ('alpha', 'beta'):
        r = d.add_stream(dname, dname.title())
        ids.append((r.get_json(silent=True) or {}).get('id'))
    steps = [(ids[0], 'clip_v', 'v'), (ids[1], 'clip_v', 'v'), (ids[0], 'clip_a', 'a'), (ids[1], 'clip_a', 'a'), (ids[0], 'clip_v', 'v'),
             (ids[0], 'clip_v', 'v')]
    for i, (spk, name, kind) in enumerate(steps):
        r = d.upload(spk, name, kind)
        ctx.count('http:scenario')
        if r.status_code >= 500:
            ctx.violation('scenario 2, step %d: %s' % (i + 1, d.log[-1]), {'history': list(d.log)})
        pk = (r.get_json(silent=True) or {}).get('pk')
        if pk:
            d.index(pk)
        oracle(ctx, d.state(), 'scenario 2 step %d (%s)' % (i + 1, d.log[-1]), {'history': list(d.log)})
    serve_check(ctx, env, d, 'scenario-2')
    ctx.nontriv(('scenario', 2))
    env.close()
    # S4: the key of an indexed encrypted file is deleted, then an unrelated key is added (SQLite hands the freed primary key to
    # it): no link row may survive the deletion, and the new key belongs to no file
    env = AppEnv(os.path.join(workdir, 'scenario4'), streams=(), copy_media=True)
    logging.disable(logging.CRITICAL)
    d = Driver(ctx, env)
    r = d.add_stream('alpha', 'Alpha')
    alpha = (r.get_json(silent=True) or {}).get('id')
    for name, kind in (('clip_v', 'v'), ('clip_e', 'e')):
        r = d.upload(alpha, name, kind)
        d.index((r.get_json(silent=True) or {}).get('pk'))
    st4 = d.state()
    for step, (what, arg) in enumerate([('delete', None), ('add', '00112233445566778899aabbccddeeff'), ('add', 'ffeeddccbbaa99887766554433221100')]):
        if what == 'delete':
            linked = [l[1] for l in st4[4]]
            if not linked:
                ctx.dist('scenario4:no-key-link-after-indexing')
                break
            r = d.delete_key(linked[0])
        else:
            r = d.add_key(arg, '0123456789abcdef0123456789abcdef')
        ctx.count('http:scenario')
        if r.status_code >= 500:
            ctx.violation('scenario 4, step %d: %s' % (step + 1, d.log[-1]), {'history': list(d.log)})
        st_now = d.state()
        oracle(ctx, st_now, 'scenario 4 step %d (%s)' % (step + 1, d.log[-1]), {'history': list(d.log)})
        if what == 'add' and any(l[1] in [k[0] for k in st_now[3] if k not in st4[3]] for l in st_now[4]):
            ctx.violation('scenario 4: after %s a media file is linked to the key that was just added' % d.log[-1], {'history': list(d.log)})
    else:
        ctx.nontriv(('scenario', 4))
    env.close()
    # S3: two multi-period streams over the same source; a track is dropped from a Period of the SECOND one (whose adaptation-set
    # primary keys differ from its track ids): exactly that adaptation set goes, the first stream keeps all of its own
    env = AppEnv(os.path.join(workdir, 'scenario3'), streams=(), copy_media=True)
    logging.disable(logging.CRITICAL)
    d = Driver(ctx, env)
    r = d.add_stream('alpha', 'Alpha')
    alpha = (r.get_json(silent=True) or {}).get('id')
    for name, kind in (('clip_v', 'v'), ('clip_a', 'a')):
        r = d.upload(alpha, name, kind)
        d.index((r.get_json(silent=True) or {}).get('pk'))
    d.set_timing_ref(alpha, 'alpha', 'Alpha', 'clip_v')
    d.add_mps('first', [('p1', alpha, [1, 2])])
    d.add_mps('second', [('p1', alpha, [1, 2])])

    def tracks_by_stream():
        with env.app.app_context():
            return {m_.name: {p_.pid: sorted(a_.track_id for a_ in p_.adaptation_sets) for p_ in m_.periods}
                    for m_ in env.models.MultiPeriodStream.all()}
    start = tracks_by_stream()
    with env.app.app_context():
        mps = env.models.MultiPeriodStream.get(name='second')
        mpk = mps.pk if mps is not None else None
        plist = [{'pid': p_.pid, 'pk': p_.pk, 'ordering': i + 1, 'stream': p_.stream_pk, 'start': 'PT0S', 'duration': 'PT8S',
                  'tracks': [{'track_id': a_.track_id, 'role': a_.role.name.lower(), 'encrypted': a_.encrypted, 'lang': a_.lang, 'pk': a_.pk,
                              'enabled': True} for a_ in p_.adaptation_sets if a_.track_id != 2]}
                 for i, p_ in enumerate(mps.periods)] if mps is not None else []
    if mpk is not None and start.get('first') == {'p1': [1, 2]} and start.get('second') == {'p1': [1, 2]}:
        body = {'name': 'second', 'title': 'mps second', 'options': None, 'pk': mpk, 'csrf_token': d._mps_tok(), 'periods': plist}
        r = d.c.post('/api/multi-period-streams/second', json=body, headers=d.actor.headers())
        d.log.append('POST /api/multi-period-streams/second drop track 2 of p1 -> %d' % r.status_code)
        ctx.count('http:scenario')
        end = tracks_by_stream()
        if r.status_code >= 500:
            ctx.violation('scenario 3: %s' % d.log[-1], {'history': list(d.log)})
        if end.get('first') != {'p1': [1, 2]} or end.get('second') != {'p1': [1]}:
            ctx.violation('scenario 3: after dropping track 2 from second/p1 the store holds %r (expected first/p1 = [1, 2], second/p1 = [1])' % end,
                          {'history': list(d.log)})
        else:
            ctx.nontriv(('scenario', 3))
        oracle(ctx, d.state(), 'scenario 3 (%s)' % d.log[-1], {'history': list(d.log)})
    else:
        ctx.dist('scenario3:setup-failed:%r' % (start,))
    env.close()


def run(ctx):
    import logging
    logging.disable(logging.CRITICAL)
    common.proof_step(ctx)
    ctx.trusted += ['SQLAlchemy / SQLite themselves: the model is a reading of the ORM cascade declarations, tied to them only by this correspondence',
                    'primary keys of new rows are taken from the database (the model checks they are fresh); names are interned as integers',
                    'the blob files on disk are not modelled (read-back of uploaded files is decided by the oracle)']
    ctx.assumptions += ['one authorised (media group) user, sequential requests']
    from ..appenv import AppEnv
    n_hist = 12 if ctx.quick() else 80
    reqs, meta = [], []
    for h in range(n_hist):
        env = AppEnv(os.path.join(ctx.workdir, 'h%d' % h), streams=(), copy_media=True)
        logging.disable(logging.CRITICAL)
        length = ctx.rng.randint(8, 25) if ctx.quick() else ctx.rng.randint(40, 120)
        d, trace, marks = history(ctx, env, h, length)
        serve_check(ctx, env, d, h)
        if d.cascades and d.rejected:
            ctx.nontriv(('history', h, tuple(d.log)))
        ctx.dist('history-length:%d' % (len(d.log) // 10 * 10))
        reqs.append([1, d.ops])
        meta.append((h, list(d.log), trace, marks))
        env.close()
    scenarios(ctx, ctx.workdir)
    res = common.run_model_parallel(17, reqs)
    ok = True
    for (h, log, trace, marks), m in zip(meta, res):
        ctx.count('corr:history')
        # m = model states after every model op; compare at the request boundaries
        for i, (st, mark) in enumerate(zip(trace, marks)):
            if mark == 0:
                model = [[], [], [], [], [], [], [], []]
                inv = 1
            else:
                ms = m[mark - 1]
                model = [sorted(t) for t in ms[:8]]
                inv = ms[8]
            if model != st:
                ok = False
                which = [n for n, a, b in zip(['streams', 'files', 'blobs', 'keys', 'links', 'mps', 'periods', 'adaptation sets'], model, st) if a != b]
                ctx.disagree('store after step %d (%s): tables %s' % (i + 1, log[i] if i < len(log) else '?', which), {'history': log[:i + 1]},
                             [model[j] for j in range(8) if model[j] != st[j]][:2], [st[j] for j in range(8) if model[j] != st[j]][:2])
                break
            if not inv:
                ok = False
                ctx.disagree('model invariant false after step %d' % (i + 1), {'history': log[:i + 1]}, 0, 1)
                break
    ctx.oblige('correspondence:HTTP(management histories)-vs-StoreModel', ok)


def replay(ctx, payload):
    for v in payload.get('violations', []):
        print('replay:', v['what'])
    return 1 if payload.get('violations') else 0
