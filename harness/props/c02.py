"""C02 - served segments carry exactly the advertised time, number and duration.
Theorems: coq/Props/C02.v.  Correspondence: Representation / DashTiming / LiveMedia index
functions vs Model/SegModel.v on synthetic representations; HTTP level on the fixture streams.
Oracle: the property text on the implementation's own outputs."""
from .. import common, segcore as sc

RULE = ('synthetic representations: 2..12 segments, timescale in {1,10,240,1000,44100,48000,90000,1e7}, regular / '
        'alternating / short-last / random durations, reference = itself or a sibling with another timescale and a '
        'drift of either sign; clock = loops (0..1e7) x phase on/next to segment starts, mid-points, the drift gap, '
        'random; depth 1..600; $Time$ requests for first/last/random timeline entries and off-entry times, $Number$ '
        'requests around first/last available. Non-trivial: timeline with > 2 entries; distinct by (representation, clock)')


def oracle(ctx, rec):
    rep, lr, n = rec['rep'], sc.rep_lr(rec['rep']), len(rec['rep']['durs'])
    tl = rec['timeline']
    if tl and tl[0] == 'CRASH':
        ctx.violation('generateSegmentTimeline raised ' + tl[1], {'rep': rep, 'tm': rec['tm']})
        return
    by_t = {e[0]: e for e in tl}
    for e in tl:
        if e[1] <= 0:
            ctx.violation('timeline entry with duration %d' % e[1], {'rep': rep, 'tm': rec['tm']}, e, key='nonpositive-duration')
            return
    if rec['degenerate'] or not rec['live']:
        return
    sd = sc.rep_seg_dur(rep)
    for (t, nn), out in zip(rec['queries'], rec['served']):
        if not out:
            continue
        if out[0] == 'CRASH':
            ctx.violation('media index raised ' + out[1], {'rep': rep, 'tm': rec['tm'], 'q': [t, nn]})
            continue
        m, tfdt, num, d = out
        if t is not None and t in by_t:
            e = by_t[t]
            if tfdt != t or m != e[2]:
                ctx.violation('$Time$=%d served with tfdt %d from segment %d (advertised segment %d)' % (t, tfdt, m, e[2]),
                              {'rep': rep, 'tm': rec['tm'], 'q': [t, nn]}, out, e)
            elif d != e[1]:
                ctx.violation('$Time$=%d: S@d=%d but the samples sum to %d' % (t, e[1], d),
                              {'rep': rep, 'tm': rec['tm'], 'q': [t, nn]}, out, e,
                              key='loop-final-drift' if (m == n and e[1] - d == sc.drift(rep)) else None)
        if nn is not None:
            tc = (nn - rep['start_number']) * sd
            tol = (max(rep['durs']) + 1) // 2 + max(0, sc.drift(rep))
            if num != nn or not (tc - max(rep['durs']) // 2 <= tfdt <= tc + tol):
                ctx.violation('$Number$=%d: sequence %d, tfdt %d, expected about %d (tolerance %d)' % (nn, num, tfdt, tc, tol),
                              {'rep': rep, 'tm': rec['tm'], 'q': [t, nn]}, out)
        if not (1 <= m <= n) or tfdt % lr != sc.prefix(rep, m - 1):
            ctx.violation('alignment: tfdt %d mod %d != source position %d of segment %d' % (tfdt, lr, sc.prefix(rep, m - 1) if 1 <= m <= n else -1, m),
                          {'rep': rep, 'tm': rec['tm'], 'q': [t, nn]}, out)


def witness(ctx):
    """theorem C02_refuted_drift on the real code"""
    rep = {'ts': 10, 'durs': [10, 10], 'seg_dur': 10, 'start_number': 1, 'rts': 10, 'ref_dur': 25, 'ref_nseg': 2,
           'ref_seg_dur': 12, 'kind': 'witness'}
    tm = {'elapsed': 4000000, 'depth': 4, 'leeway': 60, 'live': True}
    r, timing = sc.build_impl(rep, tm)
    tl = sc.impl_timeline(r)
    mo = sc.run_model([[1, sc.model_rep(rep), 0, 4]])[0]
    if tl != mo:
        ctx.disagree('witness', {'rep': rep, 'tm': tm}, mo, tl)
    for e in tl:
        if e[2] == 2 and e[1] != rep['durs'][1]:
            ctx.violation('S@d=%d for the loop-final segment whose samples sum to %d' % (e[1], rep['durs'][1]),
                          {'rep': rep, 'tm': tm}, e, key='loop-final-drift')


def run(ctx):
    common.proof_step(ctx)
    ctx.trusted += ['float rounding in timescale_to_timedelta/scale_timedelta modelled as exact rationals; cases where the '
                    'implementation equals the model at now +-2 us are counted as float-boundary and not diffed',
                    'stored segment m has tfdt = first decode time + sum of earlier durations (checked on the fixture files at HTTP level)']
    ctx.assumptions += ['rep_ok: >= 2 segments, durations >= 1, reference duration > 0, d_n + drift >= 1',
                        'first decode time of the file is 0 (r_start_time = 0) for the exact-time theorems']
    recs = sc.evaluate(ctx, 1500 if ctx.quick() else 40000)
    for rec in recs:
        oracle(ctx, rec)
    witness(ctx)
    from .. import seghttp
    seghttp.suite(ctx, 'C02')
    from . import c12
    c12.time_route_suite(ctx, 5 if ctx.quick() else 40, 6 if ctx.quick() else 40)


def replay(ctx, payload):
    bad = 0
    for v in payload.get('violations', []):
        inp = v['input']
        if 'rep' not in inp:
            print('replay: HTTP-level input', inp)
            continue
        r, timing = sc.build_impl(inp['rep'], inp['tm'])
        q = inp.get('q')
        print('timeline:', sc.impl_timeline(r)[:8])
        if q:
            print('served  :', sc.serve_from_index(inp['rep'], sc.impl_media_index(r, timing, q[0], q[1])), 'was', v.get('observed'))
        bad += 1
    return 1 if bad else 0
