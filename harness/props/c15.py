"""C15 - only authorised roles can change persistent state.
Theorems: coq/Props/C15.v over coq/Gen/RoutesTable.v (regenerated from the live application of /repo
on every run).  Violation search and validation of the generated table: every URL rule x HTTP
method x role, with CSRF tokens and JWTs that role can legitimately obtain, against the real app;
database and blob store are fingerprinted before and after.  CSRF: real CsrfProtection vs
Model/AuthModel.check on issue/use/reuse/cross-service/cross-cookie/tamper sequences."""
import hashlib
import hmac
import base64
import json
import asyncio
import os
import re
import urllib.parse

from .. import common

RULE = ('every URL rule of app.url_map x {GET,HEAD,POST,PUT,DELETE} x {anonymous (with the guest JWT any client can fetch), '
        'user, media (admin-only rows)} with JSON and form payloads carrying every CSRF token the role could harvest; state '
        'fingerprint = all tables except Token (and User.last_login) + blob directory listing; CSRF sequences of 3..12 calls '
        'mixing fresh, replayed, cross-service, cross-cookie, truncated and bit-flipped tokens. Non-trivial: a request that '
        'reached a handler (status != 404/405) for the access sweep; a sequence with >= 1 accepted token for CSRF')

ROLE_ORDER = {'anonymous': 0, 'user': 1, 'media': 2, 'admin': 3}
MEDIA_TABLES = {'Stream', 'media_file', 'MediaFile', 'Blob', 'blob', 'Key', 'key', 'mediafile_keys', 'media_file_keys',
                'mp_stream', 'period', 'adaptation_set', 'media_file_error', 'MediaFileError'}


def fingerprint(env):
    """-> dict table -> sorted row reprs (Token excluded, volatile columns dropped), plus the blob tree"""
    out = {}
    with env.app.app_context():
        db = env.models.db
        meta = db.metadata
        conn = db.session.connection()
        for name, table in sorted(meta.tables.items()):
            if name.lower() in ('token',):
                continue
            rows = []
            cols = [c for c in table.columns if c.name not in ('last_login',)]
            for r in conn.execute(table.select()):
                m = r._mapping
                rows.append(repr([(c.name, m[c]) for c in cols]))
            out[name] = sorted(rows)
        db.session.rollback()
    tree = []
    for dp, dn, fn in os.walk(env.blob_folder, followlinks=False):
        for f in sorted(fn):
            p = os.path.join(dp, f)
            try:
                tree.append((os.path.relpath(p, env.blob_folder), os.path.getsize(p)))
            except OSError:
                tree.append((os.path.relpath(p, env.blob_folder), -1))
    out['<blobs>'] = sorted(tree)
    return out


def diff_tables(a, b):
    return sorted(k for k in set(a) | set(b) if a.get(k) != b.get(k))


class Actor:
    """a client with everything its role can legitimately obtain"""

    def __init__(self, env, role):
        from ..appenv import USERS
        self.env, self.role = env, role
        self.c = env.app.test_client()
        self.jwt = None
        self.csrf = {}
        self.user_pk = None
        if role == 'anonymous':
            r = self.c.get('/api/refresh/access')
            if r.status_code == 200:
                js = r.get_json()
                self.jwt = (js.get('accessToken') or {}).get('jwt')
                self.csrf.update({k: v for k, v in (js.get('csrfTokens') or {}).items() if v})
        else:
            uname, _, pw = USERS[role]
            r = self.c.post('/api/login', json={'username': uname, 'password': pw})
            js = r.get_json() or {}
            self.jwt = (js.get('accessToken') or {}).get('jwt')
            self.user_pk = (js.get('user') or {}).get('pk')
            if js.get('csrf_token'):
                self.csrf['login'] = js['csrf_token']
        self.refresh_tokens()

    def headers(self, ajax=True):
        h = {}
        if self.jwt:
            h['Authorization'] = 'Bearer ' + self.jwt
        if ajax:
            h['X-Requested-With'] = 'XMLHttpRequest'
            h['Accept'] = 'application/json'
        return h

    def refresh_tokens(self):
        if self.jwt:
            r = self.c.get('/api/refresh/csrf', headers=self.headers())
            if r.status_code == 200:
                self.csrf.update({k: v for k, v in ((r.get_json() or {}).get('csrfTokens') or {}).items() if v})

    def harvest(self, url):
        """tokens a GET of the same URL hands out (HTML hidden fields, JSON csrfTokens)"""
        found = {}
        for ajax in (False, True):
            try:
                r = self.c.get(url, headers=self.headers(ajax=ajax))
            except Exception:  # noqa
                continue
            if r.status_code != 200:
                continue
            body = r.get_data().decode('utf-8', 'ignore')
            for m in re.finditer(r'name="csrf_token"[^>]*value="([^"]+)"|value="([^"]+)"[^>]*name="csrf_token"', body):
                found['html'] = m.group(1) or m.group(2)
            try:
                js = r.get_json(silent=True) or {}
            except Exception:  # noqa
                js = {}
            if isinstance(js, dict):
                for coll in ('csrfTokens', 'csrf_tokens'):
                    for k, v in (js.get(coll) or {}).items():
                        if v:
                            found[k] = v
                if js.get('csrf_token'):
                    found['json'] = js['csrf_token']
        return found


def url_for_rule(rule, ids):
    url = rule.rule
    for arg in rule.arguments:
        conv = rule._converters.get(arg)
        val = ids.get(arg)
        if val is None:
            # regex converters: pick from the pattern
            pat = getattr(conv, 'regex', '')
            if arg == 'mode':
                val = 'vod'
            elif arg == 'manifest':
                val = 'hand_made.mpd'
            elif arg == 'ext':
                val = 'm4v'
            elif arg == 'segment_num':
                val = '1'
            elif arg == 'method':
                val = 'iso'
            else:
                val = '1'
        url = re.sub(r'<[^>]*\b%s>' % re.escape(arg), urllib.parse.quote(str(val), safe=''), url)
    return url


def payloads(endpoint, ids, tokens):
    """JSON / form bodies a client of that role would plausibly send, with each harvested token"""
    base_json = {'name': 'mps1', 'title': 'changed title', 'directory': 'bbbchanged', 'username': 'mallory',
                 'email': 'mallory@example.test', 'password': 'pw12345678', 'confirmPassword': 'pw12345678',
                 'mustChange': False, 'adminGroup': True, 'mediaGroup': True, 'userGroup': True,
                 'periods': [], 'options': {}, 'hkid': '0123456789012345678901234567890a',
                 'hkey': '0123456789012345678901234567890b', 'pk': ids.get('spk'), 'timing_ref': '', 'ajax': 1}
    base_form = {'title': 'changed title', 'directory': 'bbbchanged', 'hkid': '0123456789012345678901234567890a',
                 'hkey': '0123456789012345678901234567890b', 'new_key': '1', 'marlin_la_url': '', 'playready_la_url': '',
                 'depth': '77', 'abr': 'on', 'ajax': '1'}
    # bodies a well-informed client would send to particular endpoints
    special = []
    if endpoint == 'api-add-mps':
        special.append({'name': 'brandnew', 'title': 'brand new mps', 'options': None, 'pk': None,
                        'periods': [{'pid': 'p1', 'pk': None, 'ordering': 1, 'stream': ids.get('spk'), 'start': 'PT0S',
                                     'duration': 'PT10S', 'tracks': [{'track_id': 1, 'role': 1, 'encrypted': False,
                                                                       'lang': None, 'pk': None, 'enabled': True}]}]})
        special.append({'name': 'brandnew2', 'title': 'brand new mps', 'options': None, 'pk': None, 'periods': []})
    if endpoint == 'api-edit-mps':
        special.append({'name': 'mps1', 'title': 'retitled by a stranger', 'options': None, 'pk': ids.get('mps_pk'), 'periods': []})
    if endpoint in ('api-edit-user', 'edit-user', 'api-edit-self'):
        for claim in (ids.get('self_pk'), ids.get('upk')):
            special.append({'pk': claim, 'username': 'victim', 'email': 'taken.over@example.test', 'password': 'Attacker#12345',
                            'confirmPassword': 'Attacker#12345', 'mustChange': False, 'adminGroup': True, 'mediaGroup': True,
                            'userGroup': True})
    if endpoint == 'api-list-users':
        special.append({'username': 'mallory', 'email': 'mallory@example.test', 'password': 'pw12345678',
                        'confirmPassword': 'pw12345678', 'adminGroup': True, 'mediaGroup': True, 'userGroup': True})
    out = [('json', sp, True) for sp in special]
    out.append(('json', dict(base_json), False))
    out.append(('form', dict(base_form), False))
    return out


def access_sweep(ctx, env):
    from ..appenv import USERS
    rules = [r for r in env.app.url_map.iter_rules() if r.endpoint != 'static']
    with env.app.app_context():
        m = env.models
        stream = m.Stream.get(directory='bbb')
        mf = m.MediaFile.get(name='bbb_v7')
        _keys = list(m.Key.all())
        key = _keys[0] if _keys else None
        ids = {'spk': stream.pk, 'stream': 'bbb', 'mfid': mf.pk, 'filename': 'bbb_v7', 'kpk': key.pk if key else 1,
               'mps_name': 'mps1', 'ppk': 1, 'segnum': 1, 'publish': 1700000000, 'username': 'user',
               'upk': m.User.get(username='user').pk}
        guest_pk = m.User.get_guest_user().pk
        other_pks = {'user': m.User.get(username='media').pk, 'media': m.User.get(username='admin').pk}
        mps = m.MultiPeriodStream.get(name='mps1')
        ids['mps_pk'] = mps.pk if mps else None
    reached = 0
    n_req = 0
    table_rows_hit = {}
    roles = ['anonymous', 'user', 'media']
    for role in roles:
        actor = Actor(env, role)
        for rule in rules:
            # the anonymous client acts as the built-in guest account: aim at that account too
            rids = dict(ids, upk=guest_pk) if role == 'anonymous' else dict(ids, upk=other_pks[role], self_pk=actor.user_pk)
            url = url_for_rule(rule, rids)
            cls = getattr(env.app.view_functions.get(rule.endpoint), 'view_class', None)
            methods = [x for x in ('GET', 'HEAD', 'POST', 'PUT', 'DELETE')]
            if role == 'media':
                # only what media must NOT be able to do: user management
                if '/users' not in rule.rule and 'user' not in rule.endpoint:
                    continue
            for method in methods:
                if ctx.quick() and method == 'HEAD':
                    continue
                def fresh_tokens():
                    actor.refresh_tokens()
                    t = dict(actor.csrf)
                    if method in ('POST', 'PUT', 'DELETE'):
                        t.update(actor.harvest(url))
                    return t
                if method in ('GET', 'HEAD'):
                    plan = [('none', None, None)]
                else:
                    names = list(fresh_tokens()) or [None]
                    templates = [('none', None, False)] if method == 'DELETE' else payloads(rule.endpoint, rids, {})
                    plan = []
                    for kind, body, is_special in templates:
                        for nm in (names if (is_special or method == 'DELETE') else names[:2]):
                            plan.append((kind, body, nm))
                for kind, body, tokname in plan:
                    tok = None
                    if tokname is not None:
                        tok = fresh_tokens().get(tokname)
                    if body is not None and tok:
                        body = dict(body, csrf_token=tok)
                    before = fingerprint(env)
                    kw = {'headers': actor.headers(ajax=(kind != 'form'))}
                    u = url
                    if tok and method in ('DELETE', 'GET'):
                        u = url + ('&' if '?' in url else '?') + 'csrf_token=' + tok      # tokens are handed out already percent-encoded
                    try:
                        if kind == 'json':
                            r = actor.c.open(u, method=method, json=body, **kw)
                        elif kind == 'form':
                            r = actor.c.open(u, method=method, data=body, **kw)
                        else:
                            r = actor.c.open(u, method=method, **kw)
                        status = r.status_code
                    except Exception as e:  # noqa
                        status = 'EXC:' + type(e).__name__
                    n_req += 1
                    ctx.count('http:access-%s' % role)
                    after = fingerprint(env)
                    changed = diff_tables(before, after)
                    if status not in (404, 405):
                        reached += 1
                        ctx.nontriv((role, rule.endpoint, method))
                    if changed:
                        table_rows_hit[(rule.endpoint, method)] = changed
                        need = required_role(changed, before, after, actor)
                        inp = {'role': role, 'method': method, 'url': u, 'endpoint': rule.endpoint, 'body': kind,
                               'status': status, 'changed': changed}
                        if ROLE_ORDER[role] < ROLE_ORDER[need]:
                            ctx.violation('%s %s as %s (status %s) changed %s; that needs the %s role'
                                          % (method, u, role, status, ', '.join(changed), need), inp)
                            # a lesser role changed state: everything after this runs on a dirty store
                            return ('dirty', n_req, reached, table_rows_hit)
    return ('clean', n_req, reached, table_rows_hit)


def required_role(changed, before, after, actor):
    need = 'anonymous'
    for t in changed:
        if t == '<blobs>' or t in MEDIA_TABLES or t.lower() in {x.lower() for x in MEDIA_TABLES}:
            need = max(need, 'media', key=lambda x: ROLE_ORDER[x])
        elif t.lower() in ('user', 'users'):
            # own row only?
            own = None
            b = {r for r in before.get(t, [])}
            a = {r for r in after.get(t, [])}
            delta = b ^ a
            mine = [r for r in delta if actor.user_pk is not None and ("('pk', %d)" % actor.user_pk) in r]
            if len(mine) == len(delta) and len(b) == len(a):
                need = max(need, 'user', key=lambda x: ROLE_ORDER[x])
            else:
                need = max(need, 'admin', key=lambda x: ROLE_ORDER[x])
        else:
            need = max(need, 'media', key=lambda x: ROLE_ORDER[x])
    return need


def build_env(ctx, tag):
    from ..appenv import AppEnv
    import logging
    env = AppEnv(os.path.join(ctx.workdir, tag), streams=('bbb',), copy_media=True)
    logging.disable(logging.CRITICAL)
    env.add_mps('mps1', [dict(pid='a', stream='bbb', start_s=0, duration_s=20)])
    return env


def positive_controls(ctx):
    """the fingerprint does notice changes: the media role deletes a key and edits a stream title"""
    env = build_env(ctx, 'pos')
    actor = Actor(env, 'media')
    before = fingerprint(env)
    with env.app.app_context():
        keys = list(env.models.Key.all())
        kpk = keys[0].pk
    toks = actor.harvest('/key/%d/delete' % kpk)
    r = None
    for tok in toks.values():
        r = actor.c.delete('/key/%d/delete?csrf_token=%s&ajax=1' % (kpk, tok), headers=actor.headers())
        if r.status_code == 200:
            break
    after = fingerprint(env)
    ok = bool(diff_tables(before, after))
    ctx.oblige('oracle:fingerprint-detects-authorised-change', ok, 'DELETE key as media -> status %s, changed %s'
               % (r.status_code if r is not None else None, diff_tables(before, after)))
    env.close()


# --------------------------------------------------------------------------- CSRF
def real_mac(secret, msg):
    sig = hmac.new(bytes(secret, 'utf-8'), bytes(msg, 'utf-8'), hashlib.sha1)
    return str(base64.b64encode(sig.digest()))


def csrf_suite(ctx, env):
    from dashlive.server.requesthandler.csrf import CsrfProtection
    from dashlive.server.requesthandler.exceptions import CsrfFailureException
    rng = ctx.rng
    app = env.app
    secret = app.config['DASH']['CSRF_SECRET']
    services = ['streams', 'files', 'kids', 'upload', 'keys', 'login']
    ok = True
    nseq = 60 if ctx.quick() else 1500
    for si in range(nseq):
        cookies = ['ck%d-%d' % (si, i) + 'x' * rng.randint(0, 3) for i in range(2)]
        if si % 2:
            # cookies as long as the real ones (secrets.token_urlsafe(32): 43 characters) that differ only near the END: the
            # whole cookie takes part in the signature, not a prefix of it
            stem = ''.join(rng.choice('abcdefghijklmnopqrstuvwxyzABCDEFGHIJKLMNOPQRSTUVWXYZ0123456789-_') for _ in range(43))
            cut = rng.choice([32, 36, 40, 42])
            cookies = [stem, stem[:cut] + ''.join('Z' if ch != 'Z' else 'Y' for ch in stem[cut:])]
        issued = []
        calls = []
        for _ in range(rng.randint(3, 12)):
            r = rng.random()
            if r < 0.4 or not issued:
                ck, sv = rng.choice(cookies), rng.choice(services)
                with app.test_request_context('/', headers={'Cookie': 'csrf=' + ck}):
                    tok = urllib.parse.unquote(CsrfProtection.generate_token(sv, ck))
                issued.append((ck, sv, tok))
                calls.append((ck, sv, tok, 'fresh'))
            elif r < 0.55:
                ck, sv, tok = rng.choice(issued)
                calls.append((ck, sv, tok, 'replay-or-first'))
            elif r < 0.7:
                ck, sv, tok = rng.choice(issued)
                calls.append((ck, rng.choice([s for s in services if s != sv]), tok, 'cross-service'))
            elif r < 0.8:
                ck, sv, tok = rng.choice(issued)
                calls.append((rng.choice([c for c in cookies if c != ck] or [ck + 'z']), sv, tok, 'cross-cookie'))
            elif r < 0.9:
                ck, sv, tok = rng.choice(issued)
                i = rng.randrange(len(tok))
                calls.append((ck, sv, tok[:i] + chr((ord(tok[i]) ^ 1) or 65) + tok[i + 1:], 'tampered'))
            else:
                ck, sv, tok = rng.choice(issued)
                calls.append((None if rng.random() < 0.5 else '', sv, tok, 'no-cookie'))
        # implementation
        spellings = [rng.choice([0, 0, 1, 2]) for _ in calls]
        got = []
        with app.app_context():
            env.models.Token.prune_database(all_csrf=True, session=env.models.db.session)
            env.models.db.session.commit()
        for ci, (ck, sv, tok, kind) in enumerate(calls):
            hdr = {} if ck is None else {'Cookie': 'csrf=' + ck}
            # the same token can be submitted in several spellings: as issued (percent-encoded),
            # decoded, or with lower-case escapes - it is one token
            spell = spellings[ci]
            sub = urllib.parse.quote(tok) if spell == 0 else tok if spell == 1 else re.sub(
                r'%[0-9A-F]{2}', lambda mm: mm.group(0).lower(), urllib.parse.quote(tok, safe=''))
            with app.test_request_context('/', headers=hdr):
                try:
                    CsrfProtection.check(sv, sub)
                    got.append(1)
                except (CsrfFailureException, ValueError):
                    got.append(0)
        # model, with the real MAC tabulated on the messages that occur
        table = []
        for ck, sv, tok, kind in calls:
            if ck:
                msg = ck + sv + tok[:8]
                table.append([[ord(c) for c in msg], [ord(c) for c in real_mac(secret, msg)]])
        mcalls = [[[] if not ck and ck is None else [[ord(c) for c in ck]], [ord(c) for c in sv], [ord(c) for c in tok]]
                  for ck, sv, tok, kind in calls]
        m = common.run_model(15, [[0, table, mcalls]])[0]
        ctx.count('corr:csrf-sequences')
        if m != got:
            ok = False
            ctx.disagree('csrf', {'calls': calls}, m, got)
        # oracle: accepted at most once; only fresh tokens with their own cookie and service
        seen = set()
        for (ck, sv, tok, kind), g in zip(calls, got):
            if g:
                legit = (ck, sv, tok) in issued
                if tok in seen or not legit:
                    ctx.violation('CSRF token accepted although it is %s' % ('a replay' if tok in seen else kind),
                                  {'calls': calls, 'accepted': [ck, sv, tok]})
                seen.add(tok)
        if any(got):
            ctx.nontriv(('csrf', si))
    ctx.oblige('correspondence:CsrfProtection.check-vs-AuthModel.check', ok)


def gen_routes(ctx):
    from ..translators import routes_table
    rows, changed = routes_table.generate()
    ctx.notes.append('Gen/RoutesTable.v: %d rows (%s)' % (len(rows), 'rewritten' if changed else 'unchanged'))
    ctx._routes_rows = rows


def bad_token_suite(ctx, env):
    """an AUTHORISED caller (administrator) whose CSRF token is wrong - tampered, issued for another service, or already
    spent - is refused, and a request that is answered as a CSRF failure has changed nothing (the check comes before the
    modification, not after it)"""
    rng = ctx.rng
    actor = Actor(env, 'admin')
    rules = [r for r in env.app.url_map.iter_rules() if r.endpoint != 'static']
    with env.app.app_context():
        m = env.models
        stream = m.Stream.get(directory='bbb')
        mf = m.MediaFile.get(name='bbb_v7')
        _keys = list(m.Key.all())
        ids = {'spk': stream.pk, 'stream': 'bbb', 'mfid': mf.pk, 'filename': 'bbb_v7', 'kpk': _keys[0].pk if _keys else 1,
               'mps_name': 'mps1', 'ppk': 1, 'segnum': 1, 'publish': 1700000000, 'username': 'user',
               'upk': m.User.get(username='user').pk, 'self_pk': actor.user_pk}
        mps = m.MultiPeriodStream.get(name='mps1')
        ids['mps_pk'] = mps.pk if mps else None
    n = 0
    for rule in rules:
        url = url_for_rule(rule, ids)
        for method in ('POST', 'PUT', 'DELETE'):
            if method not in (rule.methods or ()):
                continue
            view_class = getattr(env.app.view_functions.get(rule.endpoint), 'view_class', None)
            if view_class is not None and asyncio.iscoroutinefunction(getattr(view_class, method.lower(), None)):
                ctx.dist('bad-token:async-view-skipped')      # Flask's async support is not installed in this sandbox
                continue
            templates = [('none', None, False)] if method == 'DELETE' else payloads(rule.endpoint, ids, {})
            for kind, body, _sp in templates:
                actor.refresh_tokens()
                toks = dict(actor.csrf)
                toks.update(actor.harvest(url))
                if not toks:
                    continue
                for variant in ('tampered', 'spent'):
                    name = rng.choice(sorted(toks))
                    tok = toks[name]
                    if variant == 'tampered':
                        raw = urllib.parse.unquote(tok)
                        i = len(raw) // 2
                        tok = urllib.parse.quote(raw[:i] + ('A' if raw[i] != 'A' else 'B') + raw[i + 1:])
                    else:
                        # spend it on a harmless check first
                        from dashlive.server.requesthandler.csrf import CsrfProtection
                        ck = actor.c.get_cookie('csrf')
                        if ck is None:
                            continue
                        with env.app.test_request_context('/', headers={'Cookie': 'csrf=' + ck.value}):
                            for sv in ('streams', 'files', 'keys', 'upload', 'login'):
                                try:
                                    CsrfProtection.check(sv, tok)
                                except Exception:  # noqa
                                    pass
                    before = fingerprint(env)
                    kw = {'headers': actor.headers(ajax=(kind != 'form'))}      # an HTML form is not posted by script
                    target = url
                    if isinstance(body, dict) and 'title' in body:
                        body = dict(body, title='retitled %d' % n)      # a change that is visible every time
                    if method == 'DELETE':
                        target = url + '?csrf_token=' + tok
                    elif kind == 'json':
                        kw['json'] = dict(body, csrf_token=tok)
                    else:
                        kw['data'] = dict(body, csrf_token=tok)
                    try:
                        r = getattr(actor.c, method.lower())(target, **kw)
                    except Exception as e:  # noqa
                        ctx.dist('bad-token:client-error:%s' % type(e).__name__)
                        continue
                    n += 1
                    ctx.count('http:bad-token')
                    text = r.get_data(as_text=True)[:400].lower()
                    refused = r.status_code in (400, 401, 403) and ('csrf' in text or 'signature' in text or 'not authorized' in text)
                    after = fingerprint(env)
                    changed = diff_tables(before, after)
                    ctx.dist('bad-token:%s:%s' % (variant, 'refused' if refused else 'status-%d' % r.status_code))
                    if r.status_code >= 500:
                        ctx.violation('%s %s by an administrator with a %s CSRF token answers %d' % (method, url, variant, r.status_code),
                                      {'url': url, 'method': method, 'role': 'admin', 'endpoint': rule.endpoint, 'variant': variant})
                    if refused and changed:
                        ctx.violation('%s %s by an administrator with a %s CSRF token is answered %d (a CSRF failure) but tables %r changed'
                                      % (method, url, variant, r.status_code, changed),
                                      {'url': url, 'method': method, 'role': 'admin', 'endpoint': rule.endpoint, 'variant': variant})
                    elif refused:
                        ctx.nontriv(('bad-token', method, rule.rule, variant))
    ctx.oblige('http:bad-token-sweep', n > 0, '%d requests with a wrong token by an authorised caller' % n)


def user_edit_suite(ctx, env):
    """POST /api/users/<pk> (EditUser.post decides inside its body who may change what): the row the database holds after
    each request against Model/UserModel.edit_user, for administrator / ordinary callers x own / other / unknown account
    x random bodies (password with and without a matching confirmation, every combination of group flags)"""
    from ..appenv import USERS
    rng = ctx.rng
    m = env.models
    GROUPS = {'userGroup': 2, 'mediaGroup': 4, 'adminGroup': 0x40000000}
    names = {}

    def nm(text):
        return names.setdefault(text, len(names) + 1)
    with env.app.app_context():
        pks = {role: m.User.get(username=USERS[role][0]).pk for role in USERS}
    passwords = {pks[role]: USERS[role][2] for role in USERS}      # what check_password accepts now
    actors = {role: Actor(env, role) for role in ('admin', 'user', 'media')}

    def row(pk):
        with env.app.app_context():
            u = m.User.get(pk=pk)
            return None if u is None else (u.username, bool(u.must_change), u.email, int(u.groups_mask))

    def password_of(pk, candidates):
        with env.app.app_context():
            u = m.User.get(pk=pk)
            for cnd in candidates:
                if cnd is not None and u.check_password(cnd):
                    return cnd
        return None
    reqs, meta = [], []
    for trial in range(40 if ctx.quick() else 600):
        caller = rng.choice(['admin', 'user', 'media', 'user'])
        target_role = rng.choice(['admin', 'user', 'media'])
        target = pks[target_role] if rng.random() < 0.92 else 987654
        before = row(target)
        old_pw = passwords.get(target)
        new_pw = rng.choice([None, '', 'Fresh#%d' % trial, 'Fresh#%d' % trial])
        confirm = new_pw if rng.random() < 0.7 else 'other%d' % trial
        flags = {g: rng.random() < 0.5 for g in GROUPS}
        body = {'username': rng.choice([before[0] if before else 'x', 'renamed%d' % trial]), 'mustChange': rng.random() < 0.5,
                'email': 'mail%d@example.test' % trial, 'password': new_pw, 'confirmPassword': confirm if new_pw else ''}
        body.update(flags)
        if rng.random() < 0.5:
            # a primary key inside the body must not matter: the account is named by the URL
            body['pk'] = rng.choice([target, pks[caller], pks['admin']])
        a = actors[caller]
        r = a.c.post('/api/users/%d' % target, json=body, headers=a.headers())
        ctx.count('http:edit-user')
        inp = {'caller': caller, 'target': target_role if before else 'unknown', 'body': body}
        if r.status_code >= 500:
            ctx.violation('POST /api/users/%d by %s answers %d' % (target, caller, r.status_code), inp)
        after = row(target)
        if before is None:
            if r.status_code != 404 and r.status_code < 500:
                ctx.violation('POST /api/users/<unknown> by %s answers %d' % (caller, r.status_code), inp)
            continue
        now_pw = password_of(target, [old_pw, new_pw or None])
        if now_pw is None:
            ctx.violation('after POST /api/users/%d by %s neither the old nor the requested password is accepted' % (target, caller), inp)
            now_pw = old_pw
        is_admin_caller = caller == 'admin'
        reqs.append([9, [nm(before[0]), int(before[1]), nm(before[2]), nm('pw:' + old_pw), before[3]],
                     [int(is_admin_caller), pks[caller], target, nm(body['username']), int(body['mustChange']), nm(body['email']),
                      [nm('pw:' + new_pw)] if new_pw else [], nm('pw:' + (confirm if new_pw else '')),
                      sum(v for g, v in GROUPS.items() if flags[g])]])
        meta.append((inp, before, after, nm('pw:' + old_pw), nm('pw:' + now_pw), r.status_code))
        ctx.dist('edit-user:%s->%s' % (caller, 'self' if pks[caller] == target else 'other'))
        # put the account back (renaming the caller would invalidate its own token)
        with env.app.app_context():
            u = m.User.get(pk=target)
            u.username, u.must_change, u.email, u.groups_mask = before
            u.set_password(old_pw)
            m.db.session.commit()
    res = common.run_model_parallel(15, reqs)
    ok = True
    for (inp, before, after, old_id, now_id, status), mo in zip(meta, res):
        ctx.count('corr:edit-user')
        if mo[0] == 2:
            want = (mo[1], bool(mo[2]), mo[3], mo[5], mo[4])
        else:
            want = (names[before[0]], before[1], names[before[2]], before[3], old_id)
        got = (names.get(after[0]), after[1], names.get(after[2]), after[3], now_id)
        if want != got:
            ok = False
            ctx.disagree('edit_user', inp, {'outcome': mo[0], 'row': list(want)}, {'status': status, 'row': list(got)})
        elif mo[0] == 2 and (after != before or now_id != old_id):
            ctx.nontriv(('edit-user', inp['caller'], inp['target'], tuple(sorted((k, str(v)) for k, v in inp['body'].items()))))
    ctx.oblige('correspondence:EditUser.post-vs-UserModel.edit_user', ok and bool(reqs))


def user_history_suite(ctx, env):
    """histories of PUT /api/users (add) and POST /api/users/<pk> (edit) by an administrator, and self-service edits by an
    ordinary account, with names and addresses drawn from a small pool so that they collide: the whole user table after every
    request against Model/UsersModel.ustep (C15_users_unique: names, addresses and keys stay unique)"""
    from ..appenv import USERS
    rng = ctx.rng
    m = env.models
    GROUPS = {'userGroup': 2, 'mediaGroup': 4, 'adminGroup': 0x40000000}
    names = {}

    def nm(text):
        return names.setdefault(text, len(names) + 1)
    admin = Actor(env, 'admin')
    plain = Actor(env, 'user')
    with env.app.app_context():
        guest_pk = m.User.get_guest_user().pk
        admin_pk = m.User.get(username=USERS['admin'][0]).pk
        user_pk = m.User.get(username=USERS['user'][0]).pk
    passwords = {}
    with env.app.app_context():
        for u in m.User.all():
            for role in USERS:
                if u.username == USERS[role][0]:
                    passwords[u.pk] = USERS[role][2]

    def table():
        rows = []
        with env.app.app_context():
            for u in m.User.all():
                rows.append((u.pk, u.username, bool(u.must_change), u.email, int(u.groups_mask)))
        return sorted(rows)

    def model_table(rows):
        return [[pk, nm('n:' + n), int(mc), nm('e:' + (e or '')), nm('pw:' + passwords.get(pk, '?%d' % pk)), g] for pk, n, mc, e, g in rows]
    pool_n = ['alice', 'bob', 'carol', USERS['user'][0], USERS['media'][0]]
    pool_e = ['a@x.test', 'b@x.test', 'c@x.test', USERS['user'][1], USERS['media'][1]]
    histories = 4 if ctx.quick() else 40
    reqs, meta = [], []
    for h in range(histories):
        start = table()
        ops, trace, log = [], [], []
        init = model_table(start)
        for step in range(rng.randint(6, 12) if ctx.quick() else rng.randint(15, 40)):
            rows = table()
            flags = {g: rng.random() < 0.4 for g in GROUPS}
            gmask = sum(v for g, v in GROUPS.items() if flags[g])
            pw = rng.choice(['Pw#%d-%d' % (h, step), 'Pw#%d-%d' % (h, step), None])
            confirm = pw if rng.random() < 0.8 else 'zzz'
            kind = rng.choice(['add', 'add', 'edit', 'edit', 'edit', 'self'])
            if kind == 'add':
                body = {'username': rng.choice(pool_n), 'email': rng.choice(pool_e), 'password': pw or 'Fixed#1', 'confirmPassword': confirm or 'Fixed#1',
                        'mustChange': rng.random() < 0.5}
                body.update(flags)
                r = admin.c.put('/api/users', json=body, headers=admin.headers())
                log.append('PUT /api/users %s %s -> %d' % (body['username'], body['email'], r.status_code))
                now = table()
                new = [x for x in now if x[0] not in [y[0] for y in rows]]
                pk = new[0][0] if new else max([x[0] for x in now] + [0]) + 1
                if new:
                    passwords[pk] = body['password']
                ops.append([0, pk, nm('n:' + body['username']), nm('e:' + body['email']), nm('pw:' + body['password']), nm('pw:' + body['confirmPassword']),
                            gmask, int(body['mustChange'])])
            else:
                cands = [x for x in rows if x[0] not in (guest_pk, admin_pk)]
                if kind == 'self':
                    actor, caller, target = plain, user_pk, user_pk
                    tgt = [x for x in rows if x[0] == user_pk]
                    if not tgt:
                        continue
                    tgt = tgt[0]
                else:
                    if not cands:
                        continue
                    tgt = rng.choice(cands)
                    actor, caller, target = admin, admin_pk, tgt[0]
                new_name = rng.choice(pool_n + [tgt[1], tgt[1]])
                if target == user_pk:
                    new_name = tgt[1]             # renaming the account behind the second client would invalidate its token
                # an earlier step may have made the ordinary account an administrator: then its own edit is an administrator's
                caller_is_admin = kind != 'self' or (tgt[4] & 0x40000000) == 0x40000000
                body = {'username': new_name, 'email': rng.choice(pool_e + [tgt[3], tgt[3]]), 'mustChange': rng.random() < 0.5,
                        'password': pw, 'confirmPassword': confirm if pw else ''}
                body.update(flags)
                r = actor.c.post('/api/users/%d' % target, json=body, headers=actor.headers())
                log.append('POST /api/users/%d by %s name=%s email=%s pw=%s/%s -> %d' % (target, 'admin' if kind != 'self' else 'self', body['username'], body['email'],
                                                                                         pw, body['confirmPassword'], r.status_code))
                # which password does the account accept now?
                if pw:
                    with env.app.app_context():
                        u = m.User.get(pk=target)
                        if u is not None and u.check_password(pw):
                            passwords[target] = pw
                ops.append([1, int(caller_is_admin), caller, target, nm('n:' + body['username']), int(body['mustChange']), nm('e:' + body['email']),
                            [nm('pw:' + pw)] if pw else [], nm('pw:' + (confirm if pw else '')), gmask])
            ctx.count('http:user-history')
            if r.status_code >= 500:
                ctx.violation('user history %d, step %d: %s' % (h, step + 1, log[-1]), {'history': list(log)})
            trace.append(model_table(table()))
        reqs.append([10, init, ops])
        meta.append((h, log, trace))
        # remove the accounts this history created (the next one starts from the built-in three)
        with env.app.app_context():
            for u in m.User.all():
                if u.pk not in [x[0] for x in start]:
                    m.db.session.delete(u)
            m.db.session.flush()
            for pk, n, mc, e, g in start:          # two phases: the old names may be held by one another at the moment
                u = m.User.get(pk=pk)
                if u is not None:
                    u.username, u.email = 'tmp-%d' % pk, 'tmp-%d@x.test' % pk
            m.db.session.flush()
            for pk, n, mc, e, g in start:
                u = m.User.get(pk=pk)
                if u is not None:
                    u.username, u.must_change, u.email, u.groups_mask = n, mc, e, g
                    for role in USERS:
                        if n == USERS[role][0]:
                            u.set_password(USERS[role][2])
                            passwords[pk] = USERS[role][2]
            m.db.session.commit()
    res = common.run_model_parallel(15, reqs)
    ok = True
    for (h, log, trace), mo in zip(meta, res):
        for i, (got, want) in enumerate(zip(trace, mo)):
            ctx.count('corr:user-history-step')
            w = sorted([[r_[0], r_[1], int(r_[2]), r_[3], r_[4], r_[5]] for r_ in want])
            g = sorted(got)
            if w != g:
                ok = False
                ctx.disagree('user table', {'history': log[:i + 1]}, w, g)
                break
        else:
            if trace:
                ctx.nontriv(('user-history', h, tuple(log)))
    ctx.oblige('correspondence:PUT/POST /api/users-vs-UsersModel.ustep', ok and bool(reqs))


def run(ctx):
    import logging
    logging.disable(logging.CRITICAL)
    common.proof_step(ctx, gen=[gen_routes])
    ctx.trusted += ['translator harness/translators/routes_table.py (reads decorator closures of the live app; hand-kept map '
                    'handler class -> role from docs/users.md; conservative state-changing bit: every POST/PUT/DELETE, and GETs whose '
                    'source touches the session/store)',
                    'harness/shims/flask_login.py stands in for flask-login (session user id only); flask-jwt-extended is the real library',
                    'HMAC-SHA1 collision freedom is a hypothesis of C15_csrf_binding']
    ctx.assumptions += ['roles: anonymous < user < media < admin as in docs/users.md']
    positive_controls(ctx)
    env = build_env(ctx, 'sweep')
    state, n_req, reached, hits = access_sweep(ctx, env)
    ctx.oblige('http:access-sweep', True, '%d requests, %d reached a handler, state %s' % (n_req, reached, state))
    # validate the translator's state-changing bit against what actually changed state
    rows = {(r[0], r[2]): r for r in getattr(ctx, '_routes_rows', [])}
    bad = [k for k in hits if k in rows and not rows[k][5]]
    ctx.oblige('translator:state-changing-bit-covers-observed-changes', not bad, 'rows that changed state but are marked read-only: %r' % bad)
    env.close()
    env2 = build_env(ctx, 'csrf')
    csrf_suite(ctx, env2)
    env2.close()
    env3 = build_env(ctx, 'users')
    user_edit_suite(ctx, env3)
    env3.close()
    env4 = build_env(ctx, 'badtoken')
    bad_token_suite(ctx, env4)
    env4.close()
    env5 = build_env(ctx, 'userhist')
    user_history_suite(ctx, env5)
    env5.close()


def replay(ctx, payload):
    bad = 0
    for v in payload.get('violations', []):
        inp = v['input']
        if 'url' in inp:
            env = build_env(ctx, 'replay')
            actor = Actor(env, inp['role'])
            before = fingerprint(env)
            toks = dict(actor.csrf)
            toks.update(actor.harvest(inp['url'].split('?')[0]))
            changed = []
            for kind, body, tok in ([('none', None, t) for t in toks.values()] if inp['method'] == 'DELETE' else payloads(inp['endpoint'], {}, toks)):
                u = inp['url'].split('?')[0]
                if tok and inp['method'] == 'DELETE':
                    u += '?csrf_token=' + tok
                kw = {'headers': actor.headers(ajax=(kind != 'form'))}
                r = actor.c.open(u, method=inp['method'], **({'json': body} if kind == 'json' else {'data': body} if kind == 'form' else {}), **kw)
                changed = diff_tables(before, fingerprint(env))
                if changed:
                    break
            print('replay: %s %s as %s -> changed %r' % (inp['method'], inp['url'], inp['role'], changed))
            bad += 1 if changed else 0
            env.close()
        else:
            print('replay: input', json.dumps(inp)[:300])
            bad += 1
    return 1 if bad else 0
