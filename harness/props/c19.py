"""C19 - ISO-8601 durations / date-times / tick conversions.

Theorems: coq/Props/C19.v.  Correspondence: toIsoDuration, from_isodatetime, to_iso_datetime,
timecode_to_timedelta, timedelta_to_timecode, multiply_timedelta vs Model/IsoTimeModel.v.
Oracle: the property text (render->parse within 0.5 ms, xs:duration grammar, fields < 60,
date-time identity, tick monotonicity and one-tick inversion) computed with Fractions.
"""
import datetime
import re
from fractions import Fraction

from .. import common

RULE = ('durations: microsecond values us = whole*1e6 + f for whole in {0,59,3599,86399,1e7,...} and f over a stride of '
        'all 1e6 fractions (quick: stride + every f >= 999000 + every tie f%1000==500 sample; thorough: ALL 1e6 '
        'fractions x 5 whole parts) given as timedelta, float and str; parse side: grammar-generated and mutated '
        'duration/date-time strings; date-times: valid field tuples at calendar boundaries x offsets; ticks: random '
        '(tc < 2^64, ts <= 1e7) + boundary timescales. Non-trivial: fraction != 0 (durations), microsecond or offset '
        '!= 0 (date-times), ts not dividing 1e6 (ticks); distinct by input value')

XS_DUR = re.compile(r'^PT(?:(\d+)H)?(?:(\d+)M)?(\d+)(?:\.(\d+))?S$')


def codes(s):
    return [ord(c) for c in s]


def text(cs):
    return ''.join(chr(c) for c in cs)


def dur_oracle(us, out):
    """property text for one rendered duration"""
    m = XS_DUR.match(out)
    if not m:
        return 'not an xs:duration of the PT..H..M..S form: %r' % out
    h, mi, s, fr = m.groups()
    if int(s) >= 60:
        return 'seconds field %s >= 60 in %r' % (s, out)
    if mi is not None and int(mi) >= 60:
        return 'minutes field %s >= 60 in %r' % (mi, out)
    if mi is None and h is not None:
        return 'hours without minutes in %r' % out
    val = Fraction(int(h or 0) * 3600 + int(mi or 0) * 60 + int(s)) + (Fraction(int(fr), 10 ** len(fr)) if fr else 0)
    if abs(val * 1000000 - us) > 500:
        return '%r encodes %s us, value is %d us (off by more than 0.5 ms)' % (out, val * 1000000, us)
    return None


def run(ctx):
    from dashlive.utils import date_time as DT
    from dashlive.utils.timezone import UTC, FixedOffsetTimeZone
    common.proof_step(ctx)
    ctx.assumptions += [
        'float arithmetic in toIsoDuration / from_isodatetime modelled as exact rational arithmetic + documented rounding '
        '(exact below 2^33 s); at ties f mod 1000 = 500 either rounding is accepted (relational model)',
        'durations given as float/str are microsecond-quantised in the correspondence; other floats are only checked by the oracle',
        're (regular expressions), datetime.isoformat and datetime() validation are library behaviour transcribed in the model']
    rng = ctx.rng
    quick = ctx.quick()

    # ---------------- durations: render ----------------
    wholes = [0, 59, 3599, 86399, 10 ** 7]
    fracs = set()
    if quick:
        fracs.update(range(0, 1000000, 997))
        fracs.update(range(999000, 1000000))
        fracs.update(range(500, 1000000, 13000))
        fracs.update([1, 499, 500, 501, 999, 1000, 999499, 999500, 999501, 999999])
    else:
        fracs.update(range(1000000))
    fracs = sorted(fracs)
    cases = []
    for w in wholes:
        for f in fracs:
            cases.append(w * 1000000 + f)
    for _ in range(2000 if quick else 50000):
        cases.append(rng.randrange(0, 86400 * 365 * 50) * 1000000 + rng.choice([0, rng.randrange(1000000)]))
    impl = []
    forms = ['td', 'float', 'str']
    for i, us in enumerate(cases):
        form = forms[i % 3] if quick else 'td'
        try:
            if form == 'td':
                out = DT.toIsoDuration(datetime.timedelta(microseconds=us))
            elif form == 'float':
                out = DT.toIsoDuration(us / 1e6)
            else:
                out = DT.toIsoDuration('%d.%06d' % (us // 1000000, us % 1000000))
        except Exception as e:   # noqa
            out = 'CRASH:' + type(e).__name__
        impl.append(out)
    m0 = common.run_model_parallel(19, [[0, us, 0] for us in cases], jobs=16)
    ties = [(i, us) for i, us in enumerate(cases) if us % 1000 == 500]
    m1 = dict(zip([i for i, _ in ties], common.run_model_parallel(19, [[0, us, 1] for _, us in ties], jobs=16)))
    ok = True
    for i, (us, out) in enumerate(zip(cases, impl)):
        ctx.count('fmt_duration')
        allowed = {text(m0[i])}
        if i in m1:
            allowed.add(text(m1[i]))
        if out not in allowed:
            ok = False
            ctx.disagree('toIsoDuration', {'us': us}, sorted(allowed), out)
        why = dur_oracle(us, out)
        if why:
            ctx.violation(why, {'fn': 'toIsoDuration', 'microseconds': us})
        else:
            # render -> parse through the implementation's own parser
            try:
                back = DT.from_isodatetime(out)
                bus = (back.days * 86400 + back.seconds) * 1000000 + back.microseconds
                if abs(bus - us) > 500:
                    ctx.violation('from_isodatetime(toIsoDuration(x)) = %d us for x = %d us' % (bus, us),
                                  {'fn': 'duration-roundtrip', 'microseconds': us})
            except Exception as e:   # noqa
                ctx.violation('from_isodatetime(%r) raised %s' % (out, type(e).__name__), {'fn': 'duration-roundtrip', 'microseconds': us})
        if us % 1000000:
            ctx.nontriv(('d', us))
        if us % 1000000 >= 999500:
            ctx.dist('duration-carry')
        if us % 1000 == 500:
            ctx.dist('duration-tie')
    ctx.oblige('correspondence:toIsoDuration-vs-fmt_duration', ok)
    ctx.sample({'us': 59999600, 'impl': DT.toIsoDuration(datetime.timedelta(microseconds=59999600))})

    # ---------------- durations: parse ----------------
    def gen_dur_text():
        r = rng.random()
        if r < 0.5:
            us = rng.choice(cases)
            return DT.toIsoDuration(datetime.timedelta(microseconds=us))
        parts = ['P']
        if rng.random() < 0.2:
            parts.append('%dY' % rng.randint(0, 3))
        if rng.random() < 0.2:
            parts.append('%dM' % rng.randint(0, 13))
        if rng.random() < 0.3:
            parts.append('%dD' % rng.randint(0, 40))
        parts.append('T')
        if rng.random() < 0.5:
            parts.append('%d%s' % (rng.randint(0, 30), rng.choice('HH:')))
        if rng.random() < 0.5:
            parts.append('%d%s' % (rng.randint(0, 70), rng.choice('MM:')))
        if rng.random() < 0.8:
            parts.append(rng.choice(['%d' % rng.randint(0, 99), '%d.%s' % (rng.randint(0, 99), str(rng.randint(0, 999999)).zfill(rng.randint(1, 6))),
                                     '.5', '5.', '1.2.3', '.', '0.1234567']))
            if rng.random() < 0.8:
                parts.append('S')
        s = ''.join(parts)
        if rng.random() < 0.25:
            k = rng.randrange(len(s) + 1)
            s = s[:k] + rng.choice(['', 'T', 'P', 'x', ' ', '-', '1', ':', 'S', '.']) + s[k + rng.choice([0, 1]):]
        return s
    texts = [gen_dur_text() for _ in range(4000 if quick else 60000)]
    texts = [t for t in texts if t and t[0] == 'P']
    impl = []
    for t in texts:
        try:
            v = DT.from_isodatetime(t)
            impl.append([2, (v.days * 86400 + v.seconds) * 1000000 + v.microseconds])
        except ValueError as e:
            impl.append([1] if 'could not convert' in str(e) else [0])
        except Exception as e:   # noqa
            impl.append(['CRASH', type(e).__name__])
    model = common.run_model_parallel(19, [[1, codes(t)] for t in texts])
    ok = True
    for t, io_, mo in zip(texts, impl, model):
        ctx.count('parse_duration')
        ctx.dist('parse_duration-outcome:%s' % io_[0])
        if mo[0] == 2 and mo[2] == 0:
            ctx.dist('parse_duration-inexact-skipped')
            continue
        if io_ != mo[:2]:
            ok = False
            ctx.disagree('from_isodatetime(duration)', t, mo, io_)
        if io_[0] == 'CRASH':
            ctx.violation('from_isodatetime(%r) raised %s' % (t, io_[1]), {'fn': 'from_isodatetime', 'text': t})
    ctx.oblige('correspondence:from_isodatetime(duration)-vs-parse_duration', ok)

    # ---------------- date-times ----------------
    def gen_dt():
        y = rng.choice([1, 1904, 1970, 1999, 2000, 2023, 2024, 2100, 9999, rng.randint(1, 9999)])
        mo = rng.randint(1, 12)
        dim = [31, 29 if (y % 4 == 0 and y % 100 != 0) or y % 400 == 0 else 28, 31, 30, 31, 30, 31, 31, 30, 31, 30, 31][mo - 1]
        d = rng.choice([1, dim, rng.randint(1, dim)])
        h = rng.choice([0, 23, rng.randint(0, 23)])
        mi = rng.choice([0, 59, rng.randint(0, 59)])
        s = rng.choice([0, 59, rng.randint(0, 59)])
        us = rng.choice([0, 1, 999999, 500000, 100, rng.randrange(1000000)])
        off = rng.choice([None, 0, 90, -705, 840, -1439, 1439, 1, -1, rng.randint(-1439, 1439)])
        return (y, mo, d, h, mi, s, us, off)
    dts = [gen_dt() for _ in range(3000 if quick else 40000)]
    if not quick:
        for us in range(0, 1000000, 7):
            dts.append((2024, 3, 5, 12, 0, 7, us, rng.choice([0, 90, -705, 840])))
    else:
        for us in range(0, 1000000, 331):
            dts.append((2024, 3, 5, 12, 0, 7, us, rng.choice([0, 90, -705, 840])))

    def mk(t):
        y, mo, d, h, mi, s, us, off = t
        tz = None if off is None else (UTC() if off == 0 else FixedOffsetTimeZone('%s%02d:%02d' % ('-' if off < 0 else '+', abs(off) // 60, abs(off) % 60)))
        return datetime.datetime(y, mo, d, h, mi, s, us, tzinfo=tz)
    impl_txt = []
    for t in dts:
        try:
            impl_txt.append(DT.to_iso_datetime(mk(t)))
        except Exception as e:   # noqa
            impl_txt.append('CRASH:' + type(e).__name__)
    model = common.run_model_parallel(19, [[2, list(t[:7]) + [[] if t[7] is None else [t[7]]]] for t in dts])
    ok = True
    for t, it, mo in zip(dts, impl_txt, model):
        ctx.count('fmt_datetime')
        if it != text(mo):
            ok = False
            ctx.disagree('to_iso_datetime', list(t), text(mo), it)
        # property: parse back is the same instant with the same offset
        try:
            back = DT.from_isodatetime(it)
            orig = mk(t)
            o1 = orig.utcoffset() or datetime.timedelta(0)
            o2 = back.utcoffset() if back.tzinfo is not None else None
            if (back.replace(tzinfo=None) != orig.replace(tzinfo=None)) or o2 != o1:
                ctx.violation('from_isodatetime(to_iso_datetime(d)) = %s for d = %s' % (back.isoformat(), orig.isoformat()),
                              {'fn': 'datetime-roundtrip', 'fields': list(t)})
        except Exception as e:   # noqa
            ctx.violation('from_isodatetime(%r) raised %s' % (it, type(e).__name__), {'fn': 'datetime-roundtrip', 'fields': list(t)})
        if t[6] or t[7]:
            ctx.nontriv(('t', t))
    ctx.oblige('correspondence:to_iso_datetime-vs-fmt_datetime', ok)

    def gen_dt_text():
        s = DT.to_iso_datetime(mk(gen_dt()))
        r = rng.random()
        if r < 0.5:
            return s
        if r < 0.6:
            return s.replace('Z', '')
        if r < 0.75:
            k = rng.randrange(len(s))
            return s[:k] + rng.choice(['9', '0', '', ':', '-', '.', 'T', 'Z', '+', '13', '61']) + s[k + 1:]
        if r < 0.85:
            return re.sub(r'T(\d+)', 'T%d' % rng.randint(0, 30), s)
        if r < 0.95:
            return re.sub(r':(\d+)(\.\d+)?(Z|[+-])', lambda m: ':%s%s' % (rng.choice(['5', '59.9999999', '60', '7.', '.5', '1.2.3', '05.1234567']), m.group(3)), s)
        return s + rng.choice(['Z', '+1:1', '+01:30', '-24:00', '+23:59', 'x'])
    texts = [gen_dt_text() for _ in range(4000 if quick else 60000)]
    texts = [t for t in texts if t and t[0] != 'P' and 'T' in t]
    impl = []
    for t in texts:
        try:
            v = DT.from_isodatetime(t)
            off = v.utcoffset() if v.tzinfo is not None else None
            offm = None
            if off is not None:
                offm = (off.days * 86400 + off.seconds) // 60
            impl.append([2, [v.year, v.month, v.day, v.hour, v.minute, v.second, v.microsecond, [] if offm is None else [offm]]])
        except ValueError as e:
            impl.append([0] if str(e) == t else [1])
        except OverflowError:
            # a field too large for a C int: rejected, but not as ValueError (noted for C16)
            ctx.dist('parse_datetime-OverflowError')
            impl.append([1])
        except Exception as e:   # noqa
            impl.append(['CRASH', type(e).__name__])
    model = common.run_model_parallel(19, [[3, codes(t)] for t in texts])
    ok = True
    for t, io_, mo in zip(texts, impl, model):
        ctx.count('parse_datetime')
        ctx.dist('parse_datetime-outcome:%s' % io_[0])
        if mo[0] == 2 and mo[2] == 0:
            ctx.dist('parse_datetime-inexact-skipped')
            continue
        if mo[0] == 2 and mo[1][7] and abs(mo[1][7][0]) >= 1440:
            # utcoffset() outside +-24h raises only when it is queried: outside the model
            ctx.dist('parse_datetime-offset-out-of-range-skipped')
            continue
        if io_ != mo[:2]:
            ok = False
            ctx.disagree('from_isodatetime(datetime)', t, mo, io_)
        if io_[0] == 'CRASH':
            ctx.violation('from_isodatetime(%r) raised %s' % (t, io_[1]), {'fn': 'from_isodatetime', 'text': t})
    ctx.oblige('correspondence:from_isodatetime(datetime)-vs-parse_datetime', ok)

    # ---------------- ticks ----------------
    tcs = []
    for _ in range(6000 if quick else 200000):
        ts = rng.choice([1, 2, 3, 240, 1000, 44100, 48000, 90000, 999999, 1000000, 1000001, 10000000, rng.randint(1, 10 ** 7)])
        tc = rng.choice([0, 1, 19, rng.randrange(2 ** 20), rng.randrange(2 ** 33), rng.randrange(2 ** 64)])
        tc = min(tc, ts * 3 * 10 ** 9)     # timedelta itself overflows beyond ~2.7 million years
        tcs.append((tc, ts))
    tcs += [(19, 10000000)]
    r4 = common.run_model_parallel(19, [[4, tc, ts] for tc, ts in tcs])
    ok = True
    back_req = []
    for (tc, ts), mo in zip(tcs, r4):
        ctx.count('timecode_to_timedelta')
        td = DT.timecode_to_timedelta(tc, ts)
        us = (td.days * 86400 + td.seconds) * 1000000 + td.microseconds
        if us != mo:
            ok = False
            ctx.disagree('timecode_to_timedelta', [tc, ts], mo, us)
        back = DT.timedelta_to_timecode(td, ts)
        back_req.append((us, ts, back, tc))
        if 1000000 % ts:
            ctx.nontriv(('tc', tc, ts))
    r5 = common.run_model_parallel(19, [[5, us, ts] for us, ts, _, _ in back_req])
    for (us, ts, back, tc), mo in zip(back_req, r5):
        ctx.count('timedelta_to_timecode')
        if back != mo:
            ok = False
            ctx.disagree('timedelta_to_timecode', [us, ts], mo, back)
        if not (tc - 1 <= back <= tc):
            ctx.violation('tick %d at timescale %d comes back as %d (more than one tick)' % (tc, ts, back),
                          {'fn': 'tick-roundtrip', 'tc': tc, 'ts': ts},
                          key='fine-timescale' if ts > 1000000 else None)
    # monotonicity on sorted neighbours
    for ts in [1, 3, 240, 44100, 90000, 999999, 10000000]:
        xs = sorted(rng.randrange(2 ** 40) for _ in range(200))
        xs += [x + 1 for x in xs[:50]]
        xs.sort()
        outs = [DT.timecode_to_timedelta(x, ts) for x in xs]
        for a, b in zip(outs, outs[1:]):
            ctx.count('monotone')
            if a > b:
                ctx.violation('timecode_to_timedelta not monotone at timescale %d' % ts, {'fn': 'monotone', 'ts': ts})
        ys = [datetime.timedelta(microseconds=x) for x in xs]
        outs = [DT.timedelta_to_timecode(y, ts) for y in ys]
        for a, b in zip(outs, outs[1:]):
            ctx.count('monotone')
            if a > b:
                ctx.violation('timedelta_to_timecode not monotone at timescale %d' % ts, {'fn': 'monotone', 'ts': ts})
    # multiply_timedelta
    mt = [(rng.randrange(-10 ** 13, 10 ** 13), rng.randrange(0, 10 ** 7)) for _ in range(2000)]
    r6 = common.run_model_parallel(19, [[6, us, n] for us, n in mt])
    for (us, n), mo in zip(mt, r6):
        ctx.count('multiply_timedelta')
        v = DT.multiply_timedelta(datetime.timedelta(microseconds=us), n)
        if v != mo:
            ok = False
            ctx.disagree('multiply_timedelta', [us, n], mo, v)
    ctx.oblige('correspondence:tick-conversions', ok)
    ctx.sample({'tc': 19, 'ts': 10000000, 'back': DT.timedelta_to_timecode(DT.timecode_to_timedelta(19, 10000000), 10000000)})


def replay(ctx, payload):
    import datetime as _d
    from dashlive.utils import date_time as DT
    bad = 0
    for v in payload.get('violations', []):
        i = v['input']
        if i.get('fn') in ('toIsoDuration', 'duration-roundtrip'):
            out = DT.toIsoDuration(_d.timedelta(microseconds=i['microseconds']))
            why = dur_oracle(i['microseconds'], out)
            print('replay', i, '->', out, why or 'holds now')
            bad += 1 if why else 0
        else:
            print('replay input:', i, v['what'])
    return 1 if bad else 0
